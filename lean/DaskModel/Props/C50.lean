import DaskModel.Model.TextBlocks
import DaskModel.Lemmas.TextSeek
import DaskModel.Lemmas.TextOffsets
import DaskModel.Lemmas.TextSplit
import DaskModel.Lemmas.TextLines
import DaskModel.Lemmas.Round53
import DaskModel.Lemmas.TextSeekChunked
import DaskModel.Lemmas.TextUtf8
/-! # C50 — block-wise text reading reproduces the file exactly (theorems)

Statement: for any file contents, delimiter and blocksize, the blocks from `read_bytes` concatenate to
the file contents, and every block boundary falls just after a delimiter. `read_text` returns the same
lines for every blocksize (including none) … Those lines equal the file split after each delimiter,
with no empty trailing element.

Model: `DaskModel/Model/TextBlocks.lean`; helper lemmas: `DaskModel/Lemmas/Text*.lean`. -/
namespace Dask.C50
open Dask.TextBlocks

/-! ## 1. offsets and lengths (`read_bytes`) -/

/-- `offsets_cover`: for every non-empty file and positive blocksize the planned offsets start at 0 and
    strictly increase, the lengths are positive, as many as the offsets, and sum to the file size.
    Stated for any double arithmetic that is monotone, exact on integers ≤ 2^53, exact when doubling and
    never rounds a quotient below an integer lower bound (`GoodArith`); file size < 2^53. -/
theorem offsets_cover (A : FArith) (hA : GoodArith A) (size bs : Nat) (hs : 0 < size) (hb : 0 < bs)
    (hsz : size < 2 ^ 53) :
    ∃ offs lens, plan A size bs = some (offs, lens) ∧ offs.head? = some 0 ∧ offs.Pairwise (· < ·) ∧
      (∀ o ∈ offs, o < size) ∧ lens.length = offs.length ∧ (∀ l ∈ lens, 0 < l) ∧ lens.sum = size := by
  obtain ⟨offs, ho, h0, hpw, hlt⟩ := offsets_planOK A hA size bs hs hb hsz
  refine ⟨offs, lengthsOf size offs, by simp [plan, ho], h0, hpw, hlt, lengthsOf_length _ _,
    lengthsOf_pos size offs hpw hlt, ?_⟩
  cases offs with
  | nil => simp at h0
  | cons o rest =>
    have : o = 0 := by simpa using h0
    subst this
    simpa using lengthsOf_sum size 0 rest hpw hlt

/-- the int branch (`size % blocksize = 0` or `size ≤ blocksize`) needs no assumption on the arithmetic
    and no bound on the file size -/
theorem offsets_cover_int (A : FArith) (size bs : Nat) (hs : 0 < size) (hb : 0 < bs)
    (hint : size % bs = 0 ∨ size ≤ bs) :
    ∃ offs, offsets A size bs = some offs ∧ PlanOK size offs := by
  unfold offsets
  simp only [show size ≠ 0 by omega, show bs ≠ 0 by omega, if_false]
  have : ¬ (size % bs ≠ 0 ∧ bs < size) := by omega
  simp only [this, if_false]
  obtain ⟨h1, h2⟩ := loopInt_ok size bs hb (size + 1) 0
  refine ⟨_, rfl, rfl, h1, ?_⟩
  intro o ho
  rcases List.mem_cons.mp ho with rfl | ho
  · exact hs
  · exact (h2 o ho).2

/-- …and in the int branch the last block is shorter than two block sizes (the loop ended because its
    condition failed, not because the model's fuel ran out) -/
theorem offsets_int_last (A : FArith) (size bs : Nat) (hs : 0 < size) (hb : 0 < bs)
    (hint : size % bs = 0 ∨ size ≤ bs) :
    ∀ offs x, offsets A size bs = some offs → offs.getLast? = some x → size < x + 2 * bs := by
  intro offs x ho hx
  unfold offsets at ho
  simp only [show size ≠ 0 by omega, show bs ≠ 0 by omega, if_false] at ho
  have : ¬ (size % bs ≠ 0 ∧ bs < size) := by omega
  simp only [this, if_false, Option.some.injEq] at ho
  subst ho
  refine loopInt_last size bs hb (size + 1) 0 ?_ x hx
  have : size + 1 ≤ (size + 1) * bs := Nat.le_mul_of_pos_right _ hb
  omega

example : plan ieee 39 4 = some ([0, 4, 8, 13, 17, 21, 25, 30, 34], [4, 4, 5, 4, 4, 4, 5, 4, 5]) := by decide +kernel
example : plan ieee 10 5 = some ([0, 5], [5, 5]) := by decide +kernel

/-! ## 2. the blocks concatenate to the file; boundaries fall just after a delimiter -/

/-- `blocks_concat_file`: for every file content, every non-empty delimiter and every blocksize
    (including none) the blocks `read_bytes` produces concatenate to the file content. -/
theorem blocks_concat_file (A : FArith) (hA : GoodArith A) (data d : List Nat) (hd : d ≠ [])
    (bs : Option Nat) (hb : ∀ b, bs = some b → 0 < b) (hsz : data.length < 2 ^ 53) :
    ∃ blocks, fileBlocks A data d bs = some blocks ∧ blocks.flatten = data := by
  cases bs with
  | none => exact ⟨[data], by simp [fileBlocks, readBlockFromFile], by simp⟩
  | some b =>
    have hb' := hb b rfl
    by_cases hs : data.length = 0
    · have : data = [] := List.length_eq_zero_iff.mp hs
      subst this
      exact ⟨[], by simp [fileBlocks, plan, offsets, lengthsOf], rfl⟩
    · obtain ⟨offs, ho, h0, hpw, hlt⟩ := offsets_planOK A hA data.length b (by omega) hb' hsz
      refine ⟨blocksOf data d offs, by simp [fileBlocks, plan, ho, blocksOf], ?_⟩
      cases offs with
      | nil => simp at h0
      | cons o rest =>
        have : o = 0 := by simpa using h0
        subst this
        rw [blocksOf_flatten hd rest 0 hpw hlt, seekPos_zero]; rfl

/-- without a delimiter (`delimiter=None` / `b''`) the blocks are the plain slices `[offset, offset+length)`
    and still concatenate to the file -/
theorem blocks_concat_file_nodelim (A : FArith) (hA : GoodArith A) (data : List Nat) (b : Nat) (hb : 0 < b)
    (hsz : data.length < 2 ^ 53) :
    ∃ blocks, fileBlocks A data [] (some b) = some blocks ∧ blocks.flatten = data := by
  by_cases hs : data.length = 0
  · have : data = [] := List.length_eq_zero_iff.mp hs
    subst this
    exact ⟨[], by simp [fileBlocks, plan, offsets, lengthsOf], rfl⟩
  · obtain ⟨offs, ho, h0, hpw, hlt⟩ := offsets_planOK A hA data.length b (by omega) hb hsz
    refine ⟨(offs.zip (lengthsOf data.length offs)).map fun ol => readBlockFromFile data [] ol.1 (some ol.2),
      by simp [fileBlocks, plan, ho], ?_⟩
    have key : ∀ (o : Nat) (rest : List Nat), (o :: rest).Pairwise (· < ·) → (∀ x ∈ o :: rest, x < data.length) →
        (((o :: rest).zip (lengthsOf data.length (o :: rest))).map fun ol =>
          readBlockFromFile data [] ol.1 (some ol.2)).flatten = data.drop o := by
      intro o rest
      induction rest generalizing o with
      | nil =>
        intro _ hl
        have := hl o (by simp)
        simp only [lengthsOf, List.zip_cons_cons, List.zip_nil_right, List.map_cons, List.map_nil, List.flatten_cons,
          List.flatten_nil, List.append_nil, readBlockFromFile, Option.isNone_some, Bool.false_eq_true, and_false,
          if_false, readBlock, readBlockWith, List.isEmpty_nil, if_true, readAt]
        apply List.take_of_length_le
        simp only [List.length_drop]; omega
      | cons o' rest ih =>
        intro hp hl
        have hoo' : o < o' := (List.pairwise_cons.mp hp).1 o' (by simp)
        have := ih o' (List.pairwise_cons.mp hp).2 (fun x hx => hl x (List.mem_cons_of_mem _ hx))
        simp only [lengthsOf, List.zip_cons_cons, List.map_cons, List.flatten_cons] at this ⊢
        rw [this]
        simp only [readBlockFromFile, Option.isNone_some, Bool.false_eq_true, and_false, if_false, readBlock,
          readBlockWith, List.isEmpty_nil, if_true, readAt]
        exact take_sub_append_drop data (Nat.le_of_lt hoo')
    cases offs with
    | nil => simp at h0
    | cons o rest =>
      have : o = 0 := by simpa using h0
      subst this
      rw [key 0 rest hpw hlt]; rfl

/-- `boundary_after_delimiter`: the position `seek_delimiter` moves to from an offset `pos > 0` is either
    the end of the file or directly after the first occurrence of the delimiter starting at or after
    `pos` — so the bytes just before every interior block boundary are the delimiter. -/
theorem boundary_after_delimiter (d data : List Nat) (pos : Nat) (h0 : 0 < pos) (hp : pos ≤ data.length)
    (hin : seekPos d data pos < data.length) : d <:+ data.take (seekPos d data pos) := by
  rcases seekPos_spec (d := d) h0 hp with ⟨q, _, hq, hpre, _⟩ | ⟨hlen, _⟩
  · rw [hq]
    obtain ⟨r, hr⟩ := hpre
    have hql : q + d.length ≤ data.length := by
      have := congrArg List.length hr
      simp only [List.length_append, List.length_drop] at this; omega
    refine ⟨data.take q, ?_⟩
    have h1 : data.take (q + d.length) = data.take q ++ (data.drop q).take d.length := by
      rw [List.take_add]
    rw [h1, ← hr]; simp
  · omega

/-- each block is the slice of the file between two consecutive boundaries -/
theorem block_eq_slice (data d : List Nat) (hd : d ≠ []) (offs : List Nat) (hpw : offs.Pairwise (· < ·))
    (hlt : ∀ o ∈ offs, o < data.length) (i : Nat) (o : Nat) (hi : offs[i]? = some o) :
    (blocksOf data d offs)[i]? =
      some ((data.drop (seekPos d data o)).take
        (seekPos d data ((offs[i + 1]?).getD data.length) - seekPos d data o)) := by
  induction offs generalizing i with
  | nil => simp at hi
  | cons a rest ih =>
    cases rest with
    | nil =>
      cases i with
      | zero =>
        have : a = o := by simpa using hi
        subst this
        have ha := hlt a (by simp)
        simp only [blocksOf, lengthsOf, List.zip_cons_cons, List.zip_nil_right, List.map_cons, List.map_nil,
          List.getElem?_cons_zero, Option.some.injEq]
        rw [readBlockFromFile_some hd (by omega)]
        simp [show a + (data.length - a) = data.length by omega]
      | succ i => simp at hi
    | cons a' rest =>
      have haa' : a < a' := (List.pairwise_cons.mp hpw).1 a' (by simp)
      have ha' : a' < data.length := hlt a' (by simp)
      rw [blocksOf_cons_cons]
      cases i with
      | zero =>
        have : a = o := by simpa using hi
        subst this
        simp only [List.getElem?_cons_zero, Option.some.injEq]
        rw [readBlockFromFile_some hd (by omega)]
        simp [show a + (a' - a) = a' by omega]
      | succ i =>
        simp only [List.getElem?_cons_succ] at hi ⊢
        exact ih (List.pairwise_cons.mp hpw).2 (fun x hx => hlt x (List.mem_cons_of_mem _ hx)) i hi

/-- **fsspec's chunked `seek_delimiter` is the one-shot search**: reading `blocksize ≥ 1` bytes at a time
    and carrying the last `len(delimiter)` bytes over finds exactly the first occurrence at or after the
    position (`Lemmas/TextSeekChunked.lean`); hence `read_block` with fsspec's `2**16` is `readBlock`. -/
theorem seek_chunked_eq_simple (bsz : Nat) (hb : 0 < bsz) (d data : List Nat) (hd : d ≠ []) (pos : Nat) :
    seekChunked bsz d data pos = seekSimple d data pos :=
  seekChunked_eq_seekSimple bsz hb d data hd pos

theorem readBlockChunked_eq_readBlock (bsz : Nat) (hb : 0 < bsz) (data d : List Nat) (off : Nat) (len : Option Nat) :
    readBlockChunked bsz data d off len = readBlock data d off len := by
  simp only [readBlockChunked, readBlock, readBlockWith]
  by_cases hd : d = []
  · subst hd; simp
  · have hde : d.isEmpty = false := by cases d <;> simp_all
    simp only [hde, Bool.false_eq_true, if_false, seekChunked_eq_seekSimple bsz hb d data hd]

/-! ## 3. lines: `decode`, `file_to_blocks` and the reference split -/

/-- `decode` (and `file_to_blocks`, which is the same function of the text after the repair of #10)
    returns exactly the reference: the text split after each delimiter, empty trailing part dropped. -/
theorem decode_eq_refLines (d t : List Nat) (hd : d ≠ []) : decode d t = refLines d t := by
  have hde : d.isEmpty = false := by cases d <;> simp_all
  unfold decode refLines
  cases t with
  | nil => simp [pySplit, hde, pySplitAux, lastPart]
  | cons c cs => simp

theorem fileToBlocks_eq_refLines (d t : List Nat) (hd : d ≠ []) : fileToBlocks d t = refLines d t :=
  decode_eq_refLines d t hd

theorem decode_eq_lines (d t : List Nat) (hd : d ≠ []) : decode d t = some (lines d t) := by
  have hde : d.isEmpty = false := by cases d <;> simp_all
  rw [decode_eq_refLines d t hd]
  simp [refLines, pySplit, hde, lines, linesAux, joinLines]

/-- nothing is lost and nothing invented: the lines concatenate to the text -/
theorem decode_flatten (d t : List Nat) (hd : d ≠ []) :
    ∃ ls, decode d t = some ls ∧ ls.flatten = t := by
  refine ⟨lines d t, decode_eq_lines d t hd, ?_⟩
  simpa [lines] using linesAux_flatten hd [] t

/-- `no_trailing_empty`: no line is empty — in particular there is no empty trailing element -/
theorem decode_no_empty_line (d t : List Nat) (hd : d ≠ []) :
    ∀ ls, decode d t = some ls → ∀ l ∈ ls, l ≠ [] := by
  intro ls hls
  rw [decode_eq_lines d t hd] at hls
  cases hls
  exact joinLines_ne_nil hd _

/-- every line but the last ends with the delimiter -/
theorem decode_lines_end_with_delimiter (d t : List Nat) (hd : d ≠ []) :
    ∀ ls, decode d t = some ls → ∀ l ∈ ls.dropLast, d <:+ l := by
  intro ls hls
  rw [decode_eq_lines d t hd] at hls
  cases hls
  exact joinLines_suffix d _

example : decode [124, 124] [97, 124, 124, 98, 124, 124] = some [[97, 124, 124], [98, 124, 124]] := by decide
example : decode [124] [97, 124, 98] = some [[97, 124], [98]] := by decide

/-! ## 3b. `read_text`: the lines do not depend on the blocksize (border-free delimiters) -/

theorem mapM_decode (d : List Nat) (hd : d ≠ []) (blocks : List (List Nat)) :
    blocks.mapM (decode d) = some (blocks.map (lines d)) := by
  induction blocks with
  | nil => rfl
  | cons b bs ih => simp [List.mapM_cons, decode_eq_lines d b hd, ih]

/-- **`lines_blocksize_independent`**: for a BORDER-FREE delimiter (no proper non-empty prefix of it is
    also a suffix: every single byte, `\r\n`, `ab`, `abc`, …), every file content and every blocksize,
    `read_text` returns the same lines as with `blocksize=None`, and those are the file split after each
    delimiter with no empty trailing element (`refLines`).
    (For delimiters WITH a border the statement is false: `lines_blocksize_independent_refuted`.) -/
theorem lines_blocksize_independent (A : FArith) (hA : GoodArith A) (d data : List Nat) (hd : d ≠ [])
    (hbf : BorderFree d) (b : Nat) (hb : 0 < b) (hsz : data.length < 2 ^ 53) :
    readTextLines A d data (some b) = readTextLines A d data none ∧
    readTextLines A d data none = refLines d data := by
  have hnone : readTextLines A d data none = some (lines d data) := by
    simp only [readTextLines, fileToBlocks]; exact decode_eq_lines d data hd
  refine ⟨?_, by rw [hnone, ← decode_eq_refLines d data hd, decode_eq_lines d data hd]⟩
  rw [hnone]
  by_cases hs : data.length = 0
  · have : data = [] := List.length_eq_zero_iff.mp hs
    subst this
    simp [readTextLines, fileBlocks, plan, offsets, lengthsOf, lines, linesAux_nil]
  · obtain ⟨offs, ho, h0, hpw, hlt⟩ := offsets_planOK A hA data.length b (by omega) hb hsz
    have hfb : fileBlocks A data d (some b) = some (blocksOf data d offs) := by
      simp [fileBlocks, plan, ho, blocksOf]
    simp only [readTextLines, hfb, Option.bind_eq_bind, Option.bind_some, mapM_decode d hd]
    cases offs with
    | nil => simp at h0
    | cons o rest =>
      have : o = 0 := by simpa using h0
      subst this
      have := blocksOf_lines hd hbf rest 0 hpw hlt
      rw [seekPos_zero, List.drop_zero] at this
      simp only [Option.pure_def, Option.some.injEq]
      rw [← this, List.flatMap_def]

example : BorderFree [13, 10] := by unfold BorderFree; decide
example : BorderFree [124] := by unfold BorderFree; decide
example : ¬ BorderFree [97, 97] := by unfold BorderFree; decide

/-! ## 3c. the same for the real arithmetic

`ieee_good : GoodArith ieee` (Lemmas/Round53.lean) discharges the assumption on the double arithmetic:
the fixed-point model of IEEE round-to-nearest-even that the harness diffs against CPython satisfies it. -/

/-- `offsets_cover` for IEEE doubles: every file of 1 … 2^53 − 1 bytes, every blocksize ≥ 1 -/
theorem offsets_cover_ieee (size bs : Nat) (hs : 0 < size) (hb : 0 < bs) (hsz : size < 2 ^ 53) :
    ∃ offs lens, plan ieee size bs = some (offs, lens) ∧ offs.head? = some 0 ∧ offs.Pairwise (· < ·) ∧
      (∀ o ∈ offs, o < size) ∧ lens.length = offs.length ∧ (∀ l ∈ lens, 0 < l) ∧ lens.sum = size :=
  offsets_cover ieee ieee_good size bs hs hb hsz

theorem blocks_concat_file_ieee (data d : List Nat) (hd : d ≠ []) (bs : Option Nat)
    (hb : ∀ b, bs = some b → 0 < b) (hsz : data.length < 2 ^ 53) :
    ∃ blocks, fileBlocks ieee data d bs = some blocks ∧ blocks.flatten = data :=
  blocks_concat_file ieee ieee_good data d hd bs hb hsz

theorem lines_blocksize_independent_ieee (d data : List Nat) (hd : d ≠ []) (hbf : BorderFree d) (b : Nat)
    (hb : 0 < b) (hsz : data.length < 2 ^ 53) :
    readTextLines ieee d data (some b) = readTextLines ieee d data none ∧
    readTextLines ieee d data none = refLines d data :=
  lines_blocksize_independent ieee ieee_good d data hd hbf b hb hsz

/-! ## 3d. several files, `files_per_partition`, `include_path` -/

theorem groupsOf_flatten {γ : Type} (n : Nat) (hn : 0 < n) (fuel : Nat) (xs : List γ) (hf : xs.length ≤ fuel) :
    (groupsOf n fuel xs).flatten = xs := by
  induction fuel generalizing xs with
  | zero =>
    have : xs = [] := List.length_eq_zero_iff.mp (by omega)
    subst this; rfl
  | succ fuel ih =>
    simp only [groupsOf]
    cases xs with
    | nil => rfl
    | cons x xs' =>
      simp only [List.isEmpty_cons, Bool.false_eq_true, if_false, List.flatten_cons]
      rw [ih _ (by simp only [List.length_drop, List.length_cons] at hf ⊢; omega), List.take_append_drop]

/-- the lines of all files in order, every line paired with the index of its file -/
def allLines (d : List Nat) (files : List (List Nat)) : List (Nat × List Nat) :=
  files.zipIdx.flatMap fun fi => (lines d fi.1).map fun l => (fi.2, l)

/-- **`files_per_partition` / `include_path`**: with `blocksize=None`, whatever the grouping of files into
    partitions, the bag is the lines of the files in order, each paired with its own file
    (`include_path=False` is the projection to the lines). -/
theorem read_text_files (d : List Nat) (hd : d ≠ []) (files : List (List Nat)) (fpp : Option Nat)
    (hfpp : ∀ n, fpp = some n → 0 < n) :
    ∃ ps, readTextFiles d files fpp = some ps ∧ ps.flatten = allLines d files := by
  have hde : d.isEmpty = false := by cases d <;> simp_all
  have hone : ∀ fi : List Nat × Nat, (((decode d fi.1).getD []).map fun l => (fi.2, l)) =
      (lines d fi.1).map fun l => (fi.2, l) := by
    intro fi; rw [decode_eq_lines d fi.1 hd]; rfl
  cases fpp with
  | none =>
    refine ⟨_, by simp only [readTextFiles, hde]; rfl, ?_⟩
    simp only [allLines, List.flatten_eq_flatMap, List.flatMap_map, hone, id]
  | some n =>
    cases n with
    | zero => exact absurd (hfpp 0 rfl) (by decide)
    | succ n =>
      refine ⟨_, by simp only [readTextFiles, hde]; rfl, ?_⟩
      have hg := groupsOf_flatten (n + 1) (by omega) files.length files.zipIdx (by simp)
      have hr : allLines d files = (groupsOf (n + 1) files.length files.zipIdx).flatten.flatMap
          fun fi => (lines d fi.1).map fun l => (fi.2, l) := by rw [hg]; rfl
      rw [hr]
      simp only [List.flatten_eq_flatMap, List.flatMap_map, hone, id, List.flatMap_assoc]

/-- with a blocksize and a border-free delimiter: one partition per block, and again the bag is the lines
    of the files in order paired with their file (a bag of empty files is one empty partition — repair
    103c10e) -/
theorem read_text_files_blocks (A : FArith) (hA : GoodArith A) (d : List Nat) (hd : d ≠ []) (hbf : BorderFree d)
    (files : List (List Nat)) (b : Nat) (hb : 0 < b) (hsz : ∀ f ∈ files, f.length < 2 ^ 53) :
    ∃ ps, readTextFilesBlocks A d files b = some ps ∧ ps.flatten = allLines d files := by
  have hde : d.isEmpty = false := by cases d <;> simp_all
  -- per file: the blocks' lines concatenate to the lines of the file
  have hfile : ∀ f : List Nat, f.length < 2 ^ 53 → ∃ blocks, fileBlocks A f d (some b) = some blocks ∧
      (blocks.flatMap (lines d)) = lines d f := by
    intro f hf
    obtain ⟨h1, h2⟩ := lines_blocksize_independent A hA d f hd hbf b hb hf
    have hnone : readTextLines A d f none = some (lines d f) := by
      simp only [readTextLines, fileToBlocks]; exact decode_eq_lines d f hd
    rw [hnone] at h1
    simp only [readTextLines] at h1
    cases hfb : fileBlocks A f d (some b) with
    | none => simp [hfb] at h1
    | some blocks =>
      refine ⟨blocks, rfl, ?_⟩
      simp only [hfb, Option.bind_eq_bind, Option.bind_some, mapM_decode d hd, Option.pure_def, Option.some.injEq] at h1
      rw [← h1, List.flatMap_def]
  have key : ∀ (l : List (List Nat × Nat)), (∀ fi ∈ l, fi.1.length < 2 ^ 53) →
      ∃ pss, (l.mapM fun fi => (fileBlocks A fi.1 d (some b)).map fun blocks =>
          blocks.map fun blk => ((decode d blk).getD []).map fun l => (fi.2, l)) = some pss ∧
        pss.flatten.flatten = l.flatMap fun fi => (lines d fi.1).map fun l => (fi.2, l) := by
    intro l
    induction l with
    | nil => intro _; exact ⟨[], rfl, rfl⟩
    | cons fi l ih =>
      intro hl
      obtain ⟨pss, hp, hflat⟩ := ih (fun x hx => hl x (List.mem_cons_of_mem _ hx))
      obtain ⟨blocks, hb1, hb2⟩ := hfile fi.1 (hl fi (by simp))
      refine ⟨(blocks.map fun blk => ((decode d blk).getD []).map fun l => (fi.2, l)) :: pss,
        by simp [List.mapM_cons, hb1, hp], ?_⟩
      simp only [List.flatten_cons, List.flatten_append, hflat, List.flatMap_cons]
      congr 1
      rw [← hb2]
      simp only [List.flatten_eq_flatMap, List.flatMap_map, List.map_flatMap, id]
      have hfun : (fun blk => List.map (fun l => (fi.2, l)) ((decode d blk).getD [])) =
          fun a => List.map (fun l => (fi.2, l)) (lines d a) := by
        funext blk; rw [decode_eq_lines d blk hd]; rfl
      rw [hfun]
  obtain ⟨pss, hp, hflat⟩ := key files.zipIdx (by
    intro fi hfi
    have := List.mem_zipIdx hfi
    have hmem : fi.1 ∈ files := by rw [this.2.2]; exact List.getElem_mem _
    exact hsz _ hmem)
  refine ⟨if pss.flatten.isEmpty then [[]] else pss.flatten, by simp only [readTextFilesBlocks, hde]; simp [hp], ?_⟩
  simp only [allLines, ← hflat]
  split
  · next h => simp [List.isEmpty_iff.mp h]
  · rfl

/-! ## 3e. the default `linedelimiter=None` (universal newlines) -/

theorem univLines_eq (t : List Nat) : univLines t = some (lines [10] (translateNL t)) := by
  simp only [univLines]
  rw [← decode_eq_refLines [10] _ (by simp), decode_eq_lines [10] _ (by simp)]

/-- **`read_text` with the default delimiter**: blocks are cut after `\n`, each block is read in
    universal-newlines mode (`\r\n` and `\r` become `\n`) — the lines are the same for every blocksize as
    for `blocksize=None`, because a block boundary after `\n` can never separate `\r` from `\n`. -/
theorem univ_blocksize_independent (A : FArith) (hA : GoodArith A) (data : List Nat) (b : Nat) (hb : 0 < b)
    (hsz : data.length < 2 ^ 53) : readTextUniv A data (some b) = readTextUniv A data none := by
  have hbf : BorderFree [10] := by unfold BorderFree; decide
  have hd : ([10] : List Nat) ≠ [] := by simp
  have hmap : ∀ blocks : List (List Nat), blocks.mapM univLines =
      some (blocks.map fun t => lines [10] (translateNL t)) := by
    intro blocks
    induction blocks with
    | nil => rfl
    | cons x xs ih => simp [List.mapM_cons, univLines_eq, ih]
  simp only [readTextUniv]
  rw [univLines_eq]
  by_cases hs : data.length = 0
  · have : data = [] := List.length_eq_zero_iff.mp hs
    subst this
    simp [fileBlocks, plan, offsets, lengthsOf, translateNL, lines, linesAux_nil]
  · obtain ⟨offs, ho, h0, hpw, hlt⟩ := offsets_planOK A hA data.length b (by omega) hb hsz
    have hfb : fileBlocks A data [10] (some b) = some (blocksOf data [10] offs) := by
      simp [fileBlocks, plan, ho, blocksOf]
    simp only [hfb, Option.bind_eq_bind, Option.bind_some, hmap, Option.pure_def, Option.some.injEq]
    cases offs with
    | nil => simp at h0
    | cons o rest =>
      have : o = 0 := by simpa using h0
      subst this
      have hgood := blocksOf_good hd hbf rest 0 hpw hlt
      have hflat := blocksOf_flatten hd rest 0 hpw hlt
      rw [seekPos_zero, List.drop_zero] at hflat
      have := GoodBlocks.flatMap_eq (d := [10]) (fun t => lines [10] (translateNL t))
        (by simp [translateNL, lines, linesAux_nil])
        (by
          intro u v hu
          obtain ⟨h1, h2⟩ := translateNL_append u v hu
          simp only [h1]
          exact linesAux_append hd hbf [] _ _ h2) _ hgood
      rw [hflat] at this
      rw [← this, List.flatMap_def]

/-! ## 2b. `not_zero` and the header `sample` -/

/-- **`blocks_not_zero`**: with `not_zero=True` the blocks concatenate to the file WITHOUT its header: everything
    after the first delimiter that starts at or after byte 1 (nothing, if there is none) — for every content,
    non-empty delimiter and blocksize -/
theorem blocks_not_zero (A : FArith) (hA : GoodArith A) (data d : List Nat) (hd : d ≠ []) (b : Nat) (hb : 0 < b)
    (hs : 0 < data.length) (hsz : data.length < 2 ^ 53) :
    ∃ blocks, fileBlocksNotZero A data d b = some blocks ∧ blocks.flatten = data.drop (seekPos d data 1) := by
  obtain ⟨offs, ho, h0, hpw, hlt⟩ := offsets_planOK A hA data.length b hs hb hsz
  cases offs with
  | nil => simp at h0
  | cons o rest =>
    have : o = 0 := by simpa using h0
    subst this
    have hmem : ∀ x ∈ rest, 0 < x ∧ x < data.length := fun x hx =>
      ⟨(List.pairwise_cons.mp hpw).1 x hx, hlt x (List.mem_cons_of_mem _ hx)⟩
    have hshift := lengthsOf_head_shift data.length rest (fun x hx => (hmem x hx).1)
    cases rest with
    | nil =>
      have hplan : planNotZero A data.length b = some ([1], lengthsOf data.length [1]) := by
        simp only [planNotZero, plan, ho, Option.map_some]; rw [hshift]
      refine ⟨blocksOf data d [1], by simp [fileBlocksNotZero, hplan, blocksOf], ?_⟩
      exact blocksOf_flatten_le hd [] 1 (by simp) (by intro x hx; simp at hx; omega)
    | cons o' r =>
      have hrest : (o' :: r).Pairwise (· ≤ ·) := (List.pairwise_cons.mp hpw).2.imp (fun h => Nat.le_of_lt h)
      by_cases h1 : o' = 1
      · -- one-byte blocks: the empty first block is dropped, the second one starts at byte 1 as well
        subst h1
        have hplan : planNotZero A data.length b = some (1 :: r, lengthsOf data.length (1 :: r)) := by
          simp only [planNotZero, plan, ho, Option.map_some]; rw [hshift]; simp
        refine ⟨blocksOf data d (1 :: r), by simp [fileBlocksNotZero, hplan, blocksOf], ?_⟩
        apply blocksOf_flatten_le hd r 1 hrest
        intro x hx
        exact Nat.le_of_lt (hmem x hx).2
      · have hplan : planNotZero A data.length b = some (1 :: o' :: r, lengthsOf data.length (1 :: o' :: r)) := by
          simp only [planNotZero, plan, ho, Option.map_some]; rw [hshift]; simp [h1]
        refine ⟨blocksOf data d (1 :: o' :: r), by simp [fileBlocksNotZero, hplan, blocksOf], ?_⟩
        apply blocksOf_flatten_le hd (o' :: r) 1
        · rw [List.pairwise_cons]
          refine ⟨fun x hx => ?_, hrest⟩
          have := (hmem x hx).1; omega
        · intro x hx
          rcases List.mem_cons.mp hx with rfl | hx
          · omega
          · exact Nat.le_of_lt (hmem x hx).2

example : fileBlocksNotZero ieee [104, 10, 97, 10, 98, 10, 99] [10] 2 = some [[97, 10], [98, 10], [99]] := by decide +kernel

theorem sampleLoop_spec (n : Nat) (d data : List Nat) (fuel pos : Nat) (buff : List Nat)
    (hbuff : buff = data.take pos) (hpos : pos ≤ data.length ∨ buff = data) :
    sampleLoop n d data fuel pos buff <+: data := by
  induction fuel generalizing pos buff with
  | zero => simp only [sampleLoop]; rw [hbuff]; exact List.take_prefix _ _
  | succ fuel ih =>
    simp only [sampleLoop]
    split
    · rw [hbuff]; exact List.take_prefix _ _
    · next hne =>
      have hsplit : data = data.take pos ++ (data.drop pos) := (List.take_append_drop pos data).symm
      split
      · next i hi =>
        -- new = … ++ d ++ …, so buff ++ new.take i ++ d is a prefix of buff ++ new, a prefix of data
        obtain ⟨hpre, _, _⟩ := (findIdx_eq_some_iff d _ i).mp hi
        obtain ⟨r, hr⟩ := hpre
        have hnew : (data.drop pos).take n = ((data.drop pos).take n).take i ++ (d ++ r) := by
          rw [hr]; exact (List.take_append_drop i _).symm
        have h1 : buff ++ ((data.drop pos).take n).take i ++ d <+: buff ++ (data.drop pos).take n := by
          refine ⟨r, ?_⟩
          rw [List.append_assoc, List.append_assoc, ← hnew]
        have h2 : buff ++ (data.drop pos).take n <+: data := by
          rw [hbuff]
          refine ⟨(data.drop pos).drop n, ?_⟩
          rw [List.append_assoc, List.take_append_drop, List.take_append_drop]
        exact h1.trans h2
      · apply ih (pos + n) _ _
        · by_cases h : pos + n ≤ data.length
          · exact Or.inl h
          · right
            rw [hbuff]
            have : (data.drop pos).take n = data.drop pos := List.take_of_length_le (by simp; omega)
            rw [this, List.take_append_drop]
        · rw [hbuff, List.take_add]

/-- the `sample` of `read_bytes` is a prefix of the file -/
theorem sample_prefix (n : Nat) (d data : List Nat) : sampleOf n d data <+: data := by
  apply sampleLoop_spec n d data _ n _ rfl
  by_cases h : n ≤ data.length
  · exact Or.inl h
  · exact Or.inr (List.take_of_length_le (by omega))

theorem sampleLoop_ends (n : Nat) (hn : 0 < n) (d data : List Nat) (fuel pos : Nat) (buff : List Nat)
    (hbuff : buff = data.take pos) (hf : data.length < pos + fuel * n) :
    sampleLoop n d data fuel pos buff = data ∨ d <:+ sampleLoop n d data fuel pos buff := by
  induction fuel generalizing pos buff with
  | zero =>
    left
    simp only [sampleLoop]; rw [hbuff]
    exact List.take_of_length_le (by omega)
  | succ fuel ih =>
    simp only [sampleLoop]
    split
    · next hemp =>
      left
      rw [hbuff]
      apply List.take_of_length_le
      have : (data.drop pos).take n = [] := by simpa using hemp
      have hl := congrArg List.length this
      simp only [List.length_take, List.length_drop, List.length_nil] at hl
      omega
    · split
      · right; exact ⟨_, rfl⟩
      · apply ih (pos + n) _ (by rw [hbuff, List.take_add])
        rw [Nat.add_mul] at hf; omega

/-- the `sample` is the whole file or ends with the delimiter (`sample > 0`) -/
theorem sample_ends (n : Nat) (hn : 0 < n) (d data : List Nat) :
    sampleOf n d data = data ∨ d <:+ sampleOf n d data := by
  apply sampleLoop_ends n hn d data _ n _ rfl
  have : data.length + 1 ≤ (data.length + 1) * n := Nat.le_mul_of_pos_right _ hn
  omega

example : sampleOf 2 [10] [97, 98, 99, 100, 10, 101, 10, 102] = [97, 98, 99, 100, 10] := by decide


/-! ## 3f. UTF-8: cutting bytes vs splitting text -/

/-- **`utf8_split_commutes`** (UTF-8 is self-synchronising): for valid code points and a non-empty delimiter,
    `text.encode().split(delimiter.encode())` is `[p.encode() for p in text.split(delimiter)]` -/
theorem utf8_split_commutes (d t : List Nat) (hd : ValidText d) (hne : d ≠ []) (ht : ValidText t) :
    pySplit (encode d) (encode t) = (pySplit d t).map (List.map encode) := by
  have hde : d.isEmpty = false := by cases d <;> simp_all
  have hdeb : (encode d).isEmpty = false := by
    cases h : encode d with
    | nil => exact absurd (encode_eq_nil.mp h) hne
    | cons _ _ => rfl
  simp only [pySplit, hde, hdeb, Bool.false_eq_true, if_false, Option.map_some, Option.some.injEq]
  exact pySplitAux_encode hd hne t.length t (Nat.le_refl _) ht [] [] (by simp [encode_nil])

/-- the reference lines of the bytes are the encodings of the reference lines of the text -/
theorem refLines_encode (d t : List Nat) (hd : ValidText d) (hne : d ≠ []) (ht : ValidText t) :
    refLines (encode d) (encode t) = (refLines d t).map (List.map encode) := by
  simp only [refLines, utf8_split_commutes d t hd hne ht, Option.map_map]
  congr 1
  funext parts
  show List.map (fun x => x ++ encode d) (List.map encode parts).dropLast ++ lastPart (List.map encode parts) =
    List.map encode (List.map (fun x => x ++ d) parts.dropLast ++ lastPart parts)
  rw [List.map_append, lastPart_map_encode, List.map_dropLast, List.map_map, List.map_map, List.map_dropLast]
  congr 2
  apply List.map_congr_left
  intro p _
  simp [encode_append]

/-- **`read_text_utf8`**: for every valid text, delimiter (non-empty, border-free as a string) and blocksize,
    the BYTE lines `read_text` computes block-wise are exactly the UTF-8 encodings of the text split after each
    delimiter (no empty trailing element) — the block boundaries never cut a multi-byte character apart. -/
theorem read_text_utf8 (d t : List Nat) (hd : ValidText d) (hne : d ≠ []) (ht : ValidText t)
    (hbf : BorderFree d) (b : Nat) (hb : 0 < b) (hsz : (encode t).length < 2 ^ 53) :
    readTextLines ieee (encode d) (encode t) (some b) = (refLines d t).map (List.map encode) := by
  have hneb : encode d ≠ [] := fun h => hne (encode_eq_nil.mp h)
  obtain ⟨h1, h2⟩ := lines_blocksize_independent_ieee (encode d) (encode t) hneb (borderFree_encode d hd hbf) b hb hsz
  rw [h1, h2, refLines_encode d t hd hne ht]

example : encode [97, 233, 8364, 119070] = [97, 195, 169, 226, 130, 172, 240, 157, 132, 158] := by decide
example : BorderFree (encode [8364, 124]) := borderFree_encode _ (by intro c hc; simp at hc; omega) (by unfold BorderFree; decide)
example : readTextLines ieee (encode [8364]) (encode [97, 8364, 8364, 98]) (some 2) =
    some [encode [97, 8364], encode [8364], encode [98]] := by decide +kernel


/-! ## 4. refutation witnesses (statements that are / were false of the code) -/

/-- DESIGN §6 #11 (finding): with the self-overlapping delimiter `aa` the lines of `aaab` depend on
    the blocksize: blocksize 1 gives `aa | a | b`, blocksize None gives `aa | ab`. -/
theorem lines_blocksize_independent_refuted :
    ¬ (∀ (d data : List Nat) (b : Nat), d ≠ [] → 0 < b →
        readTextLines ieee d data (some b) = readTextLines ieee d data none) := by
  intro h
  have := h [97, 97] [97, 97, 97, 98] 1 (by decide) (by decide)
  revert this
  decide

/-- DESIGN §6 #10 (repaired by 7fec26d): the ORIGINAL `file_to_blocks` returned a trailing empty
    element for `a||b||`. -/
theorem fileToBlocksOrig_trailing_empty :
    fileToBlocksOrig [124, 124] [97, 124, 124, 98, 124, 124] = some [[97, 124, 124], [98, 124, 124], []] := by
  decide

/-- (repaired by ece4d43): the ORIGINAL `decode` lost the trailing `a` of `aaa` split at `aa`. -/
theorem decodeOrig_drops_tail : decodeOrig [97, 97] [97, 97, 97] = some [[97, 97]] := by decide

/-- (finding `read_text:utf-16/utf-32-encoding:blocksize:…`) a UTF-16 file: `read_bytes` cuts after the byte
    `0A` — in the middle of the code unit `0A 00`. The first block of `a\nb` (utf-16-le, blocksize 2) has three
    bytes and the second starts with the orphaned `00`: neither can be decoded as UTF-16. -/
theorem utf16_block_cuts_code_unit :
    fileBlocks ieee [97, 0, 10, 0, 98, 0] [10] (some 2) = some [[97, 0, 10], [0, 98, 0], []] := by decide +kernel

/-! ## non-vacuity: the hypotheses of the theorems above hold for concrete, non-trivial inputs -/

example : ∃ offs lens, plan ieee 39 4 = some (offs, lens) ∧ offs.head? = some 0 ∧ offs.Pairwise (· < ·) ∧
    (∀ o ∈ offs, o < 39) ∧ lens.length = offs.length ∧ (∀ l ∈ lens, 0 < l) ∧ lens.sum = 39 :=
  offsets_cover_ieee 39 4 (by decide) (by decide) (by decide)
example : ∃ offs, offsets ieee 12 4 = some offs ∧ PlanOK 12 offs :=
  offsets_cover_int ieee 12 4 (by decide) (by decide) (Or.inl (by decide))
example : ∃ blocks, fileBlocks ieee [97, 124, 124, 98, 124, 124, 99] [124, 124] (some 2) = some blocks ∧
    blocks.flatten = [97, 124, 124, 98, 124, 124, 99] :=
  blocks_concat_file_ieee _ [124, 124] (by decide) (some 2) (by intro b hb; cases hb; decide) (by decide)
-- a seek from inside `a||b||c` (position 2, in the middle of the first `||`) ends just after the SECOND `||`
example : [124, 124] <:+ [97, 124, 124, 98, 124, 124, 99].take (seekPos [124, 124] [97, 124, 124, 98, 124, 124, 99] 2) :=
  boundary_after_delimiter [124, 124] _ 2 (by decide) (by decide) (by decide)
example : readTextLines ieee [13, 10] [97, 13, 10, 98, 13, 13, 10, 99] (some 3) =
    readTextLines ieee [13, 10] [97, 13, 10, 98, 13, 13, 10, 99] none ∧
    readTextLines ieee [13, 10] [97, 13, 10, 98, 13, 13, 10, 99] none = refLines [13, 10] [97, 13, 10, 98, 13, 13, 10, 99] :=
  lines_blocksize_independent_ieee [13, 10] _ (by decide) (by unfold BorderFree; decide) 3 (by decide) (by decide)
example : ∃ ps, readTextFiles [124] [[97, 124, 98], [], [99, 124]] (some 2) = some ps ∧
    ps.flatten = allLines [124] [[97, 124, 98], [], [99, 124]] :=
  read_text_files [124] (by decide) _ (some 2) (by intro n hn; cases hn; decide)
example : readTextUniv ieee [97, 13, 10, 98, 13, 99, 10, 100] (some 2) = readTextUniv ieee [97, 13, 10, 98, 13, 99, 10, 100] none :=
  univ_blocksize_independent ieee ieee_good _ 2 (by decide) (by decide)
example : ∃ blocks, fileBlocksNotZero ieee [104, 10, 97, 10, 98, 10, 99] [10] 2 = some blocks ∧
    blocks.flatten = [97, 10, 98, 10, 99] := by
  have := blocks_not_zero ieee ieee_good [104, 10, 97, 10, 98, 10, 99] [10] (by decide) 2 (by decide) (by decide) (by decide)
  simpa [seekPos, seekSimple, findIdx] using this
example : readTextLines ieee (encode [8364, 124]) (encode [97, 8364, 124, 233, 8364, 124, 98]) (some 3) =
    (refLines [8364, 124] [97, 8364, 124, 233, 8364, 124, 98]).map (List.map encode) :=
  read_text_utf8 [8364, 124] _ (by intro c hc; simp at hc; omega) (by decide)
    (by intro c hc; simp at hc; omega) (by unfold BorderFree; decide) 3 (by decide) (by decide)

end Dask.C50
