import DaskModel.Model.TextBlocks
/-! # C50 — block-wise text reading reproduces the file exactly (theorems) -/
namespace Dask.C50
open Dask.TextBlocks

/-! ## refutation witnesses (statements that are / were false of the code) -/

/-- DESIGN §6 #11 (finding): with the self-overlapping delimiter `aa` the lines of `aaab` depend on
    the blocksize: blocksize 1 gives `aa | a | b`, blocksize None gives `aa | ab`. -/
theorem lines_blocksize_independent_refuted :
    ¬ (∀ (d data : List Nat) (b : Nat), d ≠ [] → 0 < b →
        readTextLines ieee d data (some b) = readTextLines ieee d data none) := by
  intro h
  have := h [97, 97] [97, 97, 97, 98] 1 (by decide) (by decide)
  revert this
  decide

/-- DESIGN §6 #10 (repaired by 7fec26d): the ORIGINAL `file_to_blocks` returned a trailing empty
    element for `a||b||`. -/
theorem fileToBlocksOrig_trailing_empty :
    fileToBlocksOrig [124, 124] [97, 124, 124, 98, 124, 124] = some [[97, 124, 124], [98, 124, 124], []] := by
  decide

/-- (repaired by ece4d43): the ORIGINAL `decode` lost the trailing `a` of `aaa` split at `aa`. -/
theorem decodeOrig_drops_tail : decodeOrig [97, 97] [97, 97, 97] = some [[97, 97]] := by decide

end Dask.C50
