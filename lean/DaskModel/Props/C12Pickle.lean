import DaskModel.Model.PickleLoop
/-!
# C12 (part 4) — the pickle fallback decides determinism by pickling again

`normalize_object` falls back to `_normalize_pickle` for objects without a registered normaliser: the token is the
digest of the pickle, and the loop pickles up to three times to notice objects whose pickle is not reproducible.
`pickle_stable`: reproducible pickles give their digest after two passes, unflagged; `pickle_unstable_flagged`: three
passes that never agree are reported through `_maybe_raise_nondeterministic`; `pickle_token_is_an_attempt`: the token is
never anything but the digest of one of the passes.  `pickle_second_failure_not_flagged` records what the loop does when
a pass fails after a successful one (the earlier digest is used, unflagged).
-/
namespace Dask.C12K
open Dask.PickleLoop

/-- **an object that pickles to the same bytes every time gets the digest of those bytes, unflagged** (two passes) -/
theorem pickle_stable (d : Nat) (rest : List (Option Nat)) : normalizePickle (some d :: some d :: rest) = .digest d false := by
  simp [normalizePickle, loop]

/-- the token is always the digest of one of the passes (or random when nothing pickled) -/
theorem pickle_token_is_an_attempt : ∀ (n : Nat) (pik : Option Nat) (as : List (Option Nat)) (d : Nat) (f : Bool),
    loop n pik as = .digest d f → pik = some d ∨ some d ∈ as
  | 0, pik, as, d, f, h => by
    cases pik <;> simp [loop] at h
    exact Or.inl (by rw [h.1])
  | n + 1, pik, [], d, f, h => by
    cases pik <;> simp [loop] at h
    exact Or.inl (by rw [h.1])
  | n + 1, pik, none :: rest, d, f, h => by
    cases pik <;> simp [loop] at h
    exact Or.inl (by rw [h.1])
  | n + 1, pik, some e :: rest, d, f, h => by
    simp only [loop] at h
    split at h
    · simp only [Outcome.digest.injEq] at h
      exact Or.inr (by rw [← h.1]; simp)
    · rcases pickle_token_is_an_attempt n (some e) rest d f h with h1 | h1
      · exact Or.inr (by rw [← h1]; simp)
      · exact Or.inr (List.mem_cons_of_mem _ h1)

/-- three passes that never agree are flagged as non-deterministic -/
theorem pickle_unstable_flagged (a b c : Nat) (hab : a ≠ b) (hbc : b ≠ c) (rest : List (Option Nat)) :
    normalizePickle (some a :: some b :: some c :: rest) = .digest c true := by
  have h1 : (some a : Option Nat) ≠ some b := by simpa using hab
  have h2 : (some b : Option Nat) ≠ some c := by simpa using hbc
  simp [normalizePickle, loop, h1, h2]

/-- an unflagged digest was produced by two consecutive agreeing passes, or by a pass followed by a failure -/
theorem pickle_second_failure_not_flagged (a : Nat) (rest : List (Option Nat)) :
    normalizePickle (some a :: none :: rest) = .digest a false := by
  simp [normalizePickle, loop]

example : normalizePickle [some 1, some 2, some 2] = .digest 2 false := by decide
example : normalizePickle [none, some 2, some 2] = .random := by decide

end Dask.C12K
