import DaskModel.Model.MapBlocks
import DaskModel.Lemmas.Blockwise
import DaskModel.Props.C19
/-! # C35 — map_blocks, blockwise and gufuncs see correct blocks and block locations (theorems)

* `block_info_true`              — `array-location` is the true global extent of the reported chunk (all chunkings)
* `block_info_matches_blockwise` — the reported `chunk-location` is the block coordinate K13 passes (per axis)
* `drop_axis_location`           — a dropped (concatenated) axis is reported as one chunk covering the whole axis
* `calls_once_per_block`         — the emitted output blocks are exactly the grid, each once
* `block_id_is_out_coord`        — the `block_id` dependency (indexed like the output) receives the output coordinate
* `loopDims_right_aligned`       — `apply_gufunc` right-aligns loop dimensions
Validated (harness/props/c35.py): the `drop_axis/new_axis/chunks=` index plan, complete `block_info` dicts, the blocks user
functions receive, `apply_gufunc` = `numpy.vectorize`.
-/
namespace Dask.C35
open Dask.MapBlocks Dask.Blockwise
open Dask.Elemwise (locate globalOf revRange)

/-! ## 1. array-location is true -/

theorem cumFrom_getElem? (c : List Nat) (s b : Nat) (hb : b ≤ c.length) :
    (cumFrom s c)[b]? = some (s + (c.take b).sum) := by
  induction c generalizing s b with
  | nil =>
    have : b = 0 := by simpa using hb
    subst this
    simp [cumFrom]
  | cons x t ih =>
    cases b with
    | zero => simp [cumFrom]
    | succ k =>
      simp only [cumFrom, List.getElem?_cons_succ, List.take_succ_cons, List.sum_cons]
      rw [ih (s + x) k (by simpa using hb)]
      congr 1
      omega

theorem cumFrom_length (c : List Nat) (z : Nat) : (cumFrom z c).length = c.length + 1 := by
  induction c generalizing z with
  | nil => simp [cumFrom]
  | cons x t ih => simp [cumFrom, ih]

/-- **block_info_true.** For every chunking `c` and every block `b` with length `len`: the `(start, stop)` pair that
    `map_blocks` reads from the cumulative sums is `(Σ chunks before b, … + len)` … -/
theorem block_info_true (c : List Nat) (b len : Nat) (h : c[b]? = some len) :
    arrayLoc [cumsum0 c] [b] = some [((c.take b).sum, (c.take b).sum + len)] := by
  have hb : b < c.length := (List.getElem?_eq_some_iff.mp h).1
  have h1 := cumFrom_getElem? c 0 b (by omega)
  have h2 := cumFrom_getElem? c 0 (b + 1) (by omega)
  have htk : (c.take (b + 1)).sum = (c.take b).sum + len := by
    rw [List.take_add_one, h]
    simp
  simp only [Nat.zero_add] at h1 h2
  simp [arrayLoc, traverse, cumsum0, h1, h2, htk]

/-- … and these are exactly the global positions that live in block `b`: position `i` is located in block `b`
    (at offset `i - start`) iff `start ≤ i < stop`. -/
theorem location_iff_locate (c : List Nat) (b len i : Nat) (h : c[b]? = some len) :
    ((c.take b).sum ≤ i ∧ i < (c.take b).sum + len) ↔ locate c i = some (b, i - (c.take b).sum) := by
  constructor
  · intro ⟨h1, h2⟩
    induction c generalizing b i with
    | nil => simp at h
    | cons x t ih =>
      cases b with
      | zero =>
        simp at h
        subst h
        simp at h1 h2 ⊢
        simp [locate, h2]
      | succ k =>
        simp only [List.getElem?_cons_succ] at h
        simp only [List.take_succ_cons, List.sum_cons] at h1 h2 ⊢
        have hx : ¬ i < x := by omega
        simp only [locate, hx, if_false]
        have := ih k (i - x) h (by omega) (by omega)
        rw [this]
        simp
        omega
  · intro hl
    obtain ⟨hg, len', hlen', hlt⟩ := Dask.C19.locate_spec c i b _ hl
    rw [h] at hlen'
    injection hlen' with hlen'
    subst hlen'
    unfold globalOf at hg
    omega

/-! ## 2. chunk-location = the block coordinate blockwise passes -/

theorem lookup_zip_idxOf (out : List Sym) (o : List Nat) (s : Sym) (hlen : o.length = out.length) (hs : s ∈ out) :
    (out.zip o).lookup s = o[out.idxOf s]? := by
  induction out generalizing o with
  | nil => simp at hs
  | cons a r ih =>
    cases o with
    | nil => simp at hlen
    | cons v t =>
      simp only [List.zip_cons_cons, List.lookup_cons]
      by_cases h : s = a
      · subst h
        simp [List.idxOf_cons_self]
      · have hne : (s == a) = false := by simpa using h
        have hr : s ∈ r := by
          rcases List.mem_cons.mp hs with h' | h'
          · exact absurd h' h
          · exact h'
        simp only [hne]
        rw [ih t (by simpa using hlen) hr]
        rw [idxOf_cons_ne' a s r (fun e => h e.symm)]
        simp

/-- **block_info_matches_blockwise (one axis).** For an argument axis with symbol `s` that is an output index (no
    `drop_axis` on it) and chunk list `c` (at least one block): the `chunk-location` entry map_blocks computes,
    `location.get(s, 0) if num_chunks > 1 else 0`, is the coordinate K13 specifies for the block that is passed. -/
theorem block_info_matches_blockwise (out : List Sym) (o : List Nat) (dims : List (Sym × Nat)) (conc : Bool)
    (s : Sym) (c : List Nat) (hlen : o.length = out.length) (hs : s ∈ out) (hc : 1 ≤ c.length) :
    specCoord out dims conc o (s, c.length) =
      some (Coord.one (if (cumsum0 c).length - 1 > 1 then ((out.zip o).lookup s).getD 0 else 0)) := by
  have hcl : (cumsum0 c).length = c.length + 1 := cumFrom_length c 0
  unfold specCoord
  simp only [hs, if_true, hcl]
  have hidx : out.idxOf s < o.length := by rw [hlen]; exact List.idxOf_lt_length_of_mem hs
  by_cases h1 : c.length = 1
  · simp [h1]
  · have hgt : c.length + 1 - 1 > 1 := by omega
    simp only [h1, if_false, hgt, if_true]
    rw [lookup_zip_idxOf out o s hlen hs, List.getElem?_eq_getElem hidx]
    simp

/-- **drop_axis_location.** With `drop_axis`, an axis whose symbol is not an output index is reported as a single chunk
    `(0, shape)`, `num-chunks = 1`, `chunk-location = 0` — the extent of the concatenation of all its blocks. -/
theorem drop_axis_location (out : List Sym) (bid : List Nat) (s : Sym) (c : List Nat) (hs : s ∉ out) :
    argInfo true out bid { ind := [s], chunks := [c] } =
      some { shape := [c.sum], numChunks := [1], arrayLocation := [(0, c.sum)], chunkLocation := [0] } := by
  simp [argInfo, argStarts, chunkLoc, arrayLoc, traverse, hs]

/-! ## 3. one call per output block -/

theorem nodup_map_cons (i : Nat) (l : List (List Nat)) (h : l.Nodup) : (l.map fun t => i :: t).Nodup := by
  induction l with
  | nil => simp
  | cons a r ih =>
    simp only [List.nodup_cons, List.map_cons] at h ⊢
    refine ⟨?_, ih h.2⟩
    intro hm
    obtain ⟨t, ht, heq⟩ := List.mem_map.mp hm
    have : t = a := by injection heq
    exact h.1 (this ▸ ht)

theorem product_nodup (ns : List Nat) : (product ns).Nodup := by
  induction ns with
  | nil => simp [product]
  | cons n r ih =>
    simp only [product]
    -- generalise the range to any duplicate-free list of heads
    have key : ∀ (hs : List Nat), hs.Nodup → (hs.flatMap fun i => (product r).map fun t => i :: t).Nodup := by
      intro hs hnd
      induction hs with
      | nil => simp
      | cons a t iht =>
        simp only [List.nodup_cons] at hnd
        simp only [List.flatMap_cons]
        refine List.nodup_append.mpr ⟨nodup_map_cons a _ ih, iht hnd.2, ?_⟩
        intro x hx y hy hxy
        obtain ⟨tx, _, rfl⟩ := List.mem_map.mp hx
        obtain ⟨j, hj, hy'⟩ := List.mem_flatMap.mp hy
        obtain ⟨ty, _, rfl⟩ := List.mem_map.mp hy'
        have : a = j := by injection hxy
        exact hnd.1 (this ▸ hj)
    exact key _ List.nodup_range

theorem mem_product (ns o : List Nat) : o ∈ product ns ↔ o.length = ns.length ∧ ∀ (i v n : Nat), o[i]? = some v → ns[i]? = some n → v < n := by
  induction ns generalizing o with
  | nil =>
    simp only [product, List.mem_singleton]
    constructor
    · intro h; subst h; simp
    · intro ⟨h, _⟩; simpa using h
  | cons n r ih =>
    simp only [product, List.mem_flatMap, List.mem_range, List.mem_map]
    constructor
    · rintro ⟨i, hi, t, ht, rfl⟩
      obtain ⟨hl, hb⟩ := (ih t).mp ht
      refine ⟨by simp [hl], ?_⟩
      intro j v m hv hm
      cases j with
      | zero => simp at hv hm; omega
      | succ k => exact hb k v m (by simpa using hv) (by simpa using hm)
    · rintro ⟨hl, hb⟩
      cases o with
      | nil => simp at hl
      | cons a t =>
        refine ⟨a, hb 0 a n (by simp) (by simp), t, ?_, rfl⟩
        apply (ih t).mpr
        refine ⟨by simpa using hl, ?_⟩
        intro j v m hv hm
        exact hb (j + 1) v m (by simpa using hv) (by simpa using hm)

/-- **calls_once_per_block.** The blocks `_make_blockwise_graph` emits (`itertools.product` over the block counts of the
    output indices) are pairwise distinct and are exactly the coordinates inside the output grid: the user function is
    called once per output block. -/
theorem calls_once_per_block (ns : List Nat) :
    (product ns).Nodup ∧ ∀ o, o ∈ product ns ↔ (o.length = ns.length ∧ ∀ (i v n : Nat), o[i]? = some v → ns[i]? = some n → v < n) :=
  ⟨product_nodup ns, mem_product ns⟩

/-! ## 4. block_id -/

/-- per axis: an argument indexed by an output symbol `s` with as many blocks as the output has along `s` receives the
    output coordinate itself (`ArrayBlockIdDep` is indexed with the output index string) -/
theorem block_id_is_out_coord (out : List Sym) (o : List Nat) (dims : List (Sym × Nat)) (conc : Bool)
    (s : Sym) (n v : Nat) (hs : s ∈ out) (hv : o[out.idxOf s]? = some v) (hvn : v < n) :
    specCoord out dims conc o (s, n) = some (Coord.one v) := by
  unfold specCoord
  simp only [hs, if_true]
  by_cases h1 : n = 1
  · subst h1
    have : v = 0 := by omega
    simp [this]
  · simp [h1, hv]

/-! ## 4b. `blockwise(align_arrays=False)` (map_blocks): the chunks an output index gets -/

theorem lookupC_setC_same (m : List (Sym × List Nat)) (s : Sym) (v : List Nat) : lookupC (setC m s v) s = some v := by
  induction m with
  | nil => simp [setC, lookupC]
  | cons p r ih =>
    obtain ⟨k, w⟩ := p
    by_cases h : k = s
    · simp [setC, lookupC, h]
    · simp [setC, lookupC, h, ih]

theorem lookupC_setC_ne (m : List (Sym × List Nat)) (s t : Sym) (v : List Nat) (h : t ≠ s) :
    lookupC (setC m s v) t = lookupC m t := by
  induction m with
  | nil => simp [setC, lookupC, Ne.symm h]
  | cons p r ih =>
    obtain ⟨k, w⟩ := p
    by_cases h0 : k = s
    · subst h0; simp [setC, lookupC, Ne.symm h]
    · by_cases h1 : k = t
      · subst h1; simp [setC, lookupC, h0]
      · simp [setC, lookupC, h0, h1, ih]

/-- what is known about `chunkss[s]` after the pairs `done` have been processed -/
def AlignInv (m : List (Sym × List Nat)) (done : List (Sym × List Nat)) : Prop :=
  ∀ s, (lookupC m s = none → ∀ c, (s, c) ∉ done) ∧
    (∀ r, lookupC m s = some r → (s, r) ∈ done ∧ (∀ c, (s, c) ∈ done → c.length ≤ r.length) ∧
      (r = [1] → ∀ c, (s, c) ∈ done → c = [1]))

theorem alignStep_inv (m : List (Sym × List Nat)) (done : List (Sym × List Nat)) (p : Sym × List Nat) (hp : p.2 ≠ [])
    (hne : ∀ q ∈ done, q.2 ≠ []) (h : AlignInv m done) : AlignInv (alignStep m p) (done ++ [p]) := by
  obtain ⟨s0, c0⟩ := p
  have hc0 : 1 ≤ c0.length := by
    cases c0 with
    | nil => exact absurd rfl hp
    | cons _ _ => simp
  intro s
  by_cases hs : s = s0
  · subst hs
    unfold alignStep
    simp only
    cases hl : lookupC m s with
    | none =>
      -- first pair for this index
      have hnone := (h s).1 hl
      simp only [lookupC_setC_same]
      refine ⟨by intro hh; simp at hh, ?_⟩
      intro r hr
      injection hr with hr
      subst hr
      refine ⟨by simp, ?_, ?_⟩
      · intro c hc
        rcases List.mem_append.mp hc with hc | hc
        · exact absurd hc (hnone c)
        · simp at hc; simp [hc]
      · intro _ c hc
        rcases List.mem_append.mp hc with hc | hc
        · exact absurd hc (hnone c)
        · simp at hc; rw [hc]; assumption
    | some cur =>
      obtain ⟨hmem, hmax, hone⟩ := (h s).2 cur hl
      by_cases hrep : (c0.length > cur.length || cur == [1]) = true
      · simp only [hrep, if_true, lookupC_setC_same]
        refine ⟨by intro hh; simp at hh, ?_⟩
        intro r hr
        injection hr with hr
        subst hr
        have hcur1 : 1 ≤ cur.length := by
          have := hne (s, cur) hmem
          cases cur with
          | nil => exact absurd rfl this
          | cons _ _ => simp
        have hlen : cur.length ≤ c0.length := by
          simp only [Bool.or_eq_true, decide_eq_true_eq, beq_iff_eq] at hrep
          rcases hrep with h1 | h1
          · omega
          · subst h1; simpa using hc0
        refine ⟨by simp, ?_, ?_⟩
        · intro c hc
          rcases List.mem_append.mp hc with hc | hc
          · exact Nat.le_trans (hmax c hc) hlen
          · simp at hc; simp [hc]
        · intro h1 c hc
          rcases List.mem_append.mp hc with hc | hc
          · -- the new value is [1]: then the old one had length ≤ 1 …
            have hcl := hmax c hc
            simp only [Bool.or_eq_true, decide_eq_true_eq, beq_iff_eq] at hrep
            rcases hrep with h2 | h2
            · exfalso
              rw [h1] at h2
              simp only [List.length_cons, List.length_nil] at h2
              omega
            · exact hone h2 c hc
          · simp at hc; rw [hc]; exact h1
      · simp only [hrep, Bool.false_eq_true, if_false, hl]
        simp only [Bool.or_eq_true, decide_eq_true_eq, beq_iff_eq, not_or] at hrep
        refine ⟨by intro hh; simp at hh, ?_⟩
        intro r hr
        injection hr with hr
        subst hr
        refine ⟨by simp [hmem], ?_, ?_⟩
        · intro c hc
          rcases List.mem_append.mp hc with hc | hc
          · exact hmax c hc
          · simp at hc; rw [hc]; omega
        · intro h1; exact absurd h1 hrep.2
  · -- another index: untouched
    have hstep : lookupC (alignStep m (s0, c0)) s = lookupC m s := by
      unfold alignStep
      simp only
      cases hl : lookupC m s0 with
      | none => exact lookupC_setC_ne m s0 s c0 hs
      | some cur =>
        by_cases hrep : (c0.length > cur.length || cur == [1]) = true
        · simp only [hrep, if_true]; exact lookupC_setC_ne m s0 s c0 hs
        · simp only [hrep, Bool.false_eq_true, if_false]
    rw [hstep]
    have hmemiff : ∀ c, (s, c) ∈ done ++ [(s0, c0)] ↔ (s, c) ∈ done := by
      intro c
      constructor
      · intro hc
        rcases List.mem_append.mp hc with hc | hc
        · exact hc
        · simp at hc; exact absurd hc.1 hs
      · intro hc; exact List.mem_append_left _ hc
    refine ⟨?_, ?_⟩
    · intro hn c hc
      exact (h s).1 hn c ((hmemiff c).mp hc)
    · intro r hr
      obtain ⟨h1, h2, h3⟩ := (h s).2 r hr
      exact ⟨(hmemiff r).mpr h1, fun c hc => h2 c ((hmemiff c).mp hc), fun hh c hc => h3 hh c ((hmemiff c).mp hc)⟩

theorem alignFold_inv (ps : List (Sym × List Nat)) : ∀ (m : List (Sym × List Nat)) (done : List (Sym × List Nat)),
    (∀ q ∈ done ++ ps, q.2 ≠ []) → AlignInv m done → AlignInv (ps.foldl alignStep m) (done ++ ps) := by
  induction ps with
  | nil => intro m done _ h; simpa using h
  | cons p r ih =>
    intro m done hne h
    simp only [List.foldl_cons]
    have h1 := alignStep_inv m done p (hne p (by simp)) (fun q hq => hne q (by simp [hq])) h
    have := ih (alignStep m p) (done ++ [p]) (by simpa using hne) h1
    simpa using this

/-- **alignFalse_picks.** `blockwise(align_arrays=False)` (after fix 0254c84) gives every index the chunks of ONE of the
    inputs that have it, with the maximal number of blocks, and never the broadcast chunking `(1,)` unless every input
    has `(1,)` there: a length-one input listed first no longer dictates the output chunks. -/
theorem alignFalse_picks (args : List AArg) (hne : ∀ a ∈ args, ∀ c ∈ a.chunks, c ≠ [])
    (s : Sym) (c0 : List Nat) (hc0 : (s, c0) ∈ args.flatMap (fun a => a.ind.zip a.chunks)) :
    ∃ r, lookupC (alignFalseChunks args) s = some r ∧ (s, r) ∈ args.flatMap (fun a => a.ind.zip a.chunks) ∧
      (∀ c, (s, c) ∈ args.flatMap (fun a => a.ind.zip a.chunks) → c.length ≤ r.length) ∧
      (r = [1] → ∀ c, (s, c) ∈ args.flatMap (fun a => a.ind.zip a.chunks) → c = [1]) := by
  have hne' : ∀ q ∈ ([] : List (Sym × List Nat)) ++ args.flatMap (fun a => a.ind.zip a.chunks), q.2 ≠ [] := by
    intro q hq
    simp only [List.nil_append, List.mem_flatMap] at hq
    obtain ⟨a, ha, hq⟩ := hq
    exact hne a ha q.2 (List.of_mem_zip (show (q.1, q.2) ∈ a.ind.zip a.chunks from hq)).2
  have hinv := alignFold_inv (args.flatMap (fun a => a.ind.zip a.chunks)) [] [] hne'
    (by intro s; exact ⟨fun _ c hc => by simp at hc, fun r hr => by simp [lookupC] at hr⟩)
  simp only [List.nil_append] at hinv
  unfold alignFalseChunks
  cases hl : lookupC ((args.flatMap fun a => a.ind.zip a.chunks).foldl alignStep []) s with
  | none => exact absurd hc0 ((hinv s).1 hl c0)
  | some r => exact ⟨r, rfl, (hinv s).2 r hl⟩

/-- the repaired case: a broadcast input first, a longer single-chunk input second -/
example : alignFalseChunks [⟨[0], [[1]]⟩, ⟨[0], [[4]]⟩] = [(0, [4])] := by decide

/-! ## 5. gufunc loop dimensions -/

/-- **loopDims_right_aligned.** An argument with `n ≤ mx` loop dimensions gets the names `mx-n, …, mx-1`; the output
    gets `0, …, mx-1` (the longest): loop axis `j` of the argument is aligned with output loop axis `j + (mx - n)`. -/
theorem loopDims_right_aligned (mx n j : Nat) (hj : j < n) :
    (loopDims mx n)[j]? = some (j + (mx - n)) ∧ (loopDims mx mx)[j + (mx - n)]? = (if j + (mx - n) < mx then some (j + (mx - n)) else none) := by
  unfold loopDims
  constructor
  · rw [List.getElem?_map, List.getElem?_range hj]; rfl
  · by_cases h : j + (mx - n) < mx
    · rw [List.getElem?_map, List.getElem?_range h]; simp [h]
    · simp [h]

/-- non-vacuity -/
example : arrayLoc [cumsum0 [2, 3, 2]] [1] = some [(2, 5)] ∧ locate [2, 3, 2] 4 = some (1, 2) := by decide
example : product [2, 2] = [[0, 0], [0, 1], [1, 0], [1, 1]] := by decide
example : loopDims 3 2 = [1, 2] := by decide

end Dask.C35
