import DaskModel.Props.C37
import DaskModel.Lemmas.CoMomentLemmas
/-!
# C37 (extension round) — cov / corr, var / sem, nunique, describe equal pandas

For every partitioning of the column(s) (empty partitions included) and every `split_every` (`False`, `None` → 8, any
int ≥ 2) the lowered `Reduction → TreeReduce(Chunk)` computes what pandas computes on the concatenated column(s); all
arithmetic is exact (`Rat`).

* `split_every_irrelevant_inv` — `split_every_irrelevant` for merges that are monoid homomorphisms on WELL-FORMED
  partial results only (a Chan merge divides by the counts; a partial result with count 0 and a non-zero sum would break it):
  an invariant that holds of every chunk result and is preserved by `combine`.
* `cov_eq_pandas` — `DataFrame.cov(min_periods)` entry of two columns: pairwise-complete observations, the cumulative Chan
  merge of `_cov_corr_combine` = the co-moment of the concatenation (`pairCombine_spec`: the partial results live in the
  monoid (n, Σx, Σy, Σxy, Σx², Σy²)), NaN exactly where pandas gives NaN.
* `corr_unnormalised_eq_pandas` / `corr_sq_eq_pandas` — `DataFrame.corr`: dask divides C by √(m_x·m_y); the pair (C, m_x·m_y)
  equals pandas' (covxy, ssqdm_x·ssqdm_y), hence so does the square of the coefficient (and its sign, that of C).
* `var_eq_pandas` — `Series.var(ddof)` (skipna=True): `moment_chunk/combine/agg` as the dataframe reduction calls them.
* `sem_eq_pandas` — `sem² = var(ddof) / count` on both sides.
* `nunique_eq_pandas` — `Series.nunique(dropna, split_out=1)`: per-partition distinct values, concatenated and made
  distinct again, NA counted iff `dropna=False`; `dedup_value_set` gives the count its meaning.
* `describe_exact_eq_pandas` — count, mean (as the exact pair), std² (ddof=1), min, max of `describe` together.
Outside: floating-point rounding, the default `split_out=True` shuffle path of `nunique` (validated against pandas), the
percentiles of describe (approximate by design), mode.
-/
namespace Dask.C37x
open Dask.TreeReduce Dask.Moment Dask.CoMoment Dask.C37

/-- the tree-reduction theorem with an invariant on the partial results (restated from `Lemmas/CoMomentLemmas.lean`) -/
theorem split_every_irrelevant_inv {M β γ ρ : Type} (m : Mon M) (μ : List ρ → M) (hμ : Hom m μ)
    (chunk : List ρ → β) (combine : List β → β) (aggregate : List β → γ) (h : β → M) (fin : M → γ) (Inv : β → Prop)
    (parts : List (List ρ)) (hparts : parts ≠ [])
    (hchunk : ∀ p ∈ parts, Inv (chunk p) ∧ h (chunk p) = μ p)
    (hcomb : ∀ bs, bs ≠ [] → (∀ b ∈ bs, Inv b) → Inv (combine bs) ∧ h (combine bs) = m.fold (bs.map h))
    (hagg : ∀ bs, bs ≠ [] → (∀ b ∈ bs, Inv b) → aggregate bs = fin (m.fold (bs.map h)))
    (se : Option Nat) (hse : ∀ k, se = some k → 2 ≤ k) :
    aca se chunk combine aggregate parts = some (fin (μ parts.flatten)) :=
  Dask.CoMoment.split_every_irrelevant_inv m μ hμ chunk combine aggregate h fin Inv parts hparts hchunk hcomb hagg se hse

/-- **the cumulative Chan merge of `_cov_corr_combine` is exact**: on well-formed partial results (count 0 ⇒ sums and second
    moments 0 — true of every `_cov_corr_chunk` result, `pairChunk_wf`) the combined partial result stands for the SUM of
    (n, Σx, Σy, Σxy, Σx², Σy²) and is well-formed again -/
theorem cov_corr_combine_exact (bs : List CP) (hbs : bs ≠ []) (hwf : ∀ b ∈ bs, WF b) :
    WF (pairCombine bs) ∧ coH (pairCombine bs) = coMon.fold (bs.map coH) := pairCombine_spec bs hbs hwf

/-- a chunk result stands for the sums over the pairwise-complete rows of its partition -/
theorem cov_corr_chunk_exact (p : List PRow) : WF (pairChunk p) ∧ coH (pairChunk p) = coMu p :=
  ⟨pairChunk_wf p, pairChunk_coH p⟩

/-- `moment_combine` (as `Var` calls it) is exact on well-formed partial results -/
theorem moment_combine_exact (ps : List P) (hwf : ∀ p ∈ ps, WFP p) :
    WFP (momCombine ps) ∧ varH (momCombine ps) = varMon.fold (ps.map varH) := momCombine_spec ps hwf

/-! ## cov / corr -/

/-- what `_cov_corr_agg(corr=False)` makes of the monoid value -/
def covFin (minp : Nat) (m : CM) : Option Rat :=
  if m.n < minp then none
  else if m.n ≤ 1 then none
  else some ((m.sxy - m.sx * m.sy / (m.n : Rat)) / ((m.n - 1 : Nat) : Rat))

def corrFin (minp : Nat) (m : CM) : Option (Rat × Rat) :=
  if m.n < minp then none
  else some (m.sxy - m.sx * m.sy / (m.n : Rat), (m.sxx - m.sx * m.sx / (m.n : Rat)) * (m.syy - m.sy * m.sy / (m.n : Rat)))

theorem covAgg_fin (minp : Nat) (bs : List CP) : covAgg minp bs = covFin minp (coH (pairCombine bs)) := by
  simp only [covAgg, covFin, coH]
  by_cases h1 : (pairCombine bs).n < minp
  · simp only [h1, if_true]
  · by_cases h2 : (pairCombine bs).n ≤ 1
    · simp only [h1, h2, if_true, if_false]
    · simp only [h1, h2, if_false]
      simp only [pairCombine, Option.map_some, Option.getD_some]
      congr 2
      ring

theorem corrAgg_fin (minp : Nat) (bs : List CP) : corrAgg minp bs = corrFin minp (coH (pairCombine bs)) := by
  simp only [corrAgg, corrFin, coH]
  by_cases h1 : (pairCombine bs).n < minp
  · simp only [h1, if_true]
  · simp only [h1, if_false]
    simp only [pairCombine, Option.map_some, Option.getD_some]
    refine congrArg some (Prod.ext ?_ ?_)
    · simp only []; ring
    · simp only []; ring

theorem covFin_mu (minp : Nat) (p : List PRow) : covFin minp (coMu p) = covK minp p := by
  simp only [covFin, coMu, covK]
  by_cases h1 : (both p).length < minp
  · simp [h1]
  · by_cases h2 : (both p).length ≤ 1
    · simp [h1, h2]
    · have hne : both p ≠ [] := by intro h0; rw [h0] at h2; simp at h2
      simp only [h1, h2, if_false, false_or]
      rw [codev_mean (both p) hne]

theorem corrFin_mu (minp : Nat) (p : List PRow) : corrFin minp (coMu p) = corrK minp p := by
  simp only [corrFin, coMu, corrK]
  by_cases h1 : (both p).length < minp
  · simp [h1]
  · simp only [h1, if_false]
    by_cases hne : both p = []
    · simp [hne, fsts, snds, codev, sqdev, rsum]
    · have hf : fsts (both p) ≠ [] := by simpa [fsts] using hne
      have hs : snds (both p) ≠ [] := by simpa [snds] using hne
      have e1 := codev_mean (both p) hne
      have e2 := sqdev_mean (fsts (both p)) hf
      have e3 := sqdev_mean (snds (both p)) hs
      rw [length_fsts] at e2
      rw [length_snds] at e3
      rw [e1, e2, e3]

/-- **cov** (one entry of `DataFrame.cov(min_periods)`; the diagonal is the pair of a column with itself) equals pandas for
    every partitioning and every `split_every`; `none` = NaN. -/
theorem cov_eq_pandas (minp : Nat) (parts : List (List PRow)) (hparts : parts ≠ []) (se : Option Nat)
    (hse : ∀ k, se = some k → 2 ≤ k) :
    daskCov se minp parts = some (covK minp parts.flatten) := by
  have := Dask.CoMoment.split_every_irrelevant_inv coMon coMu coMu_hom pairChunk pairCombine (covAgg minp) coH (covFin minp) WF parts hparts
    (fun p _ => ⟨pairChunk_wf p, pairChunk_coH p⟩)
    (fun bs hne hwf => pairCombine_spec bs hne hwf)
    (fun bs hne hwf => by rw [covAgg_fin, (pairCombine_spec bs hne hwf).2])
    se hse
  rw [covFin_mu] at this
  exact this

/-- **corr**, un-normalised: the numerator C and the product under the square root equal pandas' -/
theorem corr_unnormalised_eq_pandas (minp : Nat) (parts : List (List PRow)) (hparts : parts ≠ []) (se : Option Nat)
    (hse : ∀ k, se = some k → 2 ≤ k) :
    daskCorr se minp parts = some (corrK minp parts.flatten) := by
  have := Dask.CoMoment.split_every_irrelevant_inv coMon coMu coMu_hom pairChunk pairCombine (corrAgg minp) coH (corrFin minp) WF parts hparts
    (fun p _ => ⟨pairChunk_wf p, pairChunk_coH p⟩)
    (fun bs hne hwf => pairCombine_spec bs hne hwf)
    (fun bs hne hwf => by rw [corrAgg_fin, (pairCombine_spec bs hne hwf).2])
    se hse
  rw [corrFin_mu] at this
  exact this

/-- **corr²** equals pandas' corr² (NaN where masked by `min_periods` or where a column is constant on the complete rows) -/
theorem corr_sq_eq_pandas (minp : Nat) (parts : List (List PRow)) (hparts : parts ≠ []) (se : Option Nat)
    (hse : ∀ k, se = some k → 2 ≤ k) :
    (daskCorr se minp parts).map corrSq = some (corrSq (corrK minp parts.flatten)) := by
  rw [corr_unnormalised_eq_pandas minp parts hparts se hse]
  rfl

/-! ## var / sem -/

/-- **var(ddof)** (skipna=True) equals pandas for every partitioning and every `split_every`; `none` = NaN (count ≤ ddof) -/
theorem var_eq_pandas (ddof : Nat) (parts : List (List Cell)) (hparts : parts ≠ []) (se : Option Nat)
    (hse : ∀ k, se = some k → 2 ≤ k) :
    daskVar se ddof parts = some (varK ddof parts.flatten) := by
  have := Dask.CoMoment.split_every_irrelevant_inv varMon varMu varMu_hom dfVarChunk momCombine (momAgg ddof) varH (varFin ddof) WFP parts hparts
    (fun p _ => dfVarChunk_spec p)
    (fun bs _ hwf => momCombine_spec bs hwf)
    (fun bs _ hwf => by rw [momAgg_fin, (momCombine_spec bs hwf).2])
    se hse
  rw [varFin_mu] at this
  exact this

/-- **sem(ddof)²** = `var(ddof) / count` equals pandas' -/
theorem sem_eq_pandas (ddof : Nat) (parts : List (List Cell)) (hparts : parts ≠ []) (se : Option Nat)
    (hse : ∀ k, se = some k → 2 ≤ k) :
    daskSemSq se ddof parts = some (semSqK ddof parts.flatten) := by
  simp only [daskSemSq, var_eq_pandas ddof parts hparts se hse, count_eq_pandas parts hparts se hse, semSqK]

/-- the division in `sem` is never by zero when the variance is a number -/
theorem sem_count_pos (ddof : Nat) (p : List Cell) (v : Rat) (h : varK ddof p = some v) : 0 < countK p := by
  simp only [varK, varSpec] at h
  split at h
  · cases h
  · rename_i hlen
    have : (ratValid p).length = countK p := by simp [ratValid, countK]
    omega

/-! ## nunique -/

/-- the list `nunique` counts is duplicate-free and holds exactly the values of the column -/
theorem dedup_value_set (p : List Cell) : (dedup p).Nodup ∧ ∀ k, k ∈ dedup p ↔ k ∈ p :=
  ⟨nodup_dedup p, fun k => mem_dedup k p⟩

/-- **nunique(dropna)** (tree path, `split_out=1`) equals pandas for every partitioning and every `split_every` -/
theorem nunique_eq_pandas (dropna : Bool) (parts : List (List Cell)) (hparts : parts ≠ []) (se : Option Nat)
    (hse : ∀ k, se = some k → 2 ≤ k) :
    daskNunique se dropna parts = some (nuniqueK dropna parts.flatten) := by
  have hfl : ∀ bs : List (List Cell), setMon.fold (bs.map memFn) = memFn bs.flatten := fun bs => Hom.flatten memFn_hom bs
  have key := tree_eq_single_partition setMon memFn memFn_hom dedup List.flatten (nuAgg dropna) memFn parts hparts
    (fun p => memFn_dedup p)
    (fun bs _ => (hfl bs).symm)
    (fun bs bs' _ _ h => by
      rw [hfl, hfl] at h
      exact nuCount_congr dropna (memFn_eq_iff.mp h))
    se hse
  rw [daskNunique, key]
  congr 1
  simp only [nuAgg, nuniqueK]
  apply nuCount_congr
  intro k
  simp [mem_dedup]

/-! ## describe -/

/-- **describe**: count, mean (exact pair), std² (ddof = 1), min, max together equal pandas -/
theorem describe_exact_eq_pandas (parts : List (List Cell)) (hparts : parts ≠ []) (se : Option Nat)
    (hse : ∀ k, se = some k → 2 ≤ k) :
    daskDescribe se parts = some (describeK parts.flatten) := by
  simp only [daskDescribe, count_eq_pandas parts hparts se hse, mean_eq_pandas parts hparts se hse,
    var_eq_pandas 1 parts hparts se hse, min_eq_pandas parts hparts se hse, max_eq_pandas parts hparts se hse, describeK]

/-! ## non-vacuity / concrete evaluations (two tree levels, an empty partition, incomplete rows) -/

example : daskNunique (some 2) true [[some 1, none], [], [some 3, some 1], [none], [some 3]] = some 2 := by decide
example : daskNunique (some 2) false [[some 1, none], [], [some 3, some 1], [none], [some 3]] = some 3 := by decide
example : WF (pairChunk [(some 1, none), (none, some 2)]) := pairChunk_wf _
example : daskCov (some 2) 2 [[(some 1, some 2), (some 2, none)], [], [(some 3, some 1)], [(some 5, some 4)]] = some (some 2) := by
  rw [cov_eq_pandas 2 _ (by decide) (some 2) (by intro k hk; cases hk; omega)]
  decide +kernel
example : covK 2 [(some 1, some 2), (some 2, none), (some 3, some 1), (some 5, some 4)] = some 2 := by decide +kernel
example : ([[(some 1, some 2), (some 2, none)], [], [(some 3, some 1)], [(some 5, some 4)]] : List (List PRow)) ≠ [] := by decide

end Dask.C37x
