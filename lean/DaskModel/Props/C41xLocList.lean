import DaskModel.Lemmas.LocList
import DaskModel.Lemmas.LocListLower
import DaskModel.Lemmas.TruthfulPaths
/-!
C41 extension — `.loc[[labels]]` (`LocList`) and `.loc[scalar]` (`LocElement`) keep known divisions truthful.

Model: `Model/LocList.lean` (transliteration of `indexing._partitions_of_index_values`, `LocList._layer_information`,
`LocList._lower`, `LocIndexer._loc_element`, `LocElement._divisions/_layer/_lower`; `df.loc[[labels]]` on ONE pandas
partition is the parameter-free `pandasLocList`: KeyError for a missing label, otherwise label by label all rows
carrying it — observed on pandas 3.0.5 and diffed on every run).  `none` = the Python code raises.

Statement level: everything below is for every row type, every key function, every division vector, every list of
labels (any order, duplicates, outside the division range, equal to a division) and every partitioning; hypotheses
are on the INPUT only (`Truthful`).
-/
namespace Dask.C41x
open Dask.Divs Dask.LocList

/-- what `.loc[[labels]]` returns, as the code defines the order: output partitions in increasing order of the input
    partition; inside one, label by label in the order the labels were given (a repeated label repeats its rows), all
    rows OF THE FRAME carrying the label, in frame order -/
def locListSpec {α : Type} (key : α → Nat) (parts : List (List α)) (items : List (Nat × List Nat)) : List (List α) :=
  items.map fun e => e.2.flatMap fun l => parts.flatten.filter fun r => key r == l

/-! ### the routing table `_partitions_of_index_values` -/

/-- **routing table, well-formed**: the items are in strictly increasing partition order, every partition number is a
    legal one, no item is empty, each item lists exactly the requested labels routed to it in their order of
    appearance (duplicates kept), and no requested label is dropped. -/
theorem route_items_wf (divs labels : List Nat) (h2 : 2 ≤ divs.length) :
    (routeItems divs labels).Pairwise (fun a b => a.1 < b.1) ∧
    (∀ e ∈ routeItems divs labels, e.1 < divs.length - 1 ∧ e.2 ≠ [] ∧
      e.2 = labels.filter fun v => partitionOf divs v == e.1) ∧
    (∀ v ∈ labels, ∃ e ∈ routeItems divs labels, e.1 = partitionOf divs v ∧ v ∈ e.2) :=
  ⟨routeItems_keys_sorted divs labels,
   fun _ he => let ⟨a, b, c⟩ := mem_routeItems.mp he; ⟨a, c, b⟩,
   fun _ hv => routeItems_covers h2 hv⟩

/-- **every label present in the frame is found in the partition it is routed to** (needs `Truthful` of the input):
    a row of partition `j` is routed to `j`, so the task reading partition `partitionOf divs l` sees every row of the
    frame whose index is `l`. -/
theorem loc_list_label_found {α : Type} (key : α → Nat) (divs : List Nat) (parts : List (List α))
    (h : Truthful key divs parts) :
    (∀ j p r, parts[j]? = some p → r ∈ p → partitionOf divs (key r) = j) ∧
    (∀ r ∈ parts.flatten, ∃ rows, parts[partitionOf divs (key r)]? = some rows ∧ r ∈ rows) ∧
    (∀ l rows, parts[partitionOf divs l]? = some rows →
      parts.flatten.filter (fun r => key r == l) = rows.filter fun r => key r == l) :=
  ⟨fun _ _ _ hp hr => route_of_truthful h hp hr, fun _ hr => label_found h hr, fun l _ hp => rows_of_label h l hp⟩

/-- **a label equal to a division** belongs to the right-hand partition, except the last division (and a duplicated
    last division), which belongs to the last partition: with legal divisions (strictly increasing except possibly the
    last two) the label `divs[i]` is routed to `min i (npartitions - 1)`. -/
theorem route_label_at_division (divs : List Nat) (hv : ValidDivs divs) (i v : Nat) (hi : divs[i]? = some v) :
    partitionOf divs v = min i (divs.length - 2) := by
  obtain ⟨h2, hstrict, hs⟩ := hv
  have hil : i < divs.length := (List.getElem?_eq_some_iff.mp hi).1
  have hb1 : i < bisectRight divs v := (lt_bisectRight_iff hs v i v hi).mpr (Nat.le_refl _)
  have hble := bisectRight_le_length divs v
  unfold partitionOf
  by_cases hlast : i + 2 ≤ divs.length - 1
  · -- `divs[i+1]` is in the strictly increasing part: it is `> v`
    have hi1 : i + 1 < divs.length := by omega
    have hd : divs.dropLast.length = divs.length - 1 := by simp
    have hlt : divs[i] < divs[i + 1] := by
      have := (List.pairwise_iff_getElem.mp hstrict) i (i + 1) (by omega) (by omega) (by omega)
      simpa [List.getElem_dropLast] using this
    have hvi : divs[i] = v := by
      have := List.getElem?_eq_getElem hil
      rw [this] at hi; exact Option.some.inj hi
    have hb2 : ¬ (i + 1 < bisectRight divs v) := by
      rw [lt_bisectRight_iff hs v (i + 1) _ (List.getElem?_eq_getElem hi1)]; omega
    omega
  · omega

/-- **labels outside the division range** are sent to the first / the last partition -/
theorem route_label_outside (divs : List Nat) (d0 dl v : Nat) (hs : divs.Pairwise (· ≤ ·)) (h2 : 2 ≤ divs.length)
    (h0 : divs[0]? = some d0) (hl : divs[divs.length - 1]? = some dl) :
    (v < d0 → partitionOf divs v = 0) ∧ (dl ≤ v → partitionOf divs v = divs.length - 2) := by
  have hble := bisectRight_le_length divs v
  constructor
  · intro hlt
    have : ¬ (0 < bisectRight divs v) := by rw [lt_bisectRight_iff hs v 0 d0 h0]; omega
    unfold partitionOf; omega
  · intro hge
    have : divs.length - 1 < bisectRight divs v := (lt_bisectRight_iff hs v _ dl hl).mpr hge
    unfold partitionOf; omega

/-- **the loop is the closed form**: `for val in values: results[partition_of(val)].append(val)` followed by
    `sorted(results.items())` (`routeLoop`, the transliteration) equals `routeItems`, which the theorems use -/
theorem route_loop_is_closed_form (divs labels : List Nat) (h2 : 2 ≤ divs.length) :
    routeLoop divs labels = routeItems divs labels :=
  routeLoop_eq_routeItems divs labels h2

/-! ### `LocList`: reported divisions -/

/-- **the reported divisions of `.loc[[labels]]` are truthful for the partitions the graph produces** — whenever the
    tasks evaluate; no hypothesis on the frame, the divisions or the labels (the routing is monotone for any division
    vector).  Also: they are strictly increasing up to the closing entry (legal divisions). -/
theorem loc_list_divisions_truthful {α : Type} (key : α → Nat) (divs : List Nat) (parts : List (List α))
    (labels D : List Nat) (out : List (List α))
    (hD : locListDivs (routeItems divs labels) = some D)
    (hout : locListParts key parts (routeItems divs labels) = some out) :
    Truthful key D out ∧ ValidDivs D := by
  obtain ⟨hDlen, hpos, hmin, last, mx, hlast, hmx, hDmx⟩ := locListDivs_spec hD
  obtain ⟨holen, hoget⟩ := allSome_get hout
  -- entry `i < k` of `D` is the minimum of item `i`; entry `k` the maximum of the last item
  have hDi : ∀ (i : Nat) (a : Nat), i < (routeItems divs labels).length → D[i]? = some a →
      ∃ e, (routeItems divs labels)[i]? = some e ∧ a ∈ e.2 ∧ ∀ b ∈ e.2, a ≤ b := by
    intro i a hi ha
    obtain ⟨m, hm, hmm⟩ := hmin i _ (List.getElem?_eq_getElem hi)
    rw [hm] at ha; cases ha
    exact ⟨_, List.getElem?_eq_getElem hi, (min?_spec hmm).1, (min?_spec hmm).2⟩
  have hmxs := max?_spec hmx
  have hstep : ∀ (i j : Nat) (a b : Nat), i < j → D[i]? = some a → D[j]? = some b →
      (j < (routeItems divs labels).length → a < b) ∧ a ≤ b := by
    intro i j a b hij ha hb
    have hj : j < D.length := (List.getElem?_eq_some_iff.mp hb).1
    obtain ⟨e, he, hae, _⟩ := hDi i a (by omega) ha
    by_cases hjk : j < (routeItems divs labels).length
    · obtain ⟨e', he', hbe', _⟩ := hDi j b hjk hb
      have := routeItems_cross_lt hij he he' hae hbe'
      exact ⟨fun _ => this, Nat.le_of_lt this⟩
    · have hjk' : j = (routeItems divs labels).length := by omega
      subst hjk'
      rw [hDmx] at hb; cases hb
      refine ⟨fun h => absurd h (Nat.lt_irrefl _), ?_⟩
      by_cases hil : i = (routeItems divs labels).length - 1
      · subst hil
        rw [hlast] at he; cases he
        exact hmxs.2 a hae
      · exact Nat.le_of_lt (routeItems_cross_lt (by omega) he hlast hae hmxs.1)
  refine ⟨⟨by omega, pairwise_of_getElem? fun i j a b hij ha hb => (hstep i j a b hij ha hb).2, ?_⟩,
          by omega, ?_, pairwise_of_getElem? fun i j a b hij ha hb => (hstep i j a b hij ha hb).2⟩
  · intro i p lo hi hp hlo hhi r hr
    have hi' : i < out.length := (List.getElem?_eq_some_iff.mp hp).1
    have hik : i < (routeItems divs labels).length := by omega
    obtain ⟨o, ho, hfo⟩ := hoget i _ (List.getElem?_eq_getElem hik)
    rw [hp] at ho; cases ho
    rw [Option.bind_eq_some_iff] at hfo
    obtain ⟨rows, _, hpl⟩ := hfo
    have hkr := (mem_pandasLocList hpl hr).2
    obtain ⟨e, he, _, hlo_le⟩ := hDi i lo hik hlo
    rw [List.getElem?_eq_getElem hik] at he; cases he
    refine ⟨hlo_le _ hkr, ?_⟩
    by_cases hnext : i + 1 < (routeItems divs labels).length
    · obtain ⟨e', he', hhie', _⟩ := hDi (i + 1) hi hnext hhi
      exact Or.inl (routeItems_cross_lt (Nat.lt_succ_self i) (List.getElem?_eq_getElem hik) he' hkr hhie')
    · have hi1 : i + 1 = (routeItems divs labels).length := by omega
      rw [hi1, hDmx] at hhi; cases hhi
      have hil : i = (routeItems divs labels).length - 1 := by omega
      rw [← hil, List.getElem?_eq_getElem hik] at hlast; cases hlast
      exact Or.inr ⟨by omega, hmxs.2 _ hkr⟩
  · -- strictly increasing before the closing entry
    apply pairwise_of_getElem?
    intro i j a b hij ha hb
    have hj : j < D.dropLast.length := (List.getElem?_eq_some_iff.mp hb).1
    have hdl : D.dropLast.length = D.length - 1 := by simp
    rw [List.getElem?_dropLast] at ha hb
    have hj' : j < D.length - 1 := by omega
    have hi'' : i < D.length - 1 := by omega
    simp only [hj', hi'', if_true] at ha hb
    exact (hstep i j a b hij ha hb).1 (by omega)

/-! ### `LocList`: the full statement -/

/-- FULL STATEMENT for `.loc[[labels]]` on a frame with truthful known divisions -/
def LocListStatement : Prop :=
  ∀ (α : Type) (key : α → Nat) (divs : List Nat) (parts : List (List α)) (labels D : List Nat)
    (out : List (List α)),
    Truthful key divs parts →
    locListDivs (routeItems divs labels) = some D →
    locListParts key parts (routeItems divs labels) = some out →
    -- the output's reported divisions are truthful for the output partitions
    Truthful key D out ∧
    -- rows and their order: every label fetched ALL rows of the frame carrying it (none is missed in another partition)
    out = locListSpec key parts (routeItems divs labels) ∧
    -- the computation only succeeds when every requested label is in the frame
    (∀ l ∈ labels, ∃ r ∈ parts.flatten, key r = l)

/-- **`.loc[[labels]]` keeps divisions truthful and finds every label** -/
theorem loc_list_truthful : LocListStatement := by
  intro α key divs parts labels D out h hD hout
  obtain ⟨_, hpos, _⟩ := locListDivs_spec hD
  have h2 : 2 ≤ divs.length := by
    apply Nat.le_of_not_lt
    intro hlt
    have : routeItems divs labels = [] := by
      unfold routeItems
      have : divs.length - 1 = 0 := by omega
      rw [this]; rfl
    rw [this] at hpos; simp at hpos
  obtain ⟨holen, hoget⟩ := allSome_get hout
  refine ⟨(loc_list_divisions_truthful key divs parts labels D out hD hout).1, ?_, ?_⟩
  · unfold locListSpec
    apply List.ext_getElem?
    intro i
    rw [List.getElem?_map]
    cases hi : (routeItems divs labels)[i]? with
    | none =>
      rw [Option.map_none]
      rw [List.getElem?_eq_none_iff] at hi ⊢
      omega
    | some e =>
      obtain ⟨o, ho, hfo⟩ := hoget i e hi
      rw [ho, Option.map_some]
      congr 1
      rw [Option.bind_eq_some_iff] at hfo
      obtain ⟨rows, hrows, hpl⟩ := hfo
      obtain ⟨_, rfl⟩ := pandasLocList_eq_some hpl
      apply flatMap_congr'
      intro l hl
      have hroute := (routeItems_label (List.mem_of_getElem? hi) hl).2
      rw [← hroute] at hrows
      exact (rows_of_label h l hrows).symm
  · intro l hl
    obtain ⟨e, he, _, hle⟩ := routeItems_covers h2 hl
    obtain ⟨i, hi, hie⟩ := List.mem_iff_getElem.mp he
    obtain ⟨o, _, hfo⟩ := hoget i e (by rw [List.getElem?_eq_getElem hi, hie])
    rw [Option.bind_eq_some_iff] at hfo
    obtain ⟨rows, hrows, hpl⟩ := hfo
    obtain ⟨hall, _⟩ := pandasLocList_eq_some hpl
    obtain ⟨r, hr, hk⟩ := hall l hle
    exact ⟨r, List.mem_flatten.mpr ⟨rows, List.mem_of_getElem? hrows, hr⟩, hk⟩

/-- **totality**: on a truthful frame, if every requested label (at least one) occurs in the frame, `LocList` reports
    known divisions and every task evaluates (no KeyError: the label IS in the partition it is routed to) -/
theorem loc_list_total {α : Type} (key : α → Nat) (divs : List Nat) (parts : List (List α)) (labels : List Nat)
    (h : Truthful key divs parts) (hne : labels ≠ []) (hall : ∀ l ∈ labels, ∃ r ∈ parts.flatten, key r = l) :
    ∃ D out, locListDivs (routeItems divs labels) = some D ∧
      locListParts key parts (routeItems divs labels) = some out := by
  have h2 : 2 ≤ divs.length := by
    cases labels with
    | nil => exact absurd rfl hne
    | cons l rest =>
      obtain ⟨r, hr, _⟩ := hall l (by simp)
      have : parts ≠ [] := by intro hp; rw [hp] at hr; simp at hr
      have := List.length_pos_iff.mpr this
      have := h.1
      omega
  have hparts : ∀ e ∈ routeItems divs labels,
      ((parts[e.1]?).bind fun rows => pandasLocList key rows e.2) =
        some (e.2.flatMap fun l => parts.flatten.filter fun r => key r == l) := by
    intro e he
    obtain ⟨hlt, _, _⟩ := mem_routeItems.mp he
    have hlt' : e.1 < parts.length := by have := h.1; omega
    rw [List.getElem?_eq_getElem hlt', Option.bind_some]
    rw [pandasLocList_of_present]
    · congr 1
      apply flatMap_congr'
      intro l hl
      have hroute := (routeItems_label he hl).2
      have hrows : parts[partitionOf divs l]? = some parts[e.1] := by
        rw [hroute]; exact List.getElem?_eq_getElem hlt'
      exact (rows_of_label h l hrows).symm
    · intro l hl
      obtain ⟨hmem, hroute⟩ := routeItems_label he hl
      obtain ⟨r, hr, hk⟩ := hall l hmem
      obtain ⟨rows, hrows, hrr⟩ := label_found h hr
      rw [hk, hroute, List.getElem?_eq_getElem hlt'] at hrows
      cases hrows
      exact ⟨r, hrr, hk⟩
  have hout : locListParts key parts (routeItems divs labels) =
      some (locListSpec key parts (routeItems divs labels)) := by
    unfold locListParts locListSpec
    rw [← allSome_map_some ((routeItems divs labels).map _), List.map_map]
    congr 1
    apply List.map_congr_left
    intro e he
    exact hparts e he
  have hitems := routeItems_ne_nil h2 hne
  -- the divisions: every item is non-empty, so `sorted(indexer)[0]` / `[-1]` exist
  have hmins : ∃ mins, allSome ((routeItems divs labels).map fun e => e.2.min?) = some mins := by
    have : ∀ e ∈ routeItems divs labels, ∃ m, e.2.min? = some m := by
      intro e he
      obtain ⟨_, _, hnil⟩ := mem_routeItems.mp he
      cases hm : e.2.min? with
      | none => rw [List.min?_eq_none_iff] at hm; exact absurd hm hnil
      | some m => exact ⟨m, rfl⟩
    generalize routeItems divs labels = items at this
    induction items with
    | nil => exact ⟨[], rfl⟩
    | cons a rest ih =>
      obtain ⟨m, hm⟩ := this a (by simp)
      obtain ⟨ms, hms⟩ := ih fun e he => this e (by simp [he])
      exact ⟨m :: ms, by simp [allSome, hm, hms]⟩
  obtain ⟨mins, hmins⟩ := hmins
  cases hlast : (routeItems divs labels).getLast? with
  | none => rw [List.getLast?_eq_none_iff] at hlast; exact absurd hlast hitems
  | some last =>
    have hlm : last ∈ routeItems divs labels := List.mem_of_getLast? hlast
    obtain ⟨_, _, hnil⟩ := mem_routeItems.mp hlm
    cases hmx : last.2.max? with
    | none => rw [List.max?_eq_none_iff] at hmx; exact absurd hmx hnil
    | some mx =>
      refine ⟨mins ++ [mx], _, ?_, hout⟩
      unfold locListDivs
      rw [hlast]
      simp only [hmins, hmx]

/-- **a label that is not in the frame** (for instance one outside the division range, or an interior division that
    no row carries) makes the computation raise — pandas' KeyError on the partition the label was routed to -/
theorem loc_list_missing_raises {α : Type} (key : α → Nat) (divs : List Nat) (parts : List (List α))
    (labels : List Nat) (h2 : 2 ≤ divs.length) (l : Nat) (hl : l ∈ labels) (hmiss : ∀ r ∈ parts.flatten, key r ≠ l) :
    locListParts key parts (routeItems divs labels) = none := by
  obtain ⟨e, he, _, hle⟩ := routeItems_covers h2 hl
  unfold locListParts
  apply allSome_eq_none
  rw [List.mem_map]
  refine ⟨e, he, ?_⟩
  cases hp : parts[e.1]? with
  | none => rfl
  | some rows =>
    rw [Option.bind_some]
    refine pandasLocList_missing key rows e.2 hle ?_
    intro r hr
    exact hmiss r (List.mem_flatten.mpr ⟨rows, List.mem_of_getElem? hp, hr⟩)

/-- labels beyond the divisions of a truthful frame are never in it: `.loc[[…, l, …]]` raises at compute time -/
theorem loc_list_outside_raises {α : Type} (key : α → Nat) (divs : List Nat) (parts : List (List α))
    (labels : List Nat) (d0 dl l : Nat) (h : Truthful key divs parts) (h2 : 2 ≤ divs.length)
    (h0 : divs[0]? = some d0) (hdl : divs[divs.length - 1]? = some dl) (hl : l ∈ labels) (hout : l < d0 ∨ dl < l) :
    locListParts key parts (routeItems divs labels) = none := by
  apply loc_list_missing_raises key divs parts labels h2 l hl
  intro r hr hk
  rw [List.mem_flatten] at hr
  obtain ⟨p, hp, hrp⟩ := hr
  obtain ⟨j, hj, hjp⟩ := List.mem_iff_getElem.mp hp
  obtain ⟨hlen, hs, hrows⟩ := h
  have hlo : divs[j]? = some divs[j] := List.getElem?_eq_getElem (by omega)
  have hhi : divs[j + 1]? = some divs[j + 1] := List.getElem?_eq_getElem (by omega)
  obtain ⟨h1, h2'⟩ := hrows j p _ _ (by rw [List.getElem?_eq_getElem hj, hjp]) hlo hhi r hrp
  have hd0 : d0 ≤ divs[j] := by
    rcases Nat.eq_zero_or_pos j with rfl | hjpos
    · rw [List.getElem?_eq_getElem (by omega)] at h0; cases h0; exact Nat.le_refl _
    · have := (List.pairwise_iff_getElem.mp hs) 0 j (by omega) (by omega) hjpos
      rw [List.getElem?_eq_getElem (by omega)] at h0; cases h0; exact this
  have hdl' : divs[j + 1] ≤ dl := by
    rw [List.getElem?_eq_getElem (by omega)] at hdl; cases hdl
    rcases Nat.lt_or_ge (j + 1) (divs.length - 1) with hlt | hge
    · exact (List.pairwise_iff_getElem.mp hs) (j + 1) (divs.length - 1) (by omega) (by omega) hlt
    · have : j + 1 = divs.length - 1 := by omega
      simp [this]
  rcases h2' with h3 | ⟨_, h3⟩ <;> omega

/-! ### `LocList._lower` -/

/-- **lowering does not re-route**: `LocList._lower` selects exactly the partitions that received a label, and the
    lowered expression — which routes the labels AGAIN, by the divisions `Partitions._divisions` reports for the
    selection — sends every label to the position of its original partition: item `j` is `(j, labels of item j)`. -/
theorem loc_list_lower_routing (divs labels sel d' : List Nat) (items' : List (Nat × List Nat))
    (hs : divs.Pairwise (· ≤ ·)) (h2 : 2 ≤ divs.length) (hne : labels ≠ [])
    (h : locListLowered divs labels = some (sel, d', items')) :
    sel = (routeItems divs labels).map (·.1) ∧ partitionsDivs divs sel = some d' ∧
    items'.length = (routeItems divs labels).length ∧
    ∀ (j : Nat) (e : Nat × List Nat), (routeItems divs labels)[j]? = some e → items'[j]? = some (j, e.2) :=
  lowered_items hs h2 hne h

/-- **the lowered graph computes what the unlowered one does and reports the same divisions** -/
theorem loc_list_lower_same_result {α : Type} (key : α → Nat) (divs : List Nat) (parts parts' : List (List α))
    (labels sel d' : List Nat) (items' : List (Nat × List Nat))
    (hs : divs.Pairwise (· ≤ ·)) (h2 : 2 ≤ divs.length) (hne : labels ≠ [])
    (h : locListLowered divs labels = some (sel, d', items')) (hp : partitionsParts parts sel = some parts') :
    locListDivs items' = locListDivs (routeItems divs labels) ∧
    locListParts key parts' items' = locListParts key parts (routeItems divs labels) := by
  obtain ⟨hsel, _, hlen, hget⟩ := lowered_items hs h2 hne h
  constructor
  · apply locListDivs_congr
    apply List.ext_getElem?
    intro j
    rw [List.getElem?_map, List.getElem?_map]
    cases hj : (routeItems divs labels)[j]? with
    | none =>
      have : items'[j]? = none := by
        rw [List.getElem?_eq_none_iff] at hj ⊢; omega
      rw [this]
    | some e => rw [hget j e hj]; rfl
  · unfold locListParts
    congr 1
    apply List.ext_getElem?
    intro j
    rw [List.getElem?_map, List.getElem?_map]
    cases hj : (routeItems divs labels)[j]? with
    | none =>
      have : items'[j]? = none := by
        rw [List.getElem?_eq_none_iff] at hj ⊢; omega
      rw [this]; rfl
    | some e =>
      rw [hget j e hj, Option.map_some, Option.map_some]
      congr 1
      have hsj : sel[j]? = some e.1 := by
        rw [hsel, List.getElem?_map, hj]; rfl
      unfold partitionsParts at hp
      obtain ⟨_, hpget⟩ := mapM_getElem? _ sel parts' hp
      obtain ⟨y, hy, hpy⟩ := hpget j e.1 hsj
      simp only [hy, hpy]

/-! ### `LocElement` -/

/-- FULL STATEMENT for `.loc[x]` on a frame with truthful known divisions -/
def LocElementStatement : Prop :=
  ∀ (α : Type) (key : α → Nat) (divs : List Nat) (parts : List (List α)) (x part : Nat) (D : List Nat)
    (out : List (List α)),
    Truthful key divs parts →
    locElement divs x = some (part, D) → locElementParts key parts part x = some out →
    part = partitionOf divs x ∧ D = [x, x] ∧
    Truthful key D out ∧
    -- the single partition read holds every row of the frame with index `x`, and they come out in frame order
    out = [parts.flatten.filter fun r => key r == x]

/-- **`.loc[x]` reports `(x, x)` truthfully and finds every row labelled `x`** (an empty result when no row carries
    `x`; a label outside `[divisions[0], divisions[-1]]` is refused before — `locElement = none`) -/
theorem loc_element_truthful : LocElementStatement := by
  intro α key divs parts x part D out h hel hparts
  unfold locElement at hel
  split at hel
  · rename_i d0 dl _ _
    split at hel
    · cases hel
    · simp only [Option.some.injEq, Prod.mk.injEq] at hel
      obtain ⟨rfl, rfl⟩ := hel
      unfold locElementParts at hparts
      simp only [Option.map_eq_some_iff] at hparts
      obtain ⟨rows, hrows, rfl⟩ := hparts
      have hfil : locRows key rows (some x) (some x) = rows.filter fun r => key r == x := by
        unfold locRows
        apply List.filter_congr
        intro r _
        rw [Bool.eq_iff_iff]
        simp only [Bool.and_eq_true, decide_eq_true_eq, beq_iff_eq]
        omega
      refine ⟨rfl, rfl, ?_, ?_⟩
      · refine ⟨rfl, by simp, ?_⟩
        intro i p lo hi hp hlo hhi r hr
        cases i with
        | zero =>
          simp only [List.getElem?_cons_zero, Option.some.injEq] at hp hlo
          simp only [List.getElem?_cons_succ, List.getElem?_cons_zero, Option.some.injEq] at hhi
          subst hp hlo hhi
          rw [hfil, List.mem_filter] at hr
          have : key r = x := by simpa using hr.2
          exact ⟨by omega, Or.inr ⟨rfl, by omega⟩⟩
        | succ i => simp at hp
      · rw [hfil, rows_of_label h x hrows]
  · cases hel

/-- `_loc_element` accepts exactly the labels inside `[divisions[0], divisions[-1]]` -/
theorem loc_element_guard (divs : List Nat) (d0 dl x : Nat) (h0 : divs.head? = some d0) (hl : divs.getLast? = some dl) :
    (locElement divs x).isSome ↔ d0 ≤ x ∧ x ≤ dl := by
  unfold locElement
  rw [h0, hl]
  simp only
  by_cases hx : x < d0 ∨ dl < x
  · simp [hx]; omega
  · simp [hx]; omega

/-- `LocElement._lower` keeps the routing: in the one-partition frame `Partitions(frame, [part])` the label is
    routed to partition `0`, whatever its divisions are -/
theorem loc_element_lower_routing (lo hi x : Nat) : partitionOf [lo, hi] x = 0 := by
  unfold partitionOf; simp

/-! ### non-vacuity and witnesses (kernel-evaluated) -/

example : routeItems [0, 5, 10, 15] [7, 2, 12, 0] = [(0, [2, 0]), (1, [7]), (2, [12])] := by decide
example : routeLoop [0, 5, 10, 15] [7, 2, 12, 0] = [(0, [2, 0]), (1, [7]), (2, [12])] := by decide
example : locListDivs (routeItems [0, 5, 10, 15] [7, 2, 12, 0]) = some [0, 7, 12, 12] := by decide
-- duplicated labels repeat their rows; the first partition is NOT sorted inside (label order), still truthful
example : locListParts (fun (k : Nat) => k) [[0, 2, 2, 4], [5, 7], [10, 12, 15, 15]]
    (routeItems [0, 5, 10, 15] [7, 2, 12, 0, 2]) = some [[2, 2, 0, 2, 2], [7], [12]] := by decide
example : Truthful (fun (k : Nat) => k) [0, 5, 10, 15] [[0, 2, 2, 4], [5, 7], [10, 12, 15, 15]] :=
  (truthfulB_iff _ _).mp (by decide)
-- labels equal to interior divisions go right, the last division stays in the last partition
example : routeItems [0, 5, 10, 15] [5, 10, 15] = [(1, [5]), (2, [10, 15])] := by decide
-- duplicated last division: the closing single-value partition receives the label
example : routeItems [0, 5, 5] [5, 4, 5] = [(0, [4]), (1, [5, 5])] := by decide
-- outside the range: routed to the ends, and the computation raises
example : routeItems [3, 7] [1, 9, 7, 3] = [(0, [1, 9, 7, 3])] := by decide
example : locListParts (fun (k : Nat) => k) [[0, 4], [7]] (routeItems [0, 5, 10] [12, 4]) = none := by decide
-- a division that no row carries: KeyError
example : locListParts (fun (k : Nat) => k) [[0, 4], [7]] (routeItems [0, 5, 10] [4, 5]) = none := by decide
-- no label: unknown divisions
example : locListDivs (routeItems [0, 5, 10, 15] []) = none := by decide
example : locElement [0, 5, 10, 15] 15 = some (2, [15, 15]) := by decide
example : locElement [0, 5, 10, 15] 5 = some (1, [5, 5]) := by decide
example : locElement [0, 5, 10, 15] 20 = none := by decide
example : locElementParts (fun (k : Nat) => k) [[0, 2, 2, 4], [5, 7], [10, 12, 15, 15]] 0 2 = some [[2, 2]] := by decide
example : locElementParts (fun (k : Nat) => k) [[0, 2, 2, 4], [5, 7], [10, 12, 15, 15]] 0 3 = some [[]] := by decide
example : locListLowered [0, 5, 10, 15] [2, 12] = some ([0, 2], [0, 10, 15], [(0, [2]), (1, [12])]) := by decide

end Dask.C41x
