import DaskModel.Lemmas.KeySplitToken
import DaskModel.Lemmas.CtorNames
import DaskModel.Props.C13Fuse
/-!
# C13 (extension) — names: `key_split` connected to the fused-key renamer, and the names of the constructors

Part (a).  `Props/C13Fuse.lean` proves the renamer facts over an ABSTRACT `key_split` (the prefixes are parameters);
`dask.utils.key_split` itself is modelled for C18 (`Model/KeySplit.lean`).  `Model/KeyName.lean` composes the two
(`renamer` = `default_fused_keys_renamer` on keys, computing the prefixes itself) and this file proves what the renamer
needs of `key_split`:

* `key_split_token_stripped` / `_tuple` — a key `prefix-token` (32 hex characters holding a digit; str key or tuple
  key) splits back to `prefix`; `key_split_strips_general` is the same in the generality of the source (only the first
  CHARACTER of the first word is tested; names starting with `_` are cleaned);
* `all_letter_token_not_stripped` — the side condition is needed: a token made of the letters a–f only is taken for a
  word and stays in the prefix (probability `(6/16)^32` per token; harmless for the fused KEY, see next point);
* `renamer_generated` — the fused key of a chain of generated keys is made of the PREFIXES of the lower keys and the
  full top key: the tokens of the lower keys do not occur in it (`fused_name_ignores_lower_tokens`);
* `names_with_distinct_tokens_stay_distinct_after_fusion` — two fused chains whose top keys differ in their tokens
  get different fused keys (whatever their lower keys), for every digest that separates the joined names at hand.

Part (b).  `Model/CtorNames.lean` gives, for from_array / from_sequence / bag.from_delayed / array.from_delayed /
delayed(pure=True) leaf and call / elemwise / blockwise, the prefix and the argument tuple the source hands to
`tokenize`.  `constructor_names_determine_args`: equal names ⇒ equal prefix and observably equal argument tuples (and
keyword arguments key by key), relative to C12's `norm_injective` and a digest that separates the hashed values at
hand; `constructor_name_iff` is the equivalence (`token_iff_obsEq`) for well-formed arguments; the per-constructor
corollaries read the tuple back into the constructor's own parameters.
-/
namespace Dask.C13x
open Dask.KeySplit Dask.KeyName Dask.KeySplitTok Dask.FusedKey Dask.C13Fuse Dask.CtorNames Dask.NF

/-! ## (a) key_split on generated keys -/

/-- **A str key `prefix-token` splits back to its prefix.** -/
theorem key_split_token_stripped (p t : Name) (hp : WellNamed p) (ht : GoodTok t) :
    keySplitKey (.str (mkName p t)) = p := by
  simp only [keySplitKey, Key.name, keySplitName, keySplitCore_mkName p t hp ht]

/-- tuple keys `(prefix-token, i, j, …)` are split by their first element -/
theorem key_split_token_stripped_tuple (p t : Name) (idx : List Int) (hp : WellNamed p) (ht : GoodTok t) :
    keySplitKey (.tup (mkName p t) idx) = p := by
  simp only [keySplitKey, Key.name, keySplitName, keySplitCore_mkName p t hp ht]

/-- the same in the generality of the source: the first word `c0 :: r0` is only tested at its first character; what
    `key_split` starts from (`startOf`: the word itself, or its cleaned first comma piece when `c0` is no letter) must be
    non-empty and must not start with `<`; then the kept words follow and the token is dropped -/
theorem key_split_strips_general (c0 : Char) (r0 : List Char) (ws : List (List Char)) (t : Name)
    (hnd0 : '-' ∉ c0 :: r0) (hws : ∀ w ∈ ws, C18.Keeps w) (ht : GoodTok t)
    (d0 : Char) (rest : List Char) (hstart : startOf c0 (c0 :: r0) = d0 :: rest) (hlt : d0 ≠ '<')
    (hdata : ¬ IsToken (d0 :: rest ++ C18.tailJoin ws)) :
    keySplitName (mkName (C18.joinDash ((c0 :: r0) :: ws)) t) = d0 :: rest ++ C18.tailJoin ws := by
  rw [mkName_joinDash]
  simp only [keySplitName, key_split_strips c0 r0 ws [] t hnd0 hws (token_not_kept t ht.2)
    ⟨token_no_dash t ht.1, by simp⟩ d0 rest hstart hlt hdata]

/-- non-vacuity: `from_sequence`, `bag-from-delayed`, `array` are well-named prefixes, a real token is a good token;
    a private function name loses its underscore -/
example : WellNamed "bag-from-delayed".toList ∧ WellNamed "from_sequence".toList ∧ WellNamed "array".toList ∧
    GoodTok "ae05086432ca935f6eba409a8ecd4896".toList := by
  refine ⟨⟨⟨'b', "ag".toList, ["from".toList, "delayed".toList], by decide, by decide, by decide, ?_⟩, by unfold IsToken; decide⟩,
    ⟨⟨'f', "rom_sequence".toList, [], by decide, by decide, by decide, by simp⟩, by unfold IsToken; decide⟩,
    ⟨⟨'a', "rray".toList, [], by decide, by decide, by decide, by simp⟩, by unfold IsToken; decide⟩,
    ⟨by unfold IsToken; decide, by decide⟩⟩
  intro w hw
  simp only [List.mem_cons, List.not_mem_nil, or_false] at hw
  rcases hw with rfl | rfl <;> (unfold C18.Keeps; decide)

example : keySplitName "from_sequence-ae05086432ca935f6eba409a8ecd4896".toList = "from_sequence".toList ∧
    keySplitName "_p_tag-ae05086432ca935f6eba409a8ecd4896".toList = "p_tag".toList ∧
    keySplitName "bag-from-delayed-ae05086432ca935f6eba409a8ecd4896".toList = "bag-from-delayed".toList := by decide

/-- the digit in the token is needed: a token that consists of the letters a–f only is taken for one more word of the
    name (`word.isalpha()`, and it is not 8 long) and stays in the prefix -/
theorem all_letter_token_not_stripped :
    IsToken "abcdefabcdefabcdefabcdefabcdefab".toList ∧
    keySplitName (mkName "x".toList "abcdefabcdefabcdefabcdefabcdefab".toList) = "x-abcdefabcdefabcdefabcdefabcdefab".toList := by
  unfold IsToken; decide

/-! ## (a) the renamer on generated keys -/

/-- a key as the collection constructors make them: `prefix-token`, as a str key or as the head of a tuple key -/
structure GKey where
  pre : Name
  tok : Name
  idx : Option (List Int)

def GKey.key (g : GKey) : Key :=
  match g.idx with
  | none => .str (mkName g.pre g.tok)
  | some i => .tup (mkName g.pre g.tok) i

def GKey.ok (g : GKey) : Prop := WellNamed g.pre ∧ GoodTok g.tok

theorem GKey.split (g : GKey) (h : g.ok) : keySplitKey g.key = g.pre := by
  unfold GKey.key
  cases g.idx with
  | none => exact key_split_token_stripped g.pre g.tok h.1 h.2
  | some i => exact key_split_token_stripped_tuple g.pre g.tok i h.1 h.2

theorem GKey.key_name (g : GKey) : g.key.name = mkName g.pre g.tok := by
  unfold GKey.key
  cases g.idx <;> rfl

theorem map_split (low : List GKey) (hl : ∀ g ∈ low, g.ok) : (low.map GKey.key).map keySplitKey = low.map GKey.pre := by
  induction low with
  | nil => rfl
  | cons g r ih =>
    simp only [List.map_cons, List.cons.injEq]
    exact ⟨g.split (hl g (by simp)), ih (fun x hx => hl x (List.mem_cons_of_mem _ hx))⟩

/-- the joined (not yet cut) name of a chain of generated keys: prefixes of the lower keys, full top key -/
def joined (low : List GKey) (top : GKey) : Name :=
  concatName (low.reverse.map GKey.pre) top.pre (mkName top.pre top.tok)

/-- **`default_fused_keys_renamer` on generated keys, with `key_split` computed by the model**: the fused key is the top
    key renamed to the (possibly cut) join of the lower keys' PREFIXES and the full top name -/
theorem renamer_generated (h : Name → Name) (thr keep : Nat) (low : List GKey) (top : GKey)
    (hl : ∀ g ∈ low, g.ok) (ht : top.ok) :
    renamer h thr keep (low.map GKey.key ++ [top.key]) = some (top.key.withName (enforce h thr keep (joined low top))) := by
  unfold renamer
  simp only [List.reverse_append, List.reverse_cons, List.reverse_nil, List.nil_append, List.cons_append]
  rw [← List.map_reverse, map_split low.reverse (fun g hg => hl g (by simpa using hg)), top.split ht, top.key_name]
  rfl

/-- the tokens of the lower keys do not reach the fused key: chains with the same prefixes below the same top key are
    fused under the same key (that the top token stands for the lower inputs as well is part (b) and C12) -/
theorem fused_name_ignores_lower_tokens (h : Name → Name) (thr keep : Nat) (low low' : List GKey) (top : GKey)
    (hl : ∀ g ∈ low, g.ok) (hl' : ∀ g ∈ low', g.ok) (ht : top.ok) (hpre : low.map GKey.pre = low'.map GKey.pre) :
    renamer h thr keep (low.map GKey.key ++ [top.key]) = renamer h thr keep (low'.map GKey.key ++ [top.key]) := by
  rw [renamer_generated h thr keep low top hl ht, renamer_generated h thr keep low' top hl' ht]
  unfold joined
  rw [List.map_reverse, List.map_reverse, hpre]

theorem withName_name (k : Key) (n : Name) : (k.withName n).name = n := by cases k <;> rfl

theorem lastN_token (p t : Name) (ht : IsToken t) : lastN 32 (mkName p t) = t := by
  have : mkName p t = (p ++ ['-']) ++ t := by simp [mkName]
  rw [this, lastN_append 32 _ t (by rw [ht.1]; exact Nat.le_refl _)]
  unfold lastN
  rw [ht.1]
  rfl

/-- **Two fused chains whose top keys differ in their tokens get different fused keys** — whatever the lower keys,
    str or tuple keys, names cut or not — for every fixed-length digest that separates the joined names at hand
    (`DigestOK`, satisfied by the limits of the source: `C13Fuse.source_limits_ok`) -/
theorem names_with_distinct_tokens_stay_distinct_after_fusion (S : Name → Prop) (h : Name → Name) (thr keep D : Nat)
    (ok : DigestOK S h thr keep D) (low low' : List GKey) (top top' : GKey)
    (hl : ∀ g ∈ low, g.ok) (hl' : ∀ g ∈ low', g.ok) (ht : top.ok) (ht' : top'.ok)
    (hs : S (joined low top)) (hs' : S (joined low' top')) (htok : top.tok ≠ top'.tok) :
    renamer h thr keep (low.map GKey.key ++ [top.key]) ≠ renamer h thr keep (low'.map GKey.key ++ [top'.key]) := by
  rw [renamer_generated h thr keep low top hl ht, renamer_generated h thr keep low' top' hl' ht']
  intro he
  have hn := congrArg Key.name (Option.some.inj he)
  rw [withName_name, withName_name] at hn
  have hlen : ∀ g : GKey, g.ok → 32 ≤ (mkName g.pre g.tok).length := by
    intro g hg
    simp only [mkName, List.length_append, List.length_cons, hg.2.1.1]
    omega
  refine fused_keys_distinct S h thr keep D 32 ok _ _ _ _ _ _ hs hs' (hlen top ht) (hlen top' ht') ?_ hn
  rw [lastN_token _ _ ht.2.1, lastN_token _ _ ht'.2.1]
  exact htok

/-! non-vacuity: two bag pipelines `from_sequence → map(score)` over different data, tuple keys, threshold 40 (names cut,
    32 characters kept); the toy digest keeps the last 8 characters -/

def tokA : Name := "ae05086432ca935f6eba409a8ecd4896".toList
def tokB : Name := "0b1c2d3e4f5a6b7c8d9e0f1a2b3c4d5e".toList
def lowA : GKey := ⟨"from_sequence".toList, "11111111111111111111111111111111".toList, some [0]⟩
def topA : GKey := ⟨"score".toList, tokA, some [0]⟩
def topB : GKey := ⟨"score".toList, tokB, some [0]⟩

theorem wn_from_sequence : WellNamed "from_sequence".toList :=
  ⟨⟨'f', "rom_sequence".toList, [], by decide, by decide, by decide, by simp⟩, by unfold IsToken; decide⟩
theorem wn_score : WellNamed "score".toList :=
  ⟨⟨'s', "core".toList, [], by decide, by decide, by decide, by simp⟩, by unfold IsToken; decide⟩
theorem lowA_ok : lowA.ok := ⟨wn_from_sequence, by unfold IsToken; decide, by decide⟩
theorem topA_ok : topA.ok := ⟨wn_score, by unfold IsToken; decide, by decide⟩
theorem topB_ok : topB.ok := ⟨wn_score, by unfold IsToken; decide, by decide⟩

theorem toy_ok : DigestOK (fun c => c = joined [lowA] topA ∨ c = joined [lowA] topB) (lastN 8) 40 32 8 where
  inj := by
    intro a b ha hb hab
    rcases ha with rfl | rfl <;> rcases hb with rfl | rfl
    · rfl
    · exact absurd hab (by decide)
    · exact absurd hab (by decide)
    · rfl
  len := by
    intro a ha
    rcases ha with rfl | rfl <;> decide
  keep_le := by decide
  longer := by decide

example : renamer (lastN 8) 40 32 ([lowA].map GKey.key ++ [topA.key]) ≠ renamer (lastN 8) 40 32 ([lowA].map GKey.key ++ [topB.key]) :=
  names_with_distinct_tokens_stay_distinct_after_fusion _ (lastN 8) 40 32 8 toy_ok [lowA] [lowA] topA topB
    (by intro g hg; simp only [List.mem_singleton] at hg; subst hg; exact lowA_ok)
    (by intro g hg; simp only [List.mem_singleton] at hg; subst hg; exact lowA_ok)
    topA_ok topB_ok (Or.inl rfl) (Or.inr rfl) (by decide)

example : renamer (lastN 8) 40 32 ([lowA].map GKey.key ++ [topA.key])
    = some (.tup "from_sequence-score-ae05086432ca-8ecd4896".toList [0]) := by decide

/-! ## (b) the names of the collection constructors -/

/-- what is assumed of the digest (`md5 ∘ str`) on the hashed values `S` at hand: it tells them apart and gives 32
    characters (no function into fixed-length strings is injective on all values: the trust put into tokens, C12) -/
structure HashOK (S : Val → Prop) (H : Val → List Char) : Prop where
  inj : ∀ a b, S a → S b → H a = H b → a = b
  len : ∀ a, S a → (H a).length = 32

/-- **Equal names ⇒ equal prefix, observably equal argument tuples, and keyword arguments that agree key by key**
    (in whatever order they were written) -/
theorem constructor_names_determine_args (S : Val → Prop) (H : Val → List Char) (ok : HashOK S H) (c c' : Call)
    (hs : S c.nf) (hs' : S c'.nf) (h : c.name H = c'.name H) :
    c.pre = c'.pre ∧ ObsEqL c.args c'.args ∧ KwRel c.kwargs c'.kwargs := by
  unfold Call.name at h
  have hl := congrArg List.length h
  simp only [List.length_append, List.length_cons, ok.len _ hs, ok.len _ hs'] at hl
  have := List.append_inj h (by omega)
  have hnf := ok.inj _ _ hs hs' (List.cons.inj this.2).2
  exact ⟨String.ext this.1, tokNFKw_injective _ _ _ _ hnf⟩

/-- the other direction: same prefix, observably equal well-formed arguments (keyword arguments written in the same
    order) ⇒ same name, for any digest -/
theorem constructor_names_deterministic (H : Val → List Char) (c c' : Call) (hp : c.pre = c'.pre)
    (ha : ObsEqL c.args c'.args) (hw : WFL c.args) (hw' : WFL c'.args)
    (hk : All₂ (fun p q : String × Val => p.1 = q.1 ∧ ObsEq p.2 q.2 ∧ WF p.2 ∧ WF q.2) c.kwargs c'.kwargs) :
    c.name H = c'.name H := by
  unfold Call.name Call.nf
  rw [hp, tokNFKw_deterministic _ _ _ _ ha hw hw' hk]

/-- **for constructors without keyword arguments and well-formed argument tuples, the names agree exactly when the
    prefixes agree and the argument tuples are observably equal** (C12 `token_iff_obsEq` lifted to names) -/
theorem constructor_name_iff (S : Val → Prop) (H : Val → List Char) (ok : HashOK S H) (c c' : Call)
    (hs : S c.nf) (hs' : S c'.nf) (hk : c.kwargs = []) (hk' : c'.kwargs = []) (hw : WFL c.args) (hw' : WFL c'.args) :
    c.name H = c'.name H ↔ c.pre = c'.pre ∧ ObsEqL c.args c'.args := by
  constructor
  · intro h
    have := constructor_names_determine_args S H ok c c' hs hs' h
    exact ⟨this.1, this.2.1⟩
  · intro h
    exact constructor_names_deterministic H c c' h.1 h.2 hw hw' (by rw [hk, hk']; exact .nil)

/-- every modelled name is `prefix-token`, so with a well-named prefix `key_split` gives the prefix back: the layer
    names of the constructors feed the renamer of part (a) -/
theorem constructor_name_splits (H : Val → List Char) (c : Call) (hp : WellNamed c.pre.toList) (ht : GoodTok (H c.nf)) :
    keySplitKey (.str (c.name H)) = c.pre.toList :=
  key_split_token_stripped _ _ hp ht

/-! ### per constructor: the tuple read back into the constructor's own parameters -/

theorem from_array_name (S : Val → Prop) (H : Val → List Char) (ok : HashOK S H)
    (x x' : Val) (ch ch' : List (List Nat)) (lock lock' : Val) (asa asa' : Option Bool) (haf haf' fancy fancy' : Bool)
    (gi gi' : Val) (inl inl' : Bool)
    (hs : S (fromArray x ch lock asa haf fancy gi inl).nf) (hs' : S (fromArray x' ch' lock' asa' haf' fancy' gi' inl').nf)
    (h : (fromArray x ch lock asa haf fancy gi inl).name H = (fromArray x' ch' lock' asa' haf' fancy' gi' inl').name H) :
    ObsEq x x' ∧ ch = ch' ∧ ObsEq lock lock' ∧ resolveAsarray asa haf = resolveAsarray asa' haf' ∧ fancy = fancy' ∧
      ObsEq gi gi' ∧ inl = inl' := by
  have := (constructor_names_determine_args S H ok _ _ hs hs' h).2.1
  simp only [fromArray] at this
  cases this with | cons h1 this => cases this with | cons h2 this => cases this with | cons h3 this =>
  cases this with | cons h4 this => cases this with | cons h5 this => cases this with | cons h6 this =>
  cases this with | cons h7 _ =>
  exact ⟨h1, chunksVal_inj _ _ h2, h3, bool_inj _ _ h4, bool_inj _ _ h5, h6, bool_inj _ _ h7⟩

theorem from_sequence_name (S : Val → Prop) (H : Val → List Char) (ok : HashOK S H)
    (seq seq' : List Val) (np np' ps ps' : Option Nat) (c c' : Call)
    (hc : fromSequence seq np ps = some c) (hc' : fromSequence seq' np' ps' = some c')
    (hs : S c.nf) (hs' : S c'.nf) (h : c.name H = c'.name H) :
    ObsEqL seq seq' ∧ partitionSize seq.length np ps = partitionSize seq'.length np' ps' := by
  unfold fromSequence at hc hc'
  cases hp : partitionSize seq.length np ps with
  | none => rw [hp] at hc; simp at hc
  | some p =>
    cases hp' : partitionSize seq'.length np' ps' with
    | none => rw [hp'] at hc'; simp at hc'
    | some p' =>
      rw [hp] at hc; rw [hp'] at hc'
      simp only [Option.map_some, Option.some.injEq] at hc hc'
      subst hc; subst hc'
      have := (constructor_names_determine_args S H ok _ _ hs hs' h).2.1
      cases this with | cons h1 this => cases this with | cons h2 _ =>
      cases h1 with | list hl =>
      have := int_inj _ _ h2
      exact ⟨hl, congrArg some (Int.ofNat.inj this)⟩

theorem bag_from_delayed_name (S : Val → Prop) (H : Val → List Char) (ok : HashOK S H) (ks ks' : List String)
    (hs : S (bagFromDelayed ks).nf) (hs' : S (bagFromDelayed ks').nf)
    (h : (bagFromDelayed ks).name H = (bagFromDelayed ks').name H) : ks = ks' :=
  strVals_inj _ _ (constructor_names_determine_args S H ok _ _ hs hs' h).2.1

theorem array_from_delayed_name (S : Val → Prop) (H : Val → List Char) (ok : HashOK S H)
    (k k' : String) (sh sh' : List Nat) (dt dt' m m' : Val)
    (hs : S (arrayFromDelayed k sh dt m).nf) (hs' : S (arrayFromDelayed k' sh' dt' m').nf)
    (h : (arrayFromDelayed k sh dt m).name H = (arrayFromDelayed k' sh' dt' m').name H) :
    k = k' ∧ sh = sh' ∧ ObsEq dt dt' ∧ ObsEq m m' := by
  have := (constructor_names_determine_args S H ok _ _ hs hs' h).2.1
  simp only [arrayFromDelayed] at this
  cases this with | cons h1 this => cases this with | cons h2 this => cases this with | cons h3 this =>
  cases this with | cons h4 _ =>
  exact ⟨str_inj _ _ h1, shapeVal_inj _ _ h2, h3, h4⟩

theorem delayed_leaf_name (S : Val → Prop) (H : Val → List Char) (ok : HashOK S H)
    (n n' : Option String) (cls cls' : String) (obj obj' : Val) (nout nout' : Option Nat)
    (hs : S (delayedLeaf n cls obj nout).nf) (hs' : S (delayedLeaf n' cls' obj' nout').nf)
    (h : (delayedLeaf n cls obj nout).name H = (delayedLeaf n' cls' obj' nout').name H) :
    (delayedLeaf n cls obj nout).pre = (delayedLeaf n' cls' obj' nout').pre ∧ ObsEq obj obj' ∧ nout = nout' := by
  have := constructor_names_determine_args S H ok _ _ hs hs' h
  refine ⟨this.1, ?_⟩
  have := this.2.1
  simp only [delayedLeaf] at this
  cases this with | cons h1 this => cases this with | cons h2 _ =>
  exact ⟨h1, optNat_inj _ _ h2⟩

theorem delayed_call_name (S : Val → Prop) (H : Val → List Char) (ok : HashOK S H)
    (fn fn' fk fk' : String) (args args' : List Val) (kw kw' : List (String × Val))
    (hs : S (delayedCall fn fk args kw).nf) (hs' : S (delayedCall fn' fk' args' kw').nf)
    (h : (delayedCall fn fk args kw).name H = (delayedCall fn' fk' args' kw').name H) :
    fn = fn' ∧ fk = fk' ∧ ObsEqL args args' ∧ KwRel kw kw' := by
  have := constructor_names_determine_args S H ok _ _ hs hs' h
  refine ⟨this.1, ?_⟩
  have ha := this.2.1
  simp only [delayedCall] at ha
  cases ha with | cons h1 h2 =>
  exact ⟨str_inj _ _ h1, h2, this.2.2⟩

/-- elemwise: `out` is `None` or a dask array (its name), never `True`; then the flat tuple
    `op, dtype, *args, where[, out]` is read back unambiguously -/
theorem elemwise_name (S : Val → Prop) (H : Val → List Char) (ok : HashOK S H)
    (n n' : String) (op op' dt dt' : Val) (args args' : List Val) (w w' out out' : Val)
    (ho : isTrue out = false) (ho' : isTrue out' = false)
    (hs : S (elemwise n op dt args w out).nf) (hs' : S (elemwise n' op' dt' args' w' out').nf)
    (h : (elemwise n op dt args w out).name H = (elemwise n' op' dt' args' w' out').name H) :
    n = n' ∧ ObsEq op op' ∧ ObsEq dt dt' ∧ ObsEqL args args' ∧ ObsEq w w' ∧ (isTrue w = false → ObsEq out out') := by
  have := constructor_names_determine_args S H ok _ _ hs hs' h
  refine ⟨this.1, ?_⟩
  have ha := this.2.1
  simp only [elemwise] at ha
  cases ha with | cons h1 ha => cases ha with | cons h2 ha =>
  refine ⟨h1, h2, ?_⟩
  have true_of : ∀ v v' : Val, ObsEq v v' → isTrue v = isTrue v' := by
    intro v v' hv
    cases hv <;> rfl
  cases hw : isTrue w <;> cases hw' : isTrue w' <;> simp only [hw, hw', if_true, if_false, Bool.false_eq_true] at ha
  · have := ObsEqL.append_split_right args args' [w, out] [w', out'] rfl ha
    obtain ⟨ha1, ha2⟩ := this
    cases ha2 with | cons h3 ha2 => cases ha2 with | cons h4 _ =>
    exact ⟨ha1, h3, fun _ => h4⟩
  · have e : args ++ [w, out] = (args ++ [w]) ++ [out] := by simp
    rw [e] at ha
    have := (ObsEqL.append_split_right (args ++ [w]) args' [out] [w'] rfl ha).2
    cases this with | cons h3 _ =>
    rw [true_of _ _ h3, hw'] at ho
    exact absurd ho (by decide)
  · have e : args' ++ [w', out'] = (args' ++ [w']) ++ [out'] := by simp
    rw [e] at ha
    have := (ObsEqL.append_split_right args (args' ++ [w']) [w] [out'] rfl ha).2
    cases this with | cons h3 _ =>
    rw [← true_of _ _ h3, hw] at ho'
    exact absurd ho' (by decide)
  · have := ObsEqL.append_split_right args args' [w] [w'] rfl ha
    obtain ⟨ha1, ha2⟩ := this
    cases ha2 with | cons h3 _ =>
    exact ⟨ha1, h3, fun hf => absurd hf (by decide)⟩

theorem blockwise_name (S : Val → Prop) (H : Val → List Char) (ok : HashOK S H)
    (tk tk' : Option String) (fnm fnm' : String) (f f' oi oi' : Val) (ps ps' : List (Val × Val)) (adj adj' : Val)
    (na na' : Option (List (Val × Val))) (al al' : Bool) (cc cc' m m' dt dt' : Val) (kw kw' : List (String × Val))
    (hs : S (blockwise tk fnm f oi ps adj na al cc m dt kw).nf) (hs' : S (blockwise tk' fnm' f' oi' ps' adj' na' al' cc' m' dt' kw').nf)
    (h : (blockwise tk fnm f oi ps adj na al cc m dt kw).name H = (blockwise tk' fnm' f' oi' ps' adj' na' al' cc' m' dt' kw').name H) :
    blockwisePrefix tk fnm = blockwisePrefix tk' fnm' ∧ ObsEq f f' ∧ ObsEq oi oi' ∧
      All₂ (fun p q : Val × Val => ObsEq p.1 q.1 ∧ ObsEq p.2 q.2) ps ps' ∧ ObsEq adj adj' ∧
      ObsEq (newAxesVal na) (newAxesVal na') ∧ al = al' ∧ ObsEq cc cc' ∧ ObsEq m m' ∧ ObsEq dt dt' ∧ KwRel kw kw' := by
  have := constructor_names_determine_args S H ok _ _ hs hs' h
  refine ⟨this.1, ?_⟩
  have ha := this.2.1
  simp only [blockwise] at ha
  cases ha with | cons h1 ha => cases ha with | cons h2 ha => cases ha with | cons h3 ha =>
  cases ha with | cons h4 ha => cases ha with | cons h5 ha => cases ha with | cons h6 ha =>
  cases ha with | cons h7 ha => cases ha with | cons h8 ha => cases ha with | cons h9 _ =>
  cases h3 with | list h3 =>
  exact ⟨h1, h2, flatPairs_obsEq _ _ h3, h4, h5, bool_inj _ _ h6, h7, h8, h9, this.2.2⟩

/-! non-vacuity: `from_sequence([1, 2, 3], npartitions=2)` and `from_sequence([1, 2, 3], partition_size=2)` are the same
    call for `tokenize` (partition size 2 either way); another sequence is another value.  The toy digest prints the
    hashed value and pads it to 32 characters. -/

def toyH (v : Val) : List Char := ((pyRepr v).toList ++ List.replicate 32 '0').take 32

def seqA : List Val := [.int 1, .int 2, .int 3]

example : partitionSize 3 (some 2) none = some 2 ∧ partitionSize 3 none (some 2) = some 2 ∧
    partitionSize 3 none none = some 1 ∧ partitionSize 250 none none = some 2 ∧ partitionSize 250 (some 4) none = some 62 := by
  decide

example : (fromSequence seqA (some 2) none).map (Call.name toyH) = (fromSequence seqA none (some 2)).map (Call.name toyH) := by
  decide

end Dask.C13x
