import DaskModel.Props.C17c
import DaskModel.Model.ConfigSpec
import DaskModel.Lemmas.ConfigInterp
/-!
# C17 (extension round) — `update(..., priority="new-defaults")` at any depth

`update_new_defaults_spec`: for every scalar `c` that `new` holds at a nested path, the result of
`update(old, new, priority="new-defaults", defaults=dflt)` read with `get` at that path is `ndExpect c path old dflt`
(`Model/ConfigSpec.lean`) — and the three readable corollaries

* `new_defaults_replaces_default` — `old` still holds the value `defaults` holds there → the new value,
* `new_defaults_keeps_user_value` — `defaults` says nothing there, or something else → the value of `old` is kept,
* `new_defaults_adds_new_key`     — nothing at that position of `old` → the new value is added,

for `old`, `defaults` of any shape (either spelling in `old`; scalars where `new` has mappings; `defaults` absent, `{}`,
scalar or partial), provided the call does not raise and `new` does not use two spellings that `canonical_name` could take
for each other inside one mapping (`CleanD`).  The position in `old`/`defaults` is the one the code looks at: the path
respelled by `old` level by level (`canonPath`; `get_reads_canonPath`: it is the position `get` reads).
-/
namespace Dask.C17
open Dask.Config

/-! ### small facts about the specification functions -/

theorem rawAtO_none : ∀ (p : List String), rawAtO none p = none
  | [] => rfl
  | _ :: ks => by simp only [rawAtO, dsub]; exact rawAtO_none ks

/-- below the first segment, walking from `old[key]` and walking from the mapping `update` descends into agree -/
theorem rawAtO_curOf (old : Dict) (key k2 : String) (ks : List String) :
    rawAtO (dget old key) (k2 :: ks) = rawAtO (some (.node (curOf old key))) (k2 :: ks) := by
  unfold curOf
  cases hg : dget old key with
  | none => simp [rawAtO, dsub, dget, rawAtO_none]
  | some ov =>
    cases ov with
    | leaf x => simp [rawAtO, dsub, dget, rawAtO_none]
    | node s => rfl

theorem subDefaults_some (dflt : Option Cfg) (k : String) (sd : Option Cfg) (h : subDefaults dflt k = some sd) :
    sd = dsub dflt k := by
  unfold subDefaults at h
  cases dflt with
  | none => simp [truthy] at h; simp [dsub, h]
  | some d =>
    cases d with
    | leaf x =>
      by_cases ht : truthy (some (.leaf x)) = true
      · simp [ht] at h
      · simp [ht] at h; simp [dsub, h]
    | node dd =>
      cases dd with
      | nil => simp [truthy] at h; simp [dsub, dget, h]
      | cons a as => simp [truthy] at h; simp [dsub, h]

theorem ndExpect_cons (c : Int) (k k2 : String) (ks : List String) (old : Dict) (dflt : Option Cfg) :
    ndExpect c (k :: k2 :: ks) old dflt
      = ndExpect c (k2 :: ks) (curOf old (canonicalName k old)) (dsub dflt (canonicalName k old)) := by
  unfold ndExpect
  have e1 : rawAtO (some (.node old)) (canonPath (k :: k2 :: ks) old)
      = rawAtO (some (.node (curOf old (canonicalName k old)))) (canonPath (k2 :: ks) (curOf old (canonicalName k old))) := by
    simp only [canonPath, rawAtO, dsub]
    exact rawAtO_curOf old _ _ _
  have e2 : rawAtO dflt (canonPath (k :: k2 :: ks) old)
      = rawAtO (dsub dflt (canonicalName k old)) (canonPath (k2 :: ks) (curOf old (canonicalName k old))) := by
    simp only [canonPath, rawAtO]
  rw [e1, e2]

/-- the specification at `k :: ks` looks at `old` only through `canonical_name(k, old)` and `old[that name]` -/
theorem ndExpect_congr (c : Int) (k : String) (ks : List String) (old old' : Dict) (dflt : Option Cfg)
    (h1 : canonicalName k old' = canonicalName k old)
    (h2 : dget old' (canonicalName k old) = dget old (canonicalName k old)) :
    ndExpect c (k :: ks) old' dflt = ndExpect c (k :: ks) old dflt := by
  have hcur : curOf old' (canonicalName k old) = curOf old (canonicalName k old) := by
    unfold curOf; rw [h2]
  unfold ndExpect
  simp only [canonPath, rawAtO, dsub, h1, h2, hcur]

/-- the last step: what `leafWins` decides is what the specification says -/
theorem leafWins_nd (c : Int) (k : String) (old : Dict) (dflt : Option Cfg) (b : Bool)
    (h : leafWins id .newDefaults old (canonicalName k old) dflt = some b) :
    (b = true → ndExpect c [k] old dflt = .leaf c) ∧
    (b = false → ∃ ov, dget old (canonicalName k old) = some ov ∧ ndExpect c [k] old dflt = ov) := by
  have hp : (Priority.newDefaults == Priority.new) = false := by decide
  have hq : (Priority.newDefaults == Priority.newDefaults) = true := by decide
  unfold ndExpect
  simp only [canonPath, rawAtO, dsub]
  unfold leafWins at h
  simp only [hp, hq, Bool.false_or, Bool.true_and, dhas] at h
  cases hg : dget old (canonicalName k old) with
  | none =>
    simp [hg] at h
    subst h
    simp
  | some ov =>
    simp only [hg, Option.isSome_some, Bool.not_true, Bool.false_eq_true, if_false] at h
    cases dflt with
    | none =>
      simp [truthy] at h
      subst h
      simp
    | some d =>
      cases d with
      | leaf x =>
        by_cases ht : truthy (some (.leaf x)) = true
        · simp [ht] at h
        · simp [ht] at h
          subst h
          simp
      | node dd =>
        cases dd with
        | nil =>
          simp [truthy] at h
          subst h
          simp [dget]
        | cons a as =>
          simp only [truthy, if_true] at h
          cases hd : dget (a :: as) (canonicalName k old) with
          | none =>
            simp [hd] at h
            subst h
            simp [hd]
          | some dv =>
            simp only [hd, id, Option.some.injEq] at h
            subst h
            cases hb : cfgBeq dv ov <;> simp [hd, hb]

theorem dget_mem {α : Type} : ∀ (d : List (String × α)) (k : String) (v : α), dget d k = some v → (k, v) ∈ d
  | [], _, _, h => by simp [dget] at h
  | (k', v') :: r, k, v, h => by
    simp only [dget] at h
    by_cases hk : k' = k
    · simp only [hk, if_true, Option.some.injEq] at h
      subst h; subst hk
      exact List.mem_cons_self
    · simp only [hk, if_false] at h
      exact List.mem_cons_of_mem _ (dget_mem r k v h)

/-- writing under the canonical name of `k0` is invisible to a key that cannot be taken for `k0` -/
theorem canon_dset_indep (k0 k : String) (x : Cfg) (old : Dict) (hind : Indep k0 k) :
    canonicalName k (dset old (canonicalName k0 old) x) = canonicalName k old ∧
    dget (dset old (canonicalName k0 old) x) (canonicalName k old) = dget old (canonicalName k old) := by
  have hne1 : canonicalName k0 old ≠ k := by
    rcases canonicalName_cases k0 old with e | e <;> rw [e]
    · exact hind.1
    · exact hind.2.2.1
  have hne2 : canonicalName k0 old ≠ altName k := by
    rcases canonicalName_cases k0 old with e | e <;> rw [e]
    · exact hind.2.1
    · exact hind.2.2.2
  generalize canonicalName k0 old = key0 at hne1 hne2 ⊢
  have h1 : dget (dset old key0 x) k = dget old k := dget_dset_other _ _ _ _ hne1
  have h2 : dget (dset old key0 x) (altName k) = dget old (altName k) := dget_dset_other _ _ _ _ hne2
  have hc : canonicalName k (dset old key0 x) = canonicalName k old := by
    unfold canonicalName dhas
    rw [h1, h2]
  refine ⟨hc, ?_⟩
  rcases canonicalName_cases k old with e | e <;> rw [e]
  · exact h1
  · exact h2

/-- reading the entry just written under the canonical name of `k0`, after `rest` (independent keys) was merged in —
    any priority, any `defaults` -/
theorem get_written_entry' (p : Priority) (rest old d' : Dict) (k0 : String) (x : Cfg) (dflt : Option Cfg)
    (h : updateGo p rest (dset old (canonicalName k0 old) x) dflt = some d')
    (hind : ∀ kv ∈ rest, Indep k0 kv.1) :
    dget d' (canonicalName k0 d') = some x := by
  obtain ⟨h1, h2⟩ := canonicalName_frame p rest _ d' dflt h k0 hind
  rw [h1, h2, canonicalName_dset_self, dget_dset_self]

theorem leafAt_head (d : Dict) (k : String) (ks : List String) (c : Int) (h : leafAt d (k :: ks) = some c) :
    ∃ v, dget d k = some v := by
  cases hg : dget d k with
  | none => cases ks <;> simp [leafAt, hg] at h
  | some v => exact ⟨v, rfl⟩

/-! ### the loop meets the specification -/

mutual
theorem updateNode_nd (v : Cfg) : ∀ (cur cur' : Dict) (sd : Option Cfg), CleanC v →
    updateNode .newDefaults v cur sd = some cur' →
    ∀ sub, v = .node sub → ∀ path c, leafAt sub path = some c →
      getPath path (.node cur') = .ok (ndExpect c path cur sd) :=
  match v with
  | .leaf _ => by intro _ _ _ _ _ sub hv; cases hv
  | .node s => by
    intro cur cur' sd hc h sub hv path c hl
    cases hv
    simp only [updateNode] at h
    simp only [CleanC] at hc
    exact updateGo_nd s cur cur' sd hc h path c hl
/-- **update_new_defaults_spec** (loop form). -/
theorem updateGo_nd : ∀ (new old d' : Dict) (dflt : Option Cfg), CleanD new →
    updateGo .newDefaults new old dflt = some d' →
    ∀ path c, leafAt new path = some c → getPath path (.node d') = .ok (ndExpect c path old dflt)
  | [], old, d', dflt, _, _ => by
    intro path c hl
    cases path with
    | nil => simp [leafAt] at hl
    | cons k ks => cases ks <;> simp [leafAt, dget] at hl
  | kv :: rest, old, d', dflt, hclean, h => by
    intro path c hl
    have ihn := updateNode_nd kv.2
    have ihr := updateGo_nd rest
    obtain ⟨k0, v⟩ := kv
    simp only [CleanD] at hclean
    obtain ⟨hind, hcv, hcr⟩ := hclean
    have hind' : ∀ kv ∈ rest, Indep k0 kv.1 := hind
    cases path with
    | nil => simp [leafAt] at hl
    | cons k ks =>
      by_cases hk : k0 = k
      · -- the path goes through this item
        subst hk
        cases v with
        | leaf x =>
          have hks : ks = [] ∧ x = c := by
            cases ks with
            | nil => simpa [leafAt, dget] using hl
            | cons k2 ks => simp [leafAt, dget] at hl
          obtain ⟨hks, hx⟩ := hks
          subst hks; subst hx
          simp only [updateGo] at h
          cases hw : leafWins id .newDefaults old (canonicalName k0 old) dflt with
          | none => rw [hw] at h; simp at h
          | some b =>
            rw [hw] at h
            obtain ⟨ht, hf⟩ := leafWins_nd x k0 old dflt b hw
            cases b with
            | true =>
              simp only [] at h
              have hwr := get_written_entry' .newDefaults rest old d' k0 (.leaf x) dflt h hind'
              rw [ht rfl]
              simp [getPath, hwr]
            | false =>
              simp only [] at h
              obtain ⟨ov, hov, hexp⟩ := hf rfl
              obtain ⟨h1, h2⟩ := canonicalName_frame .newDefaults rest old d' dflt h k0 hind'
              rw [hexp]
              simp [getPath, h1, h2, hov]
        | node sub =>
          cases ks with
          | nil => simp [leafAt, dget] at hl
          | cons k2 ks =>
            simp only [leafAt, dget, if_true] at hl
            simp only [updateGo] at h
            cases hsd : subDefaults dflt (canonicalName k0 old) with
            | none => rw [hsd] at h; simp at h
            | some sd =>
              rw [hsd] at h
              simp only [] at h
              cases hu : updateNode .newDefaults (.node sub) (curOf old (canonicalName k0 old)) sd with
              | none => rw [hu] at h; simp at h
              | some cur' =>
                rw [hu] at h
                simp only [] at h
                have hwr := get_written_entry' .newDefaults rest old d' k0 (.node cur') dflt h hind'
                have hin := ihn _ cur' sd hcv hu sub rfl (k2 :: ks) c hl
                rw [ndExpect_cons, ← subDefaults_some dflt _ sd hsd]
                simp only [getPath, hwr]
                exact hin
      · -- the path goes through a later item: this one writes somewhere the path does not look at
        have hl' : leafAt rest (k :: ks) = some c := by
          cases ks with
          | nil => simpa [leafAt, dget, hk] using hl
          | cons k2 ks => simpa [leafAt, dget, hk] using hl
        obtain ⟨w, hw⟩ := leafAt_head rest k ks c hl'
        have hik : Indep k0 k := hind' (k, w) (dget_mem rest k w hw)
        have hcongr : ∀ x, ndExpect c (k :: ks) (dset old (canonicalName k0 old) x) dflt = ndExpect c (k :: ks) old dflt :=
          fun x => ndExpect_congr c k ks old _ dflt (canon_dset_indep k0 k x old hik).1 (canon_dset_indep k0 k x old hik).2
        cases v with
        | leaf x =>
          simp only [updateGo] at h
          cases hlw : leafWins id .newDefaults old (canonicalName k0 old) dflt with
          | none => rw [hlw] at h; simp at h
          | some b =>
            rw [hlw] at h
            cases b with
            | true =>
              simp only [] at h
              rw [← hcongr (.leaf x)]
              exact ihr _ d' dflt hcr h (k :: ks) c hl'
            | false =>
              simp only [] at h
              exact ihr _ d' dflt hcr h (k :: ks) c hl'
        | node sub =>
          simp only [updateGo] at h
          cases hsd : subDefaults dflt (canonicalName k0 old) with
          | none => rw [hsd] at h; simp at h
          | some sd =>
            rw [hsd] at h
            simp only [] at h
            cases hu : updateNode .newDefaults (.node sub) (curOf old (canonicalName k0 old)) sd with
            | none => rw [hu] at h; simp at h
            | some cur' =>
              rw [hu] at h
              simp only [] at h
              rw [← hcongr (.node cur')]
              exact ihr _ d' dflt hcr h (k :: ks) c hl'
end

/-- **update_new_defaults_spec.** Priority `"new-defaults"`, any depth, any `defaults` (absent, `{}`, partial, scalar):
for every scalar `c` of `new` at a nested path, `get` at that path in the result returns what the documented rule
demands (`ndExpect`): `c` where `old` had nothing or still had the default, the value of `old` where it differs from the
default or no default is registered. -/
theorem update_new_defaults_spec (old new d' : Dict) (dflt : Option Cfg) (hc : CleanD new)
    (h : update .newDefaults old new dflt = some d') (path : List String) (c : Int) (hl : leafAt new path = some c) :
    getPath path (.node d') = .ok (ndExpect c path old dflt) :=
  updateGo_nd new old d' dflt hc h path c hl

/-- keys whose current value equals the old default take the new value -/
theorem new_defaults_replaces_default (old new d' : Dict) (dflt : Option Cfg) (hc : CleanD new)
    (h : update .newDefaults old new dflt = some d') (path : List String) (c : Int) (hl : leafAt new path = some c)
    (ov dv : Cfg) (hold : rawAtO (some (.node old)) (canonPath path old) = some ov)
    (hdf : rawAtO dflt (canonPath path old) = some dv) (heq : cfgBeq dv ov = true) :
    getPath path (.node d') = .ok (.leaf c) := by
  rw [update_new_defaults_spec old new d' dflt hc h path c hl]
  simp [ndExpect, hold, hdf, heq]

/-- user-changed values (and values without a registered default) are kept -/
theorem new_defaults_keeps_user_value (old new d' : Dict) (dflt : Option Cfg) (hc : CleanD new)
    (h : update .newDefaults old new dflt = some d') (path : List String) (c : Int) (hl : leafAt new path = some c)
    (ov : Cfg) (hold : rawAtO (some (.node old)) (canonPath path old) = some ov)
    (hdf : rawAtO dflt (canonPath path old) = none ∨
           ∃ dv, rawAtO dflt (canonPath path old) = some dv ∧ cfgBeq dv ov = false) :
    getPath path (.node d') = .ok ov := by
  rw [update_new_defaults_spec old new d' dflt hc h path c hl]
  rcases hdf with hn | ⟨dv, hd, hne⟩
  · simp [ndExpect, hold, hn]
  · simp [ndExpect, hold, hd, hne]

/-- new keys are added -/
theorem new_defaults_adds_new_key (old new d' : Dict) (dflt : Option Cfg) (hc : CleanD new)
    (h : update .newDefaults old new dflt = some d') (path : List String) (c : Int) (hl : leafAt new path = some c)
    (hold : rawAtO (some (.node old)) (canonPath path old) = none) :
    getPath path (.node d') = .ok (.leaf c) := by
  rw [update_new_defaults_spec old new d' dflt hc h path c hl]
  simp [ndExpect, hold]

/-- the position the specification looks at in `old` is the one `get` reads: whenever `get(path, config=old)` succeeds,
its value is the entry of `old` at the canonical path -/
theorem get_reads_canonPath : ∀ (path : List String) (old : Dict) (ov : Cfg), path ≠ [] →
    getPath path (.node old) = .ok ov → rawAtO (some (.node old)) (canonPath path old) = some ov
  | [], _, _, hne, _ => absurd rfl hne
  | [k], old, ov, _, h => by
    simp only [getPath] at h
    simp only [canonPath, rawAtO, dsub]
    cases hg : dget old (canonicalName k old) with
    | none => rw [hg] at h; simp at h
    | some v =>
      rw [hg] at h
      simp only [GetResult.ok.injEq] at h
      rw [h]
  | k :: k2 :: ks, old, ov, _, h => by
    simp only [getPath] at h
    simp only [canonPath, rawAtO, dsub]
    cases hg : dget old (canonicalName k old) with
    | none => rw [hg] at h; simp at h
    | some v =>
      rw [hg] at h
      cases v with
      | leaf x => simp [getPath] at h
      | node s =>
        simp only [] at h
        have := get_reads_canonPath (k2 :: ks) s ov (by simp) h
        have hcur : curOf old (canonicalName k old) = s := by simp [curOf, hg]
        rw [hcur]
        simpa [canonPath, rawAtO, dsub] using this

/-! ### the hypothesis `CleanD` is checked by the driver (`cleanDB`) on every case the theorem-level oracle is applied to -/

theorem indepB_sound (a b : String) (h : indepB a b = true) : Indep a b := by
  simp only [indepB, Bool.and_eq_true, bne_iff_ne, ne_eq] at h
  exact ⟨h.1.1.1, h.1.1.2, h.1.2, h.2⟩

mutual
theorem cleanCB_sound : ∀ (c : Cfg), cleanCB c = true → CleanC c
  | .leaf _, _ => by simp [CleanC]
  | .node d, h => by
    simp only [cleanCB] at h
    simp only [CleanC]
    exact cleanDB_sound d h
theorem cleanDB_sound : ∀ (d : Dict), cleanDB d = true → CleanD d
  | [], _ => by simp [CleanD]
  | kv :: r, h => by
    simp only [cleanDB, Bool.and_eq_true, List.all_eq_true] at h
    simp only [CleanD]
    exact ⟨fun kv' hkv' => indepB_sound _ _ (h.1.1 kv' hkv'), cleanCB_sound kv.2 h.1.2, cleanDB_sound r h.2⟩
end

/-- non-vacuity, two levels deep, either spelling: defaults `{a-b: {x: 1, y: 2}, q: 0}`; the user changed `a_b.y` to 7
(spelled with an underscore) and never touched `x`; the new defaults `{a-b: {x: 10, y: 20, z: 30}, q: 5, r: 6}` arrive:
`x` follows the default, `y` keeps the user's value, `z` and `r` are added, `q` (still the default) is replaced —
but ONLY because `defaults` is looked up under the spelling `old` uses: see the second conjunct of the next example. -/
example :
    update .newDefaults [("a-b", .node [("x", .leaf 1), ("y", .leaf 7)]), ("q", .leaf 0)]
        [("a_b", .node [("x", .leaf 10), ("y", .leaf 20), ("z", .leaf 30)]), ("q", .leaf 5), ("r", .leaf 6)]
        (some (.node [("a-b", .node [("x", .leaf 1), ("y", .leaf 2)]), ("q", .leaf 0)]))
      = some [("a-b", .node [("x", .leaf 10), ("y", .leaf 7), ("z", .leaf 30)]), ("q", .leaf 5), ("r", .leaf 6)] ∧
    ndExpect 10 ["a_b", "x"] [("a-b", .node [("x", .leaf 1), ("y", .leaf 7)]), ("q", .leaf 0)]
        (some (.node [("a-b", .node [("x", .leaf 1), ("y", .leaf 2)]), ("q", .leaf 0)])) = .leaf 10 ∧
    ndExpect 20 ["a_b", "y"] [("a-b", .node [("x", .leaf 1), ("y", .leaf 7)]), ("q", .leaf 0)]
        (some (.node [("a-b", .node [("x", .leaf 1), ("y", .leaf 2)]), ("q", .leaf 0)])) = .leaf 7 ∧
    ndExpect 30 ["a_b", "z"] [("a-b", .node [("x", .leaf 1), ("y", .leaf 7)]), ("q", .leaf 0)]
        (some (.node [("a-b", .node [("x", .leaf 1), ("y", .leaf 2)]), ("q", .leaf 0)])) = .leaf 30 := by
  refine ⟨?_, ?_, ?_, ?_⟩ <;>
  simp [update, updateGo, updateNode, leafWins, subDefaults, truthy, cfgBeq, canonicalName, dhas, dget, dset, curOf, altName,
    ndExpect, canonPath, rawAtO, dsub, Dask.PyStr.hasChar, Dask.PyStr.replaceChar, Dask.PyStr.replaceCharL]

/-- the code as it is: `defaults` is read under the spelling `old` uses, not canonicalised against `defaults` itself —
with `defaults = {a_b: {x: 1}}` and `old = {a-b: {x: 1}}` the untouched value is NOT recognised as a default and stays. -/
example :
    update .newDefaults [("a-b", .node [("x", .leaf 1)])] [("a-b", .node [("x", .leaf 10)])]
        (some (.node [("a_b", .node [("x", .leaf 1)])]))
      = some [("a-b", .node [("x", .leaf 1)])] := by
  simp [update, updateGo, updateNode, leafWins, subDefaults, truthy, canonicalName, dhas, dget, dset, curOf]

/-! ## `interpret_value` (environment-variable values) on the documented literal grammar

Model `Model/ConfigInterp.lean` (`interpretValue` = `ast.literal_eval` on the modelled grammar, then the hard-coded words
in any letter case, else the string itself; `reprLit` = `repr`); lemmas `Lemmas/ConfigInterp.lean`. -/
section Interp
open Dask.Interp

/-- **interpret_value(repr(v)) = v** for every value of the modelled class — ints of any size and sign, float texts
`digits.digits`, `True/False/None`, strings `repr` prints without escapes, lists and dicts of these, ANY nesting. -/
theorem interpret_value_roundtrip (v : Lit) (h : LitOK v) : interpretValue (reprLit v) = .lit v := by
  unfold interpretValue
  rw [parseLit_repr v h]

/-- the shape of the documented rule: what is neither a literal nor one of the hard-coded words stays the string it is -/
theorem interpret_value_identity (s : List Char) (h1 : parseLit s = none) (h2 : hardcoded s = none) :
    interpretValue s = .raw s := by
  unfold interpretValue
  rw [h1, h2]

/-- **identity on non-literal strings**: a text that starts with a letter or `_` (an address, a path component, a scheduler
name, …) is returned unchanged unless it is `True` / `False` / `None` (followed by blanks) or one of the four hard-coded
words `none null false true` in some letter case. -/
theorem interpret_value_identity_on_words (c : Char) (r : List Char) (hc : Dask.Bytes.isAlpha c = true ∨ c = '_')
    (hkw : ∀ ws, ws.all isWs = true → c :: r ≠ kwTrue ++ ws ∧ c :: r ≠ kwFalse ++ ws ∧ c :: r ≠ kwNone ++ ws)
    (hh : hardcoded (c :: r) = none) : interpretValue (c :: r) = .raw (c :: r) := by
  cases hp : parseLit (c :: r) with
  | none => exact interpret_value_identity _ hp hh
  | some v =>
    obtain ⟨ws, hws, hcases⟩ := parseLit_word c r v hc hp
    obtain ⟨h1, h2, h3⟩ := hkw ws hws
    rcases hcases with e | e | e
    · exact absurd e h1
    · exact absurd e h2
    · exact absurd e h3

/-- **booleans / None in any letter case**: a text whose lower-case form is `true`, `false`, `none` or `null` becomes
`True`, `False`, `None`, `None` — whether `literal_eval` already reads it (`True`, `None`, `False`) or the hard-coded map does. -/
theorem interpret_value_words_any_case (s : List Char) :
    (Dask.PyStr.lowerL s = ['t', 'r', 'u', 'e'] → interpretValue s = .lit (.bool true)) ∧
    (Dask.PyStr.lowerL s = ['f', 'a', 'l', 's', 'e'] → interpretValue s = .lit (.bool false)) ∧
    (Dask.PyStr.lowerL s = ['n', 'o', 'n', 'e'] → interpretValue s = .lit .none) ∧
    (Dask.PyStr.lowerL s = ['n', 'u', 'l', 'l'] → interpretValue s = .lit .none) := by
  refine ⟨?_, ?_, ?_, ?_⟩
  · intro h
    apply any_case s (.bool true) 't' ['r', 'u', 'e'] h (by decide)
    · simp [hardcoded, h]
    · intro ws _
      refine ⟨?_, ?_, ?_⟩
      · intro hl
        have : ws = [] := by simpa [Dask.PyStr.lowerL, kwTrue] using hl
        subst this; rfl
      · intro hl; simp [Dask.PyStr.lowerL, kwFalse] at hl
      · intro hl; simp [Dask.PyStr.lowerL, kwNone] at hl
  · intro h
    apply any_case s (.bool false) 'f' ['a', 'l', 's', 'e'] h (by decide)
    · simp [hardcoded, h]
    · intro ws _
      refine ⟨?_, ?_, ?_⟩
      · intro hl; simp [Dask.PyStr.lowerL, kwTrue] at hl
      · intro hl
        have : ws = [] := by simpa [Dask.PyStr.lowerL, kwFalse] using hl
        subst this; rfl
      · intro hl; simp [Dask.PyStr.lowerL, kwNone] at hl
  · intro h
    apply any_case s .none 'n' ['o', 'n', 'e'] h (by decide)
    · simp [hardcoded, h]
    · intro ws _
      refine ⟨?_, ?_, ?_⟩
      · intro hl; simp [Dask.PyStr.lowerL, kwTrue] at hl
      · intro hl; simp [Dask.PyStr.lowerL, kwFalse] at hl
      · intro hl
        have : ws = [] := by simpa [Dask.PyStr.lowerL, kwNone] using hl
        subst this; rfl
  · intro h
    apply any_case s .none 'n' ['u', 'l', 'l'] h (by decide)
    · simp [hardcoded, h]
    · intro ws _
      refine ⟨?_, ?_, ?_⟩
      · intro hl; simp [Dask.PyStr.lowerL, kwTrue] at hl
      · intro hl; simp [Dask.PyStr.lowerL, kwFalse] at hl
      · intro hl; simp [Dask.PyStr.lowerL, kwNone] at hl

/-- non-vacuity of the round trip: `[-5, "it's", {'k': 1.5, 3: [True, None]}]` is in the class and this is its `repr` -/
example :
    LitOK (.list [.int (-5), .str "it's".toList, .dict [(.str ['k'], .flt false ['1'] ['5']), (.int 3, .list [.bool true, .none])]]) ∧
    reprLit (.list [.int (-5), .str "it's".toList, .dict [(.str ['k'], .flt false ['1'] ['5']), (.int 3, .list [.bool true, .none])]])
      = "[-5, \"it's\", {'k': 1.5, 3: [True, None]}]".toList := by
  refine ⟨?_, by decide⟩
  simp only [LitOK, ListOK, PairsOK, FltOK, StrOK, and_true, true_and]
  refine ⟨?_, by decide, by decide⟩
  refine ⟨?_, by decide⟩
  intro c hc
  have : c ∈ ['i', 't', '\'', 's'] := by simpa using hc
  revert c
  decide

/-- non-vacuity of the identity theorem: an address, and a word that only looks like a keyword -/
example : hardcoded "tcp://host:8786".toList = none ∧ hardcoded "Truex".toList = none ∧
    parseLit "tcp://host:8786".toList = none ∧ parseLit "Truex".toList = none ∧
    parseLit "True ".toList = some (.bool true) ∧ hardcoded "nUlL".toList = some .none := by
  refine ⟨by decide, by decide, by rfl, by rfl, by rfl, by rfl⟩

end Interp

/-! ## serialize / deserialize (`DASK_INTERNAL_INHERIT_CONFIG`)

`serialize` = `base64(json.dumps(·))`, `deserialize` its inverse: external functions, not modelled.  ASSUMED (checked by
the oracle of sections `glue`, `env`, `serset` on every run, for JSON-representable configurations): `deserialize(serialize(c)) = c`.
Model-level corollary: a `set` on the deserialised copy behaves exactly like a `set` on the original — the value set is
the one `get` returns, leaving the block restores the ORIGINAL configuration, and every other `get` is unchanged. -/
theorem set_get_through_serialize {σ : Type} (ser : Dict → σ) (de : σ → Option Dict) (hrt : ∀ c, de (ser c) = some c)
    (c : Dict) (keys : List String) (v : Cfg) :
    ∃ c', de (ser c) = some c' ∧
      (∀ d' rec, setInit [some (keys, v)] c' = .ok d' rec →
        getPath keys (.node d') = .ok v ∧ rollback rec d' = some c) ∧
      (∀ key, get key c' = get key c) := by
  refine ⟨c, hrt c, ?_, fun _ => rfl⟩
  intro d' rec h
  refine ⟨?_, exit_restores _ c d' rec h⟩
  unfold setInit at h
  simp only [applyOps] at h
  cases ha : assign keys v c [] true with
  | none => rw [ha] at h; simp [rollback, undoAll] at h
  | some res =>
    obtain ⟨d1, r1⟩ := res
    rw [ha] at h
    simp only [List.nil_append, SetResult.ok.injEq] at h
    rw [← h.1]
    exact get_after_assign keys v c d1 [] true r1 ha

/-- non-vacuity: any codec with the round-trip property will do — e.g. the identity -/
example : ∃ d' rec, setInit [some (["a", "b_c"], Cfg.leaf 1)] [("a", .node [("b-c", .leaf 0)])] = .ok d' rec :=
  ⟨_, _, rfl⟩

end Dask.C17
