/-
C43, extension round — rewrite schemas through Merge / Concat / Len and the extended step checker.

FULL STATEMENT aimed at: every `simplify_once` step of the real optimizer over programs with
Merge / Concat / Len nodes preserves the value.  What is PROVED here: every rewrite SCHEMA (one theorem `r…_sound`
each: the denotation is preserved — full equality for the Merge / Concat pushdowns, refinement `Ref` for the `Len`
rules, which may drop an ill-formed wrapper) and `check2_sound`: a step accepted by the checker (schemas at any position,
congruence, the old single-source checker on sub-steps) refines the value; `checkTrace2_sound` for traces.  That the real
optimizer only takes accepted steps is VALIDATED per run by the harness (section `xtrace`), not proved.
-/
import DaskModel.Lemmas.RelExpr2Len
import DaskModel.Lemmas.RelExpr2Old
namespace Dask.C43x
open Dask.RelExpr (Cell BinOp getCell colIdx b2c notC Src)
open Dask.RelExpr2

def srcCols (ss : List Src) : List (List String) := ss.map (·.cols)
def srcLens (ss : List Src) : List Nat := ss.map (·.rows.length)

/-! ## one soundness theorem per rewrite schema -/

/-- `Concat._simplify_up`, left frame: `parent(concat(l, r)) = parent(concat(l[pl], r))` -/
theorem rConcatL_sound (ss : List Src) (pl : List String) (a a' : E2) (h : rConcatL (srcCols ss) pl a = some a') :
    den2 ss a' = den2 ss a := by
  unfold rConcatL at h
  split at h
  · rename_i p l r hp
    split at h
    · rename_i cl hcl
      split at h
      · rename_i hok
        simp only [Bool.and_eq_true] at hok
        simp only [Option.some.injEq] at h
        subst h
        rw [asPar_eq hp, den2_app, den2_app]
        simp only [den2]
        apply push_left_expr ss concatV p pl l r concatV_frameOrNone concatV_nonframe_left concatV_nonframe_right
        intro ca ra cb rb hl _
        have := schema2_sound ss l ca ra hl
        rw [srcCols] at hcl
        rw [hcl] at this
        cases this
        exact concat_push_left p.cols pl cl cb ra rb hok.1
      · simp at h
    · simp at h
  · simp at h

theorem rConcatR_sound (ss : List Src) (pr : List String) (a a' : E2) (h : rConcatR (srcCols ss) pr a = some a') :
    den2 ss a' = den2 ss a := by
  unfold rConcatR at h
  split at h
  · rename_i p l r hp
    split at h
    · rename_i cr hcr
      split at h
      · rename_i hok
        simp only [Bool.and_eq_true] at hok
        simp only [Option.some.injEq] at h
        subst h
        rw [asPar_eq hp, den2_app, den2_app]
        simp only [den2]
        apply push_right_expr ss concatV p pr l r concatV_frameOrNone concatV_nonframe_left concatV_nonframe_right
        intro ca ra cb rb _ hr
        have := schema2_sound ss r cb rb hr
        rw [srcCols] at hcr
        rw [hcr] at this
        cases this
        exact concat_push_right p.cols pr ca cr ra rb hok.1
      · simp at h
    · simp at h
  · simp at h

/-- `Concat._simplify_up`: the parent projection is dropped when it selects exactly the columns of the result -/
theorem rConcatDrop_sound (ss : List Src) (a a' : E2) (h : rConcatDrop (srcCols ss) a = some a') :
    Ref (den2 ss a) (den2 ss a') := by
  unfold rConcatDrop at h
  split at h
  · rename_i cs l r
    split at h
    · rename_i hsch
      simp only [Option.some.injEq] at h
      subst h
      intro v hv
      simp only [den2] at hv ⊢
      cases hl : den2 ss l with
      | none => simp [hl] at hv
      | some x =>
        cases hr : den2 ss r with
        | none => simp [hl, hr] at hv
        | some y =>
          simp only [hl, hr, Option.bind_some] at hv ⊢
          cases hc : concatV x y with
          | none => simp [hc] at hv
          | some w =>
            cases w with
            | frame c rows =>
              obtain ⟨ca, ra, cb, rb, hx, hy, hcu⟩ := concatV_frame hc
              subst hx; subst hy
              have hs : schema2 (srcCols ss) (.concat l r) = some c :=
                schema2_sound ss (.concat l r) c rows (by simp [den2, hl, hr, hc])
              rw [hsch] at hs
              cases hs
              rw [← hc, ← hv, hcu]
              exact (concat_drop ca cb ra rb).symm
            | series _ => have := concatV_frameOrNone x y; rw [hc] at this; exact absurd this (by simp [FrameOrNone])
            | scalar _ => have := concatV_frameOrNone x y; rw [hc] at this; exact absurd this (by simp [FrameOrNone])
    · simp at h
  · simp at h

/-- `Projection._simplify_down` above a merge: the projection is dropped when it selects exactly the merge's columns -/
theorem rMergeDrop_sound (ss : List Src) (a a' : E2) (h : rMergeDrop (srcCols ss) a = some a') :
    Ref (den2 ss a) (den2 ss a') := by
  unfold rMergeDrop at h
  split at h
  · rename_i cs how on l r
    split at h
    · rename_i hcond
      simp only [Bool.and_eq_true, decide_eq_true_eq] at hcond
      obtain ⟨hsch, hnd⟩ := hcond
      simp only [Option.some.injEq] at h
      subst h
      intro v hv
      simp only [den2] at hv ⊢
      cases hl : den2 ss l with
      | none => simp [hl] at hv
      | some x =>
        cases hr : den2 ss r with
        | none => simp [hl, hr] at hv
        | some y =>
          simp only [hl, hr, Option.bind_some] at hv ⊢
          cases hc : mergeV how on x y with
          | none => simp [hc] at hv
          | some w =>
            cases w with
            | frame c rows =>
              obtain ⟨cl, rl, cr, rr, hx, hy, _, hcu⟩ := mergeV_frame hc
              subst hx; subst hy
              have hs : schema2 (srcCols ss) (.merge how on l r) = some c :=
                schema2_sound ss (.merge how on l r) c rows (by simp [den2, hl, hr, hc])
              rw [hsch] at hs
              cases hs
              rw [← hc, ← hv, hcu]
              exact (merge_drop how on cl cr rl rr (hcu ▸ hnd)).symm
            | series _ => have := mergeV_frameOrNone how on x y; rw [hc] at this; exact absurd this (by simp [FrameOrNone])
            | scalar _ => have := mergeV_frameOrNone how on x y; rw [hc] at this; exact absurd this (by simp [FrameOrNone])
    · simp at h
  · simp at h

/-- `Merge._simplify_up` (projection pushdown keeping the join keys), left side -/
theorem rMergeL_sound (ss : List Src) (pl : List String) (a a' : E2) (h : rMergeL (srcCols ss) pl a = some a') :
    den2 ss a' = den2 ss a := by
  unfold rMergeL at h
  split at h
  · rename_i p how on l r hp
    split at h
    · rename_i cl cr hcl hcr
      split at h
      · rename_i hok
        simp only [Bool.and_eq_true] at hok
        simp only [Option.some.injEq] at h
        subst h
        rw [asPar_eq hp, den2_app, den2_app]
        simp only [den2]
        apply push_left_expr ss (mergeV how on) p pl l r (mergeV_frameOrNone how on)
          (mergeV_nonframe_left how on) (mergeV_nonframe_right how on)
        intro ca ra cb rb hl hr
        have h1 := schema2_sound ss l ca ra hl
        have h2 := schema2_sound ss r cb rb hr
        rw [srcCols] at hcl hcr
        rw [hcl] at h1; rw [hcr] at h2
        cases h1; cases h2
        exact merge_push_left how on p.cols pl cl cr ra rb hok.1
      · simp at h
    · simp at h
  · simp at h

/-- `Merge._simplify_up`, right side -/
theorem rMergeR_sound (ss : List Src) (pr : List String) (a a' : E2) (h : rMergeR (srcCols ss) pr a = some a') :
    den2 ss a' = den2 ss a := by
  unfold rMergeR at h
  split at h
  · rename_i p how on l r hp
    split at h
    · rename_i cl cr hcl hcr
      split at h
      · rename_i hok
        simp only [Bool.and_eq_true] at hok
        simp only [Option.some.injEq] at h
        subst h
        rw [asPar_eq hp, den2_app, den2_app]
        simp only [den2]
        apply push_right_expr ss (mergeV how on) p pr l r (mergeV_frameOrNone how on)
          (mergeV_nonframe_left how on) (mergeV_nonframe_right how on)
        intro ca ra cb rb hl hr
        have h1 := schema2_sound ss l ca ra hl
        have h2 := schema2_sound ss r cb rb hr
        rw [srcCols] at hcl hcr
        rw [hcl] at h1; rw [hcr] at h2
        cases h1; cases h2
        exact merge_push_right how on p.cols pr cl cr ra rb hok.1
      · simp at h
    · simp at h
  · simp at h

/-! ## the `Len` / `Index` schemas (`Len._simplify_down`, `FromPandas._simplify_up(Len)`) -/

theorem den_len_zero (ss : List Src) (f : E2) : Ref (den2 ss (.len f)) (den2 ss (.bin .add (.lit 0) (.len f))) := by
  simp only [den2]
  exact zero_add_len (den2 ss f)

theorem den_len_index (ss : List Src) (f : E2) : den2 ss (.len (.index f)) = den2 ss (.len f) := by
  simp only [den2]
  cases den2 ss f with
  | none => rfl
  | some v => exact len_index v

theorem den_len_unary (ss : List Src) (g : E2) (F : Val2 → Option Val2) (hF : ∀ v, Ref ((F v).bind lenV) (lenV v)) :
    Ref (((den2 ss g).bind F).bind lenV) ((den2 ss g).bind lenV) := by
  cases den2 ss g with
  | none => exact Ref.rfl' _
  | some v => exact hF v

theorem den_len_assign (ss : List Src) (g : E2) (n : String) (v : E2) : Ref (den2 ss (.len (.assign g n v))) (den2 ss (.len g)) := by
  simp only [den2]
  cases den2 ss g with
  | none => exact Ref.rfl' _
  | some x =>
    cases den2 ss v with
    | none => intro w h; simp at h
    | some y => exact len_assign n x y

theorem den_len_concat (ss : List Src) (l r : E2) : Ref (den2 ss (.len (.concat l r))) (den2 ss (.bin .add (.len l) (.len r))) := by
  simp only [den2]
  cases den2 ss l with
  | none => intro w h; simp at h
  | some x =>
    cases den2 ss r with
    | none => intro w h; simp at h
    | some y => exact len_concat x y

theorem den_len_src (ss : List Src) (j n : Nat) (h : (srcLens ss)[j]? = some n) : den2 ss (.len (.src j)) = den2 ss (.lit (n : Int)) := by
  simp only [srcLens, List.getElem?_map] at h
  cases hs : ss[j]? with
  | none => simp [hs] at h
  | some s =>
    simp only [hs, Option.map_some, Option.some.injEq] at h
    simp [den2, hs, srcV, lenV, h]

theorem den_index_filter (ss : List Src) (f p : E2) : den2 ss (.index (.filter f p)) = den2 ss (.filter (.index f) p) := by
  simp only [den2]
  cases den2 ss f with
  | none => rfl
  | some x =>
    cases den2 ss p with
    | none => cases hi : indexV x <;> simp [hi]
    | some q => exact index_filter x q

/-- every `Len` / `Index` rewrite the rules may perform refines the value -/
theorem lenCands_sound (ss : List Src) (a a' : E2) (h : a' ∈ lenCands (srcLens ss) a) : Ref (den2 ss a) (den2 ss a') := by
  unfold lenCands at h
  split at h
  · simp only [List.mem_cons, List.not_mem_nil, or_false] at h
    rcases h with rfl | rfl
    · exact Ref.of_eq (den_len_index ss _)
    · exact den_len_zero ss _
  · simp only [List.mem_cons, List.not_mem_nil, or_false] at h
    rcases h with rfl | rfl | rfl
    · simp only [den2]; exact den_len_unary ss _ _ (len_proj _)
    · exact Ref.of_eq (den_len_index ss _).symm
    · exact den_len_zero ss _
  · simp only [List.mem_cons, List.not_mem_nil, or_false] at h
    rcases h with rfl | rfl
    · simp only [den2]; exact den_len_unary ss _ _ (len_col _)
    · exact den_len_zero ss _
  · simp only [List.mem_cons, List.not_mem_nil, or_false] at h
    rcases h with rfl | rfl | rfl
    · exact den_len_assign ss _ _ _
    · exact Ref.of_eq (den_len_index ss _).symm
    · exact den_len_zero ss _
  · simp only [List.mem_cons, List.not_mem_nil, or_false] at h
    rcases h with rfl | rfl
    · rename_i op x k
      simp only [den2]
      cases den2 ss x with
      | none => exact Ref.rfl' _
      | some v => simpa using len_bin_lit op v k
    · exact den_len_zero ss _
  · simp only [List.mem_cons, List.not_mem_nil, or_false] at h
    rcases h with rfl | rfl
    · simp only [den2]; exact den_len_unary ss _ _ len_not
    · exact den_len_zero ss _
  · simp only [List.mem_cons, List.not_mem_nil, or_false] at h
    subst h
    exact den_len_concat ss _ _
  · split at h
    · rename_i n hn
      simp only [List.mem_cons, List.not_mem_nil, or_false] at h
      rcases h with rfl | rfl
      · exact Ref.of_eq (den_len_src ss _ n hn)
      · exact den_len_zero ss _
    · simp at h
  · simp only [List.mem_cons, List.not_mem_nil, or_false] at h
    rcases h with rfl | rfl
    · exact Ref.of_eq (den_len_index ss _).symm
    · exact den_len_zero ss _
  · simp only [List.mem_cons, List.not_mem_nil, or_false] at h
    subst h
    exact Ref.of_eq (den_index_filter ss _ _)
  · simp at h

/-! ## the checker -/

theorem cands_sound (ss : List Src) (a b a' : E2) (h : a' ∈ cands (srcCols ss) (srcLens ss) a b) : Ref (den2 ss a) (den2 ss a') := by
  unfold cands at h
  simp only [List.mem_append, List.mem_filterMap, Option.mem_toList, List.mem_filter] at h
  rcases h with (((((⟨p, _, hp⟩ | ⟨p, _, hp⟩) | ⟨p, _, hp⟩) | ⟨p, _, hp⟩) | hp) | hp) | ⟨hp, _⟩
  · exact Ref.of_eq (rConcatL_sound ss p a a' hp).symm
  · exact Ref.of_eq (rConcatR_sound ss p a a' hp).symm
  · exact Ref.of_eq (rMergeL_sound ss p a a' hp).symm
  · exact Ref.of_eq (rMergeR_sound ss p a a' hp).symm
  · exact rConcatDrop_sound ss a a' hp
  · exact rMergeDrop_sound ss a a' hp
  · exact lenCands_sound ss a a' hp

theorem congr_sound (ss : List Src) (chk : E2 → E2 → Bool) (hchk : ∀ x y, chk x y = true → Ref (den2 ss x) (den2 ss y))
    (a b : E2) (h : RelExpr2.congr chk a b = true) : Ref (den2 ss a) (den2 ss b) := by
  unfold RelExpr2.congr at h
  split at h <;> try simp only [Bool.and_eq_true, beq_iff_eq] at h
  · obtain ⟨rfl, h1⟩ := h; simp only [den2]; exact Ref.bind1 _ (hchk _ _ h1)
  · obtain ⟨rfl, h1⟩ := h; simp only [den2]; exact Ref.bind1 _ (hchk _ _ h1)
  · obtain ⟨h1, h2⟩ := h; simp only [den2]; exact Ref.bind2 filterV (hchk _ _ h1) (hchk _ _ h2)
  · obtain ⟨⟨rfl, h1⟩, h2⟩ := h; simp only [den2]; exact Ref.bind2 (assignV _) (hchk _ _ h1) (hchk _ _ h2)
  · obtain ⟨⟨rfl, h1⟩, h2⟩ := h; simp only [den2]; exact Ref.bind2 (binV _) (hchk _ _ h1) (hchk _ _ h2)
  · simp only [den2]; exact Ref.bind1 _ (hchk _ _ h)
  · obtain ⟨⟨⟨rfl, rfl⟩, h1⟩, h2⟩ := h; simp only [den2]; exact Ref.bind2 (mergeV _ _) (hchk _ _ h1) (hchk _ _ h2)
  · obtain ⟨h1, h2⟩ := h; simp only [den2]; exact Ref.bind2 concatV (hchk _ _ h1) (hchk _ _ h2)
  · simp only [den2]; exact Ref.bind1 _ (hchk _ _ h)
  · simp only [den2]; exact Ref.bind1 _ (hchk _ _ h)
  · simp at h

/-- SOUNDNESS OF THE EXTENDED CHECKER: an accepted step refines the value — whenever the expression before the step is
    well-formed, the expression after it is well-formed and has the same value (for every list of sources, every
    fuel, every sound leaf oracle) -/
theorem check2_sound (ss : List Src) (leaf : E2 → E2 → Bool) (hleaf : ∀ x y, leaf x y = true → Ref (den2 ss x) (den2 ss y)) :
    ∀ (fuel : Nat) (a b : E2), check2 leaf (srcCols ss) (srcLens ss) fuel a b = true → Ref (den2 ss a) (den2 ss b) := by
  intro fuel
  induction fuel with
  | zero =>
    intro a b h
    simp only [check2, beq_iff_eq] at h
    subst h
    exact Ref.rfl' _
  | succ n ih =>
    intro a b h
    simp only [check2, Bool.or_eq_true, beq_iff_eq, List.any_eq_true] at h
    rcases h with ((h | h) | h) | ⟨a', hm, h⟩
    · subst h; exact Ref.rfl' _
    · exact hleaf a b h
    · exact congr_sound ss _ ih a b h
    · exact Ref.trans (cands_sound ss a b a' hm) (ih a' b h)

theorem checkTrace2_sound (ss : List Src) (leaf : E2 → E2 → Bool) (hleaf : ∀ x y, leaf x y = true → Ref (den2 ss x) (den2 ss y))
    (fuel : Nat) : ∀ (es : List E2) (e : E2), checkTrace2 leaf (srcCols ss) (srcLens ss) fuel (e :: es) = true →
      Ref (den2 ss e) (den2 ss ((e :: es).getLast (by simp))) := by
  intro es
  induction es with
  | nil => intro e _; exact Ref.rfl' _
  | cons x xs ih =>
    intro e h
    simp only [checkTrace2, Bool.and_eq_true] at h
    have h1 := check2_sound ss leaf hleaf fuel e x h.1
    have h2 := ih x h.2
    simp only [List.getLast_cons_cons]
    exact Ref.trans h1 h2

/-- the trivial leaf oracle -/
def noLeaf : E2 → E2 → Bool := fun _ _ => false

theorem check2_noLeaf_sound (ss : List Src) (fuel : Nat) (a b : E2)
    (h : check2 noLeaf (srcCols ss) (srcLens ss) fuel a b = true) : Ref (den2 ss a) (den2 ss b) :=
  check2_sound ss noLeaf (fun _ _ h => by simp [noLeaf] at h) fuel a b h

/-- THE CHECKER AS THE HARNESS RUNS IT (leaf oracle = the old proved single-source checker `checkStep` on sub-steps):
    for well-formed sources, an accepted step refines the value -/
theorem check2_old_sound (ss : List Src) (hwf : ∀ s ∈ ss, Dask.C43.WF s) (fuel : Nat) (a b : E2)
    (h : check2 (oldOK (srcCols ss)) (srcCols ss) (srcLens ss) fuel a b = true) : Ref (den2 ss a) (den2 ss b) :=
  check2_sound ss _ (fun x y hxy => Ref.of_eq (oldOK_sound ss hwf x y hxy)) fuel a b h

/-- … and so does every accepted trace: if the logical expression has a value, the last expression of the trace has
    the same value -/
theorem checkTrace2_old_sound (ss : List Src) (hwf : ∀ s ∈ ss, Dask.C43.WF s) (fuel : Nat) (es : List E2) (e : E2)
    (h : checkTrace2 (oldOK (srcCols ss)) (srcCols ss) (srcLens ss) fuel (e :: es) = true) :
    Ref (den2 ss e) (den2 ss ((e :: es).getLast (by simp))) :=
  checkTrace2_sound ss _ (fun x y hxy => Ref.of_eq (oldOK_sound ss hwf x y hxy)) fuel es e h

/-! ## non-vacuity: concrete accepted / rejected steps (kernel-evaluated) -/

def exSrcs : List Src :=
  [⟨["k", "a", "c"], [[some 1, some 10, some 0], [some 2, some 20, none], [some 2, some 30, some 5]]⟩,
   ⟨["k", "a", "b"], [[some 2, some 5, some 7], [some 3, some 6, some 8]]⟩]

example : ∀ s ∈ exSrcs, Dask.C43.WF s := by
  intro s hs
  simp only [exSrcs, List.mem_cons, List.not_mem_nil, or_false] at hs
  rcases hs with rfl | rfl <;> exact ⟨by decide, by decide⟩

/-- `merge(l, r, how='left')[['a_x', 'b']] ⟶ merge(l[['k','a']], r)[['a_x','b']]` is accepted … -/
example : check2 noLeaf (srcCols exSrcs) (srcLens exSrcs) 6
    (.proj ["a_x", "b"] (.merge .left ["k"] (.src 0) (.src 1)))
    (.proj ["a_x", "b"] (.merge .left ["k"] (.proj ["k", "a"] (.src 0)) (.src 1))) = true := by decide

/-- … but also dropping `a` on the right (which would rename `a_x` to `a`) is REJECTED -/
example : check2 noLeaf (srcCols exSrcs) (srcLens exSrcs) 6
    (.proj ["a_x", "b"] (.merge .left ["k"] (.src 0) (.src 1)))
    (.proj ["a_x", "b"] (.merge .left ["k"] (.proj ["k", "a"] (.src 0)) (.proj ["k", "b"] (.src 1)))) = false := by decide

/-- dropping a join key is rejected -/
example : check2 noLeaf (srcCols exSrcs) (srcLens exSrcs) 6
    (.proj ["c"] (.merge .inner ["k"] (.src 0) (.src 1)))
    (.proj ["c"] (.merge .inner ["k"] (.proj ["c"] (.src 0)) (.src 1))) = false := by decide

/-- `concat([l, r])[['k','b']] ⟶ concat([l[['k']], r[['k','b']]])` (parent projection dropped) -/
example : check2 noLeaf (srcCols exSrcs) (srcLens exSrcs) 6
    (.proj ["k", "b"] (.concat (.src 0) (.src 1)))
    (.concat (.proj ["k"] (.src 0)) (.proj ["k", "b"] (.src 1))) = true := by decide

/-- `len(concat([l, r])) ⟶ 0 + 3 + 2` -/
example : check2 noLeaf (srcCols exSrcs) (srcLens exSrcs) 8
    (.len (.concat (.src 0) (.src 1))) (.bin .add (.bin .add (.lit 0) (.lit 3)) (.lit 2)) = true := by decide

/-- a wrong length is rejected -/
example : check2 noLeaf (srcCols exSrcs) (srcLens exSrcs) 8
    (.len (.concat (.src 0) (.src 1))) (.bin .add (.bin .add (.lit 0) (.lit 3)) (.lit 3)) = false := by decide

/-- the denotation is not vacuous: the left merge of the example sources, projected -/
example : den2 exSrcs (.proj ["a_x", "b"] (.merge .left ["k"] (.src 0) (.src 1))) =
    some (.frame ["a_x", "b"] [([0, 0], [some 10, none]), ([0, 1, 1, 0], [some 20, some 7]), ([0, 2, 1, 0], [some 30, some 7])]) := by
  decide

end Dask.C43x
