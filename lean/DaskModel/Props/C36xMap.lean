import DaskModel.Model.FrameMap
import DaskModel.Props.C36
/-!
# C36 extension — `Series.map(dict)` (+ assign of the mapped column) equals pandas for every partitioning

* `mapCol_append` — the per-block function is row-local;
* `daskMapCol_den` — mapped partition by partition = mapped on the whole frame (values, index labels, row order);
* `daskMapCol_divisions`, `daskMapCol_nparts` — divisions / partition count unchanged;
* `mapCol_index` — index labels and row order are those of the input; `mapCol_length`;
* `mapCell_none`, `mapCell_some_mem`, `mapCell_missing` — the cell semantics (NaN stays NaN, a hit comes from the
  dict, a key that is not in the dict gives NaN);
* `mapCol_other_cols` — every column other than `dst` is untouched.
-/
namespace Dask.C36
open Dask.Frame

theorem mapCol_append (d : List (Int × Int)) (s j : Nat) (p q : Frame) :
    mapCol d s j (p ++ q) = mapCol d s j p ++ mapCol d s j q := by
  simp [mapCol]

/-- **C36 (map)**: `Series.map(dict)` + assign done per partition equals pandas on the whole frame. -/
theorem daskMapCol_den (d : List (Int × Int)) (s j : Nat) (pf : PFrame) :
    (daskMapCol d s j pf).den = mapCol d s j pf.den :=
  blockwise_rowlocal _ (mapCol_append d s j) pf

theorem daskMapCol_divisions (d : List (Int × Int)) (s j : Nat) (pf : PFrame) :
    (daskMapCol d s j pf).divisions = pf.divisions := rfl

theorem daskMapCol_nparts (d : List (Int × Int)) (s j : Nat) (pf : PFrame) :
    (daskMapCol d s j pf).parts.length = pf.parts.length := by
  simp [daskMapCol, PFrame.mapParts]

theorem mapCol_index (d : List (Int × Int)) (s j : Nat) (f : Frame) :
    (mapCol d s j f).map Row.idx = f.map Row.idx := by
  simp [mapCol, mapColRow, Function.comp_def]

theorem mapCol_length (d : List (Int × Int)) (s j : Nat) (f : Frame) : (mapCol d s j f).length = f.length := by
  simp [mapCol]

theorem mapCell_none (d : List (Int × Int)) : mapCell d none = none := rfl

theorem mapCell_some_mem (d : List (Int × Int)) (v w : Int) (h : mapCell d (some v) = some w) : (v, w) ∈ d := by
  induction d with
  | nil => simp [mapCell, List.lookup] at h
  | cons kv d ih =>
    obtain ⟨k, x⟩ := kv
    simp only [mapCell, List.lookup] at h ih
    by_cases hk : v = k
    · subst hk; simp at h; subst h; simp
    · have : (v == k) = false := by simpa using hk
      rw [this] at h
      exact List.mem_cons_of_mem _ (ih h)

theorem mapCell_missing (d : List (Int × Int)) (v : Int) (h : ∀ kv ∈ d, kv.1 ≠ v) : mapCell d (some v) = none := by
  induction d with
  | nil => rfl
  | cons kv d ih =>
    obtain ⟨k, x⟩ := kv
    have hk : (v == k) = false := by
      have := h (k, x) (by simp); simpa using fun e => this e.symm
    simp only [mapCell, List.lookup, hk] at ih ⊢
    exact ih (fun kv hkv => h kv (List.mem_cons_of_mem _ hkv))

/-- columns other than the assigned one keep their cells -/
theorem mapCol_other_cols (d : List (Int × Int)) (s j i : Nat) (r : Row) (hi : i ≠ j) (hlt : i < r.cells.length) :
    (mapColRow d s j r).cells[i]? = r.cells[i]? := by
  simp only [mapColRow, setCol]
  split
  · simp [List.getElem?_set, Ne.symm hi]
  · rw [List.getElem?_append_left hlt]

example : (daskMapCol [(1, 5), (2, 7)] 0 1 { parts := [[⟨0, [some 1]⟩], [], [⟨0, [none]⟩, ⟨3, [some 4]⟩, ⟨4, [some 2]⟩]] }).parts
    = [[⟨0, [some 1, some 5]⟩], [], [⟨0, [none, none]⟩, ⟨3, [some 4, none]⟩, ⟨4, [some 2, some 7]⟩]] := by decide

end Dask.C36
