import DaskModel.Lemmas.ArrOverlapLemmas
import DaskModel.Lemmas.ArrOverlapLocal
import DaskModel.Lemmas.ArrOverlapBoundary
import DaskModel.Lemmas.ArrPadsLemmas
import DaskModel.Lemmas.ArrOverlapTrimArg
/-!
# C26 — overlap computations match the unchunked stencil (theorems)

Statement (properties.jsonl): for any chunking, overlapping blocks and trimming them again is the identity;
`map_overlap` with depth `d` and any boundary equals pad-apply-trim on the whole array for every function
whose window fits within `d`; `sliding_window_view` equals NumPy's.

About the transliteration `Model/ArrOverlap.lean` (one axis; the N-d operation is the per-axis product), for
**every** chunk list and every asymmetric depth `(dl, dr)`:

* `trim_overlap_chunks`   the chunks `trim_internal` declares for the chunks `overlap_internal` declares are
                          the original chunks (no hypothesis on sizes);
* `trim_overlap_id`       **trim ∘ overlap = id on the blocks** when every block is at least as long as the depth
                          (the guard `ensure_minimum_chunksize` establishes);
* `overlap_block_sizes`   under the same guard the overlapped blocks have exactly the declared sizes (lazy chunks
                          agree with computed blocks);
* `trim_overlap_id_needs_guard`  witness: without the guard the identity fails in the model exactly as in the code
                          (a neighbour shorter than the depth contributes fewer cells than are trimmed);
* `map_overlap_eq_global`  **map_overlap = the function on the whole axis** (boundary 'none'): for every function
                          whose output at a cell depends on at most `dl` cells before and `dr` cells after it (windows
                          cut at the array ends), mapping it over the overlapped blocks and trimming gives, block by
                          block, exactly its values on the unchunked axis — under the same size guard;
* `ensure_min_ok`, `ensure_min_raises_only_if_short`   `ensure_minimum_chunksize` keeps the axis length, makes
                          every chunk ≥ size, and raises only when the axis is shorter than `size`.

Validated, not proved: boundary index maps (`padPositions`, diffed against `boundaries()` and `np.pad`) and hence
`map_overlap` with a boundary other than 'none' (= the theorem applied to the padded array; validated with random
linear stencils vs pad-apply-trim), rechunking (C23), `sliding_window_view`.
-/
namespace Dask.C26
open Dask.ArrOverlap

theorem trim_overlap_chunks (dl dr : Nat) (cs : List Nat) :
    trimChunks true dl dr ((overlapChunks dl dr cs).map (fun (c : Nat) => (c : Int)))
      = cs.map (fun (c : Nat) => (c : Int)) :=
  trimChunks_overlapChunks dl dr cs

theorem trim_overlap_id {α : Type} (dl dr : Nat) (blocks : List (List α))
    (hbig : ∀ b ∈ blocks, dl ≤ b.length ∧ dr ≤ b.length) :
    trimBlocks true dl dr (overlapBlocks dl dr blocks) = blocks :=
  trim_overlap_blocks dl dr blocks hbig

theorem overlap_block_sizes {α : Type} (dl dr : Nat) (blocks : List (List α))
    (hbig : ∀ b ∈ blocks, dl ≤ b.length ∧ dr ≤ b.length) :
    (overlapBlocks dl dr blocks).map List.length = overlapChunks dl dr (blocks.map List.length) :=
  overlapBlocks_lengths dl dr blocks hbig

/-- non-vacuity: chunks (3, 2, 4), depth (2, 1) -/
example : overlapBlocks 2 1 [[0, 1, 2], [3, 4], [5, 6, 7, 8]] = [[0, 1, 2, 3], [1, 2, 3, 4, 5], [3, 4, 5, 6, 7, 8]] := by
  decide
example : trimBlocks true 2 1 (overlapBlocks 2 1 [[0, 1, 2], [3, 4], [5, 6, 7, 8]]) = [[0, 1, 2], [3, 4], [5, 6, 7, 8]] := by
  decide

/-- The size guard is needed: with a block shorter than the depth the round trip loses cells
    (this is why `overlap` rechunks with `ensure_minimum_chunksize` or raises). -/
theorem trim_overlap_id_needs_guard :
    trimBlocks true 2 0 (overlapBlocks 2 0 [[0], [1, 2, 3]]) ≠ [[0], [1, 2, 3]] := by decide

/-- `win dl dr g` is the general form of a function "whose window fits within the depth": the output for a cell is
    `g (up to dl cells before) cell (up to dr cells after)`. -/
theorem map_overlap_eq_global {α β : Type} (dl dr : Nat) (g : List α → α → List α → β) (blocks : List (List α))
    (hbig : ∀ blk ∈ blocks, dl ≤ blk.length ∧ dr ≤ blk.length) :
    (trimBlocks true dl dr ((overlapBlocks dl dr blocks).map (winFn dl dr g))).flatten
      = winFn dl dr g blocks.flatten :=
  map_overlap_local dl dr g blocks hbig

/-- non-vacuity: a 3-point sum (one back, one ahead) over chunks (2, 3, 2) -/
example :
    let g : List Int → Int → List Int → Int := fun pre x post => pre.sum + x + post.sum
    (trimBlocks true 1 1 ((overlapBlocks 1 1 [[1, 2], [3, 4, 5], [6, 7]]).map (winFn 1 1 g))).flatten
      = winFn 1 1 g [1, 2, 3, 4, 5, 6, 7] := by decide

/-- **`map_overlap` with a boundary other than 'none' = pad – apply – trim on the whole axis.** `padL`, `padR` are
    the `d` cells the boundary kind puts before and after the axis (periodic / reflect / nearest / constant: the index
    maps `padPositions`, diffed cell by cell against `boundaries()` and `np.pad`). For every function that looks at most
    `d` cells back and `d` ahead and every chunking whose blocks have at least `d` cells (what `ensure_minimum_chunksize`
    establishes): mapping over the blocks of `overlap(x, d, boundary)` and trimming `d` cells off both sides of every
    block gives exactly the function applied to the padded axis with the pads cut off again. -/
theorem map_overlap_boundary_eq_global {α β : Type} (d : Nat) (g : List α → α → List α → β) (padL padR : List α)
    (blocks : List (List α)) (hl : padL.length = d) (hr : padR.length = d)
    (hbig : ∀ blk ∈ blocks, d ≤ blk.length) :
    (trimBlocks false d d ((overlapWithBoundary d padL padR blocks).map (winFn d d g))).flatten
      = ((winFn d d g (padL ++ blocks.flatten ++ padR)).drop d).take blocks.flatten.length := by
  rw [map_overlap_boundary d g padL padR blocks (by omega) (by omega) hbig, win_pad_middle, hl]

/-- non-vacuity: a 3-point sum with periodic boundary over chunks (2, 3): pads are x[-1:] and x[:1] -/
example :
    let g : List Int → Int → List Int → Int := fun pre x post => pre.sum + x + post.sum
    (trimBlocks false 1 1 ((overlapWithBoundary 1 [5] [1] [[1, 2], [3, 4, 5]]).map (winFn 1 1 g))).flatten
      = [8, 6, 9, 12, 10] := by decide
example : overlapWithBoundary 1 [5] [1] [[1, 2], [3, 4, 5]] = [[5, 1, 2, 3], [2, 3, 4, 5, 1]] := by decide

/-- **The boundary kinds as index maps, from the code's own slices.** `codeLeft` / `codeRight` are the pads as
    `periodic`, `reflect`, `nearest`, `constant` build them — Python slices of the axis (`x[-d:]`, `x[0:d]`, `x[d-1::-1]`
    with the `depth == 1` special case, `x[-1:-d-1:-1]`, `repeat(x[0:1], d)`, `repeat(x[-1:-2:-1], d)`) evaluated with
    Python's slice semantics (`pySliceIdx`). For every axis length `n` and every depth `1 ≤ d ≤ n` they are the closed-form
    index maps `padLeft` / `padRight` … -/
theorem boundary_slices_are_index_maps (k : Kind) (d n : Nat) (h1 : 1 ≤ d) (h2 : d ≤ n) :
    codeLeft k d n = some ((padLeft k d n).map (Option.map fun (p : Nat) => (p : Int))) ∧
    codeRight k d n = some ((padRight k d n).map (Option.map fun (p : Nat) => (p : Int))) :=
  ⟨codeLeft_eq k d n h1 h2, codeRight_eq k d n h1 h2⟩

/-- …and the padded axis `padPositions` (left pad ++ axis ++ right pad) reads, cell by cell, what `np.pad` reads with
    `mode='wrap'` (periodic: `(i - d) mod n`), `'symmetric'` (reflect: mirrored at the edges, edge cell included),
    `'edge'` (nearest) and `'constant'` (fill). With `map_overlap_boundary_eq_global` (which holds for ANY pads):
    `map_overlap(f, x, depth=d, boundary=kind)` = `f` on `np.pad(x, d, mode)` with the pads cut off, on one axis. -/
theorem boundary_index_maps_eq_np_pad (k : Kind) (d n i : Nat) (h1 : 1 ≤ d) (h2 : d ≤ n) (hi : i < n + 2 * d) :
    (padPositions k d n)[i]? = some (npPadIndex k d n i) :=
  padPositions_get k d n i h1 h2 hi

/-- non-vacuity: depth 2 on an axis of 5 -/
example : codeLeft .reflect 2 5 = some [some 1, some 0] ∧ codeRight .reflect 2 5 = some [some 4, some 3] ∧
    codeLeft .periodic 2 5 = some [some 3, some 4] ∧ codeRight .nearest 2 5 = some [some 4, some 4] := by decide
example : (List.range 9).map (npPadIndex .reflect 2 5) = [some 1, some 0, some 0, some 1, some 2, some 3, some 4, some 4, some 3] ∧
    padPositions .reflect 2 5 = [some 1, some 0, some 0, some 1, some 2, some 3, some 4, some 4, some 3] := by decide

/-- **`sliding_window_view`** (one axis, window `d + 1`): every block is extended by the first `d` cells of its right
    neighbour (`map_overlap(..., depth=(0, d), boundary='none', trim=False)`), NumPy's `sliding_window_view` is applied
    per block, and the results, concatenated in block order, are exactly NumPy's windows of the whole axis — for every
    chunking whose blocks have at least `d` cells (the code makes them `≥ d + 1` with `ensure_minimum_chunksize`). -/
theorem sliding_window_view_eq_global {α : Type} (d : Nat) (blocks : List (List α))
    (hbig : ∀ blk ∈ blocks, d ≤ blk.length) :
    (slidingBlocks (d + 1) blocks).flatten = windows (d + 1) blocks.flatten := by
  unfold slidingBlocks overlapBlocks
  exact sliding_aux d blocks none hbig

/-- non-vacuity: window 3 over chunks (3, 2, 3) -/
example : slidingBlocks 3 [[0, 1, 2], [3, 4], [5, 6, 7]]
    = [[[0, 1, 2], [1, 2, 3], [2, 3, 4]], [[3, 4, 5], [4, 5, 6]], [[5, 6, 7]]] := by decide
example : windows 3 [0, 1, 2, 3, 4, 5, 6, 7] = [[0, 1, 2], [1, 2, 3], [2, 3, 4], [3, 4, 5], [4, 5, 6], [5, 6, 7]] := by
  decide

/-- the guard is needed: a block shorter than `d` cannot supply its left neighbour's windows -/
theorem sliding_window_needs_guard :
    (slidingBlocks 3 [[0, 1, 2], [3], [4, 5]]).flatten ≠ windows 3 [0, 1, 2, 3, 4, 5] := by decide

/-- **Which argument governs the trim of `map_overlap`.** With several array arguments (each overlapped by its OWN depth
    and boundary), `trim_internal` is applied with the depth and boundary of argument
    `sorted(enumerate(args), key=lambda v: (v[1].ndim, -v[0]))[-1][0]`: for every non-empty list of ranks this is an
    argument of the highest rank, and no earlier argument has that rank — the FIRST argument of highest rank. -/
theorem trim_follows_first_highest_rank (ranks : List Nat) (hne : ranks ≠ []) :
    ∃ i r, trimArg ranks = some i ∧ ranks[i]? = some r ∧ (∀ (j r' : Nat), ranks[j]? = some r' → r' ≤ r) ∧
      (∀ (j r' : Nat), j < i → ranks[j]? = some r' → r' < r) :=
  trimArg_spec ranks hne

example : trimArg [1, 2, 2, 1] = some 1 ∧ trimArg [2, 2] = some 0 ∧ trimArg [1, 1, 3] = some 2 := by decide

theorem ensure_min_ok (size : Nat) (chunks r : List Nat) (h : ensureMin size chunks = some r) :
    r.sum = chunks.sum ∧ ∀ c ∈ r, size ≤ c :=
  ensureMin_ok size chunks r h

theorem ensure_min_raises_only_if_short (size : Nat) (chunks : List Nat) (h : ensureMin size chunks = none) :
    chunks.sum < size :=
  ensureMin_none size chunks h

example : ensureMin 10 [20, 20, 1] = some [20, 11, 10] := by decide
example : ensureMin 3 [1, 1, 3] = some [5] := by decide
example : ensureMin 4 [1, 2] = none := by decide

end Dask.C26
