import DaskModel.Lemmas.ArrayCacheLemmas
/-!
# C20 / C21 — histories on ONE `Array` object: cached attributes never go stale

`x.blocks[...]` / `x.partitions[...]` index the cached `_key_array`, `to_delayed()` and the schedulers use the cached
`__dask_keys__()`, `numblocks` / `shape` / `npartitions` / `ndim` / `size` are cached properties. `x[idx] = v`,
`ufunc(..., out=x)` and `compute_chunk_sizes()` change the name and/or the chunks of the SAME object. The property
"indexing computes to NumPy's result" must hold after any such history, i.e. every cached read must return what a fresh
array with the current name and chunks would return.

About the state machine `Model/ArrayCache.lean` (setters and cached reads transliterated from `class Array`):
-/
namespace Dask.C20Cache
open Dask.ArrayCache

/-- **Every history.** From any valid state (in particular a freshly constructed array) and for every sequence of cached
    reads (`numblocks`, `npartitions`, `shape`, `ndim`, `size`, `__dask_keys__()`, `_key_array`), bare `_name`
    assignments, bare `_chunks` assignments that keep the number of blocks (`compute_chunk_sizes`), `__setitem__`-style
    mutations (name, then chunks) and `out=`-style mutations (chunks, then name): every read returns exactly what a fresh
    array with the current name and chunks returns. -/
theorem history_reads_fresh (s : St) (h : Valid s) (ops : List Op) (hd : Disciplined s ops) :
    ∀ p ∈ trace s ops, p.1 = none ∨ p.1 = p.2 :=
  trace_fresh ops s h hd

theorem fresh_array_valid (name : Nat) (chunks : Chunks) : Valid (fresh name chunks) := fresh_valid name chunks

/-- the state `Array.__new__` leaves behind (it has already read `ndim`, hence `shape`) is valid -/
theorem constructed_array_valid (name : Nat) (chunks : Chunks) : Valid (constructed name chunks) :=
  (readNdim_spec (fresh name chunks) (fresh_valid name chunks)).1

/-- both in-place mutations leave NO cache filled, whatever was cached before (so no hypothesis on the old state) -/
theorem inplace_mutations_clear (s : St) (n : Nat) (c : Chunks) :
    filled (assignInPlace s n c) = [false, false, false, false, false, false, false] ∧
    filled (handleOut s n c) = [false, false, false, false, false, false, false] := by
  constructor <;> simp [filled, assignInPlace, handleOut, setName, setChunks]

/-- non-vacuity: `.blocks` (fills `_key_array`), then `x[k] = v` (new name 2), then `.blocks` again: the second read is
    made from the new name -/
example : run (constructed 1 [[2, 2], [3]]) [.rKeyArray, .assign 2 [[2, 2], [3]], .rKeyArray] =
    [(some (some 1, [2, 1]), [true, true, true, false, true, true, false]),
     (none, [false, false, false, false, false, false, false]),
     (some (some 2, [2, 1]), [true, true, true, false, false, false, false])] := by decide
example : Disciplined (fresh 1 [[2, 2], [3]]) [.rKeyArray, .assign 2 [[2, 2], [3]], .wChunks [[1, 3], [3]], .rKeyArray] := by
  simp [Disciplined, step, readKeyArray, readKeys, readNumblocks, assignInPlace, setName, setChunks, fresh, numblocksOf]

/-- **Why the `_name` setter must clear `_key_array`** (the discipline is necessary): a setter that only drops
    `_cached_keys` leaves a stale key array — after a rename, `_key_array` still answers with the old name. -/
def setNameStale (s : St) (n : Nat) : St := { s with name := n, cachedKeys := none }

theorem stale_key_array_without_invalidation :
    let s0 := (readKeyArray (fresh 1 [[2, 2]])).1
    (readKeyArray (setNameStale s0 2)).2 = (1, [2]) ∧ (readKeyArray (setName s0 2)).2 = (2, [2]) := by decide

/-- …and why a bare `_chunks` assignment may not change the number of blocks: `_cached_keys` survives it -/
theorem bare_chunks_change_keeps_old_keys :
    let s0 := (readKeys (fresh 1 [[2, 2]])).1
    (readKeys (setChunks s0 [[4]])).2 = (1, [2]) ∧ ¬ Valid (setChunks s0 [[4]]) := by
  refine ⟨by decide, ?_⟩
  intro h
  have := h.cachedKeys (1, [2]) (by decide)
  revert this
  decide

end Dask.C20Cache
