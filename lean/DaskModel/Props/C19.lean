import DaskModel.Model.Elemwise
import DaskModel.Lemmas.Elemwise
import DaskModel.Lemmas.Blockwise
import DaskModel.Generated.UfuncTable
/-! # C19 — elementwise and broadcasting array operations equal NumPy (theorems) -/
namespace Dask.C19
open Dask.Elemwise

/-! ## 1. which element an elementwise operation reads (one axis) -/

theorem locate_spec (c : List Nat) (i b l : Nat) (h : locate c i = some (b, l)) :
    globalOf c b l = i ∧ ∃ len, c[b]? = some len ∧ l < len := by
  induction c generalizing i b l with
  | nil => simp [locate] at h
  | cons x t ih =>
    simp only [locate] at h
    split at h
    · rename_i hlt
      simp at h
      obtain ⟨rfl, rfl⟩ := h
      exact ⟨by simp [globalOf], x, by simp, hlt⟩
    · rename_i hge
      cases hr : locate t (i - x) with
      | none => rw [hr] at h; simp at h
      | some p =>
        rw [hr] at h
        simp at h
        obtain ⟨rfl, rfl⟩ := h
        obtain ⟨hg, len, hlen, hl⟩ := ih (i - x) p.1 p.2 hr
        refine ⟨?_, len, by simpa using hlen, hl⟩
        simp only [globalOf, List.take_succ_cons, List.sum_cons] at hg ⊢
        omega

theorem locate_some_of_lt (c : List Nat) (i : Nat) (h : i < c.sum) : ∃ p, locate c i = some p := by
  induction c generalizing i with
  | nil => simp at h
  | cons x t ih =>
    simp only [locate]
    by_cases hlt : i < x
    · simp [hlt]
    · simp only [hlt, if_false]
      have : i - x < t.sum := by simp only [List.sum_cons] at h; omega
      obtain ⟨p, hp⟩ := ih (i - x) this
      exact ⟨(p.1 + 1, p.2), by simp [hp]⟩

/-- **elemwise_den (one axis).** The output axis is chunked as `c` (any chunking, zero-length chunks allowed). An
    argument either has the same length and — after `unify_chunks` — the same chunks, or has length 1 in a single chunk.
    For every output position `i` the element of the argument that `blockwise` + NumPy's in-block broadcasting read is
    the one NumPy's broadcasting reads: position `i`, respectively position `0`. -/
theorem elemwise_axis_den_same (c : List Nat) (i : Nat) (h : i < c.sum) : argPos c c i = some i := by
  obtain ⟨⟨b, l⟩, hp⟩ := locate_some_of_lt c i h
  obtain ⟨hg, len, hlen, hl⟩ := locate_spec c i b l hp
  unfold argPos
  simp only [hp, Option.bind_eq_bind, Option.bind_some]
  unfold argBlock
  by_cases h1 : c.length = 1
  · -- a single block: the block coordinate 0 is the block of `i`
    have hb : b = 0 := by
      have : b < c.length := (List.getElem?_eq_some_iff.mp hlen).1
      omega
    subst hb
    simp only [h1, if_true, hlen, Option.bind_some, Option.pure_def]
    unfold localIdx
    by_cases h2 : len = 1
    · have : l = 0 := by omega
      subst this
      simp [h2, hg]
    · simp [h2, hg]
  · simp only [h1, if_false, hlen, Option.bind_some, Option.pure_def]
    unfold localIdx
    by_cases h2 : len = 1
    · have : l = 0 := by omega
      subst this
      simp [h2, hg]
    · simp [h2, hg]

theorem elemwise_axis_den_bcast (c : List Nat) (i : Nat) (h : i < c.sum) : argPos c [1] i = some 0 := by
  obtain ⟨⟨b, l⟩, hp⟩ := locate_some_of_lt c i h
  unfold argPos
  simp [hp, argBlock, localIdx, globalOf]

/-- the statement of `elemwise_den` in one formula: NumPy's broadcast index `if size = 1 then 0 else i` -/
theorem elemwise_axis_den (c cArg : List Nat) (i : Nat) (h : i < c.sum)
    (harg : cArg = c ∨ cArg = [1]) : argPos c cArg i = some (if cArg.sum = 1 then 0 else i) := by
  rcases harg with rfl | rfl
  · rw [elemwise_axis_den_same cArg i h]
    by_cases h1 : cArg.sum = 1
    · simp [h1]; omega
    · simp [h1]
  · rw [elemwise_axis_den_bcast c i h]
    simp

/-- **elemwise_den (all axes).** `axes` lists, for every axis of an argument, the chunks of the output axis it is
    aligned with (`elemwise_alignment`), the argument's own chunks after `unify_chunks` and the output position.
    For every chunking the multi-index read from the argument is NumPy's broadcast multi-index. -/
theorem elemwise_den (axes : List (List Nat × List Nat × Nat))
    (h : ∀ t ∈ axes, t.2.2 < t.1.sum ∧ (t.2.1 = t.1 ∨ t.2.1 = [1])) :
    optAll (axes.map fun t => argPos t.1 t.2.1 t.2.2) = some (axes.map fun t => if t.2.1.sum = 1 then 0 else t.2.2) := by
  induction axes with
  | nil => rfl
  | cons t r ih =>
    have ht := h t (by simp)
    have hr := ih (fun x hx => h x (by simp [hx]))
    simp only [List.map_cons, optAll]
    rw [elemwise_axis_den t.1 t.2.1 t.2.2 ht.1 ht.2]
    simp only [optAll, hr, Option.map_some]

/-- non-vacuity: output chunks (2,3,2), position 4 lies in block 1 at offset 2 -/
example : argPos [2, 3, 2] [2, 3, 2] 4 = some 4 ∧ argPos [2, 3, 2] [1] 4 = some 0 ∧ locate [2, 3, 2] 4 = some (1, 2) := by decide

/-! ## 2. `common_blockdim`: the chunks `unify_chunks` rechunks to are a common refinement -/

/-- **commonBlockdim_refines.** When at least two distinct multi-chunk tuples (positive chunks, same total) compete for a
    dimension, `common_blockdim` does not raise, terminates within its fuel, and returns a chunking with the same total
    that refines every one of them (each input chunking is obtained by merging consecutive result chunks). -/
theorem commonBlockdim_refines (bds : List (List Nat)) (d e : List Nat) (r : List (List Nat))
    (hnt : (bds.filter (fun c => c.length > 1)).eraseDups = d :: e :: r)
    (hpos : ∀ c ∈ d :: e :: r, ∀ x ∈ c, 0 < x) (hsum : ∀ c ∈ d :: e :: r, c.sum = d.sum) :
    ∃ out, commonBlockdim bds = some out ∧ out.sum = d.sum ∧ ∀ c ∈ d :: e :: r, refines out c = true := by
  have hd : d ∈ bds.filter (fun c => c.length > 1) := by
    have : d ∈ (bds.filter (fun c => c.length > 1)).eraseDups := by rw [hnt]; simp
    exact List.mem_eraseDups.mp this
  have hdb : d ∈ bds := (List.mem_filter.mp hd).1
  have hdl : d.length > 1 := by simpa using (List.mem_filter.mp hd).2
  have hall : bds.all List.isEmpty = false := by
    cases hb : bds.all List.isEmpty with
    | false => rfl
    | true =>
      have := List.all_eq_true.mp hb d hdb
      cases d with
      | nil => simp at hdl
      | cons _ _ => simp at this
  have hany : (d :: e :: r).any (fun x => x.sum != d.sum) = false := by
    cases ha : (d :: e :: r).any (fun x => x.sum != d.sum) with
    | false => rfl
    | true =>
      obtain ⟨c, hc, hne⟩ := List.any_eq_true.mp ha
      have := hsum c hc
      simp [this] at hne
  obtain ⟨out, hw, hs, href⟩ := walk_refines d.sum (walkFuel (d :: e :: r)) 0 (d :: e :: r) (by simp)
    (fun c hc => ⟨hpos c hc, by simpa using hsum c hc⟩) (by unfold walkFuel Elemwise.measure; omega)
  refine ⟨out, ?_, by simpa using hs, href⟩
  -- positive chunks: the total is not zero, so the zero-length shortcut does not apply
  have hdpos : d.sum ≠ 0 := by
    cases d with
    | nil => simp at hdl
    | cons x t =>
      have := hpos (x :: t) (by simp) x (by simp)
      simp only [List.sum_cons]
      omega
  unfold commonBlockdim
  simp only [hall, Bool.false_eq_true, if_false, hnt, hany, hdpos]
  exact hw

/-- several chunkings of a zero-length dimension: the single empty chunk -/
theorem commonBlockdim_zero (bds : List (List Nat)) (d e : List Nat) (r : List (List Nat))
    (hnt : (bds.filter (fun c => c.length > 1)).eraseDups = d :: e :: r)
    (hsum : ∀ c ∈ d :: e :: r, c.sum = 0) (hall : bds.all List.isEmpty = false) : commonBlockdim bds = some [0] := by
  have hany : (d :: e :: r).any (fun x => x.sum != d.sum) = false := by
    cases ha : (d :: e :: r).any (fun x => x.sum != d.sum) with
    | false => rfl
    | true =>
      obtain ⟨c, hc, hne⟩ := List.any_eq_true.mp ha
      have h1 := hsum c hc
      have h2 := hsum d (by simp)
      simp [h1, h2] at hne
  have hd0 : d.sum = 0 := hsum d (by simp)
  rw [hd0] at hany
  unfold commonBlockdim
  simp only [hall, Bool.false_eq_true, if_false, hnt, hd0, hany, if_true]

/-- if the totals differ the function raises (`ValueError("Chunks do not add up to same value")`) -/
theorem commonBlockdim_raises (bds : List (List Nat)) (d e : List Nat) (r : List (List Nat))
    (hnt : (bds.filter (fun c => c.length > 1)).eraseDups = d :: e :: r)
    (c : List Nat) (hc : c ∈ d :: e :: r) (hne : c.sum ≠ d.sum) (hall : bds.all List.isEmpty = false) :
    commonBlockdim bds = none := by
  unfold commonBlockdim
  have hany : (d :: e :: r).any (fun x => x.sum != d.sum) = true :=
    List.any_eq_true.mpr ⟨c, hc, by simpa using hne⟩
  simp only [hall, Bool.false_eq_true, if_false, hnt, hany, if_true]

/-- non-vacuity (the docstring examples) -/
example : commonBlockdim [[5, 2], [4, 3]] = some [4, 1, 2] ∧ refines [4, 1, 2] [5, 2] = true ∧ refines [4, 1, 2] [4, 3] = true := by
  decide
example : commonBlockdim [[2, 2], [3, 2]] = none := by decide

/-! ## 2a. `broadcast_shapes` is NumPy's broadcasting rule -/

theorem exists_len_gt (shapes : List (List Nat)) (m0 i : Nat) (h : i < shapes.foldl (fun m s => max m s.length) m0) :
    i < m0 ∨ ∃ s ∈ shapes, i < s.length := by
  induction shapes generalizing m0 with
  | nil => left; simpa using h
  | cons s r ih =>
    simp only [List.foldl_cons] at h
    rcases ih (max m0 s.length) h with h1 | ⟨t, ht, hlt⟩
    · by_cases hm : i < m0
      · exact Or.inl hm
      · right; exact ⟨s, by simp, by omega⟩
    · right; exact ⟨t, by simp [ht], hlt⟩

theorem column_facts (shapes : List (List Nat)) (i : Nat) (hi : i < maxLen shapes) :
    (∀ x ∈ column shapes i, -1 ≤ x) ∧ ∃ x ∈ column shapes i, x ≠ -1 := by
  constructor
  · intro x hx
    unfold column at hx
    obtain ⟨s, _, rfl⟩ := List.mem_map.mp hx
    cases s.reverse[i]? with
    | none => simp
    | some v => simp
  · unfold maxLen at hi
    rcases exists_len_gt shapes 0 i hi with h | ⟨s, hs, hlt⟩
    · omega
    · refine ⟨((s.reverse[i]?).map Int.ofNat).getD (-1), ?_, ?_⟩
      · unfold column
        exact List.mem_map.mpr ⟨s, hs, rfl⟩
      · have : i < s.reverse.length := by simpa using hlt
        rw [List.getElem?_eq_getElem this]
        simp

/-- **broadcastShapes_eq_np.** For any number of shapes other than one (a single shape is returned unchanged by both),
    dask's `broadcast_shapes` — `zip_longest(..., fillvalue=-1)`, `dim = 0 if 0 in sizes else max`, reject sizes outside
    `[-1, 0, 1, dim]` — accepts exactly the shape lists NumPy's right-aligned broadcasting rule accepts and returns the
    same shape (zero-length dimensions included). -/
theorem broadcastShapes_eq_np (shapes : List (List Nat)) (h : shapes.length ≠ 1) :
    broadcastShapes shapes = npBroadcast shapes := by
  have hgen : (optAll ((List.range (maxLen shapes)).map fun i => bdim (column shapes i))) =
      (optAll ((List.range (maxLen shapes)).map fun i => npdim (column shapes i))) := by
    congr 1
    apply List.map_congr_left
    intro i hi
    have := column_facts shapes i (List.mem_range.mp hi)
    exact bdim_eq_npdim _ this.1 this.2
  unfold npBroadcast
  rw [← hgen]
  match shapes, h with
  | [], _ => rfl
  | [s], h => simp at h
  | s :: t :: r, _ => rfl

theorem broadcastShapes_single (s : List Nat) : broadcastShapes [s] = some s := rfl

/-- non-vacuity -/
example : broadcastShapes [[0, 1], [3]] = some [0, 3] ∧ broadcastShapes [[2], [3]] = none ∧
    broadcastShapes [[3, 1], [4]] = some [3, 4] ∧ broadcastShapes [[0], [1]] = some [0] ∧ broadcastShapes [[0], [3]] = none := by
  decide

/-! ## 2b. the ufunc table (extracted from dask/array/ufunc.py on every run) -/

/-- the only dask ufunc names that wrap a NumPy function of a different name -/
def ufuncAliases : List (String × String) :=
  [("conj", "conjugate"), ("abs", "absolute"), ("invert", "bitwise_not")]

/-- every `name = ufunc(np.X)` / `wrap_elemwise(np.X)` of dask/array/ufunc.py has `X = name`, except the aliases -/
theorem ufunc_names_agree :
    Dask.Generated.UfuncTable.table.all (fun p => p.1 == p.2 || ufuncAliases.contains p) = true := by decide

/-! ## 3. index strings of `elemwise` right-align the arguments -/
open Dask.Blockwise in
/-- `elemwise` gives the output the index string `(n-1, …, 0)` and an argument of dimension `k ≤ n` the string
    `(k-1, …, 0)`: axis `j` of the argument carries the symbol found at output axis `j + (n - k)` — NumPy's right
    alignment. -/
theorem elemwise_alignment (n k j : Nat) (hk : k ≤ n) (hj : j < k) :
    (revRange k)[j]? = some (k - 1 - j) ∧ (revRange n).idxOf (k - 1 - j) = j + (n - k) := by
  have hrev : ∀ (m i : Nat), i < m → (revRange m)[i]? = some (m - 1 - i) := by
    intro m i hi
    unfold revRange
    rw [List.getElem?_reverse (by simpa using hi)]
    simp only [List.length_range]
    rw [List.getElem?_range (by omega)]
  refine ⟨hrev k j hj, ?_⟩
  have hlt : j + (n - k) < n := by omega
  have hget := hrev n (j + (n - k)) hlt
  have hval : n - 1 - (j + (n - k)) = k - 1 - j := by omega
  rw [hval] at hget
  -- the symbols of `revRange n` are distinct, so the index of a symbol is where it is found
  have hnd : (revRange n).Nodup := by
    unfold revRange
    have h := @List.nodup_range n
    unfold List.Nodup at *
    rw [List.pairwise_reverse]
    exact h.imp (fun hab => Ne.symm hab)
  have hlen : j + (n - k) < (revRange n).length := by simp [revRange]; omega
  have hmem : (revRange n)[j + (n - k)] = k - 1 - j := by
    have := List.getElem?_eq_some_iff.mp hget
    exact this.2
  rw [← hmem]
  exact List.Nodup.idxOf_getElem hnd _ hlen

end Dask.C19
