import DaskModel.Model.Counting
import DaskModel.Lemmas.CountingLemmas
import DaskModel.Lemmas.CountingMoreLemmas
import DaskModel.Lemmas.CoarsenLemmas
import DaskModel.Lemmas.Coarsen2DLemmas
import DaskModel.Lemmas.HistogramLemmas
import DaskModel.Lemmas.RavelLemmas
/-!
# C27 — counting, set, search and histogram routines equal NumPy (theorems)

Each routine is a merge of per-chunk results; every theorem says: for *every* chunking (zero-length
chunks included) the merge equals the routine applied to the whole array.  Element values are `Nat`
(only `<`, `≤`, `=` are used); weights, float edges, NaN and density are validated against NumPy.

Clauses of the statement and their theorems:
  unique (index, inverse, counts)   unique_merge, unique_den, unique_spec_char, unique_chunked_char, unique_inverse_den
  bincount                          bincount_den, bincount_tree, bincount_tree_den, bincount_weights_den
  histogram / histogram2d           histogram_den, histogram_weights_den, histogramdd_den, histogram2d_den, histogram2d_rejects
  digitize                          digitize_den, digitize_increasing, digitize_decreasing
  searchsorted                      searchsorted_den
  isin                              isin_den
  nonzero / argwhere / flatnonzero  nonzero_den, argwhere_den, argwhere_chunked, flatnonzero_den, nonzero_nd_den
  count_nonzero                     count_nonzero_den
  ravel_multi_index / unravel_index unravel_ravel_C, ravel_unravel_C, ravel_multi_index_unravel, unravel_index_ravel,
                                    ravel_multi_index_modes, unravel_blocks
  coarsen                           coarsen_den, aligned_coarsen_chunks_spec, aligned_coarsen_chunks_fixpoint,
                                    coarsen_any_chunking, coarsen_rejects, coarsen_declared_chunks,
                                    coarsen2_den, coarsen2_any_chunking (both axes of a 2-d array)
  compress (extract)                compress_den, compress_rejects, compress_np_den, extract_den
-/
namespace Dask.C27
open Dask.Chunks Dask.Counting

/-- **searchsorted_den**: per-block `np.searchsorted` with `0 ↦ -1`, block offsets added, maximum over the blocks
    and `-1 ↦ 0` is the global count of elements `< y` (left) / `≤ y` (right), i.e. `np.searchsorted(a, y, side)`,
    for every chunking of the sorted array `a` (empty chunks included). -/
theorem searchsorted_den (right : Bool) (blocks : List (List Nat)) (y : Nat)
    (hs : (blocks.flatten).Pairwise (· ≤ ·)) :
    searchsorted right blocks y = (blocks.flatten).countP (sidePred right y) := by
  unfold searchsorted
  rw [ssCombine_eq _ (sidePred_downClosed right y) blocks 0 hs]
  by_cases h : (blocks.flatten).countP (sidePred right y) = 0
  · simp [h]
  · simp only [h, if_false, Nat.zero_add]
    have : ¬ (((blocks.flatten).countP (sidePred right y) : Nat) : Int) = -1 := by omega
    simp

example : searchsorted false [[1, 2], [], [2, 5, 7]] 2 = 1 := by rfl
example : searchsorted true [[1, 2], [], [2, 5, 7]] 2 = 3 := by rfl
example : ([[1, 2], [], [2, 5, 7]] : List (List Nat)).flatten.Pairwise (· ≤ ·) := by decide

/-- **bincount_den**: `_bincount_agg` of the per-chunk `np.bincount`s (zero-padded pointwise sum) is `np.bincount` of the whole. -/
theorem bincount_den (bs : List (List Nat)) (m : Nat) (hne : bs ≠ []) :
    bincountAgg (bs.map (fun b => bincount b m)) = bincount bs.flatten m := by
  have hlen : maxList ((bs.map (fun b => bincount b m)).map List.length) = max m (binLen bs.flatten) := by
    rw [List.map_map]
    have : (List.length ∘ fun b => bincount b m) = fun b => max m (binLen b) := by
      funext b; simp [bincount_length]
    rw [this]; exact maxList_binLens m bs hne
  unfold bincountAgg
  rw [hlen, bincount_eq]
  apply List.map_congr_left
  intro i _
  rw [List.map_map, ← sum_map_count_flatten]
  congr 1
  apply List.map_congr_left
  intro b _
  exact bincount_getD b m i


example : bincountAgg ([[1, 1, 3], [0, 5]].map (fun b => bincount b 0)) = [1, 2, 0, 1, 0, 1] := by rfl
example : ([[1, 1, 3], [0, 5]] : List (List Nat)) ≠ [] := by decide

/-- **histogram_den**: with fixed bin edges the sum of the per-chunk histograms is the histogram of the whole. -/
theorem histogram_den (edges : List Nat) (bs : List (List Nat)) :
    histMerge edges bs = histBlock edges bs.flatten := by
  unfold histMerge histBlock
  apply List.map_congr_left
  intro i hi
  have hi : i < edges.length - 1 := by simpa using hi
  rw [← sum_map_countP_flatten]
  congr 1
  apply List.map_congr_left
  intro b _
  simp [List.getD_eq_getElem?_getD, List.getElem?_map, List.getElem?_range hi]


example : histMerge [0, 2, 4, 6] [[0, 1, 2], [3, 6, 7, 4]] = [2, 2, 2] := by rfl

/-- **unique_merge**: applying `_unique_internal` per part and again on the concatenation is applying it once to
    everything — for any split into parts (so any chunking, and any tree of partial merges). -/
theorem unique_merge (rs : List (List URow)) :
    uniqueInternal ((rs.map uniqueInternal).flatten) = uniqueInternal rs.flatten := by
  apply RowsEq.unique
  induction rs with
  | nil => exact RowsEq.refl _
  | cons r rs ih =>
    simp only [List.map_cons, List.flatten_cons]
    exact RowsEq.append (RowsEq.of_unique r) ih

/-- **unique_den**: `da.unique(return_index, return_counts)` — `_unique_internal` per chunk on (value, global
    position, 1) rows, then once more on the concatenation — gives NumPy's sorted distinct values, first
    occurrence and multiplicity, for every chunking. -/
theorem unique_den (bs : List (List Nat)) : uniqueChunked bs = uniqueSpec bs.flatten := by
  obtain ⟨rs, h1, h2⟩ := chunkRows_eq bs 0
  unfold uniqueChunked uniqueSpec
  rw [h1, unique_merge, h2]

example : (uniqueChunked [[3, 1, 3], [1, 2], [3]]).map (fun r => (r.value, r.index, r.count)) = [(1, 1, 2), (2, 4, 1), (3, 0, 3)] := by rfl

/-- **nonzero_den** -/
theorem nonzero_den (bs : List (List Nat)) : nonzeroChunked 0 bs = nonzeroSpec bs.flatten := by
  rw [nonzero_aux]; simp

/-- **count_nonzero_den** -/
theorem count_nonzero_den (bs : List (List Nat)) : countNonzeroChunked bs = (bs.flatten).countP (· != 0) :=
  sum_map_countP_flatten _ bs

/-- **isin_den** -/
theorem isin_den (x : Nat) (tbs : List (List Nat)) : isinChunked x tbs = (tbs.flatten).contains x := by
  unfold isinChunked
  induction tbs with
  | nil => rfl
  | cons b bs ih =>
    rw [List.any_cons, ih, List.flatten_cons]
    cases h1 : b.contains x <;> cases h2 : (bs.flatten).contains x <;> simp_all

example : nonzeroChunked 0 [[0, 1], [2, 0, 3]] = [1, 2, 4] := by rfl

/-- **coarsen_den**: when every chunk length is a multiple of the factor (what `aligned_coarsen_chunks` + rechunk
    establish; checked on the real outputs) coarsening block by block is coarsening the whole axis. -/
theorem coarsen_den {α β} (f : List α → β) (d : Nat) (hd : 0 < d) : ∀ (bs : List (List α)),
    (∀ b ∈ bs, d ∣ b.length) → coarsenChunked f d bs = coarsenBlock f d bs.flatten
  | [], _ => by simp [coarsenChunked, coarsenBlock, windows]
  | b :: bs, h => by
    have ih := coarsen_den f d hd bs (fun b hb => h b (by simp [hb]))
    obtain ⟨k, hk⟩ := h b (by simp)
    unfold coarsenChunked at ih ⊢
    simp only [List.map_cons, List.flatten_cons, ih]
    unfold coarsenBlock
    have hlen : (b ++ bs.flatten).length / d = k + bs.flatten.length / d := by
      rw [List.length_append, hk, Nat.add_comm, Nat.add_mul_div_left _ _ hd, Nat.add_comm]
    have hb : b.length / d = k := by rw [hk, Nat.mul_div_cancel_left _ hd]
    rw [hlen, hb, windows_append d k _ b bs.flatten (by rw [hk, Nat.mul_comm]), List.map_append]

example : coarsenChunked Chunks.sum 2 [[1, 2, 3, 4], [5, 6]] = [3, 7, 11] := by rfl
example : 0 < 2 ∧ ∀ b ∈ ([[1, 2, 3, 4], [5, 6]] : List (List Nat)), 2 ∣ b.length := by decide

/-- **unique_inverse_den**: the masked-sum formula for `return_inverse` picks, for every element of the array, the
    position of its value in the (strictly sorted) unique values -/
theorem unique_inverse_den (xs : List Nat) (v : Nat) (hv : v ∈ xs) :
    (uniq xs).getD (inverseOf (uniq xs) v) 0 = v := by
  unfold inverseOf
  have h := inverseOf_aux v (uniq xs) 0 (sorted_uniq xs)
  simp only [Nat.zero_add] at h
  have hm : v ∈ uniq xs := (mem_uniq v xs).2 hv
  rw [h, if_pos hm]
  have hi := List.idxOf_lt_length_of_mem hm
  rw [List.getD_eq_getElem?_getD, List.getElem?_eq_getElem hi, List.getElem_idxOf hi]
  rfl



example : inverseOf (uniq [3, 1, 3, 2]) 3 = 2 := by rfl
example : 3 ∈ [3, 1, 3, 2] := by decide

/-- **bincount_weights_den**: with weights chunked like `x`, the zero-padded sum of the per-chunk weighted bincounts
    is the weighted bincount of the whole (exact weights; float weights are validated) -/
theorem bincount_weights_den (bs : List (List Nat × List Int)) (m : Nat) (hne : bs ≠ [])
    (hlen : ∀ b ∈ bs, b.1.length = b.2.length) :
    bincountAggW (bs.map (fun b => bincountW b.1 b.2 m)) = bincountW (bs.flatMap (·.1)) (bs.flatMap (·.2)) m := by
  have hl : maxList ((bs.map (fun b => bincountW b.1 b.2 m)).map List.length) = max m (binLen (bs.flatMap (·.1))) := by
    rw [List.map_map]
    have : (List.length ∘ fun b : List Nat × List Int => bincountW b.1 b.2 m) = (fun b => max m (binLen b)) ∘ (·.1) := by
      funext b; simp [bincountW_eq]
    rw [this, ← List.map_map, maxList_binLens m (bs.map (·.1)) (by simpa using hne)]
    simp [List.flatMap_def]
  unfold bincountAggW
  rw [hl, bincountW_eq]
  apply List.map_congr_left
  intro i _
  rw [List.map_map, ← isum_map_wsum bs hlen i]
  congr 1
  apply List.map_congr_left
  intro b _
  exact bincountW_getD b.1 b.2 m i

example : bincountAggW [bincountW [1, 1] [2, 3] 0, bincountW [0, 3] [-1, 4] 0] = [-1, 5, 0, 4] := by decide
example : ([([1, 1], [2, 3]), ([0, 3], [-1, 4])] : List (List Nat × List Int)) ≠ [] ∧
    ∀ b ∈ ([([1, 1], [2, 3]), ([0, 3], [-1, 4])] : List (List Nat × List Int)), b.1.length = b.2.length := by decide

/-! ### coarsen on ANY chunking: `aligned_coarsen_chunks` + block-by-block `chunk.coarsen` -/

/-- **aligned_coarsen_chunks_spec**: for every chunk tuple (zero-length chunks allowed), every positive factor and EVERY
    tie-breaking of the argsort (`order`: any list of in-range indices that is long enough — in particular any
    permutation of the chunk indices) `aligned_coarsen_chunks` returns (never raises) multiples of the factor followed
    by the remainder `total % factor` when that is non-zero, with the same total; every chunk is positive, except that
    an axis of length zero keeps the single chunk `(0,)`. -/
theorem aligned_coarsen_chunks_spec (order cs : List Nat) (m : Nat) (hm : 0 < m) (hv : ValidOrder order cs m) :
    ∃ body, alignedCoarsenChunksWith order cs m = some (body ++ (if sum cs % m = 0 then [] else [sum cs % m]))
      ∧ (∀ c ∈ body, m ∣ c) ∧ sum body + sum cs % m = sum cs
      ∧ ((sum cs ≠ 0 ∧ ∀ c ∈ body, 0 < c) ∨ (sum cs = 0 ∧ body = [0])) :=
  aligned_spec order cs m hm hv

/-- **argsort_order_valid**: non-vacuity of `ValidOrder` — the stable argsort of the model and every permutation of the
    chunk indices (whatever `np.argsort` does with ties) satisfy it. -/
theorem argsort_order_valid (cs : List Nat) (m : Nat) (hm : 0 < m) :
    ValidOrder (modificationOrder m cs) cs m ∧ ∀ order, order.Perm (List.range cs.length) → ValidOrder order cs m :=
  ⟨modificationOrder_valid cs m hm, fun order hp => perm_validOrder order cs m hm hp⟩

example : alignedCoarsenChunks [1, 2, 3] 4 = some [4, 2] := by decide
example : alignedCoarsenChunks [1, 20, 3, 4] 4 = some [4, 20, 4] := by decide
example : alignedCoarsenChunks [20, 10, 15, 23, 24] 10 = some [20, 10, 20, 20, 20, 2] := by decide
/-- the largest chunk is a multiple of the factor, two others are not: they are still re-aligned -/
example : alignedCoarsenChunks [4, 1, 3] 4 = some [4, 4] := by decide
example : alignedCoarsenChunks [0, 0] 3 = some [0] := by decide
/-- two tie-breakings of the equal sizes 3, 3: both results satisfy the specification -/
example : alignedCoarsenChunksWith [0, 1] [3, 3] 2 = some [4, 2] ∧ alignedCoarsenChunksWith [1, 0] [3, 3] 2 = some [2, 4] := by decide

/-- **aligned_coarsen_chunks_fixpoint**: chunks that are positive multiples of the factor are left alone
    (`da.coarsen` then does not rechunk). -/
theorem aligned_coarsen_chunks_fixpoint (order cs : List Nat) (m : Nat) (hm : 0 < m) (hne : cs ≠ [])
    (h : ∀ c ∈ cs, 0 < c ∧ m ∣ c) : alignedCoarsenChunksWith order cs m = some cs := aligned_fixpoint order cs m hm hne h

example : ([4, 8, 4] : List Nat) ≠ [] ∧ ∀ c ∈ [4, 8, 4], 0 < c ∧ 4 ∣ c := by decide

/-- **coarsen_any_chunking**: `da.coarsen` along an axis — guard, `aligned_coarsen_chunks`, rechunk, `chunk.coarsen`
    block by block — returns, for EVERY chunking `cs` of the axis (irregular, misaligned, zero-length chunks) and every
    tie-breaking `order`, blocks whose concatenation is `chunk.coarsen` of the whole axis, whenever NumPy's
    `chunk.coarsen` itself is defined (`trim_excess` or the length is a multiple of the factor). -/
theorem coarsen_any_chunking {α β} (f : List α → β) (trim : Bool) (d : Nat) (hd : 0 < d) (order cs : List Nat) (xs : List α)
    (hv : ValidOrder order cs d) (hlen : xs.length = sum cs) (hok : trim = true ∨ sum cs % d = 0) :
    ∃ blocks, daCoarsenWith order f trim d cs xs = some blocks ∧ blocks.flatten = coarsenBlock f d xs := by
  obtain ⟨body, h1, h2, h3, _⟩ := aligned_spec order cs d hd hv
  have hsum : sum (body ++ (if sum cs % d = 0 then [] else [sum cs % d])) = sum cs := by
    rw [sum_append]; split <;> simp_all [sum]
  have hx : xs.length = sum (body ++ (if sum cs % d = 0 then [] else [sum cs % d])) := by rw [hsum, hlen]
  have hL := splitBy_lengths _ xs hx
  have hF := splitBy_flatten' _ xs hx
  refine ⟨(splitBy (body ++ (if sum cs % d = 0 then [] else [sum cs % d])) xs).map (coarsenBlock f d), ?_, ?_⟩
  · unfold daCoarsenWith
    rw [if_neg (by omega)]
    have hg : (!trim && sum cs % d != 0) = false := by
      rcases hok with h | h <;> simp [h]
    simp only [hg, h1]
    apply optAll_chunkCoarsen
    intro b hb
    rcases hok with h | h
    · exact Or.inl h
    · right
      have hm : b.length ∈ (splitBy (body ++ (if sum cs % d = 0 then [] else [sum cs % d])) xs).map List.length :=
        List.mem_map_of_mem hb
      rw [hL, if_pos h, List.append_nil] at hm
      exact h2 _ hm
  · have hA : AlignedLens d ((splitBy (body ++ (if sum cs % d = 0 then [] else [sum cs % d])) xs).map List.length) := by
      rw [hL]
      exact alignedLens_append d body _ h2 (by split <;> simp)
    have := coarsen_den_ragged f d hd _ hA
    unfold coarsenChunked at this
    rw [this, hF]

example : daCoarsen Chunks.sum true 4 [4, 1, 3, 2] [1, 2, 3, 4, 5, 6, 7, 8, 9, 10] = some [[10], [26], []] := by decide
example : daCoarsen Chunks.sum false 2 [3, 1, 2] [1, 2, 3, 4, 5, 6] = some [[3], [7], [11]] := by decide
example : daCoarsen Chunks.sum true 4 [1, 2] [1, 2, 3] = some [[]] := by decide

/-- **coarsen_rejects**: without `trim_excess` a length that is not a multiple of the factor is a ValueError —
    exactly when `chunk.coarsen` on the whole array raises. -/
theorem coarsen_rejects {α β} (f : List α → β) (d : Nat) (order cs : List Nat) (xs : List α) (hr : sum cs % d ≠ 0) :
    daCoarsenWith order f false d cs xs = none := by
  unfold daCoarsenWith
  split
  · rfl
  · simp [hr]

example : daCoarsen Chunks.sum false 4 [4, 1, 3, 2] [1, 2, 3, 4, 5, 6, 7, 8, 9, 10] = none := by decide

/-- **coarsen_declared_chunks**: the lazily declared chunks of the result are the lengths of the computed blocks in
    block order — the only block the declaration may leave out is a trailing zero-length one (the trimmed remainder),
    so block `i` of the declaration is block `i` of the graph; they are positive (or the single `(0,)` of an axis that
    loses everything) and add up to NumPy's result length `n // d`. -/
theorem coarsen_declared_chunks (d : Nat) (hd : 0 < d) (order cs : List Nat) (hv : ValidOrder order cs d) :
    ∃ aligned z, alignedCoarsenChunksWith order cs d = some aligned ∧ (z = [] ∨ z = [0])
      ∧ aligned.map (· / d) = coarsenDeclaredChunks d aligned ++ z
      ∧ (coarsenDeclaredChunks d aligned = [0] ∨ ∀ c ∈ coarsenDeclaredChunks d aligned, 0 < c)
      ∧ sum (coarsenDeclaredChunks d aligned) = sum cs / d := by
  obtain ⟨body, h1, h2, h3, h4⟩ := aligned_spec order cs d hd hv
  have hrd : (sum cs % d) / d = 0 := Nat.div_eq_of_lt (Nat.mod_lt _ hd)
  have hsumdiv : sum (body.map (· / d)) = sum cs / d := by
    have e := sum_map_div d hd body h2
    symm
    apply Nat.div_eq_of_lt_le
    · rw [e]; omega
    · rw [Nat.add_mul, e, Nat.one_mul]; have := Nat.mod_lt (sum cs) hd; omega
  rcases h4 with ⟨hne, hpos⟩ | ⟨h0, hb⟩
  · have hposd : ∀ c ∈ body, 0 < c / d := fun c hc => by
      obtain ⟨k, hk⟩ := h2 c hc
      have := hpos c hc
      rw [hk, Nat.mul_div_cancel_left _ hd]
      cases k with
      | zero => omega
      | succ k => omega
    have hfil : (body.map (· / d)).filter (fun c => decide (0 < c)) = body.map (· / d) := by
      rw [List.filter_eq_self]
      intro c hc
      obtain ⟨b, hb, rfl⟩ := List.mem_map.1 hc
      simpa using hposd b hb
    have htail : ((if sum cs % d = 0 then [] else [sum cs % d]).map (· / d)).filter (fun c => decide (0 < c)) = [] := by
      split
      · rfl
      · simp [hrd]
    have hdecl : coarsenDeclaredChunks d (body ++ (if sum cs % d = 0 then [] else [sum cs % d]))
        = if body = [] then [0] else body.map (· / d) := by
      unfold coarsenDeclaredChunks
      rw [List.map_append, List.filter_append, hfil, htail, List.append_nil]
      cases body with
      | nil => rfl
      | cons b bs => simp
    cases hbody : body with
    | nil =>
      subst hbody
      -- everything is trimmed: one block `[r]`, declared `(0,)`
      have hr : sum cs % d ≠ 0 := by
        intro h
        have e0 : sum ([] : List Nat) = 0 := rfl
        rw [e0] at h3; omega
      refine ⟨_, [], h1, Or.inl rfl, ?_, Or.inl (by rw [hdecl]; rfl), ?_⟩
      · rw [hdecl]; simp [hr, hrd]
      · rw [hdecl, ← hsumdiv]; rfl
    | cons b bs =>
      rw [hbody] at hdecl hsumdiv hposd h1
      refine ⟨_, (if sum cs % d = 0 then [] else [sum cs % d]).map (· / d), h1, ?_, ?_, Or.inr ?_, ?_⟩
      · split
        · left; rfl
        · right; simp [hrd]
      · rw [hdecl, List.map_append]; simp
      · rw [hdecl]
        intro c hc
        simp only [reduceCtorEq, if_false] at hc
        obtain ⟨x, hx, rfl⟩ := List.mem_map.1 hc
        exact hposd x hx
      · rw [hdecl]; simpa using hsumdiv
  · subst hb
    have hr : sum cs % d = 0 := by rw [h0]; exact Nat.zero_mod d
    rw [if_pos hr, List.append_nil] at h1
    refine ⟨[0], [], h1, Or.inl rfl, ?_, Or.inl ?_, ?_⟩
    · simp [coarsenDeclaredChunks]
    · simp [coarsenDeclaredChunks]
    · rw [h0]; simp [coarsenDeclaredChunks, sum]

example : coarsenDeclaredChunks 4 [4, 4, 2] = [1, 1] := by decide
example : coarsenDeclaredChunks 4 [3] = [0] := by decide

/-! ### coarsen over both axes of a 2-d array -/

/-- **coarsen2_den**: a 2-d array cut into an `a0 × a1` grid of blocks whose row chunks and column chunks are multiples
    of the factors (except the last of each): coarsening every block on its own and tiling the results is coarsening
    the whole array. (Polymorphic in the element type: a third axis is the same statement about rows of rows.) -/
theorem coarsen2_den {α β} (red : List (List α) → β) (d0 d1 : Nat) (hd0 : 0 < d0) (hd1 : 0 < d1) (a0 a1 : List Nat)
    (M : List (List α)) (hne : a1 ≠ []) (h0 : AlignedLens d0 a0) (h1 : AlignedLens d1 a1) (hlen : M.length = sum a0) :
    coarsen2Chunked red d0 d1 a0 a1 M = coarsen2 red d0 d1 (sum a1) M := by
  unfold coarsen2Chunked
  have e : (splitBy a0 M).map (fun R => hcat ((chunkSpans 0 a1).map (fun sc => coarsen2 red d0 d1 sc.2 (colSlice sc.1 sc.2 R))))
      = (splitBy a0 M).map (coarsenBlock (colCoarsen red d1 (sum a1)) d0) := by
    apply List.map_congr_left
    intro R _
    rw [hcat_spans red d0 d1 hd1 R a1 0 hne h1, map_drop_zero]; rfl
  rw [e]
  have hA : AlignedLens d0 ((splitBy a0 M).map List.length) := by rw [splitBy_lengths a0 M hlen]; exact h0
  have := coarsen_den_ragged (colCoarsen red d1 (sum a1)) d0 hd0 _ hA
  unfold coarsenChunked at this
  rw [this, splitBy_flatten' a0 M hlen]; rfl

example : coarsen2Chunked (fun w => Chunks.sum (w.map Chunks.sum)) 2 2 [2, 2] [2, 1] [[1, 2, 3], [4, 5, 6], [7, 8, 9], [1, 1, 1]]
    = [[12], [17]] := by decide
example : AlignedLens 2 [2, 2] ∧ AlignedLens 2 [2, 1] := by simp [AlignedLens]

/-- **coarsen2_any_chunking**: `da.coarsen` over both axes of a 2-d array, for EVERY chunking of the rows and of the
    columns (and every argsort tie-breaking): guard, alignment of each axis, block-wise `chunk.coarsen`, tiling =
    `chunk.coarsen` of the whole array, whenever that is defined (`trim_excess`, or both lengths multiples). -/
theorem coarsen2_any_chunking {α β} (red : List (List α) → β) (trim : Bool) (d0 d1 : Nat) (hd0 : 0 < d0) (hd1 : 0 < d1)
    (o0 o1 cs0 cs1 : List Nat) (M : List (List α)) (hv0 : ValidOrder o0 cs0 d0) (hv1 : ValidOrder o1 cs1 d1)
    (hlen : M.length = sum cs0) (hok : trim = true ∨ (sum cs0 % d0 = 0 ∧ sum cs1 % d1 = 0)) :
    daCoarsen2With o0 o1 red trim d0 d1 cs0 cs1 M = some (coarsen2 red d0 d1 (sum cs1) M) := by
  obtain ⟨b0, h01, h02, h03, _⟩ := aligned_spec o0 cs0 d0 hd0 hv0
  obtain ⟨b1, h11, h12, h13, h14⟩ := aligned_spec o1 cs1 d1 hd1 hv1
  have hs0 : sum (b0 ++ (if sum cs0 % d0 = 0 then [] else [sum cs0 % d0])) = sum cs0 := by
    rw [sum_append]; split <;> simp_all [sum]
  have hs1 : sum (b1 ++ (if sum cs1 % d1 = 0 then [] else [sum cs1 % d1])) = sum cs1 := by
    rw [sum_append]; split <;> simp_all [sum]
  have hA0 := alignedLens_append d0 b0 (if sum cs0 % d0 = 0 then [] else [sum cs0 % d0]) h02 (by split <;> simp)
  have hA1 := alignedLens_append d1 b1 (if sum cs1 % d1 = 0 then [] else [sum cs1 % d1]) h12 (by split <;> simp)
  have hne1 : b1 ++ (if sum cs1 % d1 = 0 then [] else [sum cs1 % d1]) ≠ [] := by
    rcases h14 with ⟨hn, _⟩ | ⟨_, hb⟩
    · intro h
      rw [h] at hs1
      exact hn hs1.symm
    · rw [hb]; simp
  unfold daCoarsen2With
  rw [if_neg (by omega)]
  have hg : (!trim && (sum cs0 % d0 != 0 || sum cs1 % d1 != 0)) = false := by
    rcases hok with h | ⟨h, h'⟩ <;> simp [*]
  have hr : (!trim && ((b0 ++ (if sum cs0 % d0 = 0 then [] else [sum cs0 % d0])).any (· % d0 != 0)
      || (b1 ++ (if sum cs1 % d1 = 0 then [] else [sum cs1 % d1])).any (· % d1 != 0))) = false := by
    rcases hok with h | ⟨h, h'⟩
    · simp [h]
    · have a0 : (b0 ++ (if sum cs0 % d0 = 0 then [] else [sum cs0 % d0])).any (· % d0 != 0) = false := by
        rw [if_pos h, List.append_nil, List.any_eq_false]
        intro c hc; simp [Nat.mod_eq_zero_of_dvd (h02 c hc)]
      have a1 : (b1 ++ (if sum cs1 % d1 = 0 then [] else [sum cs1 % d1])).any (· % d1 != 0) = false := by
        rw [if_pos h', List.append_nil, List.any_eq_false]
        intro c hc; simp [Nat.mod_eq_zero_of_dvd (h12 c hc)]
      simp [a0, a1]
  simp only [hg, h01, h11, hr]
  rw [coarsen2_den red d0 d1 hd0 hd1 _ _ M hne1 hA0 hA1 (by rw [hs0, hlen]), hs1]
  rfl

example : daCoarsen2With [0, 1] [0, 1, 2] (fun w => Chunks.sum (w.map Chunks.sum)) true 2 2 [1, 3] [1, 1, 1]
    [[1, 2, 3], [4, 5, 6], [7, 8, 9], [1, 1, 1]] = some [[12], [17]] := by decide
example : ValidOrder [0, 1] [1, 3] 2 ∧ ValidOrder [0, 1, 2] [1, 1, 1] 2 := by decide

/-! ### the remaining clauses of the statement -/

/-- **unique_spec_char**: the specification side of `unique_den` spelled out — NumPy's sorted distinct values, each
    with its FIRST position in the array and its multiplicity (so `unique_den` is not a statement about
    `_unique_internal` alone). -/
theorem unique_spec_char (xs : List Nat) :
    uniqueSpec xs = (uniq xs).map (fun v => ⟨v, xs.idxOf v, xs.count v⟩) := uniqueSpec_eq xs

/-- **unique_chunked_char**: `da.unique(return_index, return_counts)` for every chunking, in NumPy's terms -/
theorem unique_chunked_char (bs : List (List Nat)) :
    uniqueChunked bs = (uniq bs.flatten).map (fun v => ⟨v, bs.flatten.idxOf v, bs.flatten.count v⟩) := by
  obtain ⟨rs, h1, h2⟩ := chunkRows_eq bs 0
  unfold uniqueChunked
  rw [h1]
  rw [unique_merge, h2]
  exact uniqueSpec_eq bs.flatten

/-- **bincount_tree**: `_tree_reduce(aggregate=_bincount_agg, split_every=k)` — aggregating groups of partial counts
    and then the group results (any grouping, any depth by iteration) is aggregating all of them at once. -/
theorem bincount_tree (gs : List (List (List Nat))) : bincountAgg (gs.map bincountAgg) = bincountAgg gs.flatten :=
  bincountAgg_tree gs

/-- **bincount_tree_den**: two-level reduction of the per-chunk bincounts = `np.bincount` of the whole array -/
theorem bincount_tree_den (gs : List (List (List Nat))) (m : Nat) (hne : gs.flatten ≠ []) :
    bincountAgg (gs.map (fun g => bincountAgg (g.map (fun b => bincount b m)))) = bincount gs.flatten.flatten m := by
  have e : gs.map (fun g => bincountAgg (g.map (fun b => bincount b m)))
      = (gs.map (fun g => g.map (fun b => bincount b m))).map bincountAgg := by
    rw [List.map_map]; rfl
  rw [e, bincountAgg_tree, ← List.map_flatten]
  -- now the one-level statement
  have hlen : maxList ((gs.flatten.map (fun b => bincount b m)).map List.length) = max m (binLen gs.flatten.flatten) := by
    rw [List.map_map]
    have : (List.length ∘ fun b => bincount b m) = fun b => max m (binLen b) := by
      funext b; simp [bincount_length]
    rw [this]; exact maxList_binLens m gs.flatten hne
  unfold bincountAgg
  rw [hlen, bincount_eq]
  apply List.map_congr_left
  intro i _
  rw [List.map_map, ← sum_map_count_flatten]
  congr 1
  apply List.map_congr_left
  intro b _
  exact bincount_getD b m i

example : ([[[1, 1], [3]], [[0, 5]]] : List (List (List Nat))).flatten ≠ [] := by decide
example : bincountAgg ([[[1, 1], [3]], [[0, 5]]].map (fun g => bincountAgg (g.map (fun b => bincount b 0))))
    = [1, 2, 0, 1, 0, 1] := by decide

/-! ### histogramdd / histogram2d -/

/-- **histogramdd_den**: with fixed edges in every dimension the sum over the row-chunks of the per-chunk
    `np.histogramdd` is `np.histogramdd` of the whole sample. -/
theorem histogramdd_den (edges : List (List Nat)) (blocks : List (List (List Nat))) :
    histddMerge edges blocks = histddBlock edges blocks.flatten := by
  unfold histddMerge histddBlock
  exact sumVecs_counts (inCell edges) (cells (nbinsOf edges)) blocks

example : histddMerge [[0, 2, 4], [0, 3, 6]] [[[0, 0], [1, 5]], [], [[4, 6], [2, 2], [9, 1]]] = [1, 1, 1, 1] := by decide

/-- **histogram_weights_den**: with fixed edges and weights chunked like the data (exact weights), the sum over the
    chunks of the per-chunk weighted histograms is the weighted histogram of the whole. -/
theorem histogram_weights_den (edges : List Nat) (blocks : List (List Nat × List Int))
    (h : ∀ b ∈ blocks, b.1.length = b.2.length) :
    histMergeW edges blocks = histBlockW edges (blocks.flatMap (·.1)) (blocks.flatMap (·.2)) := by
  unfold histMergeW histBlockW
  exact sumVecsI_wsums (fun i => inBin edges i) (List.range (edges.length - 1)) blocks h

example : histMergeW [0, 2, 4] [([0, 1, 2], [1, -2, 5]), ([4, 3], [7, 1])] = [-1, 13] := by decide
example : ∀ b ∈ ([([0, 1, 2], [1, -2, 5]), ([4, 3], [7, 1])] : List (List Nat × List Int)), b.1.length = b.2.length := by decide

/-- **histogram2d_den**: `da.histogram2d(x, y, bins=[ex, ey])` for coordinate arrays with the SAME chunking (any
    chunking): per-chunk pairing, per-chunk 2-d histogram, sum over the chunks = the 2-d histogram of the pairs
    `(x_k, y_k)` of the whole arrays. -/
theorem histogram2d_den (ex ey : List Nat) (xb yb : List (List Nat)) (h : xb.map List.length = yb.map List.length) :
    histogram2d ex ey xb yb = some (histddBlock [ex, ey] (zipRows xb.flatten yb.flatten)) := by
  unfold histogram2d
  rw [if_pos h, histogramdd_den, zipWith_zipRows_flatten xb yb h]

example : ([[1, 2], [], [3]] : List (List Nat)).map List.length = ([[7, 8], [], [9]] : List (List Nat)).map List.length := by decide
example : histogram2d [0, 2, 4] [0, 8, 9] [[1, 2], [], [3]] [[7, 8], [], [9]] = some [1, 0, 0, 2] := by decide

/-- **histogram2d_rejects**: coordinate arrays chunked differently are a ValueError (documented restriction) -/
theorem histogram2d_rejects (ex ey : List Nat) (xb yb : List (List Nat)) (h : xb.map List.length ≠ yb.map List.length) :
    histogram2d ex ey xb yb = none := by
  unfold histogram2d; rw [if_neg h]

example : histogram2d [0, 2] [0, 2] [[1], [1]] [[1, 1]] = none := by decide

/-! ### digitize -/

/-- **digitize_den**: `np.digitize` block by block is `np.digitize` on the whole array (same error behaviour). -/
theorem digitize_den (right : Bool) (bins : List Nat) (blocks : List (List Nat)) :
    (daDigitize right bins blocks).map List.flatten = optMapM (digitize1 right bins) blocks.flatten := by
  unfold daDigitize
  cases hm : digitize1 right bins 0 with
  | none =>
    -- non-monotonic bins: every element raises
    have hall : ∀ x, digitize1 right bins x = none := by
      intro x; unfold digitize1 at hm ⊢
      split at hm
      · cases hm
      · split at hm
        · cases hm
        · rename_i h1 h2; rw [if_neg h1, if_neg h2]
    by_cases he : blocks.flatten = []
    · have hbn : ∀ b ∈ blocks, b = [] := by
        intro b hb
        cases b with
        | nil => rfl
        | cons a t =>
          have : a ∈ blocks.flatten := List.mem_flatten.2 ⟨_, hb, by simp⟩
          rw [he] at this; cases this
      rw [he]
      rw [optMapM_some (optMapM (digitize1 right bins)) (fun _ => []) blocks
        (fun b hb => by rw [hbn b hb]; rfl)]
      simp [optMapM]
    · obtain ⟨x, hx⟩ := List.exists_mem_of_ne_nil _ he
      obtain ⟨b, hb, hxb⟩ := List.mem_flatten.1 hx
      rw [optMapM_none _ blocks.flatten ⟨x, hx, hall x⟩,
        optMapM_none _ blocks ⟨b, hb, optMapM_none _ b ⟨x, hxb, hall x⟩⟩]
      rfl
  | some _ =>
    have hall : ∀ x, ∃ y, digitize1 right bins x = some y := by
      intro x; unfold digitize1 at hm ⊢
      split
      · exact ⟨_, rfl⟩
      · split
        · exact ⟨_, rfl⟩
        · rename_i h1 h2; rw [if_neg h1, if_neg h2] at hm; cases hm
    let g := fun x => (digitize1 right bins x).getD 0
    have hg : ∀ x, digitize1 right bins x = some (g x) := by
      intro x; obtain ⟨y, hy⟩ := hall x; simp [g, hy]
    rw [optMapM_some _ g blocks.flatten (fun x _ => hg x),
      optMapM_some (optMapM (digitize1 right bins)) (fun b => b.map g) blocks
        (fun b _ => optMapM_some _ g b (fun x _ => hg x))]
    simp [List.map_flatten]

/-- **digitize_increasing**: for increasing bins the result `i` brackets `x` as NumPy documents:
    `bins[i-1] <= x < bins[i]` (`right=False`), `bins[i-1] < x <= bins[i]` (`right=True`). -/
theorem digitize_increasing (right : Bool) (bins : List Nat) (x : Nat) (h : isInc bins = true) :
    ∃ i, digitize1 right bins x = some i ∧ i ≤ bins.length
      ∧ (∀ b ∈ bins.take i, if right then b < x else b ≤ x)
      ∧ (∀ b ∈ bins.drop i, if right then x ≤ b else x < b) := by
  have hs := sorted_count_split (sidePred (!right) x) (sidePred_downClosed (!right) x) bins (isInc_pairwise bins h)
  refine ⟨bins.countP (sidePred (!right) x), by simp [digitize1, h], List.countP_le_length, ?_, ?_⟩
  · intro b hb
    have := hs.1 b hb
    unfold sidePred at this
    cases right <;> simp_all
  · intro b hb
    have := hs.2 b hb
    unfold sidePred at this
    cases right <;> simp_all <;> omega

example : isInc [1, 2, 2, 4] = true := by decide
example : digitize1 false [1, 2, 2, 4] 2 = some 3 := by decide
example : digitize1 true [1, 2, 2, 4] 2 = some 1 := by decide

/-- **digitize_decreasing**: for decreasing (not increasing) bins: `bins[i-1] > x >= bins[i]` (`right=False`),
    `bins[i-1] >= x > bins[i]` (`right=True`). -/
theorem digitize_decreasing (right : Bool) (bins : List Nat) (x : Nat) (h0 : isInc bins = false) (h : isDec bins = true) :
    ∃ i, digitize1 right bins x = some i ∧ i ≤ bins.length
      ∧ (∀ b ∈ bins.take i, if right then x ≤ b else x < b)
      ∧ (∀ b ∈ bins.drop i, if right then b < x else b ≤ x) := by
  have hrev := pairwise_reverse_ge (isDec_pairwise bins h)
  have hs := sorted_count_split (sidePred (!right) x) (sidePred_downClosed (!right) x) bins.reverse hrev
  have hc : bins.reverse.countP (sidePred (!right) x) ≤ bins.length := by
    have := List.countP_le_length (p := sidePred (!right) x) (l := bins.reverse); simpa using this
  refine ⟨bins.length - bins.reverse.countP (sidePred (!right) x), by simp [digitize1, h0, h], by omega, ?_, ?_⟩
  · intro b hb
    -- the first `n - c` bins are the last `n - c` of the reversed list: they fail the predicate
    have hb' : b ∈ bins.reverse.drop (bins.reverse.countP (sidePred (!right) x)) := by
      rw [List.drop_reverse, List.mem_reverse]
      exact hb
    have := hs.2 b hb'
    unfold sidePred at this
    cases right <;> simp_all <;> omega
  · intro b hb
    have hb' : b ∈ bins.reverse.take (bins.reverse.countP (sidePred (!right) x)) := by
      rw [List.take_reverse, List.mem_reverse]
      have e : bins.length - bins.reverse.countP (sidePred (!right) x) = bins.length - bins.reverse.countP (sidePred (!right) x) := rfl
      simpa using hb
    have := hs.1 b hb'
    unfold sidePred at this
    cases right <;> simp_all

example : isInc [4, 2, 2, 1] = false ∧ isDec [4, 2, 2, 1] = true := by decide
example : digitize1 false [4, 2, 2, 1] 2 = some 1 := by decide
example : digitize1 true [4, 2, 2, 1] 2 = some 3 := by decide
example : digitize1 false [1, 3, 2] 2 = none := by decide

/-! ### compress / extract -/

/-- **compress_den**: `da.compress` with a (dask) condition no longer than the axis — axis cut to `len(cond)`, both
    brought to common chunks `cs` (ANY chunking adding up to `len(cond)`), boolean selection block by block — is
    `np.compress`: the elements whose condition is true, the missing tail of the condition counting as `False`. -/
theorem compress_den {α} (cs : List Nat) (cond : List Bool) (xs : List α) (hc : cond.length = sum cs)
    (hx : cond.length ≤ xs.length) :
    (compressChunked cs cond xs).map List.flatten = some (selectBy cond xs) ∧ compress cond xs = some (selectBy cond xs) := by
  unfold compressChunked compress
  have hn : ¬ xs.length < cond.length := by omega
  simp only [hn, if_false]
  refine ⟨?_, by rw [selectBy_take]⟩
  simp only [Option.map_some]
  rw [zipWith_selectBy_flatten cs cond (xs.take cond.length) hc (by rw [List.length_take]; omega), selectBy_take]

example : compressChunked [1, 0, 2] [true, false, true] [10, 20, 30, 40] = some [[10], [], [30]] := by decide

/-- **compress_rejects**: a condition longer than the axis raises -/
theorem compress_rejects {α} (cs : List Nat) (cond : List Bool) (xs : List α) (h : xs.length < cond.length) :
    compressChunked cs cond xs = none ∧ compress cond xs = none := by
  unfold compressChunked compress; simp [h]

/-- **compress_np_den**: a NumPy condition may be longer than the axis: surplus entries that are all False are
    ignored (result = selection by the condition), a True surplus entry is an IndexError — NumPy's rule. -/
theorem compress_np_den {α} (cond : List Bool) (xs : List α) :
    compressNp cond xs = if (cond.drop xs.length).any id then none else some (selectBy cond xs) := by
  unfold compressNp
  split
  · rfl
  · rw [selectBy_take, selectBy_take_cond]

example : compressNp [true, false, true, false, false] [1, 2, 3] = some [1, 3] := by decide
example : compressNp [true, false, true, false, true] [1, 2, 3] = none := by decide

/-- **extract_den**: `da.extract(cond, arr)` = `compress` of the flattenings = selection by the flattened condition -/
theorem extract_den {α} (condFlat : List Bool) (arrFlat : List α) (h : condFlat.length = arrFlat.length) :
    extract condFlat arrFlat = some (selectBy condFlat arrFlat) := by
  unfold extract compress
  rw [if_neg (by omega), selectBy_take]

example : extract [false, true, true] [5, 6, 7] = some [6, 7] := by decide

/-! ### ravel_multi_index / unravel_index -/

/-- **unravel_ravel_C**: C order, in-bounds multi-index: unravelling its flat index gives it back; the flat index is
    below the number of elements. -/
theorem unravel_ravel_C (dims c : List Nat) (h : InBounds dims c) :
    ravelC dims c < prod dims ∧ unravelC dims (ravelC dims c) = c := ⟨ravelC_lt dims c h, unravelC_ravelC dims c h⟩

/-- **ravel_unravel_C**: a flat index below the number of elements unravels to an in-bounds multi-index that ravels back -/
theorem ravel_unravel_C (shape : List Nat) (i : Nat) (h : i < prod shape) :
    InBounds shape (unravelC shape i) ∧ ravelC shape (unravelC shape i) = i :=
  ⟨unravelC_inBounds shape i h, ravelC_unravelC shape i h⟩

example : InBounds [2, 3, 4] [1, 2, 3] := by simp [InBounds]
example : ravelC [2, 3, 4] [1, 2, 3] = 23 ∧ unravelC [2, 3, 4] 23 = [1, 2, 3] := by decide

/-- **ravel_multi_index_unravel**: the public functions, both orders, mode `raise`: `np.ravel_multi_index` accepts exactly
    what `np.unravel_index` can return, and `unravel_index(ravel_multi_index(idx)) == idx`. -/
theorem ravel_multi_index_unravel (order : Order) (dims : List Nat) (idx : List Int) (r : Nat)
    (h : ravelMulti order .raise dims idx = some r) :
    ∃ c, unravel order dims r = some c ∧ idx = c.map Int.ofNat := by
  unfold ravelMulti at h
  cases hf : fixCoords .raise dims idx with
  | none => simp [hf] at h
  | some c =>
    have hb := fixCoords_inBounds .raise dims idx c hf
    have he := fixCoords_raise_eq dims idx c hf
    simp only [hf] at h
    refine ⟨c, ?_, he⟩
    cases order with
    | C =>
      simp only [Option.some.injEq] at h
      subst h
      unfold unravel
      rw [if_neg (by have := ravelC_lt dims c hb; omega)]
      simp only [unravelC_ravelC dims c hb]
    | F =>
      simp only [Option.some.injEq] at h
      subst h
      have hb' : InBounds dims.reverse c.reverse :=
        fixCoords_inBounds .raise _ _ _ (fixCoords_reverse .raise dims idx c hf)
      unfold unravel
      rw [if_neg (by have := ravelC_lt _ _ hb'; rw [prod_reverse] at this; omega)]
      simp only [unravelC_ravelC _ _ hb', List.reverse_reverse]

/-- **unravel_index_ravel**: both orders: `ravel_multi_index(unravel_index(i)) == i` for every valid flat index, and
    `unravel_index` raises exactly on the others. -/
theorem unravel_index_ravel (order : Order) (shape : List Nat) (i : Nat) :
    (prod shape ≤ i → unravel order shape i = none) ∧
    (i < prod shape → ∃ c, unravel order shape i = some c ∧ ravelMulti order .raise shape (c.map Int.ofNat) = some i) := by
  refine ⟨fun h => by simp [unravel, h], fun h => ?_⟩
  unfold unravel
  rw [if_neg (by omega)]
  cases order with
  | C =>
    refine ⟨_, rfl, ?_⟩
    unfold ravelMulti
    rw [fixCoords_raise_ofNat shape _ (unravelC_inBounds shape i h)]
    simp only [ravelC_unravelC shape i h]
  | F =>
    refine ⟨_, rfl, ?_⟩
    have h' : i < prod shape.reverse := by rw [prod_reverse]; exact h
    have hb := unravelC_inBounds shape.reverse i h'
    have hf := fixCoords_reverse .raise shape.reverse ((unravelC shape.reverse i).map Int.ofNat) _
      (fixCoords_raise_ofNat shape.reverse _ hb)
    rw [List.reverse_reverse, ← List.map_reverse] at hf
    unfold ravelMulti
    rw [hf]
    simp only [List.reverse_reverse, ravelC_unravelC shape.reverse i h']

example : unravel .F [2, 3, 4] 23 = some [1, 2, 3] ∧ ravelMulti .F .raise [2, 3, 4] [1, 2, 3] = some 23 := by decide
example : unravel .C [2, 3, 4] 24 = none ∧ ravelMulti .C .raise [2, 3, 4] [2, 0, 0] = none := by decide

/-- **ravel_multi_index_modes**: under every mode (`raise`, `wrap`, `clip`) an accepted multi-index is ravelled from
    in-bounds coordinates, so the result is a valid flat index. -/
theorem ravel_multi_index_modes (order : Order) (mode : Mode) (dims : List Nat) (idx : List Int) (r : Nat)
    (h : ravelMulti order mode dims idx = some r) : r < prod dims := by
  unfold ravelMulti at h
  cases hf : fixCoords mode dims idx with
  | none => simp [hf] at h
  | some c =>
    simp only [hf] at h
    cases order with
    | C =>
      simp only [Option.some.injEq] at h; subst h
      exact ravelC_lt dims c (fixCoords_inBounds mode dims idx c hf)
    | F =>
      simp only [Option.some.injEq] at h; subst h
      have := ravelC_lt _ _ (fixCoords_inBounds mode _ _ _ (fixCoords_reverse mode dims idx c hf))
      rwa [prod_reverse] at this

example : ravelMulti .C .wrap [3, 2] [-1, 3] = some 5 ∧ ravelMulti .C .clip [3, 2] [5, -4] = some 4 := by decide

/-- **ravel_unravel_blocks**: `map_blocks` evaluation = evaluation on the whole index array (both functions) -/
theorem unravel_blocks (order : Order) (shape : List Nat) (blocks : List (List Nat)) (r : List (List (List Nat)))
    (h : daUnravel order shape blocks = some r) : optMapM (unravel order shape) blocks.flatten = some r.flatten := by
  unfold daUnravel at h
  -- every element is accepted
  have hall : ∀ b ∈ blocks, ∀ x ∈ b, (unravel order shape x).isSome := by
    intro b hb x hx
    cases hu : unravel order shape x with
    | some _ => rfl
    | none =>
      rw [optMapM_none _ blocks ⟨b, hb, optMapM_none _ b ⟨x, hx, hu⟩⟩] at h; cases h
  let g := fun x => (unravel order shape x).getD []
  have hg : ∀ b ∈ blocks, ∀ x ∈ b, unravel order shape x = some (g x) := by
    intro b hb x hx
    have := hall b hb x hx
    cases hu : unravel order shape x with
    | some y => simp [g, hu]
    | none => simp [hu] at this
  rw [optMapM_some (optMapM (unravel order shape)) (fun b => b.map g) blocks
    (fun b hb => optMapM_some _ g b (hg b hb))] at h
  cases h
  rw [optMapM_some _ g blocks.flatten (fun x hx => by
    obtain ⟨b, hb, hxb⟩ := List.mem_flatten.1 hx; exact hg b hb x hxb)]
  simp [List.map_flatten]

/-! ### argwhere / flatnonzero / nonzero -/

/-- **argwhere_den**: `da.argwhere(a)` (the stacked raveled `indices`, compressed by the raveled non-zero mask) is the
    list of the unravelled flat positions of the non-zero elements, in C order — NumPy's `argwhere`. -/
theorem argwhere_den (shape : List Nat) (xs : List Nat) (h : xs.length = prod shape) :
    argwhere shape xs = (nonzeroSpec xs).map (unravelC shape) := by
  unfold argwhere allIndices nonzeroSpec
  rw [selectBy_map_right, ← h, List.range_eq_range', selectBy_range' (· != 0) xs 0]
  simp

example : argwhere [2, 2] [0, 7, 3, 0] = [[0, 1], [1, 0]] := by decide

/-- **argwhere_chunked**: the block-by-block evaluation (mask and index rows on common chunks `cs`) is `argwhere` -/
theorem argwhere_chunked (cs : List Nat) (shape : List Nat) (xs : List Nat) (h : xs.length = prod shape)
    (hc : xs.length = sum cs) :
    (List.zipWith selectBy (splitBy cs (xs.map (· != 0))) (splitBy cs (allIndices shape))).flatten = argwhere shape xs := by
  unfold argwhere
  exact zipWith_selectBy_flatten cs _ _ (by simpa using hc) (by simp [allIndices]; omega)

/-- **flatnonzero_den**: `flatnonzero(a) = argwhere(a.ravel())[:, 0]` is the list of flat positions of the non-zeros -/
theorem flatnonzero_den (xs : List Nat) : flatnonzero xs = nonzeroSpec xs := by
  unfold flatnonzero
  rw [argwhere_den [xs.length] xs (by simp [prod]), List.map_map]
  have : ((fun r : List Nat => r.getD 0 0) ∘ unravelC [xs.length]) = id := by
    funext i; simp [unravelC, prod]
  rw [this, List.map_id]

/-- **nonzero_nd_den**: `nonzero(a)[k]` is coordinate `k` of the unravelled flat positions of the non-zeros -/
theorem nonzero_nd_den (shape : List Nat) (xs : List Nat) (k : Nat) (h : xs.length = prod shape) :
    nonzeroCol shape xs k = (nonzeroSpec xs).map (fun i => (unravelC shape i).getD k 0) := by
  unfold nonzeroCol
  rw [argwhere_den shape xs h, List.map_map]; rfl

example : nonzeroCol [2, 2] [0, 7, 3, 0] 0 = [0, 1] ∧ nonzeroCol [2, 2] [0, 7, 3, 0] 1 = [1, 0] := by decide

end Dask.C27
