import DaskModel.Model.Counting
import DaskModel.Lemmas.CountingLemmas
/-!
# C27 — counting, set, search and histogram routines equal NumPy (theorems)

Each routine is a merge of per-chunk results; every theorem says: for *every* chunking (zero-length
chunks included) the merge equals the routine applied to the whole array.  Element values are `Nat`
(only `<`, `≤`, `=` are used); weights, float edges, NaN and density are validated against NumPy.
-/
namespace Dask.C27
open Dask.Chunks Dask.Counting

/-- **searchsorted_den**: per-block `np.searchsorted` with `0 ↦ -1`, block offsets added, maximum over the blocks
    and `-1 ↦ 0` is the global count of elements `< y` (left) / `≤ y` (right), i.e. `np.searchsorted(a, y, side)`,
    for every chunking of the sorted array `a` (empty chunks included). -/
theorem searchsorted_den (right : Bool) (blocks : List (List Nat)) (y : Nat)
    (hs : (blocks.flatten).Pairwise (· ≤ ·)) :
    searchsorted right blocks y = (blocks.flatten).countP (sidePred right y) := by
  unfold searchsorted
  rw [ssCombine_eq _ (sidePred_downClosed right y) blocks 0 hs]
  by_cases h : (blocks.flatten).countP (sidePred right y) = 0
  · simp [h]
  · simp only [h, if_false, Nat.zero_add]
    have : ¬ (((blocks.flatten).countP (sidePred right y) : Nat) : Int) = -1 := by omega
    simp

example : searchsorted false [[1, 2], [], [2, 5, 7]] 2 = 1 := by rfl
example : searchsorted true [[1, 2], [], [2, 5, 7]] 2 = 3 := by rfl
example : ([[1, 2], [], [2, 5, 7]] : List (List Nat)).flatten.Pairwise (· ≤ ·) := by decide

/-- **bincount_den**: `_bincount_agg` of the per-chunk `np.bincount`s (zero-padded pointwise sum) is `np.bincount` of the whole. -/
theorem bincount_den (bs : List (List Nat)) (m : Nat) (hne : bs ≠ []) :
    bincountAgg (bs.map (fun b => bincount b m)) = bincount bs.flatten m := by
  have hlen : maxList ((bs.map (fun b => bincount b m)).map List.length) = max m (binLen bs.flatten) := by
    rw [List.map_map]
    have : (List.length ∘ fun b => bincount b m) = fun b => max m (binLen b) := by
      funext b; simp [bincount_length]
    rw [this]; exact maxList_binLens m bs hne
  unfold bincountAgg
  rw [hlen, bincount_eq]
  apply List.map_congr_left
  intro i _
  rw [List.map_map, ← sum_map_count_flatten]
  congr 1
  apply List.map_congr_left
  intro b _
  exact bincount_getD b m i


example : bincountAgg ([[1, 1, 3], [0, 5]].map (fun b => bincount b 0)) = [1, 2, 0, 1, 0, 1] := by rfl

/-- **histogram_den**: with fixed bin edges the sum of the per-chunk histograms is the histogram of the whole. -/
theorem histogram_den (edges : List Nat) (bs : List (List Nat)) :
    histMerge edges bs = histBlock edges bs.flatten := by
  unfold histMerge histBlock
  apply List.map_congr_left
  intro i hi
  have hi : i < edges.length - 1 := by simpa using hi
  rw [← sum_map_countP_flatten]
  congr 1
  apply List.map_congr_left
  intro b _
  simp [List.getD_eq_getElem?_getD, List.getElem?_map, List.getElem?_range hi]


example : histMerge [0, 2, 4, 6] [[0, 1, 2], [3, 6, 7, 4]] = [2, 2, 2] := by rfl

/-- **unique_merge**: applying `_unique_internal` per part and again on the concatenation is applying it once to
    everything — for any split into parts (so any chunking, and any tree of partial merges). -/
theorem unique_merge (rs : List (List URow)) :
    uniqueInternal ((rs.map uniqueInternal).flatten) = uniqueInternal rs.flatten := by
  apply RowsEq.unique
  induction rs with
  | nil => exact RowsEq.refl _
  | cons r rs ih =>
    simp only [List.map_cons, List.flatten_cons]
    exact RowsEq.append (RowsEq.of_unique r) ih

/-- **unique_den**: `da.unique(return_index, return_counts)` — `_unique_internal` per chunk on (value, global
    position, 1) rows, then once more on the concatenation — gives NumPy's sorted distinct values, first
    occurrence and multiplicity, for every chunking. -/
theorem unique_den (bs : List (List Nat)) : uniqueChunked bs = uniqueSpec bs.flatten := by
  obtain ⟨rs, h1, h2⟩ := chunkRows_eq bs 0
  unfold uniqueChunked uniqueSpec
  rw [h1, unique_merge, h2]

example : (uniqueChunked [[3, 1, 3], [1, 2], [3]]).map (fun r => (r.value, r.index, r.count)) = [(1, 1, 2), (2, 4, 1), (3, 0, 3)] := by rfl

/-- **nonzero_den** -/
theorem nonzero_den (bs : List (List Nat)) : nonzeroChunked 0 bs = nonzeroSpec bs.flatten := by
  rw [nonzero_aux]; simp

/-- **count_nonzero_den** -/
theorem count_nonzero_den (bs : List (List Nat)) : countNonzeroChunked bs = (bs.flatten).countP (· != 0) :=
  sum_map_countP_flatten _ bs

/-- **isin_den** -/
theorem isin_den (x : Nat) (tbs : List (List Nat)) : isinChunked x tbs = (tbs.flatten).contains x := by
  unfold isinChunked
  induction tbs with
  | nil => rfl
  | cons b bs ih =>
    rw [List.any_cons, ih, List.flatten_cons]
    cases h1 : b.contains x <;> cases h2 : (bs.flatten).contains x <;> simp_all

example : nonzeroChunked 0 [[0, 1], [2, 0, 3]] = [1, 2, 4] := by rfl

/-- **coarsen_den**: when every chunk length is a multiple of the factor (what `aligned_coarsen_chunks` + rechunk
    establish; checked on the real outputs) coarsening block by block is coarsening the whole axis. -/
theorem coarsen_den {α β} (f : List α → β) (d : Nat) (hd : 0 < d) : ∀ (bs : List (List α)),
    (∀ b ∈ bs, d ∣ b.length) → coarsenChunked f d bs = coarsenBlock f d bs.flatten
  | [], _ => by simp [coarsenChunked, coarsenBlock, windows]
  | b :: bs, h => by
    have ih := coarsen_den f d hd bs (fun b hb => h b (by simp [hb]))
    obtain ⟨k, hk⟩ := h b (by simp)
    unfold coarsenChunked at ih ⊢
    simp only [List.map_cons, List.flatten_cons, ih]
    unfold coarsenBlock
    have hlen : (b ++ bs.flatten).length / d = k + bs.flatten.length / d := by
      rw [List.length_append, hk, Nat.add_comm, Nat.add_mul_div_left _ _ hd, Nat.add_comm]
    have hb : b.length / d = k := by rw [hk, Nat.mul_div_cancel_left _ hd]
    rw [hlen, hb, windows_append d k _ b bs.flatten (by rw [hk, Nat.mul_comm]), List.map_append]

example : coarsenChunked Chunks.sum 2 [[1, 2, 3, 4], [5, 6]] = [3, 7, 11] := by rfl

/-- **unique_inverse_den**: the masked-sum formula for `return_inverse` picks, for every element of the array, the
    position of its value in the (strictly sorted) unique values -/
theorem unique_inverse_den (xs : List Nat) (v : Nat) (hv : v ∈ xs) :
    (uniq xs).getD (inverseOf (uniq xs) v) 0 = v := by
  unfold inverseOf
  have h := inverseOf_aux v (uniq xs) 0 (sorted_uniq xs)
  simp only [Nat.zero_add] at h
  have hm : v ∈ uniq xs := (mem_uniq v xs).2 hv
  rw [h, if_pos hm]
  have hi := List.idxOf_lt_length_of_mem hm
  rw [List.getD_eq_getElem?_getD, List.getElem?_eq_getElem hi, List.getElem_idxOf hi]
  rfl



example : inverseOf (uniq [3, 1, 3, 2]) 3 = 2 := by rfl

/-- **bincount_weights_den**: with weights chunked like `x`, the zero-padded sum of the per-chunk weighted bincounts
    is the weighted bincount of the whole (exact weights; float weights are validated) -/
theorem bincount_weights_den (bs : List (List Nat × List Int)) (m : Nat) (hne : bs ≠ [])
    (hlen : ∀ b ∈ bs, b.1.length = b.2.length) :
    bincountAggW (bs.map (fun b => bincountW b.1 b.2 m)) = bincountW (bs.flatMap (·.1)) (bs.flatMap (·.2)) m := by
  have hl : maxList ((bs.map (fun b => bincountW b.1 b.2 m)).map List.length) = max m (binLen (bs.flatMap (·.1))) := by
    rw [List.map_map]
    have : (List.length ∘ fun b : List Nat × List Int => bincountW b.1 b.2 m) = (fun b => max m (binLen b)) ∘ (·.1) := by
      funext b; simp [bincountW_eq]
    rw [this, ← List.map_map, maxList_binLens m (bs.map (·.1)) (by simpa using hne)]
    simp [List.flatMap_def]
  unfold bincountAggW
  rw [hl, bincountW_eq]
  apply List.map_congr_left
  intro i _
  rw [List.map_map, ← isum_map_wsum bs hlen i]
  congr 1
  apply List.map_congr_left
  intro b _
  exact bincountW_getD b.1 b.2 m i

example : bincountAggW [bincountW [1, 1] [2, 3] 0, bincountW [0, 3] [-1, 4] 0] = [-1, 5, 0, 4] := by decide

end Dask.C27
