import DaskModel.Sexp
/-! Line-protocol loop shared by every group driver: one request per line, one answer per line. -/
namespace Dask

abbrev Handler := List SExp → SExp

def dispatch (table : List (String × Handler)) (e : SExp) : SExp :=
  match e with
  | .list (.sym op :: args) =>
    match table.lookup op with
    | some h => h args
    | none => SExp.err "unknown-op"
  | _ => SExp.err "bad-request"

partial def driverLoop (table : List (String × Handler)) (inp out : IO.FS.Stream) : IO Unit := do
  let line ← inp.getLine
  if line.isEmpty then return ()
  let r := match SExp.parse line with
    | some e => dispatch table e
    | none => SExp.err "parse"
  out.putStrLn (toString r)
  out.flush
  driverLoop table inp out

def runDriver (table : List (String × Handler)) : IO Unit := do
  driverLoop (("echo", fun args => SExp.list args) :: table) (← IO.getStdin) (← IO.getStdout)

/-- lift an `Option SExp` computation (decoding may fail) into a handler -/
def handler (f : List SExp → Option SExp) : Handler := fun args =>
  match f args with
  | some r => r
  | none => SExp.err "bad-args"

end Dask
