import DaskModel.Model.RelExpr
/-
K7'''' (dfrows, last extension round, C42): the LABELS of the lazy metadata — Series name, index name, index dtype — for the
relational fragment (`FromPandas`, `Projection` list / scalar, `Filter`, `Assign`, the `Binop` subclasses, `Invert`, int
literals). `Expr._meta` of these classes runs the pandas operation on the EMPTY metas of the operands
(`Blockwise._meta`, `Projection._meta`, `Filter._meta`, `Assign._meta`); a task runs the same pandas operation on the
partitions. Both sides are modelled: `metaL` composes labels without data (the lazy side), `denL` is the value semantics
`den` with every computed object carrying the labels pandas gives it (the computed side).

Python                                                        Lean
------                                                        ----
`obj.index.name`, `str(obj.index.dtype)`                      `IdxL`
`pandas.core.ops.common._maybe_match_name(a, b)`              `matchName` (name kept when both names agree, else None)
`s <op> scalar`, `scalar <op> s`, `~s`                        name of the Series operand
`df[c]`                                                       name `c`;  `s[pred]`: name of `s` (the predicate's is ignored)
`df.assign(n=s)`                                              column `n` whatever `s.name` is
index of every result                                         the index labels of the LEFT / frame operand
`._meta` (kind, columns, `.name`, index name/dtype)           `metaL`
a computed partition / whole result with its labels           `denL` (`LVal`), `LVal.labels`
Import-free (linked into the native driver).
-/
namespace Dask.RelExpr

/-- index labels: name and dtype (the dtype is an opaque label here: nothing in the fragment changes it) -/
structure IdxL where
  name : Option String
  dt : String
  deriving DecidableEq, Repr

/-- `_maybe_match_name` -/
def matchName (a b : Option String) : Option String := if a = b then a else none

inductive LSchema where
  | frame (cols : List String) (ix : IdxL)
  | series (name : Option String) (ix : IdxL)
  | scalar
  deriving DecidableEq, Repr

inductive LVal where
  | frame (cols : List String) (rows : List (Nat × List Cell)) (ix : IdxL)
  | series (rows : List (Nat × Cell)) (name : Option String) (ix : IdxL)
  | scalar (c : Cell)
  deriving DecidableEq, Repr

def LVal.labels : LVal → LSchema
  | .frame cols _ ix => .frame cols ix
  | .series _ nm ix => .series nm ix
  | .scalar _ => .scalar

def LVal.erase : LVal → Val
  | .frame cols rows _ => .frame cols rows
  | .series rows _ _ => .series rows
  | .scalar c => .scalar c

def LSchema.erase : LSchema → Schema
  | .frame cols _ => .frame cols
  | .series _ _ => .series
  | .scalar => .scalar

def LSchema.ix? : LSchema → Option IdxL
  | .frame _ ix => some ix
  | .series _ ix => some ix
  | .scalar => none

/-! ## the computed side: one function per pandas operation, on labelled objects -/

def projLV (cs : List String) : LVal → Option LVal
  | .frame cols rows ix =>
    if cs.all (fun c => (colIdx cols c).isSome) then
      some (.frame cs (rows.map (fun (i, r) => (i, cs.map (getCell cols r)))) ix)
    else none
  | _ => none

def colLV (n : String) : LVal → Option LVal
  | .frame cols rows ix =>
    if (colIdx cols n).isSome then some (.series (rows.map (fun (i, r) => (i, getCell cols r n))) (some n) ix) else none
  | _ => none

def filterLV : LVal → LVal → Option LVal
  | .frame cols rows ix, .series ps _ _ =>
    if ids rows == ids ps then
      some (.frame cols ((rows.zip ps).filterMap (fun (r, q) => if q.2 == some 1 then some r else none)) ix)
    else none
  | .series xs nm ix, .series ps _ _ =>
    if ids xs == ids ps then
      some (.series ((xs.zip ps).filterMap (fun (r, q) => if q.2 == some 1 then some r else none)) nm ix)
    else none
  | _, _ => none

def assignLV (n : String) : LVal → LVal → Option LVal
  | .frame cols rows ix, .series vs _ _ =>
    if ids rows == ids vs then
      match colIdx cols n with
      | some j => some (.frame cols ((rows.zip vs).map (fun (r, q) => (r.1, r.2.set j q.2))) ix)
      | none => some (.frame (cols ++ [n]) ((rows.zip vs).map (fun (r, q) => (r.1, r.2 ++ [q.2]))) ix)
    else none
  | .frame cols rows ix, .scalar c =>
    match colIdx cols n with
    | some j => some (.frame cols (rows.map (fun r => (r.1, r.2.set j c))) ix)
    | none => some (.frame (cols ++ [n]) (rows.map (fun r => (r.1, r.2 ++ [c]))) ix)
  | _, _ => none

def binLV (op : BinOp) : LVal → LVal → Option LVal
  | .series xs na ix, .series ys nb _ =>
    if ids xs == ids ys then some (.series ((xs.zip ys).map (fun (x, y) => (x.1, op.app x.2 y.2))) (matchName na nb) ix) else none
  | .series xs na ix, .scalar c => some (.series (xs.map (fun x => (x.1, op.app x.2 c))) na ix)
  | .scalar c, .series ys nb ix => some (.series (ys.map (fun y => (y.1, op.app c y.2))) nb ix)
  | .scalar c, .scalar d => some (.scalar (op.app c d))
  | _, _ => none

def notLV : LVal → Option LVal
  | .series xs nm ix => some (.series (xs.map (fun x => (x.1, notC x.2))) nm ix)
  | .scalar c => some (.scalar (notC c))
  | _ => none

def bind2 {α β γ} (f : α → β → Option γ) : Option α → Option β → Option γ
  | some a, some b => f a b
  | _, _ => none

/-- `den` with labels: what a task (or `.compute()`) returns, `ix` = the labels of the source frame's index -/
def denL (s : Src) (ix : IdxL) : E → Option LVal
  | .src => some (.frame s.cols (s.rows.zipIdx.map (fun (r, i) => (i, r))) ix)
  | .proj cs f => (denL s ix f).bind (projLV cs)
  | .col f n => (denL s ix f).bind (colLV n)
  | .filter f p => bind2 filterLV (denL s ix f) (denL s ix p)
  | .assign f n v => bind2 (assignLV n) (denL s ix f) (denL s ix v)
  | .lit k => some (.scalar (some k))
  | .bin op a b => bind2 (binLV op) (denL s ix a) (denL s ix b)
  | .not a => (denL s ix a).bind notLV

/-! ## the lazy side: the same operations on labels only (`._meta`) -/

def projLS (cs : List String) : LSchema → Option LSchema
  | .frame cols ix => if cs.all (fun c => (colIdx cols c).isSome) then some (.frame cs ix) else none
  | _ => none

def colLS (n : String) : LSchema → Option LSchema
  | .frame cols ix => if (colIdx cols n).isSome then some (.series (some n) ix) else none
  | _ => none

def filterLS : LSchema → LSchema → Option LSchema
  | .frame cols ix, .series _ _ => some (.frame cols ix)
  | .series nm ix, .series _ _ => some (.series nm ix)
  | _, _ => none

def assignLS (n : String) : LSchema → LSchema → Option LSchema
  | .frame cols ix, .series _ _ => some (.frame (if (colIdx cols n).isSome then cols else cols ++ [n]) ix)
  | .frame cols ix, .scalar => some (.frame (if (colIdx cols n).isSome then cols else cols ++ [n]) ix)
  | _, _ => none

def binLS : LSchema → LSchema → Option LSchema
  | .series na ix, .series nb _ => some (.series (matchName na nb) ix)
  | .series na ix, .scalar => some (.series na ix)
  | .scalar, .series nb ix => some (.series nb ix)
  | .scalar, .scalar => some .scalar
  | _, _ => none

def notLS : LSchema → Option LSchema
  | .series nm ix => some (.series nm ix)
  | .scalar => some .scalar
  | _ => none

/-- what `._meta` knows without data: kind, column names, Series name, index name and dtype -/
def metaL (cols : List String) (ix : IdxL) : E → Option LSchema
  | .src => some (.frame cols ix)
  | .proj cs f => (metaL cols ix f).bind (projLS cs)
  | .col f n => (metaL cols ix f).bind (colLS n)
  | .filter f p => bind2 filterLS (metaL cols ix f) (metaL cols ix p)
  | .assign f n v => bind2 (assignLS n) (metaL cols ix f) (metaL cols ix v)
  | .lit _ => some .scalar
  | .bin _ a b => bind2 binLS (metaL cols ix a) (metaL cols ix b)
  | .not a => (metaL cols ix a).bind notLS

end Dask.RelExpr
