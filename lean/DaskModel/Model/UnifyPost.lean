import DaskModel.Model.Meta
/-
C25 extension: the postcondition of `unify_chunks` that `Model/Meta.lean` CHECKS at run time (`unifyPostAxis`), as
executable predicates, so that it can be PROVED (Props/C25xUnify.lean) instead of checked.

Python                                                              Lean
------                                                              ----
every array axis has at least one chunk; one index symbol per       `argOK`
axis, no symbol twice within one array (elemwise/concatenate/
stack index strings; not `einsum('ii')`)
the lengths an index symbol takes among the inputs are equal        `bcastOK`  (what `broadcast_shapes` accepts; what
apart from length-one (broadcast) dimensions                                   `blockwise` requires of its caller)
the index symbols of the call                                       `syms`
"every rechunked argument has, along symbol s, the common chunks    `postOK` (= `Meta.unifyPostAxis` for every symbol of
`chunkss[s]` or the single chunk `(1,)`, and some argument carries             the real result)
the common chunks; the common chunks are not the empty tuple"
Import-free apart from the import-free `Meta`/`Elemwise` models.
-/
namespace Dask.UnifyPost
open Dask.Elemwise Dask.Meta

def nodupB : List Nat → Bool
  | [] => true
  | x :: r => !r.contains x && nodupB r

/-- dask's invariants of one array argument of `unify_chunks` -/
def argOK (a : UArg) : Bool :=
  a.ind.length == a.chunks.length && a.chunks.all (fun c => !c.isEmpty) && nodupB a.ind

/-- lengths along one symbol agree up to broadcasting of length-one dimensions -/
def bcastOK (args : List UArg) : Bool :=
  (pairs args).all fun p => (pairs args).all fun q =>
    p.1 != q.1 || p.2.sum == q.2.sum || p.2.sum == 1 || q.2.sum == 1

/-- the keys of `chunkss` -/
def syms (args : List UArg) : List Sym := ((effPairs args).map (·.1)).eraseDups

/-- the postcondition on the model's result (`none` = `unify_chunks` raises) -/
def postOK (args : List UArg) : Option Bool :=
  (unifyChunks args).map fun r =>
    (syms args).all fun s => unifyPostAxis ((lookupSym r.1 s).getD []) (newsOf args r.2 s)

end Dask.UnifyPost
