/-
K1 (array part; file renamed from TreeReduce.lean, which group dfrows uses for the dataframe part): the tree reduction of `dask/array/_reductions_generic.py`
(`reduction` → `_tree_reduce` → `partial_reduce`) and the per-block functions of
`dask/array/reductions.py` / `dask/array/chunk.py` that are plugged into it.

Python                                        Lean
------                                        ----
tlz.partition_all(k, seq)                     `partitionAll k xs`   (k = 0 ↦ [] as toolz does)
itertools.product(*lists)                     `cartesian`
partial_reduce (keys, lol_tuples of inputs)   `roundPlan` (output key ↦ input block coordinates, C order)
_tree_reduce (depth-1 × combine, 1 × agg)     `treePlan` / `treeReduce` (1-d) / `gridReduce` (n-d grid of blocks)
depth = ceil(log(n, k)) (a float formula)     a *parameter* `depth`; the theorems assume `n ≤ k ^ depth`,
                                              which the harness checks for the value dask computed
chunk.sum / prod / any / all / chunk_min …     `Red` instances below (per-block partial results)
arg_chunk / _arg_combine / arg_agg            `argChunk`, `argCombine`, `argCombL`/`argAggL` ((value, global flat index) pairs;
                                              empty blocks contribute no candidate)
chunk.topk / topk_aggregate                   `topkChunk`, `topkAgg`
A block (an ndarray) is passed as its raveled element list; only the *reduced* axes are modelled
(kept axes are pointwise, the harness slices them away).
Import-free (linked into the native driver).
-/
namespace Dask.ArrayReduce

variable {α β γ : Type}

/-- `tlz.partition_all k xs`. -/
def partitionAll (k : Nat) : List α → List (List α)
  | [] => []
  | x :: xs =>
    if _h : k = 0 then [] else (x :: xs).take k :: partitionAll k ((x :: xs).drop k)
termination_by l => l.length
decreasing_by simp only [List.length_drop, List.length_cons]; omega

/-- One `partial_reduce` along a single axis: every group of `k` consecutive blocks becomes one block. -/
def partialReduce (f : List β → γ) (k : Nat) (xs : List β) : List γ :=
  (partitionAll k xs).map f

def iter (f : α → α) : Nat → α → α
  | 0, x => x
  | n + 1, x => iter f n (f x)

/-- `_tree_reduce` along one axis: `depth - 1` rounds of `combine`, then one round of `aggregate`.
    The result is the list of output blocks along the axis (dask declares it to have length 1). -/
def treeReduce (combine : List β → β) (aggregate : List β → γ) (k depth : Nat) (xs : List β) : List γ :=
  partialReduce aggregate k (iter (partialReduce combine k) (depth - 1) xs)

/-- least `d` with `n ≤ k ^ d` (for `k ≥ 2`); `fuel` bounds the search. -/
def ceilLogAux (k n : Nat) : Nat → Nat → Nat → Nat
  | 0, d, _ => d
  | fuel + 1, d, p => if n ≤ p then d else ceilLogAux k n fuel (d + 1) (p * k)

def ceilLog (k n : Nat) : Nat := ceilLogAux k n n 0 1

/-! ### the depth loop of `_tree_reduce` (identical in `_reductions_generic.py` and `_array_expr/_reductions.py`)

```
depth = 1
for i, n in enumerate(x.numblocks):
    if i in split_every and split_every[i] != 1:
        depth = int(builtins.max(depth, math.ceil(math.log(n, split_every[i]))))
```
`math.ceil(math.log(n, k))` is modelled by the exact `ceilLog k n` (the float value may overshoot by one at exact
powers — measured by the harness; a larger depth is harmless: `axesOk_mono`). -/

def depthStep (depth : Nat) (s : Option Nat) (n : Nat) : Nat :=
  match s with
  | some k => if k = 1 then depth else max depth (ceilLog k n)
  | none => depth

/-- the loop over the axes, `d` = the running value (initially 1) -/
def depthLoop : List (Option Nat) → List Nat → Nat → Nat
  | s :: ss, n :: ns, d => depthLoop ss ns (depthStep d s n)
  | _, _, d => d

def treeDepth (split : List (Option Nat)) (numblocks : List Nat) : Nat := depthLoop split numblocks 1

/-- the same loop with the running maximum dropped (`depth = max(1, ceil(log(n, k)))`): the LAST reduced axis alone
    decides the depth (an independently seeded defect of the expression engine) -/
def depthStepLast (depth : Nat) (s : Option Nat) (n : Nat) : Nat :=
  match s with
  | some k => if k = 1 then depth else max 1 (ceilLog k n)
  | none => depth

def depthLoopLast : List (Option Nat) → List Nat → Nat → Nat
  | s :: ss, n :: ns, d => depthLoopLast ss ns (depthStepLast d s n)
  | _, _, d => d

def treeDepthLast (split : List (Option Nat)) (numblocks : List Nat) : Nat := depthLoopLast split numblocks 1

/-! ## n-d block plans (graph structure of `partial_reduce`) -/

/-- `itertools.product(*ls)` -/
def cartesian : List (List α) → List (List α)
  | [] => [[]]
  | xs :: rest => xs.flatMap fun x => (cartesian rest).map (x :: ·)

/-- `list(partition_all(split_every.get(i, 1), range(n)))` for one axis -/
def axisParts (split : Option Nat) (n : Nat) : List (List Nat) :=
  partitionAll (split.getD 1) (List.range n)

/-- keep the coordinates of the axes that are *not* in `split_every` (`get(out_axis, k)`) -/
def dropAxes : List (Option Nat) → List Nat → List Nat
  | none :: ss, k :: ks => k :: dropAxes ss ks
  | some _ :: ss, _ :: ks => dropAxes ss ks
  | _, _ => []

/-- One `partial_reduce`: `(output key, input block coordinates in the C order of the lol_tuples)`.
    `split[i] = some k` iff axis `i` is in the `split_every` dict. -/
def roundPlan (numblocks : List Nat) (split : List (Option Nat)) (keepdims : Bool) :
    List (List Nat × List (List Nat)) :=
  let ps := List.zipWith axisParts split numblocks
  let keys := cartesian (ps.map fun p => List.range p.length)
  let groups := cartesian ps
  (keys.zip groups).map fun (k, p) => (if keepdims then k else dropAxes split k, cartesian p)

/-- `numblocks` of the output of one `partial_reduce(keepdims=True)` -/
def roundNumblocks (numblocks : List Nat) (split : List (Option Nat)) : List Nat :=
  (List.zipWith axisParts split numblocks).map List.length

/-- all `depth` rounds of `_tree_reduce` -/
def treePlan (numblocks : List Nat) (split : List (Option Nat)) (keepdims : Bool) :
    Nat → List (List (List Nat × List (List Nat)))
  | 0 => []
  | 1 => [roundPlan numblocks split keepdims]
  | d + 1 => roundPlan numblocks split true :: treePlan (roundNumblocks numblocks split) split keepdims d

/-- a grid of blocks as a Python dict `key ↦ value` in insertion order (later entries win) -/
abbrev Grid (β : Type) := List (List Nat × β)

def Grid.get? (g : Grid β) (k : List Nat) : Option β :=
  (g.reverse.find? (·.1 == k)).map (·.2)

/-- evaluate one round on a grid; `none` = a missing dependency -/
def roundEval (f : List β → γ) (plan : List (List Nat × List (List Nat))) (g : Grid β) : Option (Grid γ) :=
  plan.mapM fun (k, ins) => do
    let vs ← ins.mapM g.get?
    pure (k, f vs)

/-- `_tree_reduce` on an n-d grid of per-block partial results. -/
def gridReduce (combine : List β → β) (aggregate : List β → γ) (numblocks : List Nat)
    (split : List (Option Nat)) (keepdims : Bool) : Nat → Grid β → Option (Grid γ)
  | 0, _ => none
  | 1, g => roundEval aggregate (roundPlan numblocks split keepdims) g
  | d + 1, g => do
    let g' ← roundEval combine (roundPlan numblocks split true) g
    gridReduce combine aggregate (roundNumblocks numblocks split) split keepdims d g'

/-- the initial grid: block `i` (C order) of the chunk-level results -/
def mkGrid (numblocks : List Nat) (vals : List β) : Grid β :=
  (cartesian (numblocks.map List.range)).zip vals

/-! ## The reductions plugged into the tree (`chunk`, `combine`, `aggregate`) -/

/-- a reduction as dask decomposes it; `chunk` may raise (`none`). -/
structure Red (α β γ : Type) where
  chunk : List α → Option β
  combine : List β → β
  aggregate : List β → γ

def isum (xs : List Int) : Int := xs.foldr (· + ·) 0
def iprod (xs : List Int) : Int := xs.foldr (· * ·) 1
def band (xs : List Bool) : Bool := xs.foldr (· && ·) true
def bor (xs : List Bool) : Bool := xs.foldr (· || ·) false

/-- minimum of a non-empty list; `[]` ↦ `none` (NumPy raises on a zero-size array) -/
def imin? : List Int → Option Int
  | [] => none
  | x :: xs => some (xs.foldl min x)

def imax? : List Int → Option Int
  | [] => none
  | x :: xs => some (xs.foldl max x)

/-- `chunk_min`: a size-0 block gives an empty array (dropped by the concatenation), else `[min]` -/
def minPart (xs : List Int) : List Int := (imin? xs).toList
def maxPart (xs : List Int) : List Int := (imax? xs).toList

def redSum : Red Int Int Int := ⟨fun b => some (isum b), isum, isum⟩
def redProd : Red Int Int Int := ⟨fun b => some (iprod b), iprod, iprod⟩
def redAny : Red Int Bool Bool := ⟨fun b => some (bor (b.map (· != 0))), bor, bor⟩
def redAll : Red Int Bool Bool := ⟨fun b => some (band (b.map (· != 0))), band, band⟩
/-- `da.min`: chunk/combine = `chunk_min` (after concatenation), aggregate = `np.min` (raises on empty) -/
def redMin : Red Int (List Int) (Option Int) :=
  ⟨fun b => some (minPart b), fun ps => minPart ps.flatten, fun ps => imin? ps.flatten⟩
def redMax : Red Int (List Int) (Option Int) :=
  ⟨fun b => some (maxPart b), fun ps => maxPart ps.flatten, fun ps => imax? ps.flatten⟩
/-- `da.mean`: partial = `(total, n)`; the final division is left to the caller (exact rational). -/
def redMean : Red Int (Int × Int) (Int × Int) :=
  ⟨fun b => some (isum b, b.length), fun ps => (isum (ps.map (·.1)), isum (ps.map (·.2))),
   fun ps => (isum (ps.map (·.1)), isum (ps.map (·.2)))⟩

/-! ### arg-reductions: partial = `(value, global flat index)` -/

/-- position of the first minimum w.r.t. `lt` (strict "better than") in a non-empty list -/
def argBest (lt : Int → Int → Bool) : List Int → Option (Int × Nat)
  | [] => none
  | x :: xs =>
    let rec go (best : Int) (bi : Nat) (i : Nat) : List Int → Int × Nat
      | [] => (best, bi)
      | y :: ys => if lt y best then go y i (i + 1) ys else go best bi (i + 1) ys
    some (go x 0 1 xs)

/-- `np.unravel_index(i, shape)` (C order) -/
def unravel : List Nat → Nat → List Nat
  | [], _ => []
  | _ :: rest, i =>
    let stride := rest.foldl (· * ·) 1
    (i / stride) :: unravel rest (i % stride)

/-- `np.ravel_multi_index(idx, shape)` (C order) -/
def ravel : List Nat → List Nat → Nat
  | _ :: srest, i :: irest => i * srest.foldl (· * ·) 1 + ravel srest irest
  | _, _ => 0

/-- `arg_chunk` for a raveled reduction (`axis=None` or 1-d): block of shape `bshape` at
    `offset` inside an array of shape `total`. -/
def argChunk (lt : Int → Int → Bool) (bshape offset total : List Nat) (b : List Int) : Option (Int × Nat) :=
  (argBest lt b).map fun (v, i) =>
    (v, ravel total (List.zipWith (· + ·) offset (unravel bshape i)))

/-- `_arg_combine` (after the tie fix): best value; among equal values the smallest flat index. -/
def argCombine (lt : Int → Int → Bool) : List (Int × Nat) → Option (Int × Nat)
  | [] => none
  | p :: ps => some (ps.foldl (fun b q => if lt q.1 b.1 || (q.1 == b.1 && q.2 < b.2) then q else b) p)

/-- arg tree on partial results that may be empty (a block that is empty along the reduced axis has no
    candidate — the rule of `arg_chunk`/`arg_combine` after the empty-block fix): combine keeps ≤ 1 candidate -/
def argCombL (lt : Int → Int → Bool) (ps : List (List (Int × Nat))) : List (Int × Nat) :=
  (argCombine lt ps.flatten).toList

/-- final `arg_agg`: `none` = NumPy raises (no data at all) -/
def argAggL (lt : Int → Int → Bool) (ps : List (List (Int × Nat))) : Option (Int × Nat) :=
  argCombine lt ps.flatten

/-! ### top-k: values are kept as multisets, represented by sorted lists -/

def insertSorted (le : Int → Int → Bool) (x : Int) : List Int → List Int
  | [] => [x]
  | y :: ys => if le x y then x :: y :: ys else y :: insertSorted le x ys

def isort (le : Int → Int → Bool) : List Int → List Int
  | [] => []
  | x :: xs => insertSorted le x (isort le xs)

/-- `chunk.topk(a, k)`: the `k` largest (`k > 0`) or `-k` smallest (`k < 0`) as a multiset (sorted here) -/
def topkPart (k : Int) (xs : List Int) : List Int :=
  if k ≥ 0 then (isort (fun a b => decide (b ≤ a)) xs).take k.toNat
  else (isort (fun a b => decide (a ≤ b)) xs).take (-k).toNat

def redTopk (k : Int) : Red Int (List Int) (List Int) :=
  ⟨fun b => some (topkPart k b), fun ps => topkPart k ps.flatten, fun ps => topkPart k ps.flatten⟩

/-- run a reduction on the blocks of a grid (C order) -/
def Red.run (r : Red α β γ) (numblocks : List Nat) (split : List (Option Nat)) (keepdims : Bool)
    (depth : Nat) (blocks : List (List α)) : Option (Grid γ) := do
  let parts ← blocks.mapM r.chunk
  gridReduce r.combine r.aggregate numblocks split keepdims depth (mkGrid numblocks parts)

/-- 1-d version used by the theorems -/
def Red.run1 (r : Red α β γ) (k depth : Nat) (blocks : List (List α)) : Option (List γ) :=
  (blocks.mapM r.chunk).map (treeReduce r.combine r.aggregate k depth)

end Dask.ArrayReduce
