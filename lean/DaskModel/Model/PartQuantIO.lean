import DaskModel.DriverLib
import DaskModel.Model.PartQuant
/-! Driver handlers of the C45 quantile-division model (kept out of `Drivers/dfpart.lean`). Import-free of Mathlib.
    A summary travels as `((vals…) (weights…))`; `()` of the Python side is `(() ())`. -/
namespace Dask.PQ
open Dask

def summary? (e : SExp) : Option Summary := do
  match ← e.toList? with
  | [v, w] =>
    let v ← v.toInts?; let w ← w.toInts?
    if v.length = w.length then some (v.zip w) else none
  | _ => none

def summaries? (e : SExp) : Option (List Summary) := do (← e.toList?).mapM summary?

def ofSummary (s : Summary) : SExp := .list [SExp.ofInts (s.map (·.1)), SExp.ofInts (s.map (·.2))]

def ofOut : Out → SExp
  | .ok d => .list [.sym "ok", SExp.ofInts d]
  | .empty => .list [.sym "empty"]
  | .interp => .list [.sym "interp"]
  | .raised => .list [.sym "raised"]

/-- `(pq-merge (summary…))` ↦ summary : `merge_and_compress_summaries` -/
def hMerge : Handler := handler fun
  | [ss] => do pure (ofSummary (mergeAndCompress (← summaries? ss)))
  | _ => none

/-- `(pq-msorted (summary…))` ↦ summary : `list(merge_sorted(*[zip(v, w) …]))` -/
def hMSorted : Handler := handler fun
  | [ss] => do pure (ofSummary (mergeSorted (← summaries? ss)))
  | _ => none

/-- `(pq-ptw (qs…) length)` ↦ twice the weights -/
def hPtw : Handler := handler fun
  | [qs, l] => do pure (SExp.ofInts (ptw2 (← qs.toInts?) (← l.toNat?)))
  | _ => none

/-- `(pq-summary (sorted data…) (pos…) (qs…))` ↦ `(ok summary)` | `(raised)` -/
def hSummary : Handler := handler fun
  | [d, pos, qs] => do
    pure (match percentilesSummary (← d.toInts?) (← pos.toNats?) (← qs.toInts?) with
      | some s => .list [.sym "ok", ofSummary s]
      | none => .list [.sym "raised"])
  | _ => none

/-- `(pq-groups N g)` ↦ `(ok (sizes…))` | `(raised)` : `tree_groups` -/
def hGroups : Handler := handler fun
  | [n, g] => do
    pure (match treeGroups (← n.toNat?) (← g.toNat?) with
      | some l => .list [.sym "ok", SExp.ofNats l]
      | none => .list [.sym "raised"])
  | _ => none

/-- `(pq-tree (widths…) (summary…))` ↦ `(ok summary)` | `(raised)` : the merged summary of `RepartitionQuantiles` -/
def hTree : Handler := handler fun
  | [ws, ss] => do
    pure (match mergedSummary (← ws.toNats?) (← summaries? ss) with
      | some s => .list [.sym "ok", ofSummary s]
      | none => .list [.sym "raised"])
  | _ => none

/-- `(pq-pvw summary n numeric)` ↦ `(ok (divs…))` | `(empty)` | `(interp)` | `(raised)`, followed by measurements
    `(njumbo ntrimmed ties)` of the over-sampled branch (ties = targets that hit a cumulative weight exactly) -/
def hPvw : Handler := handler fun
  | [s, n, num] => do
    let s ← summary? s; let n ← n.toNat?; let num ← num.toBool?
    let S := (s.map (·.2)).sum
    let tr := s.filter (fun p => !isJumbo S n p)
    let nj := s.length - tr.length
    let c := cumsum 0 (tr.map (·.2))
    let ties := match c.getLast? with
      | none => 0
      | some T => ((qTargets T (n - nj)).filter fun q => c.any fun x => x * q.2 == q.1).length
    pure (.list [ofOut (processValWeights s n num), SExp.ofNats [nj, tr.length, ties]])
  | _ => none

/-- `(pq-rq (widths…) (summary…) n numeric)` ↦ out : `RepartitionQuantiles` evaluated -/
def hRq : Handler := handler fun
  | [ws, ss, n, num] => do
    pure (ofOut (repartitionQuantiles (← ws.toNats?) (← summaries? ss) (← n.toNat?) (← num.toBool?)))
  | _ => none

/-- `(pq-dropdup (divs…))` ↦ divisions after the `_calculate_divisions` fix-up -/
def hDropDup : Handler := handler fun
  | [d] => do pure (SExp.ofInts (dropDuplicateDivisions (← d.toInts?)))
  | _ => none

def handlers : List (String × Handler) :=
  [("pq-merge", hMerge), ("pq-msorted", hMSorted), ("pq-ptw", hPtw), ("pq-summary", hSummary), ("pq-groups", hGroups),
   ("pq-tree", hTree), ("pq-pvw", hPvw), ("pq-rq", hRq), ("pq-dropdup", hDropDup)]

end Dask.PQ
