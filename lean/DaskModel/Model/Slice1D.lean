/-
K3 `Slice1D`: Python slice semantics and dask's one-dimensional slicing plan, transliterated from
`dask/array/slicing.py` (`normalize_slice`, `_slice_1d`, `new_blockdim`, `posify_index`).

Python                                         Lean
------                                         ----
slice(start, stop, step)  (None allowed)       `PSlice` (three `Option Int`)
slice.indices(n)                               `pyIndices n s`     (`none` = ValueError, step 0)
range(a, b, step)                              `pyRange a b step`  (`rangeUp` / `rangeDown`, by recursion as CPython iterates)
seq[s]  ==  [seq[i] for i in range(*s.indices(len(seq)))]     `pySliceIdx n s` (list of positions)
a % b   (b > 0 / b < 0, floor modulo)          `a % b` (Int.emod) for b > 0, `pyMod` in general
bisect.bisect_left/right on the (sorted)
  cumulative sums                              `bisectLeft/Right` = number of leading elements `<` / `≤` x
cached_cumsum(lengths)                         `cumFrom 0 lengths`
dict {block: slice} in insertion order         association list in insertion order
for-loops over `range(istart, istop)`          structural recursion over the visited sub-list of `lengths`
Import-free (linked into the native driver).
-/
namespace Dask.Slice1D

structure PSlice where
  start : Option Int
  stop : Option Int
  step : Option Int
  deriving Repr, BEq, DecidableEq

/-- `slice(None, None, None)` -/
def colon : PSlice := ⟨none, none, none⟩

/-- `slice(a, b, c)` with three integers -/
def PSlice.ofInts (a b c : Int) : PSlice := ⟨some a, some b, some c⟩

/-! ## Python reference semantics -/

/-- `slice.indices(n)` (CPython `_PySlice_GetLongIndices`); `none` = `ValueError` (step 0). -/
def pyIndices (n : Nat) (s : PSlice) : Option (Int × Int × Int) :=
  let step := s.step.getD 1
  if step = 0 then none else
  let lower : Int := if step < 0 then -1 else 0
  let upper : Int := if step < 0 then (n : Int) - 1 else n
  let adj (v : Int) : Int := if v < 0 then max (v + n) lower else min v upper
  let start := match s.start with
    | none => if step < 0 then upper else lower
    | some v => adj v
  let stop := match s.stop with
    | none => if step < 0 then lower else upper
    | some v => adj v
  some (start, stop, step)

/-- `list(range(a, stop, step))` for `step > 0`, as the iteration proceeds; fuel = `stop - a` suffices. -/
def upFrom (stop step : Int) : Nat → Int → List Int
  | 0, _ => []
  | f + 1, a => if a < stop then a :: upFrom stop step f (a + step) else []

def rangeUp (a stop step : Int) : List Int := upFrom stop step (stop - a).toNat a

/-- `list(range(a, stop, step))` for `step < 0`. -/
def downFrom (stop step : Int) : Nat → Int → List Int
  | 0, _ => []
  | f + 1, a => if stop < a then a :: downFrom stop step f (a + step) else []

def rangeDown (a stop step : Int) : List Int := downFrom stop step (a - stop).toNat a

def pyRange (a stop step : Int) : List Int :=
  if 0 < step then rangeUp a stop step else if step < 0 then rangeDown a stop step else []

/-- positions selected by `seq[s]` on a sequence of length `n` (in selection order) -/
def pySliceIdx (n : Nat) (s : PSlice) : Option (List Int) :=
  match pyIndices n s with
  | none => none
  | some (a, b, st) => some (pyRange a b st)

/-- Python `a % b` (result has the sign of `b`); `b = 0` does not occur (guarded by the callers' branches). -/
def pyMod (a b : Int) : Int :=
  if 0 < b then a % b else if b < 0 then -((-a) % (-b)) else 0

/-! ## `normalize_slice` -/

/-- `normalize_slice(idx, dim)` for a slice `idx` and a known `dim`; `none` = `ValueError` from `idx.indices`. -/
def normalizeSlice (idx : PSlice) (dim : Nat) : Option PSlice :=
  match pyIndices dim idx with
  | none => none
  | some (start, stop, step) =>
    if 0 < step then
      let start' : Option Int := if start = 0 then none else some start
      let stop' : Option Int := if stop ≥ (dim : Int) then none else some stop
      let step' : Option Int := if step = 1 then none else some step
      let stop'' : Option Int := match stop', start' with
        | some sp, some st => if sp < st then some st else some sp
        | _, _ => stop'
      some ⟨start', stop'', step'⟩
    else  -- step < 0 (step = 0 raised above)
      if start ≥ (dim : Int) - 1 then
        some ⟨none, if stop < 0 then none else some stop, some step⟩
      else if start < 0 then
        some (PSlice.ofInts 0 0 1)
      else
        some ⟨some start, if stop < 0 then none else some stop, some step⟩

/-- `posify_index(shape, ind)` for an integer -/
def posifyInt (dim : Nat) (ind : Int) : Int := if ind < 0 then ind + dim else ind

/-- `check_index` for an integer: `true` = IndexError -/
def checkIntOOB (dim : Nat) (ind : Int) : Bool := decide (ind ≥ dim) || decide (ind < -(dim : Int))

/-! ## `_slice_1d` -/

/-- `cached_cumsum(lengths)` shifted by `acc` -/
def cumFrom (acc : Int) : List Nat → List Int
  | [] => []
  | l :: ls => (acc + l) :: cumFrom (acc + l) ls

def bisectRight (xs : List Int) (x : Int) : Nat := (xs.takeWhile (fun c => decide (c ≤ x))).length
def bisectLeft (xs : List Int) (x : Int) : Nat := (xs.takeWhile (fun c => decide (c < x))).length

/-- integer index: `{i: ind}`; `none` cannot happen (`i - 1 < len(chunk_boundaries)`), kept explicit. -/
def slice1dInt (lengths : List Nat) (index : Int) : Option (Nat × Int) :=
  let cum := cumFrom 0 lengths
  let i := bisectRight cum index
  if 0 < i then
    match cum[i - 1]? with
    | some c => some (i, index - c)
    | none => none
  else some (i, index)

/-- body of `for i in range(istart, istop)` (positive step); `start`, `stop` are relative to block `i`. -/
def posLoop (step : Int) : List Nat → Nat → Int → Int → List (Nat × PSlice)
  | [], _, _, _ => []
  | len :: rest, i, start, stop =>
    if start < (len : Int) ∧ 0 < stop then
      (i, PSlice.ofInts start (min stop len) step) ::
        posLoop step rest (i + 1) ((start - len) % step) (stop - len)
    else
      posLoop step rest (i + 1) (start - len) (stop - len)

/-- body of `for i in range(istart, istop, -1)` (negative step). The list holds the visited blocks,
    highest first; block `i0 + rev.length` is the head, its lower boundary is `base + sum rev`. -/
def negLoop (step stop base : Int) (i0 : Nat) : List Nat → Int → List (Nat × PSlice)
  | [], _ => []
  | len :: rev, rstart =>
    let chunkStart : Int := base + (rev.sum : Nat)
    let chunkStop : Int := chunkStart + len
    if (chunkStart ≤ rstart ∧ rstart < chunkStop) ∧ stop < rstart then
      (i0 + rev.length,
        PSlice.ofInts (rstart - chunkStop) (max (chunkStart - chunkStop - 1) (stop - chunkStop)) step) ::
        negLoop step stop base i0 rev (chunkStart + pyMod (rstart - (chunkStart - 1)) step - 1)
    else
      negLoop step stop base i0 rev rstart

/-- `step = index.step or 1` -/
def stepOf (index : PSlice) : Int :=
  match index.step with
  | none => 1
  | some s => if s = 0 then 1 else s

/-- start/stop after the defaults and the "posify" lines of `_slice_1d` -/
def startStop (dimShape : Nat) (index : PSlice) : Int × Int :=
  let dim : Int := dimShape
  let step := stepOf index
  let (start, stop) : Int × Int :=
    if 0 < step then
      (index.start.getD 0, index.stop.getD dim)
    else
      let s := index.start.getD (dim - 1)
      (if s ≥ dim then dim - 1 else s, match index.stop with | none => -(dim + 1) | some v => v)
  (if start < 0 then start + dim else start, if stop < 0 then stop + dim else stop)

/-- the dict `d` before the two final clean-ups -/
def slice1dRaw (dimShape : Nat) (lengths : List Nat) (index : PSlice) : List (Nat × PSlice) :=
  let step := stepOf index
  let (start, stop) := startStop dimShape index
  let cum := cumFrom 0 lengths
  if 0 < step then
    let istart := bisectRight cum start
    let istop := min (bisectLeft cum stop + 1) lengths.length
    -- `chunk_boundaries[istart - 1]` when `istart > 0` (the sum of the first `istart` lengths), else no shift
    let off : Int := ((lengths.take istart).sum : Nat)
    posLoop step ((lengths.drop istart).take (istop - istart)) istart (start - off) (stop - off)
  else
    match lengths with
    | [] => []
    | _ :: _ =>
      let istart := min (bisectRight cum start) (lengths.length - 1)
      let istop : Int := max ((bisectRight cum stop : Int) - 1) (-1)
      let lo := (istop + 1).toNat   -- lowest visited block
      let visited := ((lengths.take (istart + 1)).drop lo).reverse
      let base : Int := ((lengths.take lo).sum : Nat)
      negLoop step stop base lo visited start

/-- "replace 0:20:1 with : if appropriate" -/
def tidy (lengths : List Nat) (d : List (Nat × PSlice)) : List (Nat × PSlice) :=
  d.map fun (k, v) =>
    match lengths[k]? with
    | some l => if v = PSlice.ofInts 0 l 1 then (k, colon) else (k, v)
    | none => (k, v)

/-- `_slice_1d(dim_shape, lengths, index)` for a slice `index`: the dict in insertion order. -/
def slice1d (dimShape : Nat) (lengths : List Nat) (index : PSlice) : List (Nat × PSlice) :=
  if index = colon then (List.range lengths.length).map (fun i => (i, colon))
  else
    let d := tidy lengths (slice1dRaw dimShape lengths index)
    if d.isEmpty then [(0, PSlice.ofInts 0 0 1)] else d

/-! ## `new_blockdim` and the output block order of `slice_slices_and_integers` -/

def insertByKey {α : Type} (p : Nat × α) : List (Nat × α) → List (Nat × α)
  | [] => [p]
  | q :: qs => if p.1 < q.1 then p :: q :: qs else q :: insertByKey p qs

/-- `sorted(d.items())` (keys are distinct) -/
def sortByKey {α : Type} : List (Nat × α) → List (Nat × α)
  | [] => []
  | p :: ps => insertByKey p (sortByKey ps)

/-- `index.step and index.step < 0` -/
def negStep (index : PSlice) : Bool :=
  match index.step with
  | some s => decide (s < 0)
  | none => false

/-- the (input block, in-block slice) pairs in the order of the *output* blocks:
    `sorted(items)` paired with `range(len(d))[::-1]` when the step is negative. -/
def outputOrder (index : PSlice) (d : List (Nat × PSlice)) : List (Nat × PSlice) :=
  if negStep index then (sortByKey d).reverse else sortByKey d

/-- `ceil(a / b)` on exact integers (`b ≠ 0`) -/
def ceilDiv (a b : Int) : Int :=
  if 0 < b then -((-a) / b) else if b < 0 then -(a / (-b)) else 0

/-- size of one planned piece as `new_blockdim` computes it: `ceil((stop - start) / step)` after replacing
    `:` by `0:len:1`; `none` only if a slice lacked a field or named a missing block (cannot happen, kept explicit) -/
def itemSize (lengths : List Nat) (item : Nat × PSlice) : Option Int :=
  if item.2 = colon then
    match lengths[item.1]? with
    | some l => some (ceilDiv ((l : Int) - 0) 1)
    | none => none
  else
    match item.2.start, item.2.stop, item.2.step with
    | some a, some b, some st => if st = 0 then none else some (ceilDiv (b - a) st)
    | _, _, _ => none

/-- `new_blockdim(dim_shape, lengths, index)` for a slice `index` -/
def newBlockdim (dimShape : Nat) (lengths : List Nat) (index : PSlice) : Option (List Int) :=
  if index = colon then some (lengths.map (fun (l : Nat) => (l : Int)))
  else (outputOrder index (slice1d dimShape lengths index)).mapM (itemSize lengths)

/-! ## Denotation of a plan: which global positions each output block reads -/

/-- global positions read by output item `(b, sl)`: block `b`'s own slice, shifted by the block's offset -/
def blockDen (lengths : List Nat) (item : Nat × PSlice) : List Int :=
  match lengths[item.1]? with
  | some len =>
    match pySliceIdx len item.2 with
    | some ps => ps.map (fun p => p + ((lengths.take item.1).sum : Nat))
    | none => []
  | none => []

/-- concatenation over the output blocks (in output order) of the positions they read -/
def planDen (lengths : List Nat) (index : PSlice) (d : List (Nat × PSlice)) : List Int :=
  (outputOrder index d).flatMap (blockDen lengths)

end Dask.Slice1D
