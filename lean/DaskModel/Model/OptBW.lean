/-
K13 (part): the DRIVER loop of blockwise fusion, `dask.blockwise._optimize_blockwise` — which layers of a HighLevelGraph
are handed together to `rewrite_blockwise` — and the condition of `dask.blockwise.fuse_roots`.

Python                                                         Lean
------                                                         ----
layer name (string)                                            `Nat`: position in the layer list; a name that is NOT a key of
                                                               `full_graph.layers` is a number ≥ `g.length`
`full_graph.layers[name]`, `full_graph.dependencies[name]`     `g[name]?` (`Layer.deps`: the dependency set in iteration order)
`isinstance(layers[x], Blockwise)`                             `Layer.bw`
`layers[x].concatenate` (None / True / False, compared by !=)  `Layer.conc : Nat` (any injective encoding)
`layers[x].annotations` compared by `==`                       `Layer.ann : Nat` (equality class of the dict / None)
annotation keys                                                `Layer.annKeys` (`[]` for None / `{}`); the five fusable keys
                                                               "retries","priority","resources","workers","allow_other_workers"
                                                               are 0…4, every other key is ≥ 5
`not a or all(k in fusable for k in a)`                        `Layer.annFus`
`layers[x].output_indices`, `.indices`                         `Layer.outInd`, `Layer.indices : List (Nat × Option (List Nat))`
`dask.config.get("optimization.annotations.fuse") is False`    `cfg = false`
`keep = {k[0] if type(k) is tuple else k for k in keys}`       `keep : List Nat`
`dependents = reverse_dict(full_graph.dependencies)`           `dependents g d`
`stack` (list, `pop()` from the end)                           `List Nat`, head = top
`seen`, `deps`, `blockwise_layers` (Python sets)               duplicate-free lists (`addSet`); the worklist `deps` is popped
                                                               from the front (`set.pop()` is unspecified)
`layers[next(iter(blockwise_layers))].annotations`             the ROOT's annotations (the set always contains the root; every
                                                               member passed the same test, and `_can_fuse_annotations` makes the
                                                               members either all equal or all fusable, so every member gives the
                                                               same verdict — the harness diffs the resulting groups)
`out[layer] = rewrite_blockwise([layers[l] for l in …])`       `Group` = root, `fused = true`, the members
`out[layer] = layers[layer]` (not a Blockwise layer)           `Group` with `fused = false`, members `[root]`
`while stack:` / `while deps:`                                 fuel (`none` = fuel exhausted; on a cyclic graph the Python loop
                                                               `while deps` does not terminate either)
The new `dependencies` dict and `rewrite_blockwise` itself are outside this file (`Model/Rewrite.lean`).
Import-free.
-/
namespace Dask.OptBW

structure Layer where
  bw : Bool
  deps : List Nat
  conc : Nat
  ann : Nat
  annKeys : List Nat
  outInd : List Nat
  indices : List (Nat × Option (List Nat))
  deriving Repr, Inhabited

/-- `not a or all(k in fusable for k in a)` -/
def Layer.annFus (L : Layer) : Bool := L.annKeys.all fun k => decide (k < 5)

abbrev Graph := List Layer

/-- `reverse_dict(full_graph.dependencies)[d]`: the layers that list `d` among their dependencies -/
def dependents (g : Graph) (d : Nat) : List Nat :=
  g.zipIdx.filterMap fun p => if p.1.deps.contains d then some p.2 else none

/-- `{k for k in full_graph.layers if not dependents.get(k)}` -/
def roots (g : Graph) : List Nat := (List.range g.length).filter fun k => (dependents g k).isEmpty

/-- `set.add` -/
def addSet (l : List Nat) (x : Nat) : List Nat := if l.contains x then l else l ++ [x]

/-- `_can_fuse_annotations(a, b)` -/
def canFuseAnn (cfg : Bool) (a b : Layer) : Bool := a.ann == b.ann || (cfg && (a.annFus && b.annFus))

/-- `sum(k == dep for k, ind in layers[layer].indices if ind is not None)` -/
def useCount (R : Layer) (dep : Nat) : Nat := (R.indices.filter fun e => e.2.isSome && e.1 == dep).length

/-- `output_indices.issuperset(input_indices)` with `input_indices = {i for _, ind in indices if ind for i in ind}` -/
def ioSuperset (D : Layer) : Bool := (D.indices.flatMap fun e => e.2.getD []).all fun i => D.outInd.contains i

/-- the six `continue` guards of the inner loop: `some D` = "passed everything, proceed" with `D = layers[dep]` -/
def passes (g : Graph) (keep : List Nat) (cfg : Bool) (root : Nat) (R : Layer) (dep : Nat) : Option Layer :=
  match g[dep]? with
  | none => none                                                   -- `dep not in layers`
  | some D =>
    if !D.bw then none                                             -- not a Blockwise layer
    else if dep != root && keep.contains dep then none             -- requested as an output
    else if D.conc != R.conc then none                             -- `concatenate` differs from the root's
    else if useCount R dep > 1 then none                           -- the root lists it more than once
    else if !canFuseAnn cfg R D then none                          -- annotations cannot be fused
    else some D

/-- `for d in full_graph.dependencies.get(dep, ()): if is_io_superset and len(dependents[d]) <= 1: deps.add(d)
    else: stack.append(d)` on the pair (worklist, stack) -/
def dispatch (g : Graph) (sup : Bool) : List Nat → List Nat × List Nat → List Nat × List Nat
  | [], ws => ws
  | d :: ds, (w, s) =>
    if sup && decide ((dependents g d).length ≤ 1) then dispatch g sup ds (addSet w d, s)
    else dispatch g sup ds (w, d :: s)

structure Inner where
  work : List Nat
  mem : List Nat
  stack : List Nat
  deriving Repr

/-- `while deps:` -/
def innerLoop (g : Graph) (keep : List Nat) (cfg : Bool) (root : Nat) (R : Layer) : Nat → Inner → Option Inner
  | 0, _ => none
  | fuel + 1, st =>
    match st.work with
    | [] => some st
    | dep :: rest =>
      match passes g keep cfg root R dep with
      | none => innerLoop g keep cfg root R fuel { work := rest, mem := st.mem, stack := dep :: st.stack }
      | some D =>
        let ws := dispatch g (ioSuperset D) D.deps (rest, st.stack)
        innerLoop g keep cfg root R fuel { work := ws.1, mem := addSet st.mem dep, stack := ws.2 }

structure Group where
  root : Nat
  fused : Bool
  mem : List Nat
  deriving Repr

structure St where
  stack : List Nat
  seen : List Nat
  out : List Group
  deriving Repr

/-- `while stack:`; `fi` is the fuel of every inner loop -/
def outerLoop (g : Graph) (keep : List Nat) (cfg : Bool) (fi : Nat) : Nat → St → Option St
  | 0, _ => none
  | fuel + 1, st =>
    match st.stack with
    | [] => some st
    | layer :: rest =>
      if st.seen.contains layer then outerLoop g keep cfg fi fuel { st with stack := rest }
      else match g[layer]? with
        | none => outerLoop g keep cfg fi fuel { st with stack := rest }
        | some R =>
          if R.bw then
            match innerLoop g keep cfg layer R fi { work := [layer], mem := [layer], stack := rest } with
            | none => none
            | some i => outerLoop g keep cfg fi fuel
                { stack := i.stack, seen := layer :: st.seen, out := ⟨layer, true, i.mem⟩ :: st.out }
          else outerLoop g keep cfg fi fuel
                { stack := R.deps.reverse ++ rest, seen := layer :: st.seen, out := ⟨layer, false, [layer]⟩ :: st.out }

/-- `_optimize_blockwise(full_graph, keys)`: the groups, most recent first -/
def optimizeGroups (g : Graph) (keep : List Nat) (cfg : Bool) (fo fi : Nat) : Option (List Group) :=
  (outerLoop g keep cfg fi fo { stack := roots g, seen := [], out := [] }).map (·.out)

/-- a fuel that suffices on every acyclic graph the harness generates (checked there: `none` is a disagreement) -/
def defaultFuel (g : Graph) : Nat := 4 * (g.length + (g.map (·.deps.length)).sum) + 16

/-! ### hypotheses of the coverage theorem, evaluated by the driver on every real input -/

/-- dependencies precede their dependents (or are not layers at all): the layer list is a topological numbering -/
def topoOK (g : Graph) : Bool := g.zipIdx.all fun p => p.1.deps.all fun d => decide (d < p.2) || decide (g.length ≤ d)

/-- no layer lists ITSELF more than once among its indexed arguments (otherwise the root fails its own test) -/
def selfOK (g : Graph) : Bool := g.zipIdx.all fun p => decide (useCount p.1 p.2 ≤ 1)

/-! ### `fuse_roots` -/

/-- state of the `for name, layer in graph.layers.items()` loop of `fuse_roots`: the names whose entry of the COPIED
    `dependencies` dict was deleted (`gone`) or reset to `set()` (`cleared`), and the fusions made -/
structure RSt where
  gone : List Nat
  cleared : List Nat
  fusedR : List (Nat × List Nat)
  deriving Repr

/-- `dependencies[dep]` in the mutated copy: `none` = KeyError -/
def depsNow (g : Graph) (st : RSt) (d : Nat) : Option (List Nat) :=
  if st.gone.contains d then none
  else if st.cleared.contains d then some []
  else (g[d]?).map (·.deps)

/-- `any(dependencies[dep] for dep in deps)` (`any` stops at the first non-empty set); `none` = KeyError -/
def anyDeps (g : Graph) (st : RSt) : List Nat → Option Bool
  | [] => some false
  | d :: ds =>
    match depsNow g st d with
    | none => none
    | some x => if !x.isEmpty then some true else anyDeps g st ds

/-- `all(layer.annotations == graph.layers[dep].annotations for dep in deps)`; `graph.layers[dep]` of a non-layer raises -/
def annAll (g : Graph) (L : Layer) : List Nat → Option Bool
  | [] => some true
  | d :: ds =>
    match g[d]? with
    | none => none
    | some D => if L.ann == D.ann then annAll g L ds else some false

/-- the condition of `fuse_roots` for one layer; `none` = a lookup raises KeyError -/
def rootsCond (g : Graph) (st : RSt) (L : Layer) : Option Bool :=
  if !(L.bw && decide (L.deps.length > 1)) then some false
  else match anyDeps g st L.deps with
    | none => none
    | some true => some false
    | some false =>
      if !(L.deps.all fun d => (dependents g d).length == 1) then some false
      else annAll g L L.deps

/-- `fuse_roots`: which (consumer, roots) are merged, in the iteration order `order` of `graph.layers` -/
def fuseRoots (g : Graph) : List Nat → RSt → Option RSt
  | [], st => some st
  | name :: rest, st =>
    match g[name]? with
    | none => none
    | some L =>
      match rootsCond g st L with
      | none => none
      | some true => fuseRoots g rest
          { gone := st.gone ++ L.deps, cleared := name :: st.cleared, fusedR := st.fusedR ++ [(name, L.deps)] }
      | some false => fuseRoots g rest st

end Dask.OptBW
