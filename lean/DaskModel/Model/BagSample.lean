import DaskModel.Model.BagReduce
/-
`dask.bag.random` (`sample`, `choices`, `_sample_map_partitions`, `_sample_with_replacement_map_partitions`,
`_sample_reduce`, `_weighted_sampling_without_replacement`, `_finalize_sample`) and
`dask.bag.core.random_sample`, for an ARBITRARY random oracle.

Python                                          Lean
------                                          ----
module-level `random` (`rnd.random`, `uniform`, an `Oracle`: every value the random draws can influence is a
`randrange`, `choices`)                         field, indexed by the task that draws it and a counter:
  `_geometric(w)` (an int ≥ 1)                    `geom part j`
  `rnd.randrange(k)`                              `slot part j % k`
  order of `(log(random())/w_i, i)` in            `key depth node pos` (any order-preserving image of the
  `heapq.nlargest`                                floats; ties broken by the index as tuples do)
  `rnd.choices(population, weights, k)`           `pick depth node j % len(population)`
  `Random.random() < prob` per element            `keep part j`
ValueError("Sample larger than population")     `Res.valueError`;  IndexError / StopIteration of `choices`
                                                on an empty population: `Res.otherError`
ValueError for `split_every < 2 < …` (see BagReduce)  `Res.splitEveryError`
Import-free (linked into the native driver).
-/
namespace Dask.BagSample
open Dask.BagReduce

structure Oracle where
  geom : Nat → Nat → Nat
  slot : Nat → Nat → Nat
  key  : Nat → Nat → Nat → Nat
  pick : Nat → Nat → Nat → Nat
  keep : Nat → Nat → Bool

inductive Res (α : Type) where
  | ok (xs : List α)
  | valueError
  | otherError
  | splitEveryError
  deriving Repr, BEq, DecidableEq

/-! ## `_sample_map_partitions` (reservoir algorithm L) -/

/-- the `for i, e in enumerate(stream, k)` loop; `j` counts the replacements done so far -/
def resLoop (k : Nat) (geom slot : Nat → Nat) : Nat → Nat → Nat → List α → List α → List α
  | _, _, _, res, [] => res
  | i, nxt, j, res, e :: rest =>
    if i = nxt then resLoop k geom slot (i + 1) (nxt + geom (j + 1)) (j + 1) (res.set (slot j % k) e) rest
    else resLoop k geom slot (i + 1) nxt j res rest

/-- `_sample_map_partitions(population, k)` ↦ `(reservoir, stream_length)` -/
def sampleMapPartitions (k : Nat) (geom slot : Nat → Nat) (pop : List α) : List α × Nat :=
  if k = 0 then ([], pop.length)
  else (resLoop k geom slot k (k - 1 + geom 0) 0 (pop.take k) (pop.drop k), pop.length)

/-! ## `_sample_with_replacement_map_partitions` (k reservoirs of size 1) -/

/-- the inner `for j, n in enumerate(nxt)` loop: every reservoir whose turn it is takes `e`;
    `c` = number of `_geometric` draws so far; returns `(reservoir, nxt, c)` -/
def updReservoirs (geom : Nat → Nat) (minNxt : Nat) (e : α) : List α → List Nat → Nat → List α × List Nat × Nat
  | r :: rs, n :: ns, c =>
    if n = minNxt then
      let (rs', ns', c') := updReservoirs geom minNxt e rs ns (c + 1)
      (e :: rs', (n + geom c) :: ns', c')
    else
      let (rs', ns', c') := updReservoirs geom minNxt e rs ns c
      (r :: rs', n :: ns', c')
  | rs, ns, c => (rs, ns, c)

def listMin : List Nat → Nat
  | [] => 0
  | x :: xs => xs.foldl min x

def replLoop (geom : Nat → Nat) : Nat → List α → List Nat → Nat → List α → List α
  | _, res, _, _, [] => res
  | i, res, nxt, c, e :: rest =>
    if i = listMin nxt then
      let (res', nxt', c') := updReservoirs geom (listMin nxt) e res nxt c
      replLoop geom (i + 1) res' nxt' c' rest
    else replLoop geom (i + 1) res nxt c rest

/-- `_sample_with_replacement_map_partitions(population, k)`; `none` = `next(stream)` raised
    StopIteration (empty partition, reached only for a single-partition bag) -/
def choicesMapPartitions (k : Nat) (geom : Nat → Nat) (pop : List α) : Option (List α × Nat) :=
  if k = 0 then some ([], pop.length)
  else match pop with
    | [] => none
    | e :: rest =>
      some (replLoop geom 1 (List.replicate k e) ((List.range k).map geom) k rest, pop.length)

/-! ## `_sample_reduce` -/

/-- insert into a list sorted descending by `(key, index)` -/
def insertDesc (x : Nat × Nat) : List (Nat × Nat) → List (Nat × Nat)
  | [] => [x]
  | y :: ys => if y.1 < x.1 ∨ (y.1 = x.1 ∧ y.2 < x.2) then x :: y :: ys else y :: insertDesc x ys

def sortDesc (xs : List (Nat × Nat)) : List (Nat × Nat) := xs.foldr insertDesc []

/-- `_weighted_sampling_without_replacement(population, weights, k)`:
    `[population[x[1]] for x in heapq.nlargest(k, [(key_i, i) …])]` -/
def weightedWithout (key : Nat → Nat) (s : List α) (k : Nat) : List α :=
  let elt := (List.range s.length).map fun i => (key i, i)
  ((sortDesc elt).take k).filterMap fun x => s[x.2]?

/-- `_sample_reduce(reduce_iter, k, replace=False)` -/
def sampleReduce (k : Nat) (key : Nat → Nat) (inputs : List (List α × Nat)) : List α × Nat :=
  let s := (inputs.map (·.1)).flatten
  let n := (inputs.map (·.2)).sum
  if n < k ∨ k = 0 then (s, n) else (weightedWithout key s k, n)

/-- `_sample_reduce(reduce_iter, k, replace=True)`; `none` = `rnd.choices([], …)` raised IndexError -/
def choicesReduce (k : Nat) (pick : Nat → Nat) (inputs : List (List α × Nat)) : Option (List α × Nat) :=
  let s := (inputs.map (·.1)).flatten
  let n := (inputs.map (·.2)).sum
  if k = 0 then some (s, n)
  else if s.isEmpty then none
  else some ((List.range k).filterMap fun j => s[pick j % s.length]?, n)

/-! ## the public functions -/

/-- `_finalize_sample` -/
def finalize (k : Nat) (sn : List α × Nat) : Res α := if sn.1.length < k then .valueError else .ok sn.1

/-- `bag.random.sample(population, k, split_every)` -/
def sample (O : Oracle) (k se : Nat) (parts : List (List α)) : Res α :=
  match reductionIx (fun i p => sampleMapPartitions k (O.geom i) (O.slot i) p)
      (fun depth i inputs => sampleReduce k (O.key depth i) inputs) se parts with
  | none => .splitEveryError
  | some sn => finalize k sn

/-- the aggregate of `choices`: an error in any input task propagates (`none`) -/
def choicesAgg (k : Nat) (pick : Nat → Nat) (inputs : List (Option (List α × Nat))) : Option (List α × Nat) :=
  match inputs.mapM id with
  | none => none
  | some ins => choicesReduce k pick ins

/-- the reduction `choices` builds; errors inside tasks are carried as `none` -/
def choicesRed (O : Oracle) (k se : Nat) (parts : List (List α)) : Option (Option (List α × Nat)) :=
  reductionIx (fun i p => choicesMapPartitions k (O.geom i) p)
    (fun depth i inputs => choicesAgg k (O.pick depth i) inputs) se parts

/-- `bag.random.choices(population, k, split_every)` -/
def choices (O : Oracle) (k se : Nat) (parts : List (List α)) : Res α :=
  match choicesRed O k se parts with
  | none => .splitEveryError
  | some none => .otherError
  | some (some sn) => finalize k sn

/-! ## `Bag.random_sample` -/

/-- `random_sample(x, state_data, prob)` on partition `i`: keep element `j` iff the `j`-th draw of the
    partition's own generator is `< prob` -/
def randomSamplePart (keep : Nat → Bool) (p : List α) : List α :=
  p.zipIdx.filterMap fun xj => if keep xj.2 then some xj.1 else none

def randomSample (O : Oracle) (parts : List (List α)) : List (List α) :=
  parts.zipIdx.map fun pi => randomSamplePart (O.keep pi.2) pi.1

end Dask.BagSample
