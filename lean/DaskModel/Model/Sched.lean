/-
K5 `Sched`: the `get_async` state machine of `dask/local.py`, transliterated.

Python                                             Lean
------                                             ----
keys (any hashable)                                `Key = Nat` (the harness interns keys)
dict                                               `Map β` = association list, `get?/set/del`
set of keys                                        `List Key` with `sadd`/`srem` (membership semantics)
`state["ready"]` (list; `append`, `pop()` at end)   `List Key`, **head = top of the stack** (serialised reversed)
converted graph `dsk` (DataNode / Task / Alias)     `Graph = Map Node`, `Node.data | Node.task deps`
`task(data)` on the worker                         `P.apply key (values of the dependencies, in `deps` order)`
a task raising                                     `P.fails key`
`KeyError`/`AssertionError`/`ZeroDivisionError`…    `Except Err` (never totalised away)
the executor + `Queue` (which batch completes next) adversary: a list of indices into the outstanding batches
callbacks                                          `log : List (Ev × State)` (event + the state the callback sees)

Functions: `startState` = `start_state_from_dask`, `fireTasks` = `fire_tasks` (after the
`chunksize=-1` repair), `finishTask` = `finish_task`, `releaseData` = `release_data`,
`processBatch`+`iter`+`mainLoop` = the `while` loop of `get_async`, `getAsync` = the whole call
including the `finally:` finish callbacks and `nested_get`.
OS thread timing is not modelled: every order in which outstanding batches can complete is.
Import-free (linked into the native driver).
-/
namespace Dask.Sched

abbrev Key := Nat

/-! ## dict as association list -/
abbrev Map (β : Type) := List (Key × β)

namespace Map
variable {β : Type}

def get? : Map β → Key → Option β
  | [], _ => none
  | (k', v) :: m, k => if k' = k then some v else get? m k

def del (m : Map β) (k : Key) : Map β := m.filter (fun p => p.1 != k)

def set (m : Map β) (k : Key) (v : β) : Map β := (k, v) :: del m k

def has (m : Map β) (k : Key) : Bool := (get? m k).isSome

def keys (m : Map β) : List Key := m.map (·.1)

end Map

/-! ## sets of keys as lists -/
/-- `s.add(k)` -/
def sadd (k : Key) (l : List Key) : List Key := if k ∈ l then l else l ++ [k]
/-- `s.remove(k)` / `s.discard(k)` (the caller checks membership when Python would raise) -/
def srem (k : Key) (l : List Key) : List Key := l.filter (fun x => x != k)

inductive Node where
  | data : Node
  | task (deps : List Key) : Node
  deriving Repr, DecidableEq

abbrev Graph := Map Node

/-- where a `KeyError` was raised -/
inductive KE where
  | waiting | waitingRemove | waitingDataRemove | cacheDel | cacheRead | runningRemove
  | dependencies | dependents | initWaitingRemove | result
  deriving Repr, DecidableEq

inductive Err where
  | missingDep (k : Key)        -- ValueError: Missing dependency
  | noAccessibleJobs            -- ValueError: Found no accessible jobs in dask
  | zeroDivision
  | keyError (w : KE)
  | assertion                   -- `assert not state["waiting_data"][key]`
  | indexError                  -- pop from empty list
  | hang                        -- `queue_get` would block for ever: nothing outstanding
  | badChoice                   -- the adversary named a batch that does not exist
  | fuel
  deriving Repr, DecidableEq

structure State (α : Type) where
  dependencies : Map (List Key) := []
  dependents : Map (List Key) := []
  waiting : Map (List Key) := []
  waitingData : Map (List Key) := []
  cache : Map α := []
  ready : List Key := []       -- head = top of stack = Python `ready[-1]`
  running : List Key := []
  finished : List Key := []
  released : List Key := []

/-- what the tasks compute (symbolic: the theorems hold for every `α` and every `apply`) -/
structure Params (α : Type) where
  dataVal : Key → α             -- value held by `DataNode k`
  apply : Key → List α → α      -- `dsk[k](data)` as a function of the dependency values (in `deps` order)
  fails : Key → Bool            -- the task raises when executed

structure Cfg where
  g : Graph
  results : List Key            -- flattened requested keys
  prio : Key → Nat              -- `order(dsk).get`
  nw : Int                      -- num_workers
  cs : Int                      -- chunksize (`-1` or ≥ 1 in the property; any non-zero Int in the model)

/-! ## start_state_from_dask -/

structure InitSt (α : Type) where
  stack : List Key              -- head = top
  seen : List Key := []
  readySet : List Key := []
  dependencies : Map (List Key) := []
  dependents : Map (List Key) := []
  waiting : Map (List Key) := []
  waitingData : Map (List Key) := []
  cache : Map α := []

/-- `defaultdict(set)[k]` evaluated for its side effect -/
def touch (m : Map (List Key)) (k : Key) : Map (List Key) :=
  match m.get? k with
  | some _ => m
  | none => m.set k []

/-- `defaultdict(set)[k].add(x)` -/
def addTo (m : Map (List Key)) (k x : Key) : Map (List Key) :=
  m.set k (sadd x ((m.get? k).getD []))

/-- DataNode branch: `for d in dependents[key]: …` -/
def dataNodeLoop {α : Type} (key : Key) : List Key → InitSt α → Except Err (InitSt α)
  | [], s => .ok s
  | d :: ds, s =>
    match s.waiting.get? d with
    | some w =>
      if key ∈ w then
        if srem key w = [] then
          dataNodeLoop key ds { s with waiting := s.waiting.del d, readySet := sadd d s.readySet }
        else
          dataNodeLoop key ds { s with waiting := s.waiting.set d (srem key w) }
      else .error (.keyError .initWaitingRemove)
    | none => dataNodeLoop key ds { s with readySet := sadd d s.readySet }

/-- task branch: `for dep in task.dependencies: …` -/
def taskDepsLoop {α : Type} (key : Key) : List Key → InitSt α → InitSt α
  | [], s => s
  | dep :: ds, s =>
    taskDepsLoop key ds
      { s with dependencies := addTo s.dependencies key dep,
               dependents := addTo s.dependents dep key,
               waitingData := addTo s.waitingData dep key,
               stack := dep :: s.stack }

/-- one iteration of `while stack:` with `key` already popped and not seen -/
def initVisit {α : Type} (g : Graph) (P : Params α) (key : Key) (s : InitSt α) : Except Err (InitSt α) :=
  let s := { s with seen := key :: s.seen, dependents := touch s.dependents key,
                    waitingData := touch s.waitingData key, dependencies := touch s.dependencies key }
  -- `if key in cache: continue`: a result the caller passed in through `cache=` is available - nothing to run and
  -- nobody waits for it.  (The traversal itself puts a key into the cache only when it visits it, and visits it once,
  -- so with an empty start cache this branch is dead: `initVisit_data`, `initVisit_task`.)
  if s.cache.has key then .ok s
  else
    match g.get? key with
    | none =>
      -- `if dependents[key]: raise ValueError("Missing dependency …")`
      if ((s.dependents.get? key).getD []) ≠ [] then .error (.missingDep key) else .ok s
    | some .data =>
      dataNodeLoop key ((s.dependents.get? key).getD []) { s with cache := s.cache.set key (P.dataVal key) }
    | some (.task deps) =>
      let wait := deps.filter (fun d => !s.cache.has d)
      let s := if wait = [] then { s with readySet := sadd key s.readySet }
               else { s with waiting := s.waiting.set key wait }
      .ok (taskDepsLoop key deps s)

def initLoop {α : Type} (g : Graph) (P : Params α) : Nat → InitSt α → Except Err (InitSt α)
  | 0, s => if s.stack = [] then .ok s else .error .fuel
  | fuel + 1, s =>
    match s.stack with
    | [] => .ok s
    | key :: stack =>
      if key ∈ s.seen then initLoop g P fuel { s with stack := stack }
      else
        match initVisit g P key { s with stack := stack } with
        | .ok s' => initLoop g P fuel s'
        | .error e => .error e

/-- number of `stack.append`s that can ever happen + 1 -/
def initFuel (cfg : Cfg) : Nat :=
  cfg.results.length + (cfg.g.map (fun p => match p.2 with | .data => 0 | .task deps => deps.length)).sum + 1

/-- stable insertion sort (structural recursion, so that concrete runs reduce in the kernel) -/
def insertBy (le : Key → Key → Bool) (x : Key) : List Key → List Key
  | [] => [x]
  | y :: ys => if le x y then x :: y :: ys else y :: insertBy le x ys

def isort (le : Key → Key → Bool) : List Key → List Key
  | [] => []
  | x :: xs => insertBy le x (isort le xs)

/-- ascending by priority: head = lowest priority value = what `ready.pop()` returns -/
def sortAsc (prio : Key → Nat) (l : List Key) : List Key := isort (fun a b => prio a ≤ prio b) l
/-- `sorted(l, key=sortkey, reverse=True)` -/
def sortDesc (prio : Key → Nat) (l : List Key) : List Key := isort (fun a b => prio b ≤ prio a) l

def startState {α : Type} (cfg : Cfg) (P : Params α) : Except Err (State α) :=
  match initLoop cfg.g P (initFuel cfg) { stack := cfg.results } with
  | .error e => .error e
  | .ok s =>
    .ok { dependencies := s.dependencies, dependents := s.dependents, waiting := s.waiting,
          waitingData := s.waitingData, cache := s.cache, ready := sortAsc cfg.prio s.readySet }

/-- `start_state_from_dask(dsk, cache=cache0, keys=keys)` with a caller-supplied (warm) cache; `keys = none` is the
`keys is None` default: `list(set(dsk) - set(cache))`.  `startState` is the case `cache0 = []`, `keys = cfg.results`
(what `get_async` passes when no `cache=` is given). -/
def startStateC {α : Type} (cfg : Cfg) (P : Params α) (cache0 : Map α) (keys : Option (List Key)) : Except Err (State α) :=
  let ks := match keys with
    | some ks => ks
    | none => (cfg.g.map (·.1)).filter (fun k => !cache0.has k)
  match initLoop cfg.g P (ks.length + (cfg.g.map (fun p => match p.2 with | .data => 0 | .task deps => deps.length)).sum + 1)
      { stack := ks, cache := cache0 } with
  | .error e => .error e
  | .ok s =>
    .ok { dependencies := s.dependencies, dependents := s.dependents, waiting := s.waiting,
          waitingData := s.waitingData, cache := s.cache, ready := sortAsc cfg.prio s.readySet }

/-! ## release_data / finish_task -/

def releaseData {α : Type} (key : Key) (s : State α) : Except Err (State α) :=
  let r : Except Err (State α) :=
    match s.waitingData.get? key with
    | some wd => if wd = [] then .ok { s with waitingData := s.waitingData.del key } else .error .assertion
    | none => .ok s
  match r with
  | .error e => .error e
  | .ok s =>
    let s := { s with released := sadd key s.released }
    if s.cache.has key then .ok { s with cache := s.cache.del key } else .error (.keyError .cacheDel)

/-- first loop of `finish_task`: `for dep in sorted(state["dependents"][key], key=sortkey, reverse=True)` -/
def finishDependents {α : Type} (key : Key) : List Key → State α → Except Err (State α)
  | [], s => .ok s
  | dep :: rest, s =>
    match s.waiting.get? dep with
    | none => .error (.keyError .waiting)
    | some w =>
      if key ∈ w then
        if srem key w = [] then
          finishDependents key rest { s with waiting := s.waiting.del dep, ready := dep :: s.ready }
        else
          finishDependents key rest { s with waiting := s.waiting.set dep (srem key w) }
      else .error (.keyError .waitingRemove)

/-- second loop of `finish_task`: `for dep in state["dependencies"][key]` (with `delete=True`) -/
def finishDeps {α : Type} (results : List Key) (key : Key) : List Key → State α → Except Err (State α)
  | [], s => .ok s
  | dep :: rest, s =>
    let r : Except Err (State α) :=
      match s.waitingData.get? dep with
      | some wd =>
        if key ∈ wd then
          let s1 := { s with waitingData := s.waitingData.set dep (srem key wd) }
          if srem key wd = [] ∧ dep ∉ results then releaseData dep s1 else .ok s1
        else .error (.keyError .waitingDataRemove)
      | none => if dep ∉ results then releaseData dep s else .ok s
    match r with
    | .error e => .error e
    | .ok s' => finishDeps results key rest s'

def finishTask {α : Type} (cfg : Cfg) (key : Key) (s : State α) : Except Err (State α) :=
  match s.dependents.get? key with
  | none => .error (.keyError .dependents)
  | some dts =>
    match finishDependents key (sortDesc cfg.prio dts) s with
    | .error e => .error e
    | .ok s1 =>
      match s1.dependencies.get? key with
      | none => .error (.keyError .dependencies)
      | some deps =>
        match finishDeps cfg.results key deps s1 with
        | .error e => .error e
        | .ok s2 =>
          if key ∈ s2.running then
            .ok { s2 with finished := sadd key s2.finished, running := srem key s2.running }
          else .error (.keyError .runningRemove)

/-! ## the scheduler around the state -/

inductive Ev where
  | start | startState
  | pretask (k : Key) | submit (ks : List Key) | posttask (k : Key)
  | finish (failed : Bool)
  deriving Repr, DecidableEq

structure Sys (α : Type) where
  st : State α
  pending : List (List (Key × α)) := []   -- outstanding batches, in submit order; (key, value the task will return)
  log : List (Ev × State α) := []

/-- Python `a // b` -/
def pyFloorDiv (a b : Int) : Except Err Int := if b = 0 then .error .zeroDivision else .ok (Int.fdiv a b)

/-- `-(a // -b)` : ceiling division as `fire_tasks` writes it -/
def negFloorDivNeg (a b : Int) : Except Err Int :=
  match pyFloorDiv a (-b) with
  | .ok q => .ok (-q)
  | .error e => .error e

/-- `for _ in range(ntasks): key = ready.pop(); running.add(key); pretask(key); data = {dep: cache[dep] …}` -/
def popLoop {α : Type} (P : Params α) : Nat → State α → List (Key × α) → List (Ev × State α) →
    Except Err (State α × List (Key × α) × List (Ev × State α))
  | 0, s, args, log => .ok (s, args, log)
  | n + 1, s, args, log =>
    match s.ready with
    | [] => .error .indexError
    | key :: ready =>
      let s := { s with ready := ready, running := sadd key s.running }
      match s.dependencies.get? key with
      | none => .error (.keyError .dependencies)
      | some deps =>
        match deps.mapM (fun d => s.cache.get? d) with
        | none => .error (.keyError .cacheRead)
        | some vals => popLoop P n s (args ++ [(key, P.apply key vals)]) (log ++ [(.pretask key, s)])

/-- `for i in range(nb): each_args = args[i*cs:(i+1)*cs]; if not each_args: break; submit(…)` -/
def batches {β : Type} (cs nb : Nat) (args : List β) : List (List β) :=
  ((List.range nb).map (fun i => (args.drop (i * cs)).take cs)).takeWhile (fun b => !b.isEmpty)

/-- "Determine chunksize and/or number of tasks to submit": `(ntasks, chunksize)` -/
def fireSelect (cfg : Cfg) (nready nrunning : Nat) : Except Err (Int × Int) :=
  if cfg.cs = -1 then
    match negFloorDivNeg (nready : Int) cfg.nw with
    | .ok c => .ok ((nready : Int), max c 1)
    | .error e => .error e
  else
    match negFloorDivNeg (nrunning : Int) cfg.cs with
    | .ok used => .ok (min (nready : Int) (cfg.cs * max (cfg.nw - used) 0), cfg.cs)
    | .error e => .error e

def fireTasks {α : Type} (cfg : Cfg) (P : Params α) (s : Sys α) : Except Err (Sys α) :=
  match fireSelect cfg s.st.ready.length s.st.running.length with
  | .error e => .error e
  | .ok (ntasks, cs) =>
    match popLoop P ntasks.toNat s.st [] s.log with
    | .error e => .error e
    | .ok (st, args, log) =>
      match negFloorDivNeg (args.length : Int) cs with
      | .error e => .error e
      | .ok nb =>
        let bs := batches cs.toNat nb.toNat args
        .ok { st := st, pending := s.pending ++ bs,
              log := log ++ bs.map (fun b => (Ev.submit (b.map (·.1)), st)) }

/-- the `for key, res_info, failed in queue_get(queue).result():` loop; `some k` = task `k` failed (→ `raise`) -/
def processBatch {α : Type} (cfg : Cfg) (P : Params α) : List (Key × α) → Sys α → Except Err (Sys α × Option Key)
  | [], s => .ok (s, none)
  | (key, res) :: rest, s =>
    if P.fails key then .ok (s, some key)
    else
      match finishTask cfg key { s.st with cache := s.st.cache.set key res } with
      | .error e => .error e
      | .ok st => processBatch cfg P rest { s with st := st, log := s.log ++ [(.posttask key, st)] }

/-- one iteration of the main loop; `choice` = which outstanding batch the queue delivers -/
def iter {α : Type} (cfg : Cfg) (P : Params α) (choice : Nat) (s : Sys α) : Except Err (Sys α × Option Key) :=
  match fireTasks cfg P s with
  | .error e => .error e
  | .ok s =>
    if s.pending = [] then .error .hang
    else
      match s.pending[choice]? with
      | none => .error .badChoice
      | some batch => processBatch cfg P batch { s with pending := s.pending.eraseIdx choice }

/-- `while state["waiting"] or state["ready"] or state["running"]` -/
def loopCond {α : Type} (s : State α) : Bool := !s.waiting.isEmpty || !s.ready.isEmpty || !s.running.isEmpty

inductive Outcome where
  | done                 -- loop condition false: success
  | failed (k : Key)     -- task `k` raised: the call re-raises
  | starved              -- the supplied adversary choices ran out (partial run)
  deriving Repr, DecidableEq

def mainLoop {α : Type} (cfg : Cfg) (P : Params α) : List Nat → Sys α → Except Err (Sys α × Outcome)
  | [], s => if loopCond s.st then .ok (s, .starved) else .ok (s, .done)
  | c :: cs, s =>
    if loopCond s.st then
      match iter cfg P c s with
      | .error e => .error e
      | .ok (s', some k) => .ok (s', .failed k)
      | .ok (s', none) => mainLoop cfg P cs s'
    else .ok (s, .done)

/-! ## nested_get -/
inductive Req where
  | key (k : Key)
  | list (rs : List Req)

inductive Packed (α : Type) where
  | val (v : α)
  | tuple (vs : List (Packed α))

mutual
def Req.flat : Req → List Key
  | .key k => [k]
  | .list rs => Req.flatList rs
def Req.flatList : List Req → List Key
  | [] => []
  | r :: rs => Req.flat r ++ Req.flatList rs
end

mutual
/-- `nested_get(ind, coll)`; `none` = KeyError -/
def nestedGet {α : Type} (look : Key → Option α) : Req → Option (Packed α)
  | .key k => (look k).map .val
  | .list rs => (nestedGetList look rs).map .tuple
def nestedGetList {α : Type} (look : Key → Option α) : List Req → Option (List (Packed α))
  | [] => some []
  | r :: rs =>
    match nestedGet look r, nestedGetList look rs with
    | some v, some vs => some (v :: vs)
    | _, _ => none
end

/-- result of a whole `get_async` call -/
structure Run (α : Type) where
  log : List (Ev × State α)
  outcome : Except Err Outcome
  final : State α

/-- `get_async` (callbacks reduced to the event log; `cfg.results` must be `req.flat`) -/
def getAsync {α : Type} (cfg : Cfg) (P : Params α) (choices : List Nat) : Run α :=
  let empty : State α := {}
  match startState cfg P with
  | .error e => { log := [(.start, empty), (.finish true, empty)], outcome := .error e, final := empty }
  | .ok st0 =>
    let log0 := [(Ev.start, empty), (Ev.startState, st0)]
    if !st0.waiting.isEmpty ∧ st0.ready.isEmpty then
      { log := log0 ++ [(.finish true, st0)], outcome := .error .noAccessibleJobs, final := st0 }
    else
      match mainLoop cfg P choices { st := st0, log := log0 } with
      | .error e => { log := log0 ++ [(.finish true, st0)], outcome := .error e, final := st0 }
      | .ok (s, .done) => { log := s.log ++ [(.finish false, s.st)], outcome := .ok .done, final := s.st }
      | .ok (s, o) => { log := s.log ++ [(.finish true, s.st)], outcome := .ok o, final := s.st }

/-- `get_async(…, cache=cache0)`: the same call on a caller-supplied cache -/
def getAsyncC {α : Type} (cfg : Cfg) (P : Params α) (cache0 : Map α) (choices : List Nat) : Run α :=
  let empty : State α := {}
  match startStateC cfg P cache0 (some cfg.results) with
  | .error e => { log := [(.start, empty), (.finish true, empty)], outcome := .error e, final := empty }
  | .ok st0 =>
    let log0 := [(Ev.start, empty), (Ev.startState, st0)]
    if !st0.waiting.isEmpty ∧ st0.ready.isEmpty then
      { log := log0 ++ [(.finish true, st0)], outcome := .error .noAccessibleJobs, final := st0 }
    else
      match mainLoop cfg P choices { st := st0, log := log0 } with
      | .error e => { log := log0 ++ [(.finish true, st0)], outcome := .error e, final := st0 }
      | .ok (s, .done) => { log := s.log ++ [(.finish false, s.st)], outcome := .ok .done, final := s.st }
      | .ok (s, o) => { log := s.log ++ [(.finish true, s.st)], outcome := .ok o, final := s.st }

/-! ## what the graph denotes -/

def nodeDeps (g : Graph) (k : Key) : List Key :=
  match g.get? k with
  | some (.task deps) => deps
  | _ => []

/-- recursive evaluation with fuel (`rank k + 1` suffices on an acyclic graph, see `Props/C01`) -/
def denote {α : Type} (g : Graph) (P : Params α) : Nat → Key → α
  | 0, k => P.dataVal k
  | fuel + 1, k =>
    match g.get? k with
    | some (.task deps) => P.apply k (deps.map (denote g P fuel))
    | _ => P.dataVal k

end Dask.Sched
