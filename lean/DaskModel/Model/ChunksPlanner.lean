import DaskModel.Model.Chunks
/-
K4b `ChunksPlanner`: the stage choice of `plan_rechunk` (dask/array/rechunk.py) as it is:
`merge_to_number` (heap path), `find_split_rechunk`, `find_merge_rechunk`, the `while True` loop of
`plan_rechunk`; and the element-level reading of a rechunk plan (`planLocate`, n-d = one lookup per axis).

Python                                                   Lean
------                                                   ----
heapq of `(width, i, j)` tuples (all distinct: `i` is)   `List HEnt`, `popMin` = least tuple (layout of the heap is irrelevant)
`chunks[j]` past the end / `heappop([])` (IndexError),   `.error .raised`
  `assert …`, ZeroDivisionError
`while nmerges > 0` (lazy deletion, re-push)             `mergeLoop` with fuel (`.error .nofuel` = fuel exhausted)
`block_size_limit` (a float: bytes / itemsize, then      the exact fraction `Lnum / den` with `den = itemsize`,
  `max` with two ints)                                     `Lnum = max(bytes, old*itemsize, new*itemsize)`
`int(a * b / c)` on floats                               `a * b / c` on `Nat` (floor) — equal for power-of-two item sizes and
                                                           operands far below 2^53 (ASSUMPTION, checked by the plan diff)
`sorted(merge_candidates, key=log(gse)/log(bse))`        parameter `order` (observed from the real call; the model checks that
                                                           it is a permutation of the candidates; theorems hold for every order)
Import-free (linked into the native driver).
-/
namespace Dask.Chunks

inductive PErr where
  | raised   -- the Python code raises (IndexError / AssertionError / ZeroDivisionError)
  | nofuel   -- fuel of a modelled `while` loop exhausted
  | oracle   -- the observed float-dependent choices do not fit the model (wrong number / not a permutation of the candidates)
  deriving Repr, DecidableEq

/-! ## `merge_to_number`: the heap path -/

/-- heap entry `(width, i, j)` -/
structure HEnt where
  w : Nat
  i : Nat
  j : Nat
  deriving Repr, DecidableEq

/-- Python's tuple order on `(width, i, j)` -/
def HEnt.lt (a b : HEnt) : Bool :=
  a.w < b.w || (a.w == b.w && (a.i < b.i || (a.i == b.i && a.j < b.j)))

/-- `heappop`: the least entry and the remaining ones (`none` on an empty heap) -/
def popMin : List HEnt → Option (HEnt × List HEnt)
  | [] => none
  | e :: es =>
    match popMin es with
    | none => some (e, [])
    | some (m, rest) => if e.lt m then some (e, m :: rest) else some (m, e :: rest)

/-- `[(c[i] + c[i+1], i, i+1) for i in range(len(c) - 1)]` -/
def heapInit : Nat → List Nat → List HEnt
  | i, a :: b :: rest => ⟨a + b, i, i + 1⟩ :: heapInit (i + 1) (b :: rest)
  | _, _ => []

def firstLive : List (Option Nat) → Option Nat
  | [] => none
  | c :: cs => if c.isSome then some 0 else (firstLive cs).map (· + 1)

/-- `while chunks[j] is None: j += 1` (`none` = ran off the end: IndexError) -/
def nextLive (chunks : List (Option Nat)) (j : Nat) : Option Nat :=
  (firstLive (chunks.drop j)).map (· + j)

/-- one iteration of `while nmerges > 0`: `(merged?, heap, chunks)`; a chunk merged into its right neighbour is
    `none` (Python `None`; a zero-length chunk is a chunk like any other - since `fix: merge_to_number … zero-length
    chunks`, before it `0` was the deletion mark) -/
def mergeStep (heap : List HEnt) (chunks : List (Option Nat)) : Option (Bool × List HEnt × List (Option Nat)) :=
  match popMin heap with
  | none => none
  | some (e, rest) =>
    match chunks[e.j]? with
    | none => none                                   -- IndexError
    | some none =>
      -- interval made invalid by another merge: look for the next live chunk, re-insert, retry
      (match nextLive chunks (e.j + 1) with
       | none => none
       | some j' =>
         match chunks[e.i]?, chunks[j']? with
         | some (some ci), some (some cj') => some (false, ⟨ci + cj', e.i, j'⟩ :: rest, chunks)
         | _, _ => none)
    | some (some cj) =>
      match chunks[e.i]? with
      | some (some ci) =>
        if ci + cj ≠ e.w then some (false, ⟨ci + cj, e.i, e.j⟩ :: rest, chunks)
        else some (true, rest, (chunks.set e.i none).set e.j (some e.w))
      | _ => none                                    -- `None + int`: TypeError (`assert chunks[i] is not None`)

def mergeLoop : Nat → Nat → List HEnt → List (Option Nat) → Except PErr (List (Option Nat))
  | _, 0, _, chunks => .ok chunks
  | 0, _ + 1, _, _ => .error .nofuel
  | fuel + 1, nm + 1, heap, chunks =>
    match mergeStep heap chunks with
    | none => .error .raised
    | some (true, heap', chunks') => mergeLoop fuel nm heap' chunks'
    | some (false, heap', chunks') => mergeLoop fuel (nm + 1) heap' chunks'

def mergeFuel (n : Nat) : Nat := (n + 2) * (n + 2)

/-- the heap path of `merge_to_number` (more chunks than `max_number`, not all equal) -/
def mergeHeap (cs : List Nat) (maxNumber : Nat) : Except PErr (List Nat) :=
  match mergeLoop (mergeFuel cs.length) (cs.length - maxNumber) (heapInit 0 cs) (cs.map some) with
  | .error e => .error e
  | .ok chunks => .ok (chunks.filterMap id)

/-- `merge_to_number(desired_chunks, max_number)`, all three paths -/
def mergeToNumberFull (cs : List Nat) (maxNumber : Nat) : Except PErr (List Nat) :=
  if cs.length ≤ maxNumber then .ok cs
  else match cs with
    | [] => .ok []
    | w :: rest =>
      if rest.all (· == w) && w != 0 then
        (match mergeHomogeneous w cs.length maxNumber with
         | some r => .ok r
         | none => .error .raised)
      else mergeHeap cs maxNumber

/-! ## `find_split_rechunk` -/

def maxL (l : List Nat) : Nat := l.foldr max 0

/-- the body of `for dim in range(ndim)` after the graph-size test: the chunks this dimension gets -/
def splitDim (oldc newc : List Nat) (graphSize limit : Nat) : Except PErr (List Nat) :=
  if oldc.length > newc.length then .ok oldc  -- "It's not interesting to split"
  else if graphSize = 0 then .error .raised
  else
    let maxNumber := oldc.length * limit / graphSize
    match mergeToNumberFull newc maxNumber with
    | .error e => .error e
    | .ok c =>
      if c.length > maxNumber then .error .raised  -- `assert len(c) <= max_number`
      else if c.length ≥ oldc.length ∧ maxL c ≤ maxL oldc then .ok c
      else .ok oldc

/-- `find_split_rechunk(old_chunks, new_chunks, graph_size_limit)`: `done` are the dimensions already treated -/
def findSplitGo (limit : Nat) (new : List (List Nat)) :
    List (List Nat) → List (List Nat) → List (List Nat) → Except PErr (List (List Nat))
  | done, [], _ => .ok done
  | done, o :: os, [] => .ok (done ++ o :: os)
  | done, o :: os, n :: ns =>
    let gs := estimateGraphSize (done ++ o :: os) new
    if gs > limit then .ok (done ++ o :: os)
    else
      match splitDim o n gs limit with
      | .error e => .error e
      | .ok c => findSplitGo limit new (done ++ [c]) os ns

def findSplit (old new : List (List Nat)) (limit : Nat) : Except PErr (List (List Nat)) :=
  findSplitGo limit new [] old new

/-! ## `find_merge_rechunk` -/

structure MState where
  chunks : List (List Nat)
  lbs : Nat        -- `largest_block_size`
  hit : Bool       -- `memory_limit_hit`
  deriving Repr

/-- `block_size_limit * largest_width / largest_block_size`, truncated -/
def chunkLimit (Lnum den ow lbs : Nat) : Nat := Lnum * ow / (den * lbs)

/-- the partial branch: "Try a partial rechunk, dividing the new chunks into smaller pieces" -/
def mergeDimPartial (Lnum den : Nat) (oldc newc : List Nat) (st : MState) (dim : Nat) : Except PErr MState :=
  if st.lbs = 0 ∨ den = 0 then .error .raised
  else
    match divideToWidth newc (chunkLimit Lnum den (maxL oldc) st.lbs) with
    | none => .error .raised
    | some c =>
      if c.length ≤ oldc.length then
        (if maxL oldc = 0 then .error .raised
         else .ok { chunks := st.chunks.set dim c, lbs := st.lbs * maxL c / maxL oldc, hit := true })
      else .ok { st with hit := true }

/-- `x or 1` -/
def orOne (n : Nat) : Nat := if n = 0 then 1 else n

/-- the body of `for dim in sorted_candidates` -/
def mergeDim (Lnum den : Nat) (old new : List (List Nat)) (st : MState) (dim : Nat) : Except PErr MState :=
  let oldc := old.getD dim []
  let newc := new.getD dim []
  let nlbs := st.lbs * maxL newc / orOne (maxL oldc)
  if nlbs * den ≤ Lnum then .ok { chunks := st.chunks.set dim newc, lbs := nlbs, hit := st.hit }
  else mergeDimPartial Lnum den oldc newc st dim

def mergeDims (Lnum den : Nat) (old new : List (List Nat)) : MState → List Nat → Except PErr MState
  | st, [] => .ok st
  | st, d :: ds =>
    match mergeDim Lnum den old new st d with
    | .error e => .error e
    | .ok st' => mergeDims Lnum den old new st' ds

/-- `merge_candidates`: dimensions whose number of chunks does not grow -/
def mergeCandidates (old new : List (List Nat)) : List Nat :=
  (List.range old.length).filter (fun d => decide ((new.getD d []).length ≤ (old.getD d []).length))

def nodupB : List Nat → Bool
  | [] => true
  | x :: xs => !xs.contains x && nodupB xs

/-- is `order` a permutation of the duplicate-free list `cands`? -/
def isPermOf (order cands : List Nat) : Bool :=
  order.length == cands.length && nodupB order && cands.all (fun d => order.contains d) &&
    order.all (fun d => cands.contains d)

/-- `find_merge_rechunk(old_chunks, new_chunks, block_size_limit)` with `block_size_limit = Lnum / den`
    and the observed order of the candidates -/
def findMerge (Lnum den : Nat) (old new : List (List Nat)) (order : List Nat) :
    Except PErr (List (List Nat) × Bool) :=
  if !isPermOf order (mergeCandidates old new) then .error .oracle
  else
    match mergeDims Lnum den old new { chunks := old, lbs := largestBlockSize old, hit := false } order with
    | .error e => .error e
    | .ok st =>
      -- `assert largest_block_size == _largest_block_size(chunks)`; `assert largest_block_size <= block_size_limit`
      if st.lbs ≠ largestBlockSize st.chunks ∨ ¬ (st.lbs * den ≤ Lnum) then .error .raised
      else .ok (st.chunks, st.hit)

/-! ## `plan_rechunk` -/

/-- one pass of the `while True` loop after the graph-size test: `(chunks, memory_limit_hit)` -/
def planPass (thr Lnum den : Nat) (new cur : List (List Nat)) (first : Bool) (gs : Nat) (ord : List Nat) :
    Except PErr (List (List Nat) × Bool) :=
  match (if first then .ok cur else findSplit cur new (gs * thr)) with
  | .error e => .error e
  | .ok chunks0 => findMerge Lnum den chunks0 new ord

/-- the `while True` loop; `orders` = the candidate order observed in each call of `find_merge_rechunk`
    (one per pass: the recursion is structural in it; termination of the real loop is observed, not proved) -/
def planLoop (thr Lnum den gst : Nat) (new : List (List Nat)) :
    List (List Nat) → Bool → List (List Nat) → List (List (List Nat)) → Except PErr (List (List (List Nat)))
  | cur, _, [], steps =>
    if estimateGraphSize cur new < gst then .ok (steps ++ [new]) else .error .oracle
  | cur, first, ord :: ords, steps =>
    if estimateGraphSize cur new < gst then .ok (steps ++ [new])
    else
      match planPass thr Lnum den new cur first (estimateGraphSize cur new) ord with
      | .error e => .error e
      | .ok (chunks, hit) =>
        if (chunks == cur && !first) || chunks == new then .ok (steps ++ [new])
        else if !hit then .ok ((if chunks != cur then steps ++ [chunks] else steps) ++ [new])
        else planLoop thr Lnum den gst new chunks false ords (if chunks != cur then steps ++ [chunks] else steps)

/-- `plan_rechunk(old_chunks, new_chunks, itemsize, threshold, block_size_limit)` for known chunks, with
    `threshold` and `block_size_limit` (bytes) already resolved from the configuration -/
def planRechunk (old new : List (List Nat)) (itemsize thr limitBytes : Nat) (orders : List (List Nat)) :
    Except PErr (List (List (List Nat))) :=
  if new.length ≤ 1 ∨ new.any List.isEmpty then .ok [new]
  else
    let Lnum := max limitBytes (max (largestBlockSize old * itemsize) (largestBlockSize new * itemsize))
    let gst := thr * (numberOfBlocks old + numberOfBlocks new)
    planLoop thr Lnum itemsize gst new old true orders []

/-! ## `_balance_chunksizes` (`rechunk(..., balance=True)`) -/

def insertSorted (x : Nat) : List Nat → List Nat
  | [] => [x]
  | y :: ys => if x ≤ y then x :: y :: ys else y :: insertSorted x ys

def isort : List Nat → List Nat
  | [] => []
  | x :: xs => insertSorted x (isort xs)

/-- `np.median(chunks).astype(int)`: the middle element, or the mean of the two middle ones, truncated -/
def medianFloor (l : List Nat) : Nat :=
  let s := isort l
  if s.length % 2 = 1 then s.getD (s.length / 2) 0
  else (s.getD (s.length / 2 - 1) 0 + s.getD (s.length / 2) 0) / 2

def minL : List Nat → Nat
  | [] => 0
  | x :: xs => xs.foldr min x

/-- `_get_chunks(n, chunksize)` for `chunksize > 0` -/
def getChunks (n L : Nat) : List Nat :=
  List.replicate (n / L) L ++ (if n % L ≠ 0 then [n % L] else [])

/-- `possible_chunks[np.argmin([max(c) - min(c) for c in possible_chunks])]` (first minimum) -/
def argminSpread : List (List Nat) → Option (List Nat)
  | [] => none
  | c :: cs =>
    match argminSpread cs with
    | none => some c
    | some b => if maxL c - minL c ≤ maxL b - minL b then some c else some b

/-- `_balance_chunksizes(chunks)` (after `fix: … a chunk length of 0 is not a candidate for balancing`) -/
def balanceChunks (cs : List Nat) : List Nat :=
  let m := medianFloor cs
  let eps := m / 2
  let nc := if 2 * minL cs ≤ maxL cs then cs.length - 1 else cs.length
  let lo := max (m - eps) 1
  let cands := (List.range (m + eps + 1 - lo)).map (fun i => getChunks (sum cs) (lo + i))
  match argminSpread (cands.filter (fun c => c.length == nc)) with
  | none => cs
  | some c => c

/-! ## reading a plan element by element (n-d rechunk = one lookup per axis) -/

/-- element `q` of the concatenation of the pieces: `(old block, offset inside it)` -/
def locateIn : List Piece → Nat → Option (Nat × Nat)
  | [], _ => none
  | p :: ps, q => if q < p.stop - p.start then some (p.idx, p.start + q) else locateIn ps (q - (p.stop - p.start))

/-- element `q` of new block `j` along one axis -/
def planLocate (plan : List (List Piece)) (j q : Nat) : Option (Nat × Nat) :=
  match plan[j]? with
  | none => none
  | some g => locateIn g q

/-- n-d: `intersect_chunks` is the product of the per-axis plans, `getitem` with a tuple of slices and
    `concatenate_shaped` act axis by axis: the element at `(new block, offset)` (one pair per axis) is read at … -/
def ndLocate : List (List (List Piece)) → List (Nat × Nat) → Option (List (Nat × Nat))
  | [], [] => some []
  | pl :: pls, (j, q) :: rest =>
    match planLocate pl j q, ndLocate pls rest with
    | some a, some r => some (a :: r)
    | _, _ => none
  | _, _ => none

/-- global index of `(block, offset)` pairs, one per axis -/
def gidx : List (List Nat) → List (Nat × Nat) → List Nat
  | c :: cs, (b, o) :: rest => (blockStart c b + o) :: gidx cs rest
  | _, _ => []

end Dask.Chunks
