import DaskModel.Model.TaskTerm
import DaskModel.Generated.TaskSpecSlots
/-
K7 (part 4): `Task.__getstate__/__setstate__` and `NestedContainer.__getstate__/__setstate__`.

Python                                                  Lean
------                                                  ----
instance with `__slots__` (no `__dict__`)               `Attrs = List (String × Obj)` (slot ↦ value; missing = unset)
cls.get_all_slots()                                     `Dask.Generated.TaskSpecSlots.slots…` (extracted from the AST)
tuple(getattr(self, sl) for sl in slots)                `getstate` (`none` = AttributeError)
for sl, val in zip(slots, state): setattr(self, sl, val) `setstate`
state[ix] = state[ix].copy(); state[ix].pop("constructor", None)   `ncGetstate`
self.kwargs["constructor"] = self.__class__.constructor  `ncSetstate`
Import-free of Mathlib (linked into the native driver).
-/
namespace Dask.Pickle
open Dask.TaskTerm

abbrev Attrs := List (String × Obj)

def getstate (slots : List String) (o : Attrs) : Option (List Obj) := slots.mapM (fun s => o.lookup s)

def setstate (slots : List String) (state : List Obj) : Attrs := slots.zip state

/-- `d.pop(k, None)` on a copy -/
def dictPop (kvs : List (Obj × Obj)) (k : Obj) : List (Obj × Obj) := kvs.filter (fun kv => !(kv.1 == k))

def setSlot (a : Attrs) (s : String) (v : Obj) : Attrs := a.map fun kv => if kv.1 == s then (kv.1, v) else kv

/-- `NestedContainer.__getstate__` -/
def ncGetstate (slots : List String) (dropped : String) (o : Attrs) : Option Attrs :=
  match getstate slots o with
  | none => none
  | some st =>
    let a := slots.zip st
    match a.lookup "kwargs" with
    | some (.dict kw) => some (setSlot a "kwargs" (.dict (dictPop kw (.str dropped))))
    | _ => none

/-- `NestedContainer.__setstate__` (the state is kept with its slot names; order = slot order) -/
def ncSetstate (dropped : String) (ctor : Obj) (state : Attrs) : Attrs :=
  match state.lookup "kwargs" with
  | some (.dict kw) => setSlot state "kwargs" (.dict (dictSet kw (.str dropped) ctor))
  | _ => state

/-- `pickle.loads(pickle.dumps(task))` on the level of slot values -/
def taskRoundtrip (o : Attrs) : Option Attrs :=
  (getstate Generated.TaskSpecSlots.slotsTask o).map (setstate Generated.TaskSpecSlots.slotsTask)

def containerRoundtrip (ctor : Obj) (o : Attrs) : Option Attrs :=
  (ncGetstate Generated.TaskSpecSlots.slotsNestedContainer Generated.TaskSpecSlots.droppedKwarg o).map
    (ncSetstate Generated.TaskSpecSlots.droppedKwarg ctor)

end Dask.Pickle
