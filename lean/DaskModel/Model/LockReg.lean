/-
K12 `LockReg`: `dask.utils.SerializableLock`, as a history model.

Python                                             Lean
------                                             ----
`SerializableLock._locks` (WeakValueDictionary)    `reg : Token → Option LockId` (partial function)
`threading.Lock()`                                 a fresh `LockId` (`nextLock`); mutual exclusion per id is TRUSTED
`token or str(uuid.uuid4())`                       `Event.new none` draws the fresh token `uuid nextUuid`
                                                   (assumption: uuid4 never repeats and never equals an explicit token)
`__init__` body                                    `construct`
`__getstate__` / `__setstate__` (pickle, copy)     `Event.copyOf o` (round trip of a live object), `Event.load t`
                                                   (loading bytes that carry token `t`, the original may be long dead)
object death + weak-value semantics                `Event.drop o`, `Event.gc t`: the entry of `t` may vanish only when no
                                                   live SerializableLock holds that lock (adversarial timing — CPython
                                                   does it at once, `stepEager` below; the theorems cover any timing)
`acquire(blocking=False)` / `release`              `Event.acquire o` / `Event.release o` on `held : List LockId`
Import-free.
-/
namespace Dask.LockReg

inductive Token where
  | explicit (n : Nat)
  | uuid (n : Nat)
  deriving DecidableEq, Repr

structure Obj where
  id : Nat
  token : Token
  lock : Nat
  deriving DecidableEq, Repr

structure State where
  reg : Token → Option Nat
  objs : List Obj
  nextLock : Nat
  nextUuid : Nat
  nextObj : Nat
  held : List Nat

def init : State := { reg := fun _ => none, objs := [], nextLock := 0, nextUuid := 0, nextObj := 0, held := [] }

/-- body of `__init__` once the token is known:
    `if token in _locks: self.lock = _locks[token] else: self.lock = Lock(); _locks[token] = self.lock` -/
def construct (s : State) (t : Token) : State :=
  match s.reg t with
  | some l => { s with objs := ⟨s.nextObj, t, l⟩ :: s.objs, nextObj := s.nextObj + 1 }
  | none =>
    { s with reg := fun t' => if t' = t then some s.nextLock else s.reg t',
             objs := ⟨s.nextObj, t, s.nextLock⟩ :: s.objs,
             nextLock := s.nextLock + 1, nextObj := s.nextObj + 1 }

def findObj (s : State) (o : Nat) : Option Obj := s.objs.find? (fun x => x.id = o)

inductive Event where
  | new (tok : Option Nat)   -- `SerializableLock(token)`; `none` = falsy token ⇒ fresh uuid
  | load (t : Token)         -- `pickle.loads(bytes carrying t)`
  | copyOf (o : Nat)         -- `pickle.loads(pickle.dumps(o))` / `copy.copy(o)` of a live object
  | drop (o : Nat)           -- the object dies
  | gc (t : Token)           -- the weak entry of `t` is cleared, if nobody holds its lock
  | acquire (o : Nat)        -- non-blocking acquire through object `o`
  | release (o : Nat)
  deriving Repr

def step (s : State) : Event → State
  | .new (some n) => construct s (.explicit n)
  | .new none => construct { s with nextUuid := s.nextUuid + 1 } (.uuid s.nextUuid)
  | .load t =>
    match t with
    | .uuid n => construct { s with nextUuid := max s.nextUuid (n + 1) } t
    | _ => construct s t
  | .copyOf o =>
    match findObj s o with
    | some x => construct s x.token
    | none => s
  | .drop o => { s with objs := s.objs.filter (fun x => x.id ≠ o) }
  | .gc t =>
    match s.reg t with
    | some l => if s.objs.any (fun x => x.lock = l) then s
                else { s with reg := fun t' => if t' = t then none else s.reg t' }
    | none => s
  | .acquire o =>
    match findObj s o with
    | some x => if x.lock ∈ s.held then s else { s with held := x.lock :: s.held }
    | none => s
  | .release o =>
    match findObj s o with
    | some x => { s with held := s.held.erase x.lock }
    | none => s

def run (s : State) (evs : List Event) : State := evs.foldl step s

/-- would a non-blocking `acquire` through `o` succeed now? -/
def canAcquire (s : State) (o : Nat) : Option Bool :=
  (findObj s o).map fun x => !(s.held.contains x.lock)

/-- CPython timing: dropping the last holder clears the weak entry at once -/
def stepEager (s : State) (e : Event) : State :=
  match e with
  | .drop o =>
    match findObj s o with
    | some x => step (step s e) (.gc x.token)
    | none => s
  | _ => step s e

def runEager (s : State) (evs : List Event) : State := evs.foldl stepEager s

end Dask.LockReg
