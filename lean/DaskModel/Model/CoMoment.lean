import DaskModel.Model.TreeReduce
import DaskModel.Model.Moment
/-
C37 extension round: cov / corr, var / sem, nunique and the exact statistics of describe, over exact rationals
(`Rat`, core Lean).  Import-free of Mathlib (linked into `dm_dfrows`).

Python                                                              Lean
------                                                              ----
`_cov_corr_chunk(df, corr)` (dask/dataframe/core.py), ONE ordered    `pairChunk` on the rows `(x, y)` of the two columns:
  pair of columns (i, j) of the c×c matrices:                          `n`  = counts[i][j]  (rows where BOTH are not null)
    sums[i][j]   = df[col_i.notnull()].sum()[j]                        `sy` = sums[i][j],  `sx` = sums[j][i]
    counts[i][j] = df[col_i.notnull()].count()[j]                      `c`  = cov[i][j] * (counts[i][j] - 1): NaN (`none`) when
    cov          = df.cov().values * (counts - 1)   (all-NaN for a          fewer than two complete rows (pandas' cov is NaN there,
                   one-row partition)                                      and NaN * 0 = NaN), else the co-moment about the
    m[i][j]      = nansum((x_j - sums[i][j]/counts[i][j])**2)               pairwise means
                   over the rows where both are not null (corr only)   `my` = m[i][j], `mx` = m[j][i]
`_cov_corr_combine(data_in, corr)`: cumulative Chan merge             `pairCombine` (`chanTerms`: term t uses the cumulative
    d = s2/n2 - s1/n1;  C = nansum(n1*n2/(n1+n2) * d*d.T) + nansum(cov)    count/sums of the partials before t; a term with n1 = 0
    m = nansum(m_t + counts_t * (sums_t/counts_t - mu)**2)                 or n2 = 0 is 0/0 = NaN and dropped by `nansum`)
`_cov_corr_agg(data, cols, min_periods, corr)`                        `covAgg minp` (`C / (n - 1)`, NaN below `min_periods`),
    C[counts < min_periods] = nan; den = n - 1 | sqrt(m * m.T)          `corrAgg minp` = the un-normalised pair (C, m[i][j]*m[j][i]);
                                                                        dask divides C by the square root of the second component
`Cov` / `Corr` (`Reduction` → `TreeReduce(Chunk)`)                    `daskCov`, `daskCorr`
`DataFrame.cov(min_periods)` / `.corr()` of pandas on one block       `covK`, `corrK` (pairwise-complete observations)
`Var.reduction_chunk/_combine/_aggregate` (skipna=True) =             `dfVarChunk` (= `Moment.momChunk` of the valid cells),
    `moment_chunk/moment_combine/moment_agg` of dask.array               `Moment.momCombine`, `Moment.momAgg ddof`;  `daskVar`
`FrameBase.sem` = `sqrt(var(ddof) / count)`                           `daskSemSq` (the square: exact)
`Series.nunique(dropna, split_out=1)` = `DropDuplicates` (chunk       `dedup`, `List.flatten`, `nuAgg`; `daskNunique`
    `drop_duplicates(keep="first")`, combine `_concat`, aggregate
    `_concat` + `drop_duplicates`) then `.count()` | `.size`
`Series.nunique(dropna)` of pandas (`unique()`, drop NA, `len`)       `nuniqueK`
`DescribeNumeric._lower`: count, mean, Sqrt(var), min, max            `daskDescribe` (std as its square), `describeK`
    (the percentiles are approximate: not part of the model)

`np.concatenate` of an empty list raises: `pairCombine []` is never evaluated by the tree (batches of `partition_all`
are non-empty — `partitionAll_nonempty`); the model returns the zero partial there.
-/
namespace Dask.CoMoment
open Dask.TreeReduce Dask.Moment

/-- one row of the two columns `(x, y)` -/
abbrev PRow := Cell × Cell

/-- the pairwise-complete rows (both values not null), as rationals -/
def both (p : List PRow) : List (Rat × Rat) :=
  p.filterMap fun r => match r.1, r.2 with
    | some a, some b => some ((a : Rat), (b : Rat))
    | _, _ => none

def fsts (b : List (Rat × Rat)) : List Rat := b.map (·.1)
def snds (b : List (Rat × Rat)) : List Rat := b.map (·.2)

/-- Σ (x - cx)(y - cy) -/
def codev (cx cy : Rat) (b : List (Rat × Rat)) : Rat := rsum (b.map fun r => (r.1 - cx) * (r.2 - cy))

/-- the partial result of one ordered pair of columns -/
structure CP where
  n : Nat
  sx : Rat
  sy : Rat
  c : Option Rat
  mx : Rat
  my : Rat
  deriving Repr, DecidableEq

def pairChunk (p : List PRow) : CP :=
  let b := both p
  let n := b.length
  let sx := rsum (fsts b)
  let sy := rsum (snds b)
  ⟨n, sx, sy, if n < 2 then none else some (codev (sx / (n : Nat)) (sy / (n : Nat)) b),
   sqdev (sx / (n : Nat)) (fsts b), sqdev (sy / (n : Nat)) (snds b)⟩

/-- one term of the cumulative merge: `n1*n2/(n1+n2) * d * d.T` with `d = s2/n2 - s1/n1`; NaN (dropped) when a count is 0 -/
def chanTerm (N : Nat) (SX SY : Rat) (p : CP) : Rat :=
  if N = 0 ∨ p.n = 0 then 0
  else ((N * p.n : Nat) : Rat) / ((N + p.n : Nat) : Rat) * ((p.sx / (p.n : Nat) - SX / (N : Nat)) * (p.sy / (p.n : Nat) - SY / (N : Nat)))

/-- the terms for the partials after the first, given the cumulative count / sums so far -/
def chanTerms : Nat → Rat → Rat → List CP → Rat
  | _, _, _, [] => 0
  | N, SX, SY, p :: ps => chanTerm N SX SY p + chanTerms (N + p.n) (SX + p.sx) (SY + p.sy) ps

/-- `m_t + counts_t * (sums_t / counts_t - mu) ** 2`; NaN (dropped) when the count is 0 -/
def mTerm (mu : Rat) (n : Nat) (s m : Rat) : Rat :=
  if n = 0 then 0 else m + (n : Nat) * ((s / (n : Nat) - mu) * (s / (n : Nat) - mu))

/-- `np.nansum(n1*n2/(n1+n2) * d*d.T, 0)`: the cumulative count / sums start with the first partial result -/
def chanOf : List CP → Rat
  | [] => 0
  | p0 :: ps => chanTerms p0.n p0.sx p0.sy ps

def pairCombine (bs : List CP) : CP :=
  let N := nsum (bs.map (·.n))
  let SX := rsum (bs.map (·.sx))
  let SY := rsum (bs.map (·.sy))
  ⟨N, SX, SY, some (chanOf bs + rsum (bs.map fun p => p.c.getD 0)),
   rsum (bs.map fun p => mTerm (SX / (N : Nat)) p.n p.sx p.mx),
   rsum (bs.map fun p => mTerm (SY / (N : Nat)) p.n p.sy p.my)⟩

/-- `_cov_corr_agg(corr=False)`: `none` = NaN.  For `n ≤ 1` the code divides by `n - 1 = 0` (`n = 0`: by NaN): NaN because C is 0
    there; the collection API only passes `min_periods ≥ 2`, which masks these entries before the division. -/
def covAgg (minp : Nat) (bs : List CP) : Option Rat :=
  let o := pairCombine bs
  if o.n < minp then none
  else if o.n ≤ 1 then none
  else o.c.map (· / ((o.n - 1 : Nat) : Rat))

/-- `_cov_corr_agg(corr=True)` before the square root: (C, m[i][j] * m[j][i]); `none` = masked by `min_periods` -/
def corrAgg (minp : Nat) (bs : List CP) : Option (Rat × Rat) :=
  let o := pairCombine bs
  if o.n < minp then none else o.c.map fun C => (C, o.mx * o.my)

/-- the square of `C / sqrt(d2)`; `none` = NaN (masked, or a zero denominator: one column constant on the complete rows) -/
def corrSq (o : Option (Rat × Rat)) : Option Rat :=
  o.bind fun cd => if cd.2 = 0 then none else some (cd.1 * cd.1 / cd.2)

def daskCov (se : Option Nat) (minp : Nat) (parts : List (List PRow)) : Option (Option Rat) :=
  aca se pairChunk pairCombine (covAgg minp) parts

def daskCorr (se : Option Nat) (minp : Nat) (parts : List (List PRow)) : Option (Option (Rat × Rat)) :=
  aca se pairChunk pairCombine (corrAgg minp) parts

/-- pandas `DataFrame.cov(min_periods)` entry of the two columns on one block (`nancorr(cov=True)`: NaN below
    `min_periods` and for a single complete row) -/
def covK (minp : Nat) (p : List PRow) : Option Rat :=
  let b := both p
  let n := b.length
  if n < minp ∨ n ≤ 1 then none
  else some (codev (rsum (fsts b) / (n : Nat)) (rsum (snds b) / (n : Nat)) b / ((n - 1 : Nat) : Rat))

/-- pandas `DataFrame.corr(min_periods)` entry before the square root: (covxy, ssqdm_x * ssqdm_y) -/
def corrK (minp : Nat) (p : List PRow) : Option (Rat × Rat) :=
  let b := both p
  let n := b.length
  if n < minp then none
  else some (codev (rsum (fsts b) / (n : Nat)) (rsum (snds b) / (n : Nat)) b,
             sqdev (rsum (fsts b) / (n : Nat)) (fsts b) * sqdev (rsum (snds b) / (n : Nat)) (snds b))

/-! ## matrices (all ordered pairs of the columns of a frame) -/

def matOf (f : List PRow → α) (cols : List (List Cell)) : List (List α) :=
  cols.map fun ci => cols.map fun cj => f (ci.zip cj)

/-- the pair rows of columns `i`, `j` in every partition (`parts` = partitions, each a list of columns) -/
def pairParts (parts : List (List (List Cell))) (i j : Nat) : List (List PRow) :=
  parts.map fun cols => (cols.getD i []).zip (cols.getD j [])

def matOfParts (f : List (List PRow) → α) (ncols : Nat) (parts : List (List (List Cell))) : List (List α) :=
  (List.range ncols).map fun i => (List.range ncols).map fun j => f (pairParts parts i j)

/-! ## var / sem -/

def ratValid (p : List Cell) : List Rat := (valid p).map fun (v : Int) => (v : Rat)

/-- `Var.reduction_chunk(x, skipna=True)`: `moment_chunk` with `nansum` / `nannumel` -/
def dfVarChunk (p : List Cell) : P := momChunk (ratValid p)

def daskVar (se : Option Nat) (ddof : Nat) (parts : List (List Cell)) : Option (Option Rat) :=
  aca se dfVarChunk momCombine (momAgg ddof) parts

/-- pandas `Series.var(ddof)` (skipna=True) -/
def varK (ddof : Nat) (p : List Cell) : Option Rat := varSpec ddof (ratValid p)

/-- `sem` squared: `var(ddof) / count` (`sqrt` is applied to this quotient); `none` = NaN (then `count ≤ ddof`) -/
def daskSemSq (se : Option Nat) (ddof : Nat) (parts : List (List Cell)) : Option (Option Rat) :=
  match daskVar se ddof parts, daskCount se parts with
  | some v, some n => some (v.map (· / (n : Nat)))
  | _, _ => none

/-- pandas `Series.sem(ddof)` squared: `var(ddof) / count` -/
def semSqK (ddof : Nat) (p : List Cell) : Option Rat := (varK ddof p).map (· / (countK p : Nat))

/-! ## nunique -/

/-- `drop_duplicates(keep="first")` on a Series block (NaN equals NaN) -/
def dedup : List Cell → List Cell
  | [] => []
  | x :: xs => x :: (dedup xs).filter (· != x)

/-- `DropDuplicates.aggregate` then `.count()` (dropna) or `.size` -/
def nuAgg (dropna : Bool) (bs : List (List Cell)) : Nat :=
  let u := dedup bs.flatten
  if dropna then countK u else u.length

def daskNunique (se : Option Nat) (dropna : Bool) (parts : List (List Cell)) : Option Nat :=
  aca se dedup List.flatten (nuAgg dropna) parts

/-- pandas `Series.nunique(dropna)`: `unique()`, NA removed when `dropna`, `len` -/
def nuniqueK (dropna : Bool) (p : List Cell) : Nat :=
  let u := dedup p
  if dropna then countK u else u.length

/-! ## describe (exact statistics) -/

structure Desc where
  count : Nat
  mean : Cell × Nat
  var : Option Rat
  min : Cell
  max : Cell
  deriving Repr, DecidableEq

def daskDescribe (se : Option Nat) (parts : List (List Cell)) : Option Desc :=
  match daskCount se parts, daskMean se true parts, daskVar se 1 parts,
        daskMinMax se (minK true) parts, daskMinMax se (maxK true) parts with
  | some c, some m, some v, some lo, some hi => some ⟨c, m, v, lo, hi⟩
  | _, _, _, _, _ => none

def describeK (p : List Cell) : Desc :=
  ⟨countK p, (sumK true p, countK p), varK 1 p, minK true p, maxK true p⟩

end Dask.CoMoment
