import DaskModel.Model.Slice1D
import DaskModel.Model.Store
/-
C20, N-d part: `dask/array/slicing.py::slice_slices_and_integers` — how the per-axis plans of `_slice_1d`
are combined into the tasks of the output array.

Python                                                              Lean
------                                                              ----
index entry: slice | Integral (after normalize_index)               `Idx`
block_slices = list(map(_slice_1d, shape, blockdims, index))        `slice1dAny lengths idx` (dict in insertion order)
sorted_block_slices = [sorted(i.items()) for i in block_slices]     `sortedItems`
in_names  = product([in_name], *[pluck(0, s) for s in sorted…])     `inNames`
out_names = product([out_name], *[range(len(d))[::-1] if i.step and i.step < 0 else range(len(d))
                                  for d, i in zip(block_slices, index) if not isinstance(i, Integral)])   `outNames`
all_slices = product(*(pluck(1, s) for s in sorted_block_slices))   `allSlices`
{out_name: Task(out_name, getitem, TaskRef(in_name), slices) for … in zip(out_names, in_names, all_slices)}  `tasks`
new_blockdims = [new_blockdim(d, db, i) for … if not isinstance(i, Integral)]   `newBlockdims`
Import-free of Mathlib (linked into the native driver).
-/
namespace Dask.SliceND
open Dask.Slice1D Dask.Store

/-- one entry of the (normalised) index: a slice, or an integer (already posified and in bounds) -/
inductive Idx where
  | sl (s : PSlice)
  | int (i : Int)
  deriving Repr, DecidableEq

/-- what one block is indexed with along one axis -/
inductive BIdx where
  | sl (s : PSlice)
  | int (off : Int)
  deriving Repr, DecidableEq

/-- `_slice_1d(dim_shape, lengths, index)` for either kind of entry: the dict in insertion order
    (an integer gives the single entry `{block: offset}`) -/
def slice1dAny (lengths : List Nat) : Idx → List (Nat × BIdx)
  | .sl s => (slice1d lengths.sum lengths s).map fun kv => (kv.1, BIdx.sl kv.2)
  | .int i =>
    match slice1dInt lengths i with
    | some (k, off) => [(k, BIdx.int off)]
    | none => []

/-- `sorted(i.items())` -/
def sortedItems (lengths : List Nat) (idx : Idx) : List (Nat × BIdx) := sortByKey (slice1dAny lengths idx)

/-- `range(len(d))[::-1] if i.step and i.step < 0 else range(len(d))` -/
def outRange (s : PSlice) (len : Nat) : List Nat :=
  if negStep s then (List.range len).reverse else List.range len

/-- the factors of `out_names`: one per entry that is not an integer -/
def outFactors : List (List Nat) → List Idx → List (List Nat)
  | c :: cs, .sl s :: is => outRange s (sortedItems c (.sl s)).length :: outFactors cs is
  | _ :: cs, .int _ :: is => outFactors cs is
  | _, _ => []

def outNames (chunks : List (List Nat)) (index : List Idx) : List (List Nat) := product (outFactors chunks index)

def sortedAll : List (List Nat) → List Idx → List (List (Nat × BIdx))
  | c :: cs, i :: is => sortedItems c i :: sortedAll cs is
  | _, _ => []

def inNames (chunks : List (List Nat)) (index : List Idx) : List (List Nat) :=
  product ((sortedAll chunks index).map (·.map Prod.fst))

def allSlices (chunks : List (List Nat)) (index : List Idx) : List (List BIdx) :=
  product ((sortedAll chunks index).map (·.map Prod.snd))

/-- the graph: `(out block coordinates, in block coordinates, per-axis block index)` in the order of the dict
    comprehension `zip(out_names, in_names, all_slices)` -/
def tasks (chunks : List (List Nat)) (index : List Idx) : List (List Nat × List Nat × List BIdx) :=
  (outNames chunks index).zip ((inNames chunks index).zip (allSlices chunks index))

/-- `new_blockdims`: the lazy chunks of the axes that are kept; `none` never happens for normal-form slices
    (`newBlockdim_correct`) -/
def newBlockdims : List (List Nat) → List Idx → Option (List (List Int))
  | c :: cs, .sl s :: is =>
    match newBlockdim c.sum c s, newBlockdims cs is with
    | some b, some bs => some (b :: bs)
    | _, _ => none
  | _ :: cs, .int _ :: is => newBlockdims cs is
  | _, _ => some []

/-! ### the specification side: one axis at a time -/

/-- out-coordinate of an axis: `none` for an integer entry (the axis is dropped from the output) -/
def axisOut : Idx → Nat → List (Option Nat)
  | .sl s, len => (outRange s len).map some
  | .int _, len => (List.range len).map fun _ => none

/-- per axis: the pairs (output coordinate, (input block, block index)) — the output coordinate `o` of a slice axis
    carries the `o`-th item of the plan in output order -/
def axisPairs (lengths : List Nat) (idx : Idx) : List (Option Nat × (Nat × BIdx)) :=
  (axisOut idx (sortedItems lengths idx).length).zip (sortedItems lengths idx)

def axisPairsAll : List (List Nat) → List Idx → List (List (Option Nat × (Nat × BIdx)))
  | c :: cs, i :: is => axisPairs c i :: axisPairsAll cs is
  | _, _ => []

/-- a combination of per-axis pairs, read as a task -/
def toTask (t : List (Option Nat × (Nat × BIdx))) : List Nat × List Nat × List BIdx :=
  (t.filterMap (·.1), t.map (·.2.1), t.map (·.2.2))

/-- global positions read along one axis by a block index -/
def axisDen (lengths : List Nat) (blk : Nat) : BIdx → List Int
  | .sl s => blockDen lengths (blk, s)
  | .int off => [((lengths.take blk).sum : Nat) + off]

end Dask.SliceND
