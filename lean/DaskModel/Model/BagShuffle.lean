import DaskModel.Model.BagReduce
/-
K9 for bags: `dask.bag.core.groupby_tasks` (staged task shuffle) and `groupby_disk` (one-stage).

Python                                              Lean
------                                              ----
`inputs[t] = tuple(digit(t, j, k) for j in …)`      partition numbers `t < k^stages` (little-endian base-k digits)
`insert(inp, s, j)`                                 `setDigit t s j k`
`(hash(grouper(x)), x)`                             pairs `(h, x)`, the hash function is a parameter
`groupby(make_group(k, s), part)[i]`, `dict.get(…, i, {})`   `filter (digit h s k == i)` (order preserving; missing key = empty)
`list(concat([split(stage, inp[s], insert(inp, s, j)) for j in range(k)]))`   `stageStep`
`stages`, `k` (computed with `math.log`, `**`)      parameters; every theorem needs only `npartitions ≤ k^stages`,
                                                    which the harness checks for the values the real code computes
`toolz.groupby(grouper, pluck(1, part))` → `dict.items()`    `groupByKey` (association list in first-occurrence order)
`partition` (blocks of `blocksize` elements, `groupby`, `p.append`) + `collect`   `blockToFile`, `partitionToFile`, `diskFile`, `groupbyDiskBlocks`
                                                    (`groupbyDisk` is the block-free characterisation; `groupby_disk_blocks_spec` relates them)
Import-free (linked into the native driver).
-/
namespace Dask.BagShuffle
open Dask.BagReduce

/-- `dask.utils.digit(n, j, k)` -/
def digit (n j k : Nat) : Nat := n / k ^ j % k

/-- the partition number whose digit tuple is `insert(digits of t, s, v)` -/
def setDigit (t s v k : Nat) : Nat := t / k ^ (s + 1) * k ^ (s + 1) + v * k ^ s + t % k ^ s

/-- `start`: the first `npartitions` inputs hold the (hashed) partitions, the padding ones are empty -/
def start (K : Nat) (parts : List (List (Nat × α))) : List (List (Nat × α)) :=
  (List.range K).map fun t => parts.getD t []

/-- one stage: `join (s+1, t) = concat_j split (s+1, digit t s, insert(t, s, j))` -/
def stageStep (k K s : Nat) (parts : List (List (Nat × α))) : List (List (Nat × α)) :=
  (List.range K).map fun t =>
    (List.range k).flatMap fun j =>
      (parts.getD (setDigit t s j k) []).filter fun e => digit e.1 s k == digit t s k

def stagesFrom (k K : Nat) : Nat → Nat → List (List (Nat × α)) → List (List (Nat × α))
  | 0, _, ps => ps
  | n + 1, s, ps => stagesFrom k K n (s + 1) (stageStep k K s ps)

/-- all stages of `groupby_tasks` on already hashed partitions: the `k^stages` output partitions -/
def shuffle (k stages : Nat) (parts : List (List (Nat × α))) : List (List (Nat × α)) :=
  stagesFrom k (k ^ stages) stages 0 (start (k ^ stages) parts)

/-- `toolz.groupby(key, seq)` as `dict.items()`: keys in order of first occurrence, elements in order -/
def groupByKeyOrdered (key : α → Nat) (xs : List α) : List (Nat × List α) :=
  let ks := (xs.map key).eraseDups
  ks.map fun k => (k, xs.filter fun x => key x == k)

/-- `groupby_tasks(b, grouper, hash, max_branch)`: `(key, [elements])` per output partition -/
def groupbyTasks (hash : Nat → Nat) (grouper : α → Nat) (k stages : Nat) (parts : List (List α)) :
    List (List (Nat × List α)) :=
  (shuffle k stages (parts.map fun p => p.map fun x => (hash (grouper x), x))).map fun p =>
    groupByKeyOrdered grouper (p.map (·.2))

/-- `groupby_disk`: `partition` appends every element to file `hash % npartitions` (partitions in order,
    elements of a block grouped by key first — order inside a file is not promised), `collect` groups it -/
def groupbyDisk (hash : Nat → Nat) (grouper : α → Nat) (nout : Nat) (parts : List (List α)) :
    List (List (Nat × List α)) :=
  (List.range nout).map fun t =>
    groupByKeyOrdered grouper (parts.flatten.filter fun x => hash (grouper x) % nout == t)

/-! ### the disk shuffle block by block -/

section Disk
variable {α : Type}

/-- one block of `partition(grouper, sequence, npartitions, p, nelements)`: `d = groupby(grouper, block)`, then
    `d2[hash(k) % npartitions].extend(v)` for every key in dict order — the elements appended to file `t` -/
def blockToFile (hash : Nat → Nat) (grouper : α → Nat) (nout t : Nat) (block : List α) : List α :=
  (groupByKeyOrdered grouper block).flatMap fun kv => if hash kv.1 % nout == t then kv.2 else []

/-- what one input partition appends to file `t`: block after block (`partition_all(nelements, sequence)`) -/
def partitionToFile (hash : Nat → Nat) (grouper : α → Nat) (nout nelements t : Nat) (part : List α) : List α :=
  (partitionAll nelements part).flatMap (blockToFile hash grouper nout t)

/-- the content of partd file `t` after all `partition` tasks ran in partition order -/
def diskFile (hash : Nat → Nat) (grouper : α → Nat) (nout nelements t : Nat) (parts : List (List α)) : List α :=
  parts.flatMap (partitionToFile hash grouper nout nelements t)

/-- `groupby_disk` as the code runs it: `collect` groups the content of file `t` -/
def groupbyDiskBlocks (hash : Nat → Nat) (grouper : α → Nat) (nout nelements : Nat) (parts : List (List α)) :
    List (List (Nat × List α)) :=
  (List.range nout).map fun t => groupByKeyOrdered grouper (diskFile hash grouper nout nelements t parts)

end Disk

end Dask.BagShuffle
