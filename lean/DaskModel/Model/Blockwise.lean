/-
K13: the coordinate logic of `dask/blockwise.py`, transliterated.

Python                                              Lean
------                                              ----
index symbol ('.0', 'i', 3, …)                      `Sym = Nat` (interned by the harness)
collection name                                     `Nat` (interned)
`indices` entry `(name, ind)` with `ind` not None   `Arg` (carries its own `numblocks[name]`; `io` = name in `io_deps`)
dict                                                association list, newest binding first (`dget`/`dset`)
`broadcast_dimensions` (no `consolidate`)           `broadcastDims`   (`none` = ValueError "Shapes do not align")
`_make_dims`                                        `makeDims`
`_get_coord_mapping`                                `posMaps`, `dummiesTuple`, `argCoords`  (positions are Python ints, `-1` wraps)
`coords = out_coords + dummies; coords[c]`          `pyGet`
`_lol_product(head, values)`                        `lolProduct` (nested list-of-lists of keys) / `lolTerm` (`as_taskref=True`)
`dask.core.flatten`                                 `LoL.flatten`
`Blockwise._cull_dependencies`                      `cullDeps`
`_make_blockwise_graph` (dependencies of one task)  `mkTask`, `Term.deps`
`_fuse_annotations`                                 `Ann.fuse` (the rule table comes from `Generated/FuseRules.lean`)

A set of Python objects is a `List` whose order is unspecified: every theorem about `dummy_indices`
(a Python `set`, iteration order arbitrary) is stated for *any* duplicate-free enumeration `dums`.
Import-free (linked into the native driver).
-/
namespace Dask.Blockwise

abbrev Sym := Nat
/-- a task key `(name, i, j, …)` -/
abbrev Key := Nat × List Nat

structure Arg where
  name : Nat
  ind : List Sym
  nb : List Nat
  /-- `name in io_deps`: contributes to `dims`, but never to key dependencies -/
  io : Bool := false
  deriving Repr, BEq, DecidableEq

/-- one entry of `arg_coords`: an int, or a list of ints (a contracted / dummy index) -/
inductive Coord where
  | one (n : Nat)
  | many (l : List Nat)
  deriving Repr, BEq, DecidableEq

/-! ### dict as association list -/
def dget {α : Type} (m : List (Sym × α)) (k : Sym) : Option α :=
  match m with
  | [] => none
  | (k', v) :: r => if k' = k then some v else dget r k

def dset {α : Type} (m : List (Sym × α)) (k : Sym) (v : α) : List (Sym × α) := (k, v) :: m

/-- `Option` traversal (first failure wins), structural so that proofs can unfold it -/
def traverse {α β : Type} (f : α → Option β) : List α → Option (List β)
  | [] => some []
  | a :: r => match f a with
    | none => none
    | some b => match traverse f r with
      | none => none
      | some bs => some (b :: bs)

/-- Python `seq[i]` for an int index: negative wraps once, otherwise IndexError (`none`). -/
def pyGet {α : Type} (xs : List α) (i : Int) : Option α :=
  if 0 ≤ i then xs[i.toNat]?
  else if 0 ≤ i + xs.length then xs[(i + xs.length).toNat]? else none

/-! ### `broadcast_dimensions` / `_make_dims` -/

/-- `L`: the `(index, dim)` pairs of all indexed arguments (`zip` truncates like Python's) -/
def dimPairs (args : List Arg) : List (Sym × Nat) := args.flatMap (fun a => a.ind.zip a.nb)

/-- the set `g[k]` of block counts seen for index `k` -/
def valsOf (ps : List (Sym × Nat)) (s : Sym) : List Nat := ((ps.filter (fun p => p.1 == s)).map (·.2)).eraseDups

/-- `g2[k] = g[k] - {1} if len(g[k]) > 1 else g[k]`; exactly one element must remain -/
def bdim1 (vs : List Nat) : Option Nat :=
  let vs' := if vs.length > 1 then vs.filter (· != 1) else vs
  match vs' with
  | [v] => some v
  | _ => none

/-- `broadcast_dimensions(argpairs, numblocks)`; keys in first-seen order -/
def broadcastDims (args : List Arg) : Option (List (Sym × Nat)) :=
  let ps := dimPairs args
  traverse (fun s => (bdim1 (valsOf ps s)).map (fun v => (s, v))) ((ps.map (·.1)).eraseDups)

/-- `_make_dims`: `new_axes` (index ↦ number of blocks of the new axis) only supplies the block count
    when the inputs do not determine it (`dims.get(k, 1) == 1`) -/
def makeDims (args : List Arg) (newAxes : List (Sym × Nat)) : Option (List (Sym × Nat)) := do
  let d ← broadcastDims args
  pure (newAxes.foldl (fun d kv => if (dget d kv.1).getD 1 == 1 then dset d kv.1 kv.2 else d) d)

/-! ### `_get_coord_mapping` -/

/-- `for i, ind in enumerate(out_indices): index_pos[ind] = i; zero_pos[ind] = -1` -/
def outPos : List Sym → Nat → List (Sym × Int) × List (Sym × Int) → List (Sym × Int) × List (Sym × Int)
  | [], _, m => m
  | s :: r, i, (ip, zp) => outPos r (i + 1) (dset ip s (i : Int), dset zp s (-1))

/-- `for i, ind in enumerate(dummy_indices): index_pos[ind] = 2*i + len(out); zero_pos[ind] = 2*i + 1 + len(out)` -/
def dumPos (n : Nat) : List Sym → Nat → List (Sym × Int) × List (Sym × Int) → List (Sym × Int) × List (Sym × Int)
  | [], _, m => m
  | s :: r, i, (ip, zp) => dumPos n r (i + 1) (dset ip s ((2 * i + n : Nat) : Int), dset zp s ((2 * i + 1 + n : Nat) : Int))

/-- `(index_pos, zero_pos)` -/
def posMaps (out dums : List Sym) : List (Sym × Int) × List (Sym × Int) :=
  dumPos out.length dums 0 (outPos out 0 ([], []))

/-- the two entries `[list(range(dims[ind])), [0] * reps]` for one dummy index -/
def dummyPair (dims : List (Sym × Nat)) (conc : Bool) (s : Sym) : Option (List Coord) :=
  (dget dims s).map fun d => [.many (List.range d), .many (List.replicate (if conc then 1 else d) 0)]

/-- `dummies` (with the trailing `0`); `none` = KeyError on `dims[ind]` -/
def dummiesTuple (dims : List (Sym × Nat)) (conc : Bool) (dums : List Sym) : Option (List Coord) :=
  (traverse (dummyPair dims conc) dums).map fun ps => ps.flatten ++ [.one 0]

/-- `coord_maps` entry of one argument: `[zero_pos[i] if nb == 1 else index_pos[i] for i, nb in zip(ind, numblocks[arg])]` -/
def coordMap (pm : List (Sym × Int) × List (Sym × Int)) (a : Arg) : Option (List Int) :=
  traverse (fun (p : Sym × Nat) => if p.2 == 1 then dget pm.2 p.1 else dget pm.1 p.1) (a.ind.zip a.nb)

/-- `concat_axes` entry: `[n for n, i in enumerate(ind) if i in dummy_indices]` -/
def concatAxes (dums : List Sym) (a : Arg) : List Nat :=
  (a.ind.zipIdx.filter (fun p => dums.contains p.1)).map (·.2)

/-- `arg_coords = tuple(coords[c] for c in cmap)` with `coords = out_coords + dummies` -/
def argCoords (out dums : List Sym) (dims : List (Sym × Nat)) (conc : Bool) (o : List Nat) (a : Arg) :
    Option (List Coord) := do
  let dm ← dummiesTuple dims conc dums
  let cm ← coordMap (posMaps out dums) a
  traverse (pyGet (o.map Coord.one ++ dm)) cm

/-- Specification of one coordinate (what the docstring of `_get_coord_mapping` promises). -/
def specCoord (out : List Sym) (dims : List (Sym × Nat)) (conc : Bool) (o : List Nat) (p : Sym × Nat) : Option Coord :=
  if p.1 ∈ out then
    (if p.2 = 1 then some (.one 0) else (o[out.idxOf p.1]?).map Coord.one)
  else (dget dims p.1).map fun d =>
    if p.2 = 1 then .many (List.replicate (if conc then 1 else d) 0) else .many (List.range d)

def argCoordsSpec (out : List Sym) (dims : List (Sym × Nat)) (conc : Bool) (o : List Nat) (a : Arg) : Option (List Coord) :=
  traverse (specCoord out dims conc o) (a.ind.zip a.nb)

/-- `dummy_indices = all_indices - set(out_indices)` in first-seen order (one admissible enumeration) -/
def dummyIndices (out : List Sym) (args : List Arg) : List Sym :=
  ((args.flatMap (·.ind)).eraseDups).filter (fun s => !out.contains s)

/-! ### `_lol_product` -/

/-- nested list of keys -/
inductive LoL where
  | leaf (k : Key)
  | node (l : List LoL)
  deriving Repr

/-- `_lol_product(head, values)` -/
def lolProduct (head : Key) : List Coord → LoL
  | [] => .leaf head
  | .one v :: rest => lolProduct (head.1, head.2 ++ [v]) rest
  | .many vs :: rest => .node (vs.map fun x => lolProduct (head.1, head.2 ++ [x]) rest)

mutual
/-- `dask.core.flatten` restricted to nested lists of keys -/
def LoL.flatten : LoL → List Key
  | .leaf k => [k]
  | .node l => LoL.flattenList l
def LoL.flattenList : List LoL → List Key
  | [] => []
  | x :: r => x.flatten ++ LoL.flattenList r
end

/-- The keys of `_lol_product` as a plain cartesian product (in `flatten` order). -/
def keysOf (head : Key) : List Coord → List Key
  | [] => [head]
  | .one v :: rest => keysOf (head.1, head.2 ++ [v]) rest
  | .many vs :: rest => vs.flatMap fun x => keysOf (head.1, head.2 ++ [x]) rest

/-- `(arg,) + arg_coords` when no coordinate is a list (`none` = a list ended up inside a key tuple) -/
def plainKey (name : Nat) (cs : List Coord) : Option Key :=
  (traverse (fun c => match c with | Coord.one n => some n | Coord.many _ => none) cs).map fun l => (name, l)

/-! ### layers, `_cull_dependencies`, `_make_blockwise_graph` -/

structure Layer where
  output : Nat
  outInd : List Sym
  args : List Arg
  /-- keys of `TaskRef` arguments with index `None` -/
  consts : List Key := []
  newAxes : List (Sym × Nat) := []
  concatenate : Bool := false
  deriving Repr

/-- the key dependencies one indexed argument contributes for an output block -/
def argDeps (dums : List Sym) (a : Arg) (cs : List Coord) : Option (List Key) :=
  if a.io then some []
  else if (concatAxes dums a).isEmpty then (plainKey a.name cs).map fun k => [k]
  else some (lolProduct (a.name, []) cs).flatten

/-- `Blockwise._cull_dependencies` for one output block, for a given enumeration of the dummy indices -/
def cullDepsWith (L : Layer) (dums : List Sym) (o : List Nat) : Option (List Key) := do
  let dims ← makeDims L.args L.newAxes
  let ds ← traverse (fun a => do
      let cs ← argCoords L.outInd dums dims L.concatenate o a
      argDeps dums a cs) L.args
  pure (ds.flatten ++ L.consts)

def cullDeps (L : Layer) (o : List Nat) : Option (List Key) := cullDepsWith L (dummyIndices L.outInd L.args) o

/-- the argument sub-terms of a materialised task -/
inductive Term where
  | ref (k : Key)
  | lst (l : List Term)
  | concat (t : Term) (axes : List Nat)
  | data
  deriving Repr

/-- `_lol_product(head, values, as_taskref=True)` -/
def lolTerm (head : Key) : List Coord → Term
  | [] => .ref head
  | .one v :: rest => lolTerm (head.1, head.2 ++ [v]) rest
  | .many vs :: rest => .lst (vs.map fun x => lolTerm (head.1, head.2 ++ [x]) rest)

mutual
/-- `GraphNode.dependencies` of an argument term -/
def Term.deps : Term → List Key
  | .ref k => [k]
  | .lst l => Term.depsList l
  | .concat t _ => t.deps
  | .data => []
def Term.depsList : List Term → List Key
  | [] => []
  | x :: r => x.deps ++ Term.depsList r
end

/-- what `_make_blockwise_graph` substitutes for the token of one indexed argument -/
def argTerm (dums : List Sym) (conc : Bool) (a : Arg) (cs : List Coord) : Option Term :=
  if a.io then some .data
  else
    let axes := concatAxes dums a
    if axes.isEmpty then (plainKey a.name cs).map Term.ref
    else
      let t := lolTerm (a.name, []) cs
      some (if conc then .concat t axes else t)

/-- the argument terms of the task `_make_blockwise_graph` emits for output block `o` -/
def mkTaskWith (L : Layer) (dums : List Sym) (o : List Nat) : Option (List Term) := do
  let dims ← makeDims L.args L.newAxes
  let ts ← traverse (fun a => do
      let cs ← argCoords L.outInd dums dims L.concatenate o a
      argTerm dums L.concatenate a cs) L.args
  pure (ts ++ L.consts.map Term.ref)

def mkTask (L : Layer) (o : List Nat) : Option (List Term) := mkTaskWith L (dummyIndices L.outInd L.args) o

/-- all output blocks: `itertools.product(*[range(dims[i]) for i in out_indices])` -/
def product : List Nat → List (List Nat)
  | [] => [[]]
  | n :: r => (List.range n).flatMap fun i => (product r).map fun t => i :: t

def outputBlocks (L : Layer) : Option (List (List Nat)) := do
  let dims ← makeDims L.args L.newAxes
  let ns ← traverse (dget dims) L.outInd
  pure (product ns)

end Dask.Blockwise
