/-
K1 (dataframe part): `TreeReduce._layer` / `ApplyConcatApply._lower` / `Reduction.{chunk,combine,aggregate}`
(`dask/dataframe/dask_expr/_reductions.py`), transliterated, plus pandas' reduction kernels on one
column block as specification functions.

Python                                                 Lean
------                                                 ----
`toolz.partition_all(n, keys)`                         `partitionAll n keys`
`TreeReduce.split_every` (None→8, False, int ≥ 2,      `splitEvery : SE → Option (Option Nat)`
   otherwise ValueError)                                   (outer `none` = ValueError, inner `none` = False)
`while split_every is not False and len(keys) > split_every:`  `treeLoop` (fuel; `treeLoop_fuel` proves it suffices)
`d[name, 0] = aggregate(keys)`                         `treeReduce`
`Reduction.chunk/combine/aggregate` = the pandas       `kernelReduce kernel` (chunk = combine = aggregate = kernel
   method on the partition / on the concatenated          on the concatenation of the partial results)
   partial results (`Sum`, `Prod`)
`Max.chunk/combine` (+ inherited aggregate): one-      `mmChunk` / `mmCombine` / `mmAgg`, `daskMinMax`
   element partial results, NONE for an empty partition
`Count` (chunk `count`, aggregate `sum`), `Mean` =     `daskCount`, `daskMean`
   `Sum / Count`
a numeric cell / NaN                                   `Cell = Option Int`
Import-free (linked into the native driver).
-/
namespace Dask.TreeReduce

abbrev Cell := Option Int

/-- `toolz.partition_all n xs` (n ≥ 1): consecutive batches of `n`, the last one shorter. -/
def partitionAllAux (n : Nat) : Nat → List α → List (List α)
  | 0, _ => []
  | fuel + 1, xs => if xs.isEmpty then [] else xs.take n :: partitionAllAux n fuel (xs.drop n)

def partitionAll (n : Nat) (xs : List α) : List (List α) := partitionAllAux n xs.length xs

/-- the raw `split_every` operand -/
inductive SE where
  | default            -- None
  | off                -- False
  | n (k : Int)
  deriving Repr, DecidableEq

/-- `TreeReduce.split_every`: outer `none` = ValueError("split_every must be greater than 1 or False") -/
def splitEvery : SE → Option (Option Nat)
  | .default => some (some 8)
  | .off => some none
  | .n k => if k ≥ 2 then some (some k.toNat) else none

/-- the `while` loop of `TreeReduce._layer`; `none` = fuel exhausted -/
def treeLoop (combine : List β → β) (k : Nat) : Nat → List β → Option (List β)
  | 0, _ => none
  | fuel + 1, keys =>
    if keys.length > k then treeLoop combine k fuel ((partitionAll k keys).map combine) else some keys

/-- the batches formed at every level of the loop (for comparing the tree SHAPE with `_layer`'s dict) -/
def treeTrace (combine : List β → β) (k : Nat) : Nat → List β → List (List (List β))
  | 0, _ => []
  | fuel + 1, keys =>
    if keys.length > k then
      partitionAll k keys :: treeTrace combine k fuel ((partitionAll k keys).map combine)
    else []

/-- `TreeReduce._layer` evaluated: combine in batches until at most `split_every` keys remain, then aggregate. -/
def treeReduce (se : Option Nat) (combine : List β → β) (aggregate : List β → γ) (keys : List β) : Option γ :=
  match se with
  | none => some (aggregate keys)
  | some k => (treeLoop combine k (keys.length + 1) keys).map aggregate

/-- `ApplyConcatApply._lower` → `TreeReduce(Chunk(frame))` on a partitioned column -/
def aca {ρ : Type} (se : Option Nat) (chunk : List ρ → β) (combine : List β → β) (aggregate : List β → γ)
    (parts : List (List ρ)) : Option γ :=
  treeReduce se combine aggregate (parts.map chunk)

/-! ## pandas kernels on one column block -/

def valid (p : List Cell) : List Int := p.filterMap id

/-- `Series.sum(skipna)`; with `skipna=False` any NaN poisons, the empty sum is 0 -/
def sumK (skipna : Bool) (p : List Cell) : Cell :=
  if !skipna && p.any Option.isNone then none else some ((valid p).foldl (· + ·) 0)

def prodK (skipna : Bool) (p : List Cell) : Cell :=
  if !skipna && p.any Option.isNone then none else some ((valid p).foldl (· * ·) 1)

def maxOpt : Option Int → Int → Option Int
  | none, v => some v
  | some a, v => some (if a < v then v else a)
def minOpt : Option Int → Int → Option Int
  | none, v => some v
  | some a, v => some (if v < a then v else a)

/-- `Series.max(skipna)`: NaN for an empty / all-NaN block; with `skipna=False` NaN as soon as one NaN (or nothing) is there -/
def maxK (skipna : Bool) (p : List Cell) : Cell :=
  if !skipna && p.any Option.isNone then none else (valid p).foldl maxOpt none
def minK (skipna : Bool) (p : List Cell) : Cell :=
  if !skipna && p.any Option.isNone then none else (valid p).foldl minOpt none

/-- `Series.count()` -/
def countK (p : List Cell) : Nat := (valid p).length

/-! ## dask reductions on a partitioned column -/

/-- `Sum/Prod`: `reduction_chunk` is the pandas method; `combine`/`aggregate` apply the same
    method to the concatenated partial results (`Max/Min`: see `daskMinMax`) -/
def kernelReduce (se : Option Nat) (kernel : List Cell → Cell) (parts : List (List Cell)) : Option Cell :=
  aca se kernel kernel kernel parts

/-- `Max.chunk` / `Min.chunk` on a Series partition (after fix 20e3626): an EMPTY partition contributes no element,
    any other the one-element partial result -/
def mmChunk (kernel : List Cell → Cell) (p : List Cell) : List Cell := if p.isEmpty then [] else [kernel p]
/-- `Max.combine`: the concatenated partial results reduce to one element, or stay empty -/
def mmCombine (kernel : List Cell → Cell) (bs : List (List Cell)) : List Cell :=
  if bs.flatten.isEmpty then [] else [kernel bs.flatten]
/-- `Reduction.aggregate` for `Max`/`Min`: the pandas method on the concatenated partial results -/
def mmAgg (kernel : List Cell → Cell) (bs : List (List Cell)) : Cell := kernel bs.flatten
def daskMinMax (se : Option Nat) (kernel : List Cell → Cell) (parts : List (List Cell)) : Option Cell :=
  aca se (mmChunk kernel) (mmCombine kernel) (mmAgg kernel) parts

/-- `Count`: chunk `count`, combine/aggregate `sum` -/
def daskCount (se : Option Nat) (parts : List (List Cell)) : Option Nat :=
  aca se countK (fun bs => bs.foldl (· + ·) 0) (fun bs => bs.foldl (· + ·) 0) parts

/-- `Mean._lower`: `(frame.sum(skipna), frame.count())`, divided by `MeanAggregate`; returned as the exact pair -/
def daskMean (se : Option Nat) (skipna : Bool) (parts : List (List Cell)) : Option (Cell × Nat) :=
  match kernelReduce se (sumK skipna) parts, daskCount se parts with
  | some s, some c => some (s, c)
  | _, _ => none

/-! ## reductions whose partial results are not scalars (review round)

Python                                                    Lean
------                                                    ----
`Any` / `All` (`reduction_chunk = M.any / M.all`,         `anyK` / `allK` on a block of booleans, `kernelReduceB`
   combine = aggregate = the same method on the partials)
`idxmaxmin_chunk` (Series, skipna=True: an empty or       `idxChunk better` — no row, or one row `(idx, value)`
   all-NA partition contributes an EMPTY frame)
`idxmaxmin_combine` (`len(x) <= 1` → `x`, else one row    `idxCombine better`
   per group: `idxmax` of the values = FIRST best row)
`idxmaxmin_agg(scalar=True)` (`res[0]`; ValueError on     `idxAgg better` (`none` = ValueError
   an empty result)                                           "attempt to get argmax of an empty sequence")
`Series.idxmax()` of pandas (ValueError on empty/all-NA)  `idxK better`
`M.value_counts(dropna)` on one partition                 `vcChunk dropna`   (association list value ↦ count)
`methods.value_counts_combine` (`groupby(level=0,         `vcCombine dropna`
   dropna=dropna).sum()` of the concatenated partials)
`methods.value_counts_aggregate` before sorting           `vcCombine dropna` again (order/normalize are presentation)
`M.nlargest(n)` on a Series (values only)                 `topK n` (`mergeSort` descending, `take n`)
-/

/-- `Series.any()` / `Series.all()` on one block of booleans -/
def anyK (p : List Bool) : Bool := p.any id
def allK (p : List Bool) : Bool := p.all id

/-- `Any` / `All`: chunk = combine = aggregate = the pandas method -/
def kernelReduceB (se : Option Nat) (kernel : List Bool → Bool) (parts : List (List Bool)) : Option Bool :=
  aca se kernel kernel kernel parts

/-- a row of an indexed series: (index label, value) -/
abbrev LRow := Int × Cell

/-- rows with a valid value, as (label, value) -/
def validRows (p : List LRow) : List (Int × Int) := p.filterMap (fun r => r.2.map (fun v => (r.1, v)))

/-- FIRST best row (`idxmax`/`idxmin` return the first occurrence): `better a b` = value `a` is strictly better than `b` -/
def argBest (better : Int → Int → Bool) : List (Int × Int) → Option (Int × Int)
  | [] => none
  | x :: xs =>
    match argBest better xs with
    | none => some x
    | some y => if better y.2 x.2 then some y else some x

def gtB (a b : Int) : Bool := decide (b < a)
def ltB (a b : Int) : Bool := decide (a < b)

/-- `idxmaxmin_chunk(x, fn, skipna=True)` for a Series partition: rows of the frame `{"idx": …, "value": …}` -/
def idxChunk (better : Int → Int → Bool) (p : List LRow) : List (Int × Int) := (argBest better (validRows p)).toList

/-- `idxmaxmin_combine` on the concatenated partial frames (one group: the Series case) -/
def idxCombine (better : Int → Int → Bool) (bs : List (List (Int × Int))) : List (Int × Int) :=
  let x := bs.flatten
  if x.length ≤ 1 then x else (argBest better x).toList

/-- `idxmaxmin_agg(…, scalar=True)`: `none` = ValueError("attempt to get argmax of an empty sequence") -/
def idxAgg (better : Int → Int → Bool) (bs : List (List (Int × Int))) : Option Int :=
  ((idxCombine better bs).head?).map (·.1)

/-- `Series.idxmax()/idxmin()` (skipna=True) as dask lowers it; inner `none` = ValueError -/
def daskIdx (se : Option Nat) (better : Int → Int → Bool) (parts : List (List LRow)) : Option (Option Int) :=
  aca se (idxChunk better) (idxCombine better) (idxAgg better) parts

/-- pandas `Series.idxmax()/idxmin()` (skipna=True); `none` = ValueError (empty / all-NA) -/
def idxK (better : Int → Int → Bool) (p : List LRow) : Option Int := (argBest better (validRows p)).map (·.1)

/-- add `n` to the count of key `k` -/
def vcAdd (k : Cell) (n : Nat) : List (Cell × Nat) → List (Cell × Nat)
  | [] => [(k, n)]
  | (k', m) :: rest => if k' == k then (k', m + n) :: rest else (k', m) :: vcAdd k n rest

def vcOfPairs (dropna : Bool) (kv : List (Cell × Nat)) : List (Cell × Nat) :=
  (kv.filter (fun e => !dropna || e.1.isSome)).foldl (fun acc e => vcAdd e.1 e.2 acc) []

/-- `Series.value_counts(dropna=…)` on one partition, as an association list value ↦ count -/
def vcChunk (dropna : Bool) (p : List Cell) : List (Cell × Nat) := vcOfPairs dropna (p.map (fun c => (c, 1)))

/-- `value_counts_combine`: `groupby(level=0, dropna=dropna).sum()` of the concatenated partial counts -/
def vcCombine (dropna : Bool) (bs : List (List (Cell × Nat))) : List (Cell × Nat) := vcOfPairs dropna bs.flatten

/-- the count reported for a key (0 when the key is absent) -/
def vcLookup (t : List (Cell × Nat)) (k : Cell) : Nat := ((t.find? (fun e => e.1 == k)).map (·.2)).getD 0

/-- `Series.value_counts(dropna)` as dask lowers it (`split_out=1`), before sorting / normalising -/
def daskValueCounts (se : Option Nat) (dropna : Bool) (parts : List (List Cell)) : Option (List (Cell × Nat)) :=
  aca se (vcChunk dropna) (vcCombine dropna) (vcCombine dropna) parts

/-- number of occurrences of a key in a block (pandas `value_counts` semantics) -/
def countKey (dropna : Bool) (p : List Cell) (k : Cell) : Nat :=
  if dropna && k.isNone then 0 else p.count k

/-- `Series.nlargest(n)` / `nsmallest(n)` values: sort (descending for `ge`) and keep `n` -/
def topK (le : Int → Int → Bool) (n : Nat) (vals : List Int) : List Int := (vals.mergeSort le).take n

/-- `NLargest` / `NSmallest` on a partitioned column of valid values: chunk, combine and aggregate are all
    `nlargest(n)` (of the partition / of the concatenated partial results) -/
def daskTopK (se : Option Nat) (le : Int → Int → Bool) (n : Nat) (parts : List (List Int)) : Option (List Int) :=
  aca se (topK le n) (fun bs => topK le n bs.flatten) (fun bs => topK le n bs.flatten) parts

end Dask.TreeReduce
