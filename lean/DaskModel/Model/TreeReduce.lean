/-
K1 (dataframe part): `TreeReduce._layer` / `ApplyConcatApply._lower` / `Reduction.{chunk,combine,aggregate}`
(`dask/dataframe/dask_expr/_reductions.py`), transliterated, plus pandas' reduction kernels on one
column block as specification functions.

Python                                                 Lean
------                                                 ----
`toolz.partition_all(n, keys)`                         `partitionAll n keys`
`TreeReduce.split_every` (None→8, False, int ≥ 2,      `splitEvery : SE → Option (Option Nat)`
   otherwise ValueError)                                   (outer `none` = ValueError, inner `none` = False)
`while split_every is not False and len(keys) > split_every:`  `treeLoop` (fuel; `treeLoop_fuel` proves it suffices)
`d[name, 0] = aggregate(keys)`                         `treeReduce`
`Reduction.chunk/combine/aggregate` = the pandas       `kernelReduce kernel` (chunk = combine = aggregate = kernel
   method on the partition / on the concatenated          on the concatenation of the partial results)
   partial results
`Count` (chunk `count`, aggregate `sum`), `Mean` =     `daskCount`, `daskMean`
   `Sum / Count`
a numeric cell / NaN                                   `Cell = Option Int`
Import-free (linked into the native driver).
-/
namespace Dask.TreeReduce

abbrev Cell := Option Int

/-- `toolz.partition_all n xs` (n ≥ 1): consecutive batches of `n`, the last one shorter. -/
def partitionAllAux (n : Nat) : Nat → List α → List (List α)
  | 0, _ => []
  | fuel + 1, xs => if xs.isEmpty then [] else xs.take n :: partitionAllAux n fuel (xs.drop n)

def partitionAll (n : Nat) (xs : List α) : List (List α) := partitionAllAux n xs.length xs

/-- the raw `split_every` operand -/
inductive SE where
  | default            -- None
  | off                -- False
  | n (k : Int)
  deriving Repr, DecidableEq

/-- `TreeReduce.split_every`: outer `none` = ValueError("split_every must be greater than 1 or False") -/
def splitEvery : SE → Option (Option Nat)
  | .default => some (some 8)
  | .off => some none
  | .n k => if k ≥ 2 then some (some k.toNat) else none

/-- the `while` loop of `TreeReduce._layer`; `none` = fuel exhausted -/
def treeLoop (combine : List β → β) (k : Nat) : Nat → List β → Option (List β)
  | 0, _ => none
  | fuel + 1, keys =>
    if keys.length > k then treeLoop combine k fuel ((partitionAll k keys).map combine) else some keys

/-- the batches formed at every level of the loop (for comparing the tree SHAPE with `_layer`'s dict) -/
def treeTrace (combine : List β → β) (k : Nat) : Nat → List β → List (List (List β))
  | 0, _ => []
  | fuel + 1, keys =>
    if keys.length > k then
      partitionAll k keys :: treeTrace combine k fuel ((partitionAll k keys).map combine)
    else []

/-- `TreeReduce._layer` evaluated: combine in batches until at most `split_every` keys remain, then aggregate. -/
def treeReduce (se : Option Nat) (combine : List β → β) (aggregate : List β → γ) (keys : List β) : Option γ :=
  match se with
  | none => some (aggregate keys)
  | some k => (treeLoop combine k (keys.length + 1) keys).map aggregate

/-- `ApplyConcatApply._lower` → `TreeReduce(Chunk(frame))` on a partitioned column -/
def aca (se : Option Nat) (chunk : List Cell → β) (combine : List β → β) (aggregate : List β → γ)
    (parts : List (List Cell)) : Option γ :=
  treeReduce se combine aggregate (parts.map chunk)

/-! ## pandas kernels on one column block -/

def valid (p : List Cell) : List Int := p.filterMap id

/-- `Series.sum(skipna)`; with `skipna=False` any NaN poisons, the empty sum is 0 -/
def sumK (skipna : Bool) (p : List Cell) : Cell :=
  if !skipna && p.any Option.isNone then none else some ((valid p).foldl (· + ·) 0)

def prodK (skipna : Bool) (p : List Cell) : Cell :=
  if !skipna && p.any Option.isNone then none else some ((valid p).foldl (· * ·) 1)

def maxOpt : Option Int → Int → Option Int
  | none, v => some v
  | some a, v => some (if a < v then v else a)
def minOpt : Option Int → Int → Option Int
  | none, v => some v
  | some a, v => some (if v < a then v else a)

/-- `Series.max(skipna)`: NaN for an empty / all-NaN block; with `skipna=False` NaN as soon as one NaN (or nothing) is there -/
def maxK (skipna : Bool) (p : List Cell) : Cell :=
  if !skipna && p.any Option.isNone then none else (valid p).foldl maxOpt none
def minK (skipna : Bool) (p : List Cell) : Cell :=
  if !skipna && p.any Option.isNone then none else (valid p).foldl minOpt none

/-- `Series.count()` -/
def countK (p : List Cell) : Nat := (valid p).length

/-! ## dask reductions on a partitioned column -/

/-- `Sum/Prod/Max/Min`: `reduction_chunk` is the pandas method; `combine`/`aggregate` apply the same
    method to the concatenated partial results -/
def kernelReduce (se : Option Nat) (kernel : List Cell → Cell) (parts : List (List Cell)) : Option Cell :=
  aca se kernel kernel kernel parts

/-- `Count`: chunk `count`, combine/aggregate `sum` -/
def daskCount (se : Option Nat) (parts : List (List Cell)) : Option Nat :=
  aca se countK (fun bs => bs.foldl (· + ·) 0) (fun bs => bs.foldl (· + ·) 0) parts

/-- `Mean._lower`: `(frame.sum(skipna), frame.count())`, divided by `MeanAggregate`; returned as the exact pair -/
def daskMean (se : Option Nat) (skipna : Bool) (parts : List (List Cell)) : Option (Cell × Nat) :=
  match kernelReduce se (sumK skipna) parts, daskCount se parts with
  | some s, some c => some (s, c)
  | _, _ => none

end Dask.TreeReduce
