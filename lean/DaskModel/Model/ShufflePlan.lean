import DaskModel.Model.Structural
/-
`dask/array/_shuffle.py::_shuffle` as a whole (C24): `_validate_indexer`, the "already shuffled" shortcut
(`return chunks, {}`), the grouping loop (`packGroups`, Model/Structural.lean), the per-chunk plan with the
single-source-chunk branch, and the indexer that `dask/array/slicing.py::take` builds for `x[idx]` / `da.take`.

Python                                                                  Lean
------                                                                  ----
_validate_indexer: max(map(max, indexer)) >= sum(chunks[axis])          `validateIndexer`
for idx, c in zip(indexer, chunks[axis]): if idx != list(range(ctr, ctr + c)): break; ctr += c … else: return chunks, {}
                                                                        `alreadyLoop`, `alreadyShuffled`
if len(source_chunk_nr) == 1: this_slice[axis][np.argsort(sorter)]      `shuffleChunkCode` (single-source branch)
slicing.take: full-arange shortcut, `index[i : i + average_chunk_size]` `isArange`, `chunkEvery`, `takeBlocks`
Import-free (linked into the native driver).
-/
namespace Dask.Structural
open Dask.Chunks

/-! ### the "already shuffled" shortcut -/

/-- the `for idx, c in zip(indexer, chunks[axis])` loop; `true` = the loop ended without `break` (its `else:` runs).
    `zip` stops at the shorter of the two. -/
def alreadyLoop : Nat → List (List Nat) → List Nat → Bool
  | _, [], _ => true
  | _, _ :: _, [] => true
  | ctr, idx :: is, c :: cs => if idx = List.range' ctr c then alreadyLoop (ctr + c) is cs else false

/-- `len(indexer) == len(chunks[axis])` and the loop found every group to be `list(range(ctr, ctr + c))` -/
def alreadyShuffled (old : List Nat) (indexer : List (List Nat)) : Bool :=
  indexer.length == old.length && alreadyLoop 0 indexer old

/-- the chunking of `ctr, ctr+1, …` by `old` -/
def identityFrom (ctr : Nat) (old : List Nat) : List (List Nat) := splitBy old (List.range' ctr (sum old))

/-- the one indexer that leaves an axis chunked `old` as it is: `[[0..c0), [c0..c0+c1), …]` -/
def identityIndexer (old : List Nat) : List (List Nat) := identityFrom 0 old

/-! ### `_validate_indexer` -/

inductive ShErr where
  | value   -- ValueError: `max()` of an empty indexer / an empty group
  | index   -- IndexError: an index ≥ the length of the axis
  | zeroDiv -- ZeroDivisionError: `sum(chunks[axis]) / len(chunks[axis])` of an empty chunk tuple (never a valid chunking)
  deriving Repr, DecidableEq

def validateIndexer (old : List Nat) (indexer : List (List Nat)) : Except ShErr Unit :=
  if indexer = [] ∨ [] ∈ indexer then .error .value
  else if indexer.any (fun g => g.any (fun i => decide (sum old ≤ i))) then .error .index
  else .ok ()

/-! ### one output chunk, with the branch the code takes for a single source chunk -/

/-- `len(source_chunk_nr) == 1`: the taker is put back into the requested order
    (`this_slice[axis][np.argsort(sorter)]`) and the single `getitem` task *is* the output block
    (no `concatenate_arrays`); otherwise the general plan `shuffleChunk`. -/
def shuffleChunkCode {α} [Inhabited α] (old : List Nat) (blocks : List (List α)) (T : List Nat) : List α :=
  let sp := sortPairs T
  let sorted := sp.map (·.1)
  let sorter := sp.map (·.2)
  match runsBy (sourceOf old) sorted with
  | [(c, run)] =>
    let loc := run.map (fun g => g - blockStart old c)
    let inv := (List.range T.length).map (fun p => sorter.idxOf p)
    let taker := inv.map (fun i => loc.getD i 0)
    taker.map (fun l => (blocks.getD c []).getD l default)
  | _ => shuffleChunk old blocks T

/-! ### `_shuffle` -/

/-- `_shuffle` up to the takers of the new chunks: `(true, _)` = the shortcut `return chunks, {}` (the caller keeps
    the input array), `(false, takers)` = one taker per new chunk -/
def shufflePlan (old : List Nat) (indexer : List (List Nat)) (limit tolNum tolDen : Nat) :
    Except ShErr (Bool × List (List Nat)) :=
  match validateIndexer old indexer with
  | .error e => .error e
  | .ok _ =>
    if alreadyShuffled old indexer then .ok (true, indexer)
    else if old = [] then .error .zeroDiv
    else .ok (false, packGroups limit tolNum tolDen [] indexer)

/-- the blocks of the result along the axis -/
def shuffleBlocks {α} [Inhabited α] (old : List Nat) (blocks : List (List α)) (indexer : List (List Nat))
    (limit tolNum tolDen : Nat) : Except ShErr (List (List α)) :=
  match shufflePlan old indexer limit tolNum tolDen with
  | .error e => .error e
  | .ok (true, _) => .ok blocks
  | .ok (false, takers) => .ok (takers.map (shuffleChunkCode old blocks))

/-! ### `slicing.take` (what `x[idx]` and `da.take` call for an integer-list index on an axis of known chunks) -/

/-- `len(index) == full_length and index[0] == 0 and np.all(np.diff(index) == 1)` for a non-empty index -/
def isArange (index : List Nat) : Bool := index == List.range index.length

/-- `[index[i : i + k] for i in range(0, len(index), k)]` (fuel = `len(index)`) -/
def chunkEvery (k : Nat) : Nat → List Nat → List (List Nat)
  | 0, _ => []
  | fuel + 1, xs => if xs = [] then [] else xs.take k :: chunkEvery k fuel (xs.drop k)

/-- `average_chunk_size = max(1, int(full_length / len(chunks[axis])))` -/
def averageChunk (old : List Nat) : Nat := max 1 (sum old / old.length)

/-- blocks of `x[index]` along the axis: the alias graph for a full arange, else `_shuffle` with the index cut into
    pieces of the average chunk size -/
def takeBlocks {α} [Inhabited α] (old : List Nat) (blocks : List (List α)) (index : List Nat)
    (limit tolNum tolDen : Nat) : Except ShErr (List (List α)) :=
  if index ≠ [] ∧ index.length = sum old ∧ isArange index = true then .ok blocks
  else if old = [] then .error .zeroDiv
  else shuffleBlocks old blocks (chunkEvery (averageChunk old) index.length index) limit tolNum tolDen

end Dask.Structural
