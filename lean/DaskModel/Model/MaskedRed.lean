import DaskModel.Model.Masked
import DaskModel.Model.Moment
/-
Masked REDUCTIONS at the level of what the tasks of the graph hold (`dask/array/reductions.py` with the per-block
kernels `MaskedArray.sum/prod/any/all/min/max`, `dask/array/backends.py::_numel_masked`, `dask/array/ma.py`).
Extension of `Model/Masked.lean` (element type `Option Int`): here an element is the PAIR numpy.ma stores.

numpy.ma / dask                                             Lean
---------------                                             ----
one element of a masked array (data, mask bit)              `Masked α` (`data`, `mask`); `toOpt` forgets the payload under the mask
a block handed to a chunk task; `block.mask is nomask`      `MBlock α` (`nomask`, `elems`); `MBlock.WF`: nomask ⇒ no element masked
`MaskedArray.filled(e)` on one element                      `fill e`
`MaskedArray.sum/prod/any/all(axis, keepdims=True)`:        `maChunk nm op e` = ⟨fold of `filled(e)`, `¬nomask ∧ mask.all()`⟩
   `d = self.filled(e).<op>(axis)`,                           (sum: `e = 0`, prod: `1`, any: `False`, all: `True`); the data under
   `mask = _check_mask_axis(self._mask, axis)`                 the mask of an all-masked block IS the unit — it is compared
   (= `nomask` for `nomask`, else `mask.all(axis)`)
the same kernel on `np.ma.concatenate` of the partials      `maRed op e` = `maChunk false op e` (a combine group is never empty, so
   (combine / aggregate)                                       numpy's shrinking of an all-False mask to `nomask` changes nothing)
`mean_chunk` on a masked block: `total = sum(x)`,           `maMeanChunk` = (`maChunk (+) 0` of the block, `maChunk (+) 0` of the ones
   `n = _numel_masked(x) = sum(np.ones_like(x))`               with the block's mask): BOTH are masked for an all-masked block
`mean_combine`                                              `maMeanComb` (component-wise `maRed (+) 0`)
`_average(a, weights=w, is_masked=True)`                    `wgtMasked` (`w * ~getmaskarray(a)`), `wprod` (`multiply(a, wgt)`), `wsumUnmasked`
`moment_chunk` on a masked block                            `Moment.momChunk` of the unmasked values (`unmaskedRat`); an all-masked
                                                              block gives total = n = M = masked with 0 underneath = `momChunk []`
a whole masked array (`mask` possibly `nomask`)             `MArr` (`data`, `mask : Option (List Bool)`, `none` = `nomask`)
slicing it into the blocks of `from_array`                  `MArr.blocks chunks` (`splitChunks`; a `nomask` array has `nomask` blocks)
`np.ma.getmaskarray` / `getdata` / `filled`                 `MArr.getmaskarray` (`nomask` ↦ full array of `False`), `getdata`, `filled`
a block after a per-block `np.ma.masked_<pred>` /           `shrunk b`: numpy.ma shrinks a mask without `True` to `nomask`, block by
   `masked_where` call                                        block — also for a ZERO-LENGTH block of an otherwise masked array
Import-free of Mathlib.
-/
namespace Dask.MaskedRed
open Dask.ArrayReduce

structure Masked (α : Type) where
  data : α
  mask : Bool
  deriving DecidableEq, Repr

variable {α : Type}

def Masked.toOpt (x : Masked α) : Option α := if x.mask then none else some x.data

/-- `filled(e)` on one element -/
def fill (e : α) (x : Masked α) : α := if x.mask then e else x.data

def allMasked (xs : List (Masked α)) : Bool := xs.all (·.mask)
def anyMasked (xs : List (Masked α)) : Bool := xs.any (·.mask)

/-- `self.filled(e).<op>(axis)` -/
def foldFilled (op : α → α → α) (e : α) (xs : List (Masked α)) : α := (xs.map (fill e)).foldr op e

/-- the unmasked values, in order -/
def unmasked (xs : List (Masked α)) : List α := xs.filterMap Masked.toOpt

/-- `MaskedArray.<op>(axis, keepdims=True)` of one 1-d block (`nm`: the block's mask is `nomask`) -/
def maChunk (nm : Bool) (op : α → α → α) (e : α) (xs : List (Masked α)) : Masked α :=
  ⟨foldFilled op e xs, !nm && allMasked xs⟩

/-- the same kernel on the concatenated partial results (combine and aggregate) -/
def maRed (op : α → α → α) (e : α) (ps : List (Masked α)) : Masked α := maChunk false op e ps

structure MBlock (α : Type) where
  nomask : Bool
  elems : List (Masked α)
  deriving DecidableEq, Repr

def MBlock.WF (b : MBlock α) : Prop := b.nomask = true → ∀ x ∈ b.elems, x.mask = false

def chunkOf (op : α → α → α) (e : α) (b : MBlock α) : Masked α := maChunk b.nomask op e b.elems

/-- the tree of a masked sum/prod/any/all over a list of blocks -/
def maTree (op : α → α → α) (e : α) (k depth : Nat) (bs : List (MBlock α)) : List (Masked α) :=
  treeReduce (maRed op e) (maRed op e) k depth (bs.map (chunkOf op e))

/-- blocks of `from_array(a)`: every block has the array's own `nomask` status -/
def fromArrayBlocks (nm : Bool) (bs : List (List (Masked α))) : List (MBlock α) := bs.map fun b => ⟨nm, b⟩

/-- a block after a per-block `np.ma.masked_<pred>` / `masked_where`: the mask is shrunk to `nomask` when it holds no `True` -/
def shrunk (b : List (Masked α)) : MBlock α := ⟨!anyMasked b, b⟩

/-- `np.ma.<op>` of the whole array after the same masking function applied to the whole array -/
def numpyShrunk (op : α → α → α) (e : α) (xs : List (Masked α)) : Masked α := maChunk (!anyMasked xs) op e xs

/-! ### any / all: `filled(False).any()`, `filled(True).all()` of the truth values -/
def truth (x : Masked Int) : Masked Bool := ⟨x.data != 0, x.mask⟩

/-! ### mean -/
def ones (xs : List (Masked Int)) : List (Masked Int) := xs.map fun x => ⟨1, x.mask⟩

def maMeanChunk (nm : Bool) (b : List (Masked Int)) : Masked Int × Masked Int :=
  (maChunk nm (· + ·) 0 b, maChunk nm (· + ·) 0 (ones b))

def maMeanComb (ps : List (Masked Int × Masked Int)) : Masked Int × Masked Int :=
  (maRed (· + ·) 0 (ps.map (·.1)), maRed (· + ·) 0 (ps.map (·.2)))

def maMeanTree (k depth : Nat) (bs : List (MBlock Int)) : List (Masked Int × Masked Int) :=
  treeReduce maMeanComb maMeanComb k depth (bs.map fun b => maMeanChunk b.nomask b.elems)

/-! ### `da.ma.average(a, weights=w)` (`routines._average(is_masked=True)`): `wgt = w * ~getmaskarray(a)`,
    `scl = wgt.sum()`, `avg = multiply(a, wgt).sum() / scl` -/
def wgtMasked (ws : List Int) (xs : List (Masked Int)) : List Int :=
  List.zipWith (fun w x => if x.mask then 0 else w) ws xs

def wprod (ws : List Int) (xs : List (Masked Int)) : List (Masked Int) :=
  List.zipWith (fun w x => ⟨x.data * (if x.mask then 0 else w), x.mask⟩) ws xs

/-- the weighted sum of the unmasked values -/
def wsumUnmasked (ws : List Int) (xs : List (Masked Int)) : Int :=
  isum (List.zipWith (fun w x => if x.mask then 0 else x.data * w) ws xs)

/-! ### var: the order-2 moment partial of a masked block is the partial of its unmasked values -/
def unmaskedRat (xs : List (Masked Int)) : List Rat := (unmasked xs).map fun (v : Int) => (v : Rat)

/-! ### min / max (`chunk_min`: a zero-length block gives no candidate; else `np.ma.min`): the payload under the mask is
    the dtype's fill value and not modelled — `Masked.mfold` on `toOpt` -/
def toM (xs : List (Masked Int)) : List Dask.Masked.M := xs.map Masked.toOpt

/-! ### whole arrays, `nomask`, `getmaskarray` / `getdata` / `filled` -/

structure MArr where
  data : List Int
  mask : Option (List Bool)
  deriving DecidableEq, Repr

def MArr.WF (a : MArr) : Prop := ∀ m, a.mask = some m → m.length = a.data.length

/-- `np.ma.getmaskarray`: `nomask` is expanded to a full array of `False` -/
def MArr.getmaskarray (a : MArr) : List Bool :=
  match a.mask with
  | none => List.replicate a.data.length false
  | some m => m

def MArr.getdata (a : MArr) : List Int := a.data

/-- `np.ma.filled(a, v)` -/
def MArr.filled (v : Int) (a : MArr) : List Int :=
  match a.mask with
  | none => a.data
  | some m => List.zipWith (fun (mk : Bool) d => if mk then v else d) m a.data

def splitChunks : List Nat → List α → List (List α)
  | [], _ => []
  | c :: cs, xs => xs.take c :: splitChunks cs (xs.drop c)

/-- the blocks `from_array(a, chunks)` hands to the tasks: slices of the data and of the mask; `nomask` stays `nomask` -/
def MArr.blocks (chunks : List Nat) (a : MArr) : List MArr :=
  match a.mask with
  | none => (splitChunks chunks a.data).map fun d => ⟨d, none⟩
  | some m => List.zipWith (fun mk d => ⟨d, some mk⟩) (splitChunks chunks m) (splitChunks chunks a.data)

/-- the elements of a (well-formed) masked array as pairs -/
def MArr.elems (a : MArr) : List (Masked Int) :=
  List.zipWith (fun d mk => ⟨d, mk⟩) a.data a.getmaskarray

def MArr.toBlock (a : MArr) : MBlock Int := ⟨a.mask.isNone, a.elems⟩

end Dask.MaskedRed
