import DaskModel.Model.DiagonalNd
/-
`meshgrid`, `indices`, `fromfunction` (dask/array/creation.py): index grids assembled from `arange` blocks.

Since `fix: da.arange computes every element from its global index` a block of `arange(n, chunks=c)` holds
`offset + local index`; `meshgrid` broadcasts such 1-d blocks along the other axes, `indices` stacks the `ij` meshgrid of
the axes' `arange`s, `fromfunction` applies `func` blockwise to that meshgrid.

Python                                                              Lean
------                                                              ----
if indexing == "xy" and len(xi) > 1: xi[0], xi[1] = xi[1], xi[0]      `swap01`, `sigma` (the axis along which input `j` varies)
r = xi[i][(None,…, slice(None), …, None)]; broadcast_arrays(*grid)   `meshgridChunks` (dense: the swapped inputs' chunks;
                                                                     sparse: `(1,)` on every other axis)
grid = (grid[1], grid[0], *grid[2:])                                 output `j` varies along axis `sigma j`: `meshgridRead`
indices: stack(meshgrid(*aranges, indexing="ij"))                    `indicesChunks`, `gridRead` component `j`
fromfunction: blockwise(func, inds, *meshgrid(*aranges, "ij"))       `gridBlockVals g` for the function `g` of the global index
Import-free (linked into the native driver).
-/
namespace Dask.Creation
open Dask.Chunks

/-- `xi[0], xi[1] = xi[1], xi[0]` -/
def swap01 {α} : List α → List α
  | a :: b :: r => b :: a :: r
  | xs => xs

/-- the axis of the result along which input (= output) `j` varies -/
def sigma (xy : Bool) (n j : Nat) : Nat :=
  if xy ∧ 1 < n then (if j = 0 then 1 else if j = 1 then 0 else j) else j

/-- chunks of output `j` of `meshgrid(*xi, sparse, indexing)`; `cs[i]` = chunks of the (flattened) input `i` -/
def meshgridChunks (cs : List (List Nat)) (xy sparse : Bool) (j : Nat) : List (List Nat) :=
  let dense := if xy then swap01 cs else cs
  if sparse then dense.zipIdx.map (fun (c, d) => if d = sigma xy cs.length j then c else [1]) else dense

/-- the element of input `j` the assembled output `j` holds at position `p`: through the output block and the block of
    `xi[j]` that was broadcast into it -/
def meshgridRead (cs : List (List Nat)) (xy sparse : Bool) (j : Nat) (p : List Nat) : Option Nat := do
  let locs ← locateAll (meshgridChunks cs xy sparse j) p
  let (b, o) ← locs[sigma xy cs.length j]?
  let c ← cs[j]?
  pure (blockStart c b + o)

/-- `indices(dimensions, chunks=chunks).chunks` -/
def indicesChunks (chunks : List (List Nat)) : List (List Nat) := (List.replicate chunks.length 1) :: chunks

/-- per-axis `(offset, size)` of block `b` -/
def blockOffs : List (List Nat) → List Nat → List (Nat × Nat)
  | cs :: css, i :: is => (blockStart cs i, cs.getD i 0) :: blockOffs css is
  | _, _ => []

/-- global index of the element at local index `loc` of the block at offsets `offs` -/
def addOffs : List Nat → List Nat → List Nat
  | o :: os, l :: ls => (o + l) :: addOffs os ls
  | _, _ => []

/-- the values (row-major) of one block of the grid of `g(global index)`: what `fromfunction` computes blockwise from
    the meshgrid of `arange` blocks, and — with `g = (·[j])` — component `j` of `indices` -/
def gridBlockVals {α} (g : List Nat → α) (offs sizes : List Nat) : List α :=
  (blockProduct sizes).map (fun loc => g (addOffs offs loc))

/-- every block of the grid, in `itertools.product` order: `(block index, offsets, sizes)` -/
def gridBlocks (chunks : List (List Nat)) : List (List Nat × List Nat × List Nat) :=
  (blockProduct (chunks.map List.length)).map (fun b =>
    (b, (blockOffs chunks b).map (·.1), (blockOffs chunks b).map (·.2)))

/-- the value the assembled grid holds at position `p`: `g` at offset + local index of `p`'s block -/
def gridRead {α} (g : List Nat → α) (chunks : List (List Nat)) (p : List Nat) : Option α := do
  let locs ← locateAll chunks p
  pure (g (addOffs ((blockOffs chunks (locs.map (·.1))).map (·.1)) (locs.map (·.2))))

/-- the function the harness uses for `fromfunction`: `sum((i+1) * x_i)` -/
def weightedSum : List Nat → Nat
  | xs => (xs.zipIdx.map (fun (x, i) => (i + 1) * x)).foldr (· + ·) 0

end Dask.Creation
