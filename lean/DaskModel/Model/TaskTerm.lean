/-
K7: legacy tuple terms, task-spec nodes, their evaluators and `convert_legacy_task / convert_legacy_graph`.

Python                                              Lean
------                                              ----
a Python object inside a legacy graph / a value      `Obj` (ints, strs, None, callables, `literal(x)` objects, tuples,
                                                     lists, dicts, and `app f args kw` = the value returned by calling
                                                     the uninterpreted function `f`)
`task in all_keys` guarded by isinstance/TypeError   `inKeys` (key-typed ∧ hashable ∧ structurally equal to a key)
GraphNode / TaskRef / raw argument                   `Node` (`alias`, `data`, `task`; `ref`, `raw` in argument position)
Task.func                                            `Func` (`call h`, `_identity_cast typ`, `NestedContainer.to_container`)
`values` mapping handed to `node(values)`            `env : Obj → Option Obj` (`none` = KeyError / missing dependency)
any exception while evaluating                       `none`
convert_legacy_task(None, x, all_keys)               `convert` (dict values are converted like list elements: `convertVals`)
convert_legacy_task(k, x, all_keys) + graph loop     `convertTop`, `convertGraph`
execute_graph (cache, evaluation in `order`)         `evalKeyN` (denotation by dependency recursion, fuel = graph size)
the statement's legacy semantics                     `evalObj`, `evalKeyL`
Import-free (linked into the native driver).
-/
namespace Dask.TaskTerm

inductive Obj where
  | int (n : Int)
  | str (s : String)
  | none
  | fn (f : Nat)
  | quoted (v : Obj)
  | tuple (xs : List Obj)
  | list (xs : List Obj)
  | dict (kvs : List (Obj × Obj))
  | app (f : Nat) (args : List Obj) (kw : List (Obj × Obj))
  deriving Repr, Inhabited

mutual
def Obj.beq : Obj → Obj → Bool
  | .int a, .int b => a == b
  | .str a, .str b => a == b
  | .none, .none => true
  | .fn a, .fn b => a == b
  | .quoted a, .quoted b => a.beq b
  | .tuple a, .tuple b => beqList a b
  | .list a, .list b => beqList a b
  | .dict a, .dict b => beqKvs a b
  | .app f a k, .app g b l => f == g && beqList a b && beqKvs k l
  | _, _ => false
def beqList : List Obj → List Obj → Bool
  | [], [] => true
  | x :: xs, y :: ys => x.beq y && beqList xs ys
  | _, _ => false
def beqKvs : List (Obj × Obj) → List (Obj × Obj) → Bool
  | [], [] => true
  | (k, v) :: xs, (k', v') :: ys => k.beq k' && v.beq v' && beqKvs xs ys
  | _, _ => false
end

mutual
theorem Obj.eq_of_beq : ∀ (a b : Obj), a.beq b = true → a = b
  | .int a, b, h => by cases b <;> simp_all [Obj.beq]
  | .str a, b, h => by cases b <;> simp_all [Obj.beq]
  | .none, b, h => by cases b <;> simp_all [Obj.beq]
  | .fn a, b, h => by cases b <;> simp_all [Obj.beq]
  | .quoted a, b, h => by
    cases b <;> simp [Obj.beq] at h
    rename_i b; rw [Obj.eq_of_beq a b h]
  | .tuple a, b, h => by
    cases b <;> simp [Obj.beq] at h
    rename_i b; rw [eq_of_beqList a b h]
  | .list a, b, h => by
    cases b <;> simp [Obj.beq] at h
    rename_i b; rw [eq_of_beqList a b h]
  | .dict a, b, h => by
    cases b <;> simp [Obj.beq] at h
    rename_i b; rw [eq_of_beqKvs a b h]
  | .app f a k, b, h => by
    cases b <;> simp [Obj.beq] at h
    rename_i g b l; rw [h.1.1, eq_of_beqList a b h.1.2, eq_of_beqKvs k l h.2]
theorem eq_of_beqList : ∀ (a b : List Obj), beqList a b = true → a = b
  | [], b, h => by cases b <;> simp_all [beqList]
  | x :: xs, b, h => by
    cases b with
    | nil => simp [beqList] at h
    | cons y ys =>
      simp [beqList] at h
      rw [Obj.eq_of_beq x y h.1, eq_of_beqList xs ys h.2]
theorem eq_of_beqKvs : ∀ (a b : List (Obj × Obj)), beqKvs a b = true → a = b
  | [], b, h => by cases b <;> simp_all [beqKvs]
  | (k, v) :: xs, b, h => by
    cases b with
    | nil => simp [beqKvs] at h
    | cons y ys =>
      obtain ⟨k', v'⟩ := y
      simp [beqKvs] at h
      rw [Obj.eq_of_beq k k' h.1.1, Obj.eq_of_beq v v' h.1.2, eq_of_beqKvs xs ys h.2]
end

mutual
theorem Obj.beq_refl : ∀ (a : Obj), a.beq a = true
  | .int a => by simp [Obj.beq]
  | .str a => by simp [Obj.beq]
  | .none => by simp [Obj.beq]
  | .fn a => by simp [Obj.beq]
  | .quoted a => by simp [Obj.beq, Obj.beq_refl a]
  | .tuple a => by simp [Obj.beq, beqList_refl a]
  | .list a => by simp [Obj.beq, beqList_refl a]
  | .dict a => by simp [Obj.beq, beqKvs_refl a]
  | .app f a k => by simp [Obj.beq, beqList_refl a, beqKvs_refl k]
theorem beqList_refl : ∀ (a : List Obj), beqList a a = true
  | [] => by simp [beqList]
  | x :: xs => by simp [beqList, Obj.beq_refl x, beqList_refl xs]
theorem beqKvs_refl : ∀ (a : List (Obj × Obj)), beqKvs a a = true
  | [] => by simp [beqKvs]
  | (k, v) :: xs => by simp [beqKvs, Obj.beq_refl k, Obj.beq_refl v, beqKvs_refl xs]
end

instance : BEq Obj := ⟨Obj.beq⟩
instance : LawfulBEq Obj where
  eq_of_beq {a b} h := Obj.eq_of_beq a b h
  rfl {a} := Obj.beq_refl a
instance : DecidableEq Obj := fun a b =>
  decidable_of_iff (a == b) ⟨eq_of_beq, fun h => h ▸ beq_self_eq_true a⟩

/-! ### Python predicates on objects -/

mutual
/-- `hash(x)` does not raise -/
def Obj.hashable : Obj → Bool
  | .int _ | .str _ | .none | .fn _ | .quoted _ | .app _ _ _ => true
  | .tuple xs => hashableList xs
  | .list _ | .dict _ => false
def hashableList : List Obj → Bool
  | [] => true
  | x :: xs => x.hashable && hashableList xs
end

def Obj.callable : Obj → Bool
  | .fn _ | .quoted _ => true
  | _ => false

/-- `isinstance(x, (int, float, str, tuple))` -/
def Obj.keyTyped : Obj → Bool
  | .int _ | .str _ | .tuple _ => true
  | _ => false

/-- the guarded membership test `isinstance(task, (int, float, str, tuple)) and task in all_keys`
    (`TypeError` of an unhashable tuple is swallowed) -/
def inKeys (keys : List Obj) (o : Obj) : Bool := o.keyTyped && o.hashable && keys.contains o

/-- `type(x) is tuple and x and callable(x[0])` on the element list of a tuple -/
def isTaskList : List Obj → Bool
  | h :: _ => h.callable
  | [] => false

def Obj.isTask : Obj → Bool
  | .tuple xs => isTaskList xs
  | _ => false

/-! ### functions -/

inductive Kind where
  | list | tuple | dict
  deriving Repr, DecidableEq, Inhabited

inductive Func where
  | call (h : Obj)
  | identityCast (k : Kind)
  | toContainer (k : Kind)
  /-- `dask.graph_manipulation.chunks.bind(node, *args)`: returns `node` -/
  | bindFirst
  /-- `dask.graph_manipulation.chunks.checkpoint(*args)`: returns `None` -/
  | constNone
  deriving Repr, Inhabited

/-- `d[k] = v` on an insertion-ordered dict -/
def dictSet : List (Obj × Obj) → Obj → Obj → List (Obj × Obj)
  | [], k, v => [(k, v)]
  | (k', v') :: rest, k, v => if k' == k then (k', v) :: rest else (k', v') :: dictSet rest k v

/-- `dict(batched(args, 2, strict=True))`: `none` = ValueError (odd) / TypeError (unhashable key) -/
def mkDictAux : List (Obj × Obj) → List Obj → Option (List (Obj × Obj))
  | acc, [] => some acc
  | _, [_] => none
  | acc, k :: v :: rest => if k.hashable then mkDictAux (dictSet acc k v) rest else none

def mkDict (args : List Obj) : Option (List (Obj × Obj)) := mkDictAux [] args

/-- calling the function object of a task with evaluated arguments -/
def applyFunc : Func → List Obj → List (Obj × Obj) → Option Obj
  | .call (.fn f), args, kw => some (.app f args kw)
  | .call (.quoted v), [], [] => some v
  | .call _, _, _ => none
  | .identityCast .list, args, [] => some (.list args)
  | .identityCast .tuple, args, [] => some (.tuple args)
  | .identityCast _, _, _ => none
  | .toContainer .list, args, [] => some (.list args)
  | .toContainer .tuple, args, [] => some (.tuple args)
  | .toContainer .dict, args, [] => (mkDict args).map .dict
  | .toContainer _, _, _ => none
  | .bindFirst, a :: _, _ => some a
  | .bindFirst, [], _ => none
  | .constNone, _, _ => some .none

/-! ### task-spec nodes -/

inductive Node where
  | alias (target : Obj)
  | data (v : Obj)
  | ref (k : Obj)
  | raw (v : Obj)
  | task (f : Func) (args : List Node) (kw : List (Obj × Node))
  deriving Repr, Inhabited

/-- `Alias.__init__(key, target=None)`: the target that is stored. Only a *missing* target defaults to the alias's own
    key; an explicit target is kept whatever its truth value (`0`, `''`, `()` are legitimate keys). -/
def aliasInit (key : Obj) (target : Option Obj) : Obj :=
  match target with
  | none => key
  | some t => t

/-- `Alias(key, target)` as a node -/
def mkAlias (key : Obj) (target : Option Obj) : Node := .alias (aliasInit key target)

/-- `isinstance(x, GraphNode)` -/
def Node.isGraphNode : Node → Bool
  | .alias _ | .data _ | .task _ _ _ => true
  | .ref _ | .raw _ => false

mutual
/-- `node.dependencies` (as a list; the harness compares as sets) -/
def Node.deps : Node → List Obj
  | .alias t => [t]
  | .data _ => []
  | .ref k => [k]
  | .raw _ => []
  | .task _ args kw => depsList args ++ depsKw kw
def depsList : List Node → List Obj
  | [] => []
  | n :: ns => n.deps ++ depsList ns
def depsKw : List (Obj × Node) → List Obj
  | [] => []
  | (_, n) :: ns => n.deps ++ depsKw ns
end

mutual
/-- `node(values)` / `_eval(arg)` of `Task.__call__` -/
def evalNode (env : Obj → Option Obj) : Node → Option Obj
  | .alias t => env t
  | .data v => some v
  | .ref k => env k
  | .raw v => some v
  | .task f args kw =>
    match evalNodes env args, evalKw env kw with
    | some as, some ks => applyFunc f as ks
    | _, _ => none
def evalNodes (env : Obj → Option Obj) : List Node → Option (List Obj)
  | [] => some []
  | n :: ns =>
    match evalNode env n, evalNodes env ns with
    | some v, some vs => some (v :: vs)
    | _, _ => none
def evalKw (env : Obj → Option Obj) : List (Obj × Node) → Option (List (Obj × Obj))
  | [] => some []
  | (k, n) :: ns =>
    match evalNode env n, evalKw env ns with
    | some v, some vs => some ((k, v) :: vs)
    | _, _ => none
end

/-! ### conversion -/

/-- `tuple(itertools.chain(*d.items()))` as raw arguments -/
def rawItems : List (Obj × Obj) → List Node
  | [] => []
  | (k, v) :: rest => .raw k :: .raw v :: rawItems rest

mutual
/-- `convert_legacy_task(None, task, all_keys)` -/
def convert (keys : List Obj) : Obj → Node
  | .tuple (h :: args) =>
    if h.callable then .task (.call h) (convertList keys args) []
    else if inKeys keys (.tuple (h :: args)) then .alias (.tuple (h :: args))
    else .raw (.tuple (h :: args))          -- a tuple that is neither a task nor a key is a literal
  | .tuple [] => if inKeys keys (.tuple []) then .alias (.tuple []) else .raw (.tuple [])
  | .list xs =>
    let ps := convertList keys xs
    if ps.any Node.isGraphNode then .task (.identityCast .list) ps [] else .raw (.list xs)
  | .int n => if inKeys keys (.int n) then .alias (.int n) else .raw (.int n)
  | .str s => if inKeys keys (.str s) then .alias (.str s) else .raw (.str s)
  | .none => .raw .none
  | .fn f => .raw (.fn f)
  | .quoted v => .raw (.quoted v)
  | .dict kvs =>
    -- like the elements of a list, the values of a dict are converted; `Dict(parsed_dict)` when one of them is a node
    let ps := convertVals keys kvs
    if ps.any Node.isGraphNode then .task (.toContainer .dict) ps [] else .raw (.dict kvs)
  | .app f a k => .raw (.app f a k)
def convertList (keys : List Obj) : List Obj → List Node
  | [] => []
  | x :: xs => convert keys x :: convertList keys xs
/-- `tuple(itertools.chain(*parsed_dict.items()))`: the keys as they are, the values converted -/
def convertVals (keys : List Obj) : List (Obj × Obj) → List Node
  | [] => []
  | (k, v) :: rest => .raw k :: convert keys v :: convertVals keys rest
end

abbrev LGraph := List (Obj × Obj)
abbrev NGraph := List (Obj × Node)

/-- one iteration of `convert_legacy_graph`: `none` = entry skipped (alias to itself) -/
def convertTop (keys : List Obj) (k v : Obj) : Option Node :=
  match convert keys v with
  | .alias t => if t == k then none else some (.alias t)
  | .raw o => some (.data o)
  | .ref r => some (.data r)
  | n => some n

def convertGraph (keys : List Obj) : LGraph → NGraph
  | [] => []
  | (k, v) :: rest =>
    match convertTop keys k v with
    | some n => (k, n) :: convertGraph keys rest
    | none => convertGraph keys rest

/-! ### graph denotations -/

/-- value of key `k` in a task-spec graph (keys outside the graph come from `cache`) -/
def evalKeyN (g : NGraph) (cache : Obj → Option Obj) : Nat → Obj → Option Obj
  | 0, _ => none
  | fuel + 1, k =>
    match g.lookup k with
    | some n => evalNode (evalKeyN g cache fuel) n
    | none => cache k

mutual
/-- the statement's legacy semantics of one object: calls, elementwise lists and dicts, references -/
def evalObj (keys : List Obj) (env : Obj → Option Obj) : Obj → Option Obj
  | .tuple (h :: args) =>
    if h.callable then
      match evalObjs keys env args with
      | some as => applyFunc (.call h) as []
      | none => none
    else if inKeys keys (.tuple (h :: args)) then env (.tuple (h :: args)) else some (.tuple (h :: args))
  | .tuple [] => if inKeys keys (.tuple []) then env (.tuple []) else some (.tuple [])
  | .list xs => (evalObjs keys env xs).map .list
  | .dict kvs => (evalVals keys env kvs).map .dict
  | .int n => if inKeys keys (.int n) then env (.int n) else some (.int n)
  | .str s => if inKeys keys (.str s) then env (.str s) else some (.str s)
  | .none => some .none
  | .fn f => some (.fn f)
  | .quoted v => some (.quoted v)
  | .app f a k => some (.app f a k)
def evalObjs (keys : List Obj) (env : Obj → Option Obj) : List Obj → Option (List Obj)
  | [] => some []
  | x :: xs =>
    match evalObj keys env x, evalObjs keys env xs with
    | some v, some vs => some (v :: vs)
    | _, _ => none
def evalVals (keys : List Obj) (env : Obj → Option Obj) : List (Obj × Obj) → Option (List (Obj × Obj))
  | [] => some []
  | (k, x) :: xs =>
    match evalObj keys env x, evalVals keys env xs with
    | some v, some vs => some ((k, v) :: vs)
    | _, _ => none
end

/-- value of key `k` of a legacy graph under the statement's semantics -/
def evalKeyL (g : LGraph) (keys : List Obj) (cache : Obj → Option Obj) : Nat → Obj → Option Obj
  | 0, _ => none
  | fuel + 1, k =>
    match g.lookup k with
    | some v => evalObj keys (evalKeyL g keys cache fuel) v
    | none => cache k

/-- `execute_graph(dsk, cache)`: every node of the graph is evaluated (in `order`, which C06 shows to be a
    topological order); `none` if any evaluation raises. Returns the cache entries of the graph keys. -/
def executeGraph (g : NGraph) (cache : Obj → Option Obj) : Option (List (Obj × Obj)) :=
  g.mapM (fun (kn : Obj × Node) => (evalKeyN g cache (g.length + 1) kn.1).map (fun v => (kn.1, v)))

/-- `dask.core.get(dsk, k)` for a single key: convert with `all_keys = set(dsk)`, execute everything, pick `k` -/
def coreGet (g : LGraph) (k : Obj) : Option Obj :=
  let keys := g.map Prod.fst
  if keys.contains k then
    match executeGraph (convertGraph keys g) (fun _ => none) with
    | some res => res.lookup k
    | none => none
  else none

/-- the legacy value of `k` -/
def legacyGet (g : LGraph) (k : Obj) : Option Obj :=
  let keys := g.map Prod.fst
  if keys.contains k then evalKeyL g keys (fun _ => none) (g.length + 1) k else none

/-! ### `keys_in_tasks` / `get_dependencies` on legacy objects -/

mutual
/-- `keys_in_tasks(keys, [o], as_list=True)` up to order: task arguments, list elements and dict values are
    traversed, every other hashable object is looked up in `keys` -/
def legacyRefs (keys : List Obj) : Obj → List Obj
  | .tuple (h :: args) =>
    if h.callable then legacyRefsList keys args
    else if (Obj.tuple (h :: args)).hashable && keys.contains (.tuple (h :: args)) then [.tuple (h :: args)] else []
  | .tuple [] => if keys.contains (.tuple []) then [.tuple []] else []
  | .list xs => legacyRefsList keys xs
  | .dict kvs => legacyRefsVals keys kvs
  | o => if o.hashable && keys.contains o then [o] else []
def legacyRefsList (keys : List Obj) : List Obj → List Obj
  | [] => []
  | x :: xs => legacyRefs keys x ++ legacyRefsList keys xs
def legacyRefsVals (keys : List Obj) : List (Obj × Obj) → List Obj
  | [] => []
  | (_, v) :: rest => legacyRefs keys v ++ legacyRefsVals keys rest
end

end Dask.TaskTerm
