import DaskModel.DriverLib
import DaskModel.Model.ArrOverlapNd
import DaskModel.Model.ArrOverlapNdGather
/-
Line-protocol handlers of the C26 extension round (N-d overlap blocks); appended to the table of `Drivers/slicing.lean`.
A source is an integer: a position of the axis, or `-1` for the constant fill of that axis.
-/
namespace Dask.ArrOverlapNdIO
open Dask Dask.ArrOverlap Dask.ArrOverlapNd

def toKind? (e : SExp) : Option (Option Kind) :=
  match e.toStr? with
  | some "none" => some none
  | some "periodic" => some (some .periodic)
  | some "reflect" => some (some .reflect)
  | some "nearest" => some (some .nearest)
  | some "constant" => some (some .constant)
  | _ => none

/-- `((cs…) dl dr kind)` -/
def toAxis? (e : SExp) : Option Axis :=
  match e with
  | .list [cs, dl, dr, k] => do pure ⟨← cs.toNats?, ← dl.toNat?, ← dr.toNat?, ← toKind? k⟩
  | _ => none

def ofSrc (s : Option Nat) : SExp := match s with | some p => .int p | none => .int (-1)
def ofSrcs (l : List (Option Nat)) : SExp := .list (l.map ofSrc)
def ofSrcss (o : Option (List (List (Option Nat)))) : SExp :=
  match o with | some ls => .list (ls.map ofSrcs) | none => .sym "none"
def ofPairs (o : Option (List (Nat × Nat))) : SExp :=
  match o with | some ps => .list (ps.map fun p => SExp.ofNats [p.1, p.2]) | none => .sym "none"

/-- `(ndoverlap (axis…) (bs…))` ↦ `(ext rect blk trim rectspec padded pieces)`: the extended block as the product of the 1-d
    models, the closed-form hyper-rectangle, the original block, what `_trim` cuts from a block with the extended
    extents (`(front length)` per axis), `(base extent)` per axis in the padded array, the padded axes, per axis the
    pieces `concatenate_shaped` joins -/
def hNdOverlap : Handler := handler fun args =>
  match args with
  | [ax, bs] => do
    let axes ← (← ax.toList?).mapM toAxis?
    let bs ← bs.toNats?
    let ext := ndOverlapBlock axes bs
    let trim := match ext with
      | some ls => trimSpec axes bs (ls.map List.length)
      | none => none
    pure (.list [ofSrcss ext, ofSrcss (ndRect axes bs), ofSrcss (ndBlock axes bs), ofPairs trim,
      ofPairs (rectSpec axes bs), .list ((axes.map Axis.padded).map ofSrcs),
      match ndPieces axes bs with
      | some segs => .list (segs.map fun ss => .list (ss.map ofSrcs))
      | none => .sym "none"])
  | _ => none

def ofWin (o : Option (List (Nat × List (Option Nat)))) : SExp :=
  match o with
  | some ws => .list (ws.map fun w => .list [SExp.ofNat w.1, ofSrcs w.2])
  | none => .sym "none"

/-- `(ndwin (axis…) (bs…) (c…))` ↦ `(core local global localIdx globalIdx)`: the per-axis `(offset, window)` of the block's
    own cell `c` inside the extended block and inside the padded global array -/
def hNdWin : Handler := handler fun args =>
  match args with
  | [ax, bs, c] => do
    let axes ← (← ax.toList?).mapM toAxis?
    let bs ← bs.toNats?
    let c ← c.toNats?
    let loc := match ndOverlapBlock axes bs with
      | some ls => winAxes (deps axes) ls (localIdx axes bs c)
      | none => none
    pure (.list [SExp.ofBool (coreIdx axes bs c), ofWin loc,
      ofWin (winAxes (deps axes) (axes.map Axis.padded) (globalIdx axes bs c)),
      SExp.ofNats (localIdx axes bs c), SExp.ofNats (globalIdx axes bs c), SExp.ofNats (blockOffsetIdx axes bs c)])
  | _ => none

def handlers : List (String × Handler) := [("ndoverlap", hNdOverlap), ("ndwin", hNdWin)]

end Dask.ArrOverlapNdIO
