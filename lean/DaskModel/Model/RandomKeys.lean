/-
`dask/array/random.py`: the seed / key logic of `Generator` (`_spawn_bitgens`, `_wrap_func`, `choice`) and
`RandomState` (`random_state_data`), without the numerical streams.

Python                                                  Lean
------                                                  ----
np.random.SeedSequence(entropy, spawn_key=…) and          `SeedSeq` (`entropy` is an abstract id; fresh OS entropy =
  its `n_children_spawned` counter                         a fresh id), `spawn` — NumPy's own rule: child i gets
                                                           `spawn_key ++ [n_children_spawned + i]`
_spawn_bitgens(bitgen, n)                                 `spawn s n`
_wrap_func: sizes = product(*chunks); one child per block  `wrapCall` (block b in C order ↦ child b)
name = funcname-tokenize(tokenize(bitgens), size, chunks,  `Name` = the tuple itself (tokenize assumed injective, C12)
       args, kwargs)
random_state_data(n, state): 624·n·4 bytes from the        `RS` = (seed id, words consumed); block b of a call gets the
  MT stream of the RandomState                              window starting at `pos + b` (unit = 624 words)
_choice_validate_params: `not replace and len(chunks[0])   `choiceGuard`
  > 1` → NotImplementedError
Import-free.
-/
namespace Dask.RandomKeys

structure SeedSeq where
  entropy : Nat
  spawnKey : List Nat
  nChildren : Nat
  deriving Repr, DecidableEq

/-- `SeedSequence.spawn(n)`: the children and the parent with its counter advanced -/
def spawn (s : SeedSeq) (n : Nat) : List SeedSeq × SeedSeq :=
  ((List.range n).map fun i => ⟨s.entropy, s.spawnKey ++ [s.nChildren + i], 0⟩,
   { s with nChildren := s.nChildren + n })

/-- one random-array construction: function name, number of blocks (product of numblocks), and an
    abstract id for (size, chunks, args, kwargs) -/
structure Call where
  func : Nat
  nblocks : Nat
  params : Nat
  deriving Repr, DecidableEq

/-- the array name: a function of exactly these components (tokenize is assumed injective) -/
structure Name where
  func : Nat
  seeds : List SeedSeq
  params : Nat
  deriving Repr, DecidableEq

/-- `_wrap_func` on a `Generator`: per-block seeds (C order), the name, the advanced generator -/
def wrapCall (g : SeedSeq) (c : Call) : (List SeedSeq × Name) × SeedSeq :=
  let (kids, g') := spawn g c.nblocks
  ((kids, ⟨c.func, kids, c.params⟩), g')

/-- a program: several constructions from the same generator, in order -/
def runCalls (g : SeedSeq) : List Call → List (List SeedSeq × Name) × SeedSeq
  | [] => ([], g)
  | c :: cs =>
    let (r, g') := wrapCall g c
    let (rs, g'') := runCalls g' cs
    (r :: rs, g'')

/-! ### RandomState -/

structure RS where
  seed : Nat
  pos : Nat       -- how many 624-word windows have been drawn
  deriving Repr, DecidableEq

/-- `random_state_data(n, state)`: window indices of the n blocks, advanced state -/
def stateData (s : RS) (n : Nat) : List (Nat × Nat) × RS :=
  ((List.range n).map fun i => (s.seed, s.pos + i), { s with pos := s.pos + n })

def runCallsRS (s : RS) : List Call → List (List (Nat × Nat)) × RS
  | [] => ([], s)
  | c :: cs =>
    let (r, s') := stateData s c.nblocks
    let (rs, s'') := runCallsRS s' cs
    (r :: rs, s'')

/-- the name of a `RandomState` construction: `tokenize(state_data, size, chunks, args…)` -/
structure NameRS where
  func : Nat
  windows : List (Nat × Nat)
  params : Nat
  deriving Repr, DecidableEq

def histRS (s : RS) : List Call → List (List (Nat × Nat) × NameRS) × RS
  | [] => ([], s)
  | c :: cs =>
    let (w, s') := stateData s c.nblocks
    let (rs, s'') := histRS s' cs
    ((w, ⟨c.func, w, c.params⟩) :: rs, s'')

/-! ### histories: ONE generator object used for several calls in a row

`Generator.choice` follows the same bookkeeping as `_wrap_func` (`_spawn_bitgens(self._bit_generator, nblocks)`, name =
`tokenize(bitgens, size, chunks, a, replace, p, axis, shuffle)`), so both are an `Op.call`.  `Generator.permutation`
spawns nothing: it shuffles with the generator's own bit generator (`_shuffle(self._bit_generator, index)`), i.e. it
consumes the next piece of the generator's own stream; the state that threads through the calls is therefore the pair
(SeedSequence with its spawn counter, number of direct draws). -/

structure Gen where
  ss : SeedSeq
  draws : Nat
  deriving Repr, DecidableEq

inductive Op where
  | call (c : Call)
  | perm
  deriving Repr, DecidableEq

inductive Out where
  | arr (seeds : List SeedSeq) (name : Name)
  | perm (pos : Nat)
  deriving Repr, DecidableEq

def stepGen (g : Gen) : Op → Out × Gen
  | .call c =>
    let (r, ss') := wrapCall g.ss c
    (.arr r.1 r.2, { g with ss := ss' })
  | .perm => (.perm g.draws, { g with draws := g.draws + 1 })

def runHist (g : Gen) : List Op → List Out × Gen
  | [] => ([], g)
  | o :: os =>
    let (r, g') := stepGen g o
    let (rs, g'') := runHist g' os
    (r :: rs, g'')

def callsOf : List Op → List Call
  | [] => []
  | .call c :: os => c :: callsOf os
  | .perm :: os => callsOf os

def histNames : List Out → List Name
  | [] => []
  | .arr _ n :: os => n :: histNames os
  | .perm _ :: os => histNames os

def permPositions : List Out → List Nat
  | [] => []
  | .arr _ _ :: os => permPositions os
  | .perm p :: os => p :: permPositions os

/-- for every element the index of the first element equal to it (the "same name" classes of a history) -/
def firstIndex {α : Type} [DecidableEq α] (xs : List α) : List Nat := xs.map fun x => xs.idxOf x

/-! ### choice -/

/-- `_choice_validate_params`, the replace/chunks guard: `none` = NotImplementedError -/
def choiceGuard (replace : Bool) (nchunks : Nat) : Option Nat :=
  if !replace && nchunks > 1 then none else some nchunks

end Dask.RandomKeys
