/-
`dask/array/random.py`: the seed / key logic of `Generator` (`_spawn_bitgens`, `_wrap_func`, `choice`) and
`RandomState` (`random_state_data`), without the numerical streams.

Python                                                  Lean
------                                                  ----
np.random.SeedSequence(entropy, spawn_key=…) and          `SeedSeq` (`entropy` is an abstract id; fresh OS entropy =
  its `n_children_spawned` counter                         a fresh id), `spawn` — NumPy's own rule: child i gets
                                                           `spawn_key ++ [n_children_spawned + i]`
_spawn_bitgens(bitgen, n)                                 `spawn s n`
_wrap_func: sizes = product(*chunks); one child per block  `wrapCall` (block b in C order ↦ child b)
name = funcname-tokenize(tokenize(bitgens), size, chunks,  `Name` = the tuple itself (tokenize assumed injective, C12)
       args, kwargs)
random_state_data(n, state): 624·n·4 bytes from the        `RS` = (seed id, words consumed); block b of a call gets the
  MT stream of the RandomState                              window starting at `pos + b` (unit = 624 words)
_choice_validate_params: `not replace and len(chunks[0])   `choiceGuard`
  > 1` → NotImplementedError
Import-free.
-/
namespace Dask.RandomKeys

structure SeedSeq where
  entropy : Nat
  spawnKey : List Nat
  nChildren : Nat
  deriving Repr, DecidableEq

/-- `SeedSequence.spawn(n)`: the children and the parent with its counter advanced -/
def spawn (s : SeedSeq) (n : Nat) : List SeedSeq × SeedSeq :=
  ((List.range n).map fun i => ⟨s.entropy, s.spawnKey ++ [s.nChildren + i], 0⟩,
   { s with nChildren := s.nChildren + n })

/-- one random-array construction: function name, number of blocks (product of numblocks), and an
    abstract id for (size, chunks, args, kwargs) -/
structure Call where
  func : Nat
  nblocks : Nat
  params : Nat
  deriving Repr, DecidableEq

/-- the array name: a function of exactly these components (tokenize is assumed injective) -/
structure Name where
  func : Nat
  seeds : List SeedSeq
  params : Nat
  deriving Repr, DecidableEq

/-- `_wrap_func` on a `Generator`: per-block seeds (C order), the name, the advanced generator -/
def wrapCall (g : SeedSeq) (c : Call) : (List SeedSeq × Name) × SeedSeq :=
  let (kids, g') := spawn g c.nblocks
  ((kids, ⟨c.func, kids, c.params⟩), g')

/-- a program: several constructions from the same generator, in order -/
def runCalls (g : SeedSeq) : List Call → List (List SeedSeq × Name) × SeedSeq
  | [] => ([], g)
  | c :: cs =>
    let (r, g') := wrapCall g c
    let (rs, g'') := runCalls g' cs
    (r :: rs, g'')

/-! ### RandomState -/

structure RS where
  seed : Nat
  pos : Nat       -- how many 624-word windows have been drawn
  deriving Repr, DecidableEq

/-- `random_state_data(n, state)`: window indices of the n blocks, advanced state -/
def stateData (s : RS) (n : Nat) : List (Nat × Nat) × RS :=
  ((List.range n).map fun i => (s.seed, s.pos + i), { s with pos := s.pos + n })

def runCallsRS (s : RS) : List Call → List (List (Nat × Nat)) × RS
  | [] => ([], s)
  | c :: cs =>
    let (r, s') := stateData s c.nblocks
    let (rs, s'') := runCallsRS s' cs
    (r :: rs, s'')

/-! ### choice -/

/-- `_choice_validate_params`, the replace/chunks guard: `none` = NotImplementedError -/
def choiceGuard (replace : Bool) (nchunks : Nat) : Option Nat :=
  if !replace && nchunks > 1 then none else some nchunks

end Dask.RandomKeys
