import DaskModel.Model.NormalForm
/-
The pandas normalisers of dask/tokenize.py (`register_pandas`) for NumPy-backed objects, on top of K8 `NormalForm`.

Python                                                              Lean
------                                                              ----
pd.RangeIndex: (type(x), x.start, x.stop, x.step, x.dtype, x.name)  `PIndex.range cls start stop step dtype name`
pd.Index (NumPy-backed): (type(ind), ind.name, normalize_token(ind.array))
   ind.array is a NumpyExtensionArray: [normalize_token(np.asarray(arr)), normalize_token(arr.dtype)]
   and normalize_token(NumpyEADtype) = dtype.name                   `PIndex.plain cls name (PVals.ea values dtypeName)`
pd.Series: [s.name, s.dtype, normalize_token(s._values), normalize_token(s.index)]
                                                                    `PObj.series name dtype values index`
pd.DataFrame: [normalize_token(column i values) …, normalize_token(df.columns), normalize_token(df.index)]
                                                                    `PObj.frame cols columns index`
pd.Categorical: [normalize_token(cat.codes), normalize_token(cat.dtype)],
   CategoricalDtype: [normalize_token(dtype.categories), normalize_token(dtype.ordered)]
                                                                    `PObj.categorical codes categories ordered`
`values` of a series / column values: a NumPy array (`PVals.np`) or an extension array tokenised through `np.asarray` and
its dtype name (`PVals.ea`: NumpyExtensionArray, StringArray); the arrays are `Val.ndarray` / `Val.objarr`; names (`s.name`,
`ind.name`) are put into the token RAW (not normalised): they are printed with `repr` by `str(token)`.
The results are Python lists / tuples of normal forms: `pnorm` gives them as `Val`s, printed by `pyRepr` like every
other token.  Import-free apart from the NormalForm model.
-/
namespace Dask.NF

/-- the values of an index / a series / a frame column: a NumPy array, or an extension array that is tokenised
    through `np.asarray` plus the name of its dtype (NumpyExtensionArray, StringArray) -/
inductive PVals where
  | np (v : Val)
  | ea (v : Val) (dtypeName : String)
  deriving Repr, Inhabited

inductive PIndex where
  | range (cls : String) (start stop step : Int) (dtype : String) (name : Val)
  | plain (cls : String) (name : Val) (values : PVals)
  deriving Repr, Inhabited

inductive PObj where
  | index (i : PIndex)
  | series (name : Val) (dtype : String) (values : PVals) (index : PIndex)
  | frame (cols : List PVals) (columns : PIndex) (index : PIndex)
  | categorical (codes : Val) (categories : PIndex) (ordered : Bool)
  deriving Repr, Inhabited

/-- `normalize_token(values)`: `normalize_array`, or `normalize_extension_array` = `[normalize_token(np.asarray(arr)),
    normalize_token(arr.dtype)]` with `normalize_token(dtype) = dtype.name` -/
def pnormVals : PVals → Val
  | .np v => norm v
  | .ea v dn => .list [norm v, .str dn]

/-- `normalize_token(index)` -/
def pnormIdx : PIndex → Val
  | .range cls start stop step dt name =>
    .tuple [.atom cls, .int start, .int stop, .int step, .atom dt, name]
  | .plain cls name values => .tuple [.atom cls, name, pnormVals values]

/-- `normalize_token(obj)` -/
def pnorm : PObj → Val
  | .index i => pnormIdx i
  | .series name dt values idx => .list [name, .atom dt, pnormVals values, pnormIdx idx]
  | .frame cols columns idx => .list (cols.map pnormVals ++ [pnormIdx columns, pnormIdx idx])
  | .categorical codes cats ordered => .list [norm codes, .list [pnormIdx cats, .bool ordered]]

/-- the string handed to md5 by `tokenize(obj)` -/
def ptokPre (o : PObj) : String := pyRepr (.tuple [pnorm o])

end Dask.NF
