/-
K2 (dataframe part): `dask/dataframe/dask_expr/_cumulative.py` + the `cum*_aggregate` helpers of
`dask/dataframe/methods.py`, Series (1-d) path and per-column DataFrame path, transliterated.

Python                                               Lean
------                                               ----
a float/int cell, NaN                                `Cell = Option Int` (`none` = NaN/NA)
Series partition                                     `List Cell`
`M.cumsum/cumprod/cummax/cummin(skipna=…)` on ONE    `chunkCum f skipna` = `cumSkip f none` / `cumNo f none`
   partition (pandas kernel, trusted, validated)        (`f` = the binary operation on valid values)
Python `None` flowing through the graph              outer `Option` of `Option Cell`
`TakeLast.operation(a, skipna)`                      `takeLast skipna`          (Series path, after fixes b558cc8, e8ea542)
                                                     `takeLastDF skipna`        (one column of the DataFrame path)
`cumsum_aggregate … cummin_aggregate` (scalar,scalar) `aggSS f`                 (after fixes fcc1427, d430566)
`cum*_aggregate` (Series chunk, scalar)              `aggVS f`
`methods._cum_aggregate_apply`                       `cumAggregateApply`
`CumulativeFinalize._layer`                          `finalize` / `daskCum`
`cumulative_wrapper(_intermediate)`'s `len(y) == 0` test is dead on the Series path (TakeLast never
returns an empty Series there) and is therefore not represented.
Import-free (linked into the native driver).
-/
namespace Dask.Cumulative

abbrev Cell := Option Int

/-- the four operations on valid values -/
inductive Op where
  | sum | prod | max | min
  deriving DecidableEq, Repr

def Op.app : Op → Int → Int → Int
  | .sum, a, b => a + b
  | .prod, a, b => a * b
  | .max, a, b => if a < b then b else a
  | .min, a, b => if b < a then b else a

/-- NaN-propagating lift of a binary operation to cells (`x + y`, `x.where(x > y, y)`, …). -/
def cellOp (f : Int → Int → Int) : Cell → Cell → Cell
  | some a, some b => some (f a b)
  | _, _ => none

/-! ## pandas kernels on one block (reference semantics, validated against pandas by the harness) -/

/-- `Series.cumop(skipna=True)` started with accumulator `acc` (`none` = no valid value yet). -/
def cumSkip (f : Int → Int → Int) : Option Int → List Cell → List Cell
  | _, [] => []
  | acc, none :: xs => none :: cumSkip f acc xs
  | none, some v :: xs => some v :: cumSkip f (some v) xs
  | some a, some v :: xs => some (f a v) :: cumSkip f (some (f a v)) xs

/-- accumulator after a block (skipna=True) -/
def stateSkip (f : Int → Int → Int) : Option Int → List Cell → Option Int
  | acc, [] => acc
  | acc, none :: xs => stateSkip f acc xs
  | none, some v :: xs => stateSkip f (some v) xs
  | some a, some v :: xs => stateSkip f (some (f a v)) xs

/-- one step of the skipna=False accumulator: `none` = nothing seen, `some none` = poisoned by NaN -/
def stepNo (f : Int → Int → Int) : Option Cell → Cell → Cell
  | none, c => c
  | some a, c => cellOp f a c

/-- `Series.cumop(skipna=False)` started with state `st`. -/
def cumNo (f : Int → Int → Int) : Option Cell → List Cell → List Cell
  | _, [] => []
  | st, c :: xs => stepNo f st c :: cumNo f (some (stepNo f st c)) xs

def stateNo (f : Int → Int → Int) : Option Cell → List Cell → Option Cell
  | st, [] => st
  | st, c :: xs => stateNo f (some (stepNo f st c)) xs

/-- pandas on the whole (unpartitioned) series -/
def pandasCum (f : Int → Int → Int) (skipna : Bool) (xs : List Cell) : List Cell :=
  if skipna then cumSkip f none xs else cumNo f none xs

/-! ## dask -/

/-- `CumulativeBlockwise`: the pandas method on one partition -/
def chunkCum (f : Int → Int → Int) (skipna : Bool) (p : List Cell) : List Cell := pandasCum f skipna p

/-- last valid value of a block (what `a.ffill().tail(1).squeeze()` yields when there is one) -/
def lastValid : List Cell → Option Int
  | [] => none
  | c :: xs => match lastValid xs with
    | some v => some v
    | none => c

/-- `TakeLast.operation(a, skipna)` for a Series: outer `none` = Python `None`. -/
def takeLast (skipna : Bool) (a : List Cell) : Option Cell :=
  if a.isEmpty then none
  else if skipna then
    (if a.all Option.isNone then none else some (lastValid a))
  else a.getLast?

/-- `TakeLast.operation` as seen by ONE column of a DataFrame: an empty partition gives `None`
    (fix e8ea542), otherwise there is no `None` rule (`a.ndim == 1` fails) and an all-NA column
    yields NaN. -/
def takeLastDF (skipna : Bool) (a : List Cell) : Option Cell :=
  if a.isEmpty then none
  else if skipna then some (lastValid a) else a.getLast?

/-- `cum*_aggregate(x, y)` on two scalars (or `None`s). -/
def aggSS (f : Int → Int → Int) : Option Cell → Option Cell → Option Cell
  | none, y => y
  | x, none => x
  | some a, some b => some (cellOp f a b)

/-- `cum*_aggregate(x, y)` with `x` a Series chunk and `y` a scalar or `None`. -/
def aggVS (f : Int → Int → Int) (x : List Cell) : Option Cell → List Cell
  | none => x
  | some c => x.map (fun e => cellOp f e c)

/-- `methods._cum_aggregate_apply(aggregate, x, y)` -/
def cumAggregateApply (f : Int → Int → Int) (x y : Option Cell) : Option Cell :=
  match y with
  | none => x
  | some _ => aggSS f x y

/-- partitions `1 …` of `CumulativeFinalize._layer`, given the current intermediate. -/
def finalize (f : Int → Int → Int) (skipna : Bool) (tl : Bool → List Cell → Option Cell) :
    Option Cell → List (List Cell) → List (List Cell)
  | _, [] => []
  | inter, p :: ps =>
    let chunk := chunkCum f skipna p
    aggVS f chunk inter :: finalize f skipna tl (cumAggregateApply f inter (tl skipna chunk)) ps

/-- the whole lowered expression: partition 0 is the chunk itself, `intermediate[1] = last[0]`. -/
def daskCumWith (tl : Bool → List Cell → Option Cell) (f : Int → Int → Int) (skipna : Bool) :
    List (List Cell) → List (List Cell)
  | [] => []
  | p :: ps =>
    let chunk := chunkCum f skipna p
    chunk :: finalize f skipna tl (tl skipna chunk) ps

/-- Series path -/
def daskCum := daskCumWith takeLast
/-- one column of the DataFrame path -/
def daskCumDF := daskCumWith takeLastDF

end Dask.Cumulative
