/-
K13 (part): the index bookkeeping of `dask.blockwise.rewrite_blockwise` (fusing a tree of Blockwise layers into its root).

Python                                                         Lean
------                                                         ----
index symbol / layer name (strings)                            `String`
`indices` entry `(name, ind | None)`                           `Entry` = `String × Option (List String)`
`new_index_iter` (generator "A","B",…,"Z","A1",…)              the counter `St.supply` + `freshName`; ONE supply for the whole
                                                               call: it is created before the loops and only ever advanced
`for i, (dep, ind) in enumerate(indices)` over a list that     `forLoop`: the list iterator re-reads `indices[i]` from the
is mutated (`pop(i)`, `append`) inside the loop                 current list, `i` advances by one whatever was removed
`while changed:`                                               `whileLoop` (fuel; `none` = fuel exhausted)
`sub = dict(zip(out_indices, current)); sub.update(extra)`     association list, later bindings win (`dictOf`)
`contracted` (a Python set)                                    duplicate-free list in first-seen order (order unspecified:
                                                               the harness compares up to a renaming of fresh names)
`index_map` keyed by `(id(name), inds)`                        name equality (names of one call are the same objects)
final de-duplication of `(name, ind)` pairs                    `dedup`
Task substitution (`dsk`, `Task.fuse`) is not modelled here: values are validated at API level.
Import-free.
-/
namespace Dask.Rewrite

abbrev Entry := String × Option (List String)

structure BLayer where
  output : String
  outInd : List String
  indices : List Entry
  /-- `new_axes`: symbol ↦ number of blocks of the new axis -/
  newAxes : List (String × Nat)
  deriving Repr

/-- the `k`-th name the generator yields: `c + (str(d) if d else "")` for `d in count()` for `c in "A".."Z"` -/
def freshName (k : Nat) : String :=
  let c := (Char.ofNat (65 + k % 26)).toString
  if k / 26 = 0 then c else c ++ toString (k / 26)

def lookupL (inputs : List BLayer) (name : String) : Option BLayer := inputs.find? (fun l => l.output == name)

/-- `dict(pairs)`: lookup with later bindings winning -/
def dictGet (m : List (String × String)) (k : String) : Option String :=
  (m.reverse.find? (fun p => p.1 == k)).map (·.2)

/-- `index_subs(ind, sub)` -/
def indexSubs (sub : List (String × String)) : Option (List String) → Option (List String)
  | none => none
  | some ind => some (ind.map fun c => (dictGet sub c).getD c)

structure St where
  indices : List Entry
  newAxes : List (String × Nat)
  /-- number of names already taken from `new_index_iter` -/
  supply : Nat
  /-- the names handed to each fused producer, in fusion order (for the distinctness theorem) -/
  allocs : List (List Nat)
  deriving Repr

/-- symbols of the producer's inputs that are not output indices (`contracted`), first-seen order -/
def contractedOf (p : BLayer) : List String :=
  ((p.indices.flatMap fun e => e.2.getD []).eraseDups).filter (fun x => !p.outInd.contains x)

def setAxis (m : List (String × Nat)) (k : String) (v : Nat) : List (String × Nat) :=
  if m.any (fun p => p.1 == k) then m.map (fun p => if p.1 == k then (k, v) else p) else m ++ [(k, v)]

/-- fuse the producer referenced by entry `i` (`dep`, `cur`) into the running index table -/
def fuseStep (p : BLayer) (i : Nat) (cur : List String) (st : St) : Option St := do
  let indices := st.indices.eraseIdx i
  let contracted := contractedOf p
  let names := (List.range contracted.length).map (· + st.supply)
  let sub := p.outInd.zip cur ++ contracted.zip (names.map freshName)
  let newIndices := p.indices.map fun e => (e.1, indexSubs sub e.2)
  -- `for k, v in inputs[dep].new_axes.items(): new_axes[sub[k]] = v`  (KeyError if `k` is not substituted)
  let newAxes ← p.newAxes.foldlM (fun acc kv => (dictGet sub kv.1).map fun k' => setAxis acc k' kv.2) st.newAxes
  -- "Bump new inputs up in list": append the entries that are not there yet
  let indices' := newIndices.foldl (fun acc e => if acc.contains e then acc else acc ++ [e]) indices
  pure { indices := indices', newAxes := newAxes, supply := st.supply + contracted.length, allocs := st.allocs ++ [names] }

/-- one pass of `for i, (dep, ind) in enumerate(indices)` over the live list -/
def forLoop (inputs : List BLayer) : Nat → Nat → St → Bool → Option (St × Bool)
  | 0, _, _, _ => none
  | fuel + 1, i, st, changed =>
    match st.indices[i]? with
    | none => some (st, changed)
    | some (_, none) => forLoop inputs fuel (i + 1) st changed
    | some (dep, some cur) =>
      match lookupL inputs dep with
      | none => forLoop inputs fuel (i + 1) st changed
      | some p => match fuseStep p i cur st with
        | none => none
        | some st' => forLoop inputs fuel (i + 1) st' true

def whileLoop (inputs : List BLayer) : Nat → St → Option St
  | 0, _ => none
  | fuel + 1, st => match forLoop inputs (fuel + 1) 0 st false with
    | none => none
    | some (st', changed) => if changed then whileLoop inputs fuel st' else some st'

/-- final de-duplication of `(name, ind)` with `ind` not None -/
def dedup (l : List Entry) : List Entry :=
  l.foldl (fun acc e => if e.2.isSome && acc.contains e then acc else acc ++ [e]) []

structure Fused where
  output : String
  outInd : List String
  indices : List Entry
  newAxes : List (String × Nat)
  allocs : List (List Nat)
  deriving Repr

/-- `rewrite_blockwise(inputs)` (index table); `root` is the layer no other input depends on -/
def rewrite (fuel : Nat) (inputs : List BLayer) (root : String) : Option Fused := do
  let r ← lookupL inputs root
  -- the root is never fused into itself: it is looked up among the OTHER inputs only through its entries
  let st ← whileLoop inputs fuel { indices := r.indices, newAxes := r.newAxes, supply := 0, allocs := [] }
  pure { output := root, outInd := r.outInd, indices := dedup st.indices, newAxes := st.newAxes, allocs := st.allocs }

end Dask.Rewrite
