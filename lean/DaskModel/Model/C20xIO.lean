import DaskModel.DriverLib
import DaskModel.Model.BlockView
import DaskModel.Model.IntDaskIndex
import DaskModel.Model.BoolDaskMask
/-
Line-protocol handlers of the C20 extension round (BlockView indexing, dask integer-array index); appended to the
table of `Drivers/slicing.lean`.
-/
namespace Dask.C20xIO
open Dask Dask.Slice1D Dask.NormIndex

def raised : SExp := .list [.sym "raised"]
def ok (xs : List SExp) : SExp := .list (.sym "ok" :: xs)

def toSlice? (e : SExp) : Option PSlice :=
  match e with
  | .list [a, b, c] => do
    let a ← a.toOptInt?
    let b ← b.toOptInt?
    let c ← c.toOptInt?
    pure ⟨a, b, c⟩
  | _ => none

def toEntry? (e : SExp) : Option Entry :=
  match e with
  | .list [.sym "sl", s] => do pure (Entry.sl (← toSlice? s))
  | .list [.sym "int", i] => do pure (Entry.int (← i.toInt?))
  | .list [.sym "newaxis"] => some Entry.newaxis
  | .list [.sym "ellipsis"] => some Entry.ellipsis
  | .list [.sym "lst", l] => do pure (Entry.lst (← l.toInts?))
  | .list [.sym "mask", l] => do pure (Entry.mask (← (← l.toList?).mapM SExp.toBool?))
  | _ => none

/-- `(blockview ((c…)…) (entry…))` ↦ `(raised)` | `(ok ((c…)…) (((key…) (old…)) …))`; a failed lookup of the model
    (`pick = none`, never happens: `blocks_den`) is reported as `(lookup-failed)` -/
def hBlockView : Handler := handler fun args =>
  match args with
  | [cs, idx] => do
    let cs ← cs.toNatss?
    let idx ← (← idx.toList?).mapM toEntry?
    match Dask.BlockView.blockView cs idx with
    | none => pure raised
    | some r =>
      pure (ok [SExp.ofNatss r.chunks,
        .list (r.graph.map fun kv =>
          .list [SExp.ofNats kv.1, match kv.2 with | some o => SExp.ofInts o | none => .list [.sym "lookup-failed"]])])
  | _ => none

/-- `(intdaskchunk xsize off len (idx…))` ↦ `(in-block positions…)`: the chunk function `slice_with_int_dask_array` -/
def hIntDaskChunk : Handler := handler fun args =>
  match args with
  | [n, off, len, idx] => do
    pure (SExp.ofInts (Dask.IntDaskIndex.chunkFn (← n.toNat?) (← off.toNat?) (← len.toNat?) (← idx.toInts?)))
  | _ => none

/-- `(intdaskagg (lengths…) (idx…) (outs…))` ↦ `(raised)` | `(ok (values…))`: `slice_with_int_dask_array_aggregate` on
    arbitrary `chunk_outputs` -/
def hIntDaskAgg : Handler := handler fun args =>
  match args with
  | [ls, idx, outs] => do
    match Dask.IntDaskIndex.aggregate (← ls.toNats?) (← idx.toInts?) (← outs.toInts?) with
    | none => pure raised
    | some r => pure (ok [SExp.ofInts r])
  | _ => none

/-- `(intdaskplan (lengths…) ((idx chunk…)…))` ↦ `((offsets…) (raised))` | `((offsets…) (ok ((positions…)…)))` -/
def hIntDaskPlan : Handler := handler fun args =>
  match args with
  | [ls, idx] => do
    let ls ← ls.toNats?
    let idx ← idx.toIntss?
    pure (.list [SExp.ofNats (Dask.IntDaskIndex.offsets ls),
      match Dask.IntDaskIndex.plan ls idx with
      | none => raised
      | some r => ok [.list (r.map SExp.ofInts)]])
  | _ => none

/-- `(boolmask (x chunks…) (mask chunks…) (x…) (mask…))` ↦ `(raised)` | `(ok (U…) ((block…)…))`:
    `slice_with_bool_dask_array` for a 1-d array and a 1-d dask boolean mask -/
def hBoolMask : Handler := handler fun args =>
  match args with
  | [cs, ms, x, m] => do
    let m ← (← m.toList?).mapM SExp.toBool?
    match Dask.BoolDaskMask.maskBlocks (← cs.toNats?) (← ms.toNats?) (← x.toInts?) m with
    | none => pure raised
    | some (U, bs) => pure (ok [SExp.ofNats U, .list (bs.map SExp.ofInts)])
  | _ => none

def handlers : List (String × Handler) := [
  ("boolmask", hBoolMask),
  ("blockview", hBlockView), ("intdaskchunk", hIntDaskChunk), ("intdaskagg", hIntDaskAgg),
  ("intdaskplan", hIntDaskPlan)]

end Dask.C20xIO
