import DaskModel.DriverLib
import DaskModel.Model.AlignDivs
import DaskModel.Model.AlignIO
/-! Driver handlers of the C39 extension (common divisions / alignment plan); kept out of `Drivers/dfpart.lean`.
    Import-free of Mathlib. -/
namespace Dask.AlignDivs
open Dask Dask.Join

def okOr' (r : Option SExp) : SExp := match r with | some e => .list [.sym "ok", e] | none => .list [.sym "raised"]

/-- `(align-divs calc|maybe|concat1|merge ((d…)…))` ↦ `(ok (d…))` | `(raised)` -/
def hAlignDivs : Handler := handler fun
  | [.sym kind, ds] => do
    let ds ← ds.toNatss?
    match kind with
    | "calc" => pure (okOr' ((calcDivisionsForAlign ds).map SExp.ofNats))
    | "maybe" => pure (okOr' ((maybeAlignDivisions ds).map SExp.ofNats))
    | "concat1" => pure (okOr' ((concatAxis1Divisions ds).map SExp.ofNats))
    | "merge" => match ds with
      | [a, b] => pure (okOr' (some (SExp.ofNats (mergeIndexedDivisions a b))))
      | _ => none
    | "common" => pure (okOr' (some (SExp.ofNats (commonDivs ds))))
    | _ => none
  | _ => none

def ofPlan : Plan → SExp
  | .asIs => .list [.sym "asis"]
  | .setDivisions d => .list [.sym "setdivs", SExp.ofNats d]
  | .repartition d => .list [.sym "repartition", SExp.ofNats d]

/-- `(align-lower ((d…)…))` ↦ `(ok (asis))` | `(ok (setdivs (d…)))` | `(ok (repartition (d…)))` | `(raised)` -/
def hAlignLower : Handler := handler fun
  | [ds] => do pure (okOr' ((maybeAlignLower (← ds.toNatss?)).map ofPlan))
  | _ => none

/-- `(align-apply ((d…)…) (frame…))`, a frame = partitions of `(key id)` rows ↦ `(ok ((ids…)…)…)` the row ids per
    partition of every frame after the plan `maybeAlignLower` picks was carried out | `(raised)` -/
def hAlignApply : Handler := handler fun
  | [ds, fs] => do
    let ds ← ds.toNatss?
    let frames ← (← fs.toList?).mapM Align.parts?
    let r := do
      let plan ← maybeAlignLower ds
      applyPlan (fun r : Row => r.1) plan (ds.zip frames)
    pure (okOr' (r.map fun outs => .list (outs.map fun F => SExp.ofNatss (F.map (·.map (·.2))))))
  | _ => none

/-- `(align-all (c…) ((d…)…) (frame…))` ↦ every frame through `Repartition(new_divisions=c, force=True)` -/
def hAlignAll : Handler := handler fun
  | [c, ds, fs] => do
    let ds ← ds.toNatss?
    let frames ← (← fs.toList?).mapM Align.parts?
    let r := alignAll (fun r : Row => r.1) (← c.toNats?) (ds.zip frames)
    pure (okOr' (r.map fun outs => .list (outs.map fun F => SExp.ofNatss (F.map (·.map (·.2))))))
  | _ => none

def handlers : List (String × Handler) :=
  [("align-divs", hAlignDivs), ("align-lower", hAlignLower), ("align-apply", hAlignApply), ("align-all", hAlignAll)]

end Dask.AlignDivs
