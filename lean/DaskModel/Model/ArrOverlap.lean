/-
C26: chunk arithmetic and block windows of `dask/array/overlap.py` (one axis at a time).

Python                                                 Lean
------                                                 ----
_overlap_internal_chunks(original_chunks, axes)        `overlapChunks dl dr cs`
trim_internal: the chunks it declares                  `trimChunks bdyNone dl dr cs`
ArrayOverlapLayer + fractional_slice: block i gets
  prev[-dl:] ++ block ++ next[0:dr]                    `overlapBlocks dl dr blocks`
_trim: x[front:back] per block                         `trimBlocks bdyNone dl dr blocks`
ensure_minimum_chunksize(size, chunks)                 `ensureMin size chunks`  (`none` = ValueError)
periodic / reflect / nearest (positions read)          `padPositions kind d n`  (constant = `none` entries)
overlap(): boundaries, overlap_internal, chunk.trim    `overlapWithBoundary`
Import-free (linked into the native driver).
-/
namespace Dask.ArrOverlap

/-- the blocks after the first one in `_overlap_internal_chunks`: `mid` blocks gain `dl + dr`, the last one `dl` -/
def overlapMids (dl dr : Nat) : List Nat → List Nat
  | [] => []
  | [last] => [last + dl]
  | m :: more => (m + dl + dr) :: overlapMids dl dr more

/-- `_overlap_internal_chunks` along one axis, depth `(dl, dr)` -/
def overlapChunks (dl dr : Nat) : List Nat → List Nat
  | [] => []
  | [c] => [c]
  | c :: rest => (c + dr) :: overlapMids dl dr rest

/-- chunks declared by `trim_internal` along one axis; Python ints (may go negative) -/
def trimChunksFrom (bdyNone : Bool) (dl dr : Nat) (nb : Nat) : Nat → List Int → List Int
  | _, [] => []
  | j, d :: ds =>
    let d' : Int :=
      if bdyNone then
        let d1 := if j ≠ 0 then d - dl else d
        if j ≠ nb - 1 then d1 - dr else d1
      else d - (dl + dr)
    d' :: trimChunksFrom bdyNone dl dr nb (j + 1) ds

def trimChunks (bdyNone : Bool) (dl dr : Nat) (cs : List Int) : List Int :=
  trimChunksFrom bdyNone dl dr cs.length 0 cs

/-- Python `p[-d:]` for `d > 0` -/
def lastN {α : Type} (d : Nat) (p : List α) : List α := p.drop (p.length - d)

/-- the blocks after `overlap_internal`: neighbours' edges attached when the depth on that side is non-zero -/
def overlapBlocksAux {α : Type} (dl dr : Nat) : Option (List α) → List (List α) → List (List α)
  | _, [] => []
  | prev, blk :: rest =>
    let left := match prev with
      | some p => if dl ≠ 0 then lastN dl p else []
      | none => []
    let right := match rest with
      | nxt :: _ => if dr ≠ 0 then nxt.take dr else []
      | [] => []
    (left ++ blk ++ right) :: overlapBlocksAux dl dr (some blk) rest

def overlapBlocks {α : Type} (dl dr : Nat) (blocks : List (List α)) : List (List α) :=
  overlapBlocksAux dl dr none blocks

/-- Python `x[front:back]` with `back = -dr` (or None) on a list -/
def pySliceFrontBack {α : Type} (front : Nat) (back : Option Nat) (x : List α) : List α :=
  match back with
  | none => x.drop front
  | some dr => (x.take (x.length - dr)).drop front

/-- `_trim` along one axis for every block -/
def trimBlocksFrom {α : Type} (bdyNone : Bool) (dl dr : Nat) (nb : Nat) : Nat → List (List α) → List (List α)
  | _, [] => []
  | j, x :: xs =>
    let front := if j = 0 ∧ bdyNone then 0 else dl
    let back : Option Nat := if (j = nb - 1 ∧ bdyNone) ∨ dr = 0 then none else some dr
    pySliceFrontBack front back x :: trimBlocksFrom bdyNone dl dr nb (j + 1) xs

def trimBlocks {α : Type} (bdyNone : Bool) (dl dr : Nat) (blocks : List (List α)) : List (List α) :=
  trimBlocksFrom bdyNone dl dr blocks.length 0 blocks

/-! ### `ensure_minimum_chunksize` -/

structure EMState where
  output : List Nat   -- most recent first
  new : Nat
  deriving Repr

def ensureMinStep (size : Nat) (s : EMState) (c : Nat) : EMState :=
  let s1 : EMState :=
    if c < size then
      if s.new > size + (size - c) then ⟨(s.new - (size - c)) :: s.output, size⟩
      else ⟨s.output, s.new + c⟩
    else s
  let s2 : EMState := if s1.new ≥ size then ⟨s1.new :: s1.output, 0⟩ else s1
  if c ≥ size then ⟨s2.output, s2.new + c⟩ else s2

/-- `ensure_minimum_chunksize(size, chunks)`; `none` = ValueError (depth larger than the array).
    `chunks` non-empty (`min(chunks)`). -/
def ensureMin (size : Nat) (chunks : List Nat) : Option (List Nat) :=
  if chunks.all (fun c => decide (size ≤ c)) then some chunks
  else
    let s := chunks.foldl (ensureMinStep size) ⟨[], 0⟩
    if s.new ≥ size then some (s.new :: s.output).reverse
    else match s.output with
      | last :: more => some ((last + s.new) :: more).reverse
      | [] => none

/-! ### boundaries: which positions of the axis (length `n`) are read into the `d` cells on each side;
    `none` = the constant fill value -/

inductive Kind where
  | periodic | reflect | nearest | constant
  deriving Repr, DecidableEq

def padLeft (k : Kind) (d n : Nat) : List (Option Nat) :=
  match k with
  | .periodic => (List.range d).map fun i => some (n - d + i)          -- x[-d:]
  | .reflect => (List.range d).map fun i => some (d - 1 - i)           -- x[d-1::-1]
  | .nearest => (List.range d).map fun _ => some 0
  | .constant => (List.range d).map fun _ => none

def padRight (k : Kind) (d n : Nat) : List (Option Nat) :=
  match k with
  | .periodic => (List.range d).map fun i => some i                    -- x[0:d]
  | .reflect => (List.range d).map fun i => some (n - 1 - i)           -- x[-1:-d-1:-1]
  | .nearest => (List.range d).map fun _ => some (n - 1)
  | .constant => (List.range d).map fun _ => none

/-- the whole padded axis `boundaries(x)` reads (for `d ≤ n`) -/
def padPositions (k : Kind) (d n : Nat) : List (Option Nat) :=
  padLeft k d n ++ (List.range n).map some ++ padRight k d n

/-! ### `overlap()` with a boundary, `sliding_window_view` -/

/-- `overlap(x, depth=d, boundary=kind)` along one axis (`d > 0`, kind ≠ 'none'): `boundaries` concatenates a pad block
    of `d` cells on each side (`padL`, `padR`: what periodic / reflect / nearest / constant produce), `overlap_internal`
    shares `d` cells between neighbouring blocks, and `chunk.trim(x3, 2 * d)` cuts `2 * d` cells off both ends of the
    whole array — which are exactly the two overlapped pad blocks (`d` pad cells + `d` cells of the neighbouring data
    block) when every data block has at least `d` cells. -/
def overlapWithBoundary {α : Type} (d : Nat) (padL padR : List α) (blocks : List (List α)) : List (List α) :=
  ((overlapBlocks d d (padL :: (blocks ++ [padR]))).drop 1).dropLast

/-- `np.lib.stride_tricks.sliding_window_view(xs, w)` along one axis: the `len(xs) - w + 1` windows -/
def windows {α : Type} (w : Nat) (xs : List α) : List (List α) :=
  (List.range (xs.length + 1 - w)).map fun i => (xs.drop i).take w

/-- dask's `sliding_window_view` along one axis: `map_overlap(np…sliding_window_view, depth=(0, w - 1),
    boundary='none', trim=False)` — every block is extended by the first `w - 1` cells of its right neighbour -/
def slidingBlocks {α : Type} (w : Nat) (blocks : List (List α)) : List (List (List α)) :=
  (overlapBlocks 0 (w - 1) blocks).map (windows w)

/-! ### `map_overlap`: which argument's depth and boundary drive the trim -/

/-- the sort key `(v[1].ndim, -v[0])` compared: `keyLt a b` ⇔ key(a) < key(b), for pairs (index, ndim) -/
def keyLt (a b : Nat × Nat) : Bool := decide (a.2 < b.2) || (decide (a.2 = b.2) && decide (b.1 < a.1))

/-- `sorted(enumerate(args), key=lambda v: (v[1].ndim, -v[0]))[-1][0]`: the last element of the sorted list is the
    maximum of the key (the keys are pairwise distinct); computed as a running maximum over `enumerate(args)` -/
def trimArgFrom : Nat → Option (Nat × Nat) → List Nat → Option (Nat × Nat)
  | _, best, [] => best
  | i, none, r :: rest => trimArgFrom (i + 1) (some (i, r)) rest
  | i, some b, r :: rest => trimArgFrom (i + 1) (if keyLt b (i, r) then some (i, r) else some b) rest

/-- index of the argument whose depth/boundary are used by `trim_internal`; `none` = no array argument (IndexError) -/
def trimArg (ranks : List Nat) : Option Nat := (trimArgFrom 0 none ranks).map (·.1)

end Dask.ArrOverlap
