/-
C31 kernels.

(1) Block contraction — `dask.array.routines.tensordot`:
      intermediate = blockwise(_tensordot, out_index, lhs, left_index, rhs, right_index, adjust_chunks={contracted: 1})
      result       = intermediate.sum(axis=contracted axes)
    Every output entry is `Σ_l f l` with `f l = a[…, l, …] * b[…, l, …]` over the contracted index `l`; the blockwise
    step computes, for each chunk of the contracted axis, the partial sum over that chunk (`blockTerm`), and the
    final `sum` adds the partial results (K1 tree sum). `blockTerms`/`blockSum` transliterate that for one
    contracted axis with chunk lengths `cs`; two contracted axes are the same construction applied twice.
    Generic in the value type (only `+` and `0` are used; products live inside `f`).

(2) The stacking plan of `dask.array.linalg.tsqr` (recursive branch):
      for idx, a_m in enumerate(data.chunks[0]): m_r = min(a_m, cc)
          if curr_block_sz + m_r > cr_max: all_blocks.append(curr_block); curr_block = []; curr_block_sz = 0
          curr_block.append((idx, m_r)); curr_block_sz += m_r
      if len(curr_block) > 0: all_blocks.append(curr_block)
    and `_cumsum_blocks` (the (start, stop) slices used to unstack Q_inner).
Import-free.
-/
namespace Dask.Contraction

variable {R : Type} [Add R] [Zero R]

/-- `Σ_{l < n} f l` -/
def sumTo : Nat → (Nat → R) → R
  | 0, _ => 0
  | n + 1, f => sumTo n f + f n

/-- the partial contraction computed by one block: indices `off … off+len-1` -/
def blockTerm (f : Nat → R) (off len : Nat) : R := sumTo len (fun l => f (off + l))

/-- the per-block partial results along the contracted axis (chunks `cs`, starting at `off`) -/
def blockTerms (f : Nat → R) : Nat → List Nat → List R
  | _, [] => []
  | off, c :: cs => blockTerm f off c :: blockTerms f (off + c) cs

/-- flat sum of a list (what the final `.sum(axis)` denotes) -/
def lsum : List R → R
  | [] => 0
  | x :: xs => x + lsum xs

def blockSum (f : Nat → R) (cs : List Nat) : R := lsum (blockTerms f 0 cs)

/-! ### any number of contracted indices (`einsum`: `contract_inds = all_inds - outputs`, every one of them chunked;
`tensordot` with several axes) -/

/-- `Σ` over the index space `range dims[0] × range dims[1] × …` of `f [i₀, i₁, …]` -/
def sumOver : List Nat → (List Nat → R) → R
  | [], f => f []
  | n :: ns, f => sumTo n fun i => sumOver ns fun is => f (i :: is)

/-- the same sum computed block by block: index `j` is cut into chunks `css[j]`; every block of the product grid
    contributes its partial sum (the blockwise step with `adjust_chunks → 1`), the partial sums are added up (the final
    `.sum(axis=contracted axes)`) -/
def blockSumOver : List (List Nat) → (List Nat → R) → R
  | [], f => f []
  | cs :: css, f => blockSum (fun i => blockSumOver css fun is => f (i :: is)) cs

/-- vector dot product of two integer lists through a chunking of the contracted axis -/
def dotBlocks (a b : List Int) (cs : List Nat) : List Int :=
  blockTerms (fun l => a.getD l 0 * b.getD l 0) 0 cs

/-! ### tsqr stacking plan -/

structure StackSt where
  done : List (List (Nat × Nat))   -- finished groups, most recent first
  cur : List (Nat × Nat)           -- current group, most recent first
  sz : Nat

def stackStep (cc crMax : Nat) (s : StackSt) (idx am : Nat) : StackSt :=
  let mr := min am cc
  let s' := if s.sz + mr > crMax then { done := s.cur.reverse :: s.done, cur := [], sz := 0 } else s
  { s' with cur := (idx, mr) :: s'.cur, sz := s'.sz + mr }

def stackLoop (cc crMax : Nat) : StackSt → Nat → List Nat → StackSt
  | s, _, [] => s
  | s, idx, am :: rest => stackLoop cc crMax (stackStep cc crMax s idx am) (idx + 1) rest

/-- `all_blocks` of `tsqr` for row chunks `chunks`, column width `cc`, `cr_max = max(chunks)` -/
def stackGroups (chunks : List Nat) (cc crMax : Nat) : List (List (Nat × Nat)) :=
  let s := stackLoop cc crMax ⟨[], [], 0⟩ 0 chunks
  (if s.cur.isEmpty then s.done else s.cur.reverse :: s.done).reverse

/-- `_cumsum_blocks` -/
def cumsumBlocks : Nat → List Nat → List (Nat × Nat)
  | _, [] => []
  | total, x :: xs => (total, total + x) :: cumsumBlocks (total + x) xs

end Dask.Contraction
