import DaskModel.Model.TaskTerm
/-
K7 (part 4): the task-spec graph passes of dask/_task_spec.py (review round).

Python                                              Lean
------                                              ----
_task_spec.cull(dsk, keys)                          `cullSpec g keys` (`cullSpecLoop`: the `while work:` loop, one pop per step)
GraphNode.substitute(subs) / TaskRef.substitute     `substNode σ` (`SubVal.key k'` = a new key, `SubVal.node m` = a GraphNode)
resolve_aliases(dsk, keys, dependents)              `resolveAliases g keys ndependents` (`resolveLoop`; `dsk.pop(target)`,
                                                    `dsk[k] = tnew`, the stale `dependents` is a parameter as in the code)
GraphNode.fuse(*tasks, key=...)                     `taskFuse tasks` ↦ `FNode.fused inner outkey external_deps`
_execute_subgraph(inner_dsk, outkey, inkeys, *deps) `evalFNode` on `FNode.fused` (inner graph evaluated with the external
                                                    dependencies as cache)
fuse_linear_task_spec(dsk, keys)                    `fuseLinearSpec g keys rename` (walk down / walk up over
                                                    `dependencies`/`dependents`, `seen`, `result`)
a set                                               a duplicate-free list; `set.pop()` of a one-element set = its element
KeyError / ValueError                               `none`
`none` of a loop with fuel                          fuel exhausted (the drivers' fuel is shown to suffice by the harness on
                                                    every case: the model never answers "fuel")
Import-free (linked into the native driver).
-/
namespace Dask.TaskTerm

/-! ### generic dict operations on insertion-ordered association lists -/

/-- `del d[a]` / `d.pop(a)` -/
def dropKey {α : Type} (g : List (Obj × α)) (a : Obj) : List (Obj × α) := g.filter fun kv => !(kv.1 == a)

/-- `d[k] = v` (in place when `k` is present, appended otherwise) -/
def setKey {α : Type} : List (Obj × α) → Obj → α → List (Obj × α)
  | [], k, v => [(k, v)]
  | (k', v') :: rest, k, v => if k' == k then (k', v) :: rest else (k', v') :: setKey rest k v

/-- `{k: g[k] for k in ks if k in g}` in the order of `ks` -/
def restrictTo {α : Type} (g : List (Obj × α)) (ks : List Obj) : List (Obj × α) :=
  ks.filterMap fun k => (g.lookup k).map fun v => (k, v)

/-- `set(xs)` as a duplicate-free list (first occurrences) -/
def dedupKeys : List Obj → List Obj
  | [] => []
  | x :: xs => x :: (dedupKeys xs).filter (fun y => !(y == x))

/-! ### `_task_spec.cull` -/

/-- the `while work:` loop: `k = work.pop(); if k in seen or k not in dsk: continue; seen.add(k); dsk2[k] = dsk[k];
    work.update(v.dependencies)`. Returns the keys of `dsk2` in insertion order. -/
def cullSpecLoop (g : NGraph) : Nat → List Obj → List Obj → Option (List Obj)
  | _, [], seen => some seen
  | 0, _ :: _, _ => none
  | fuel + 1, k :: work, seen =>
    if seen.contains k then cullSpecLoop g fuel work seen
    else match g.lookup k with
      | none => cullSpecLoop g fuel work seen
      | some n => cullSpecLoop g fuel (n.deps ++ work) (seen ++ [k])

/-- every pop either discards a pending key or visits a new graph key and pushes its dependencies -/
def cullSpecFuel (g : NGraph) (keys : List Obj) : Nat :=
  keys.length + (g.map fun kn => kn.2.deps.length + 1).sum + 1

/-- `cull(dsk, keys)`: `len(keys) == len(dsk)` returns the graph unchanged -/
def cullSpec (g : NGraph) (keys : List Obj) : Option NGraph :=
  if keys.length == g.length then some g
  else (cullSpecLoop g (cullSpecFuel g keys) keys []).map (restrictTo g)

/-! ### `GraphNode.substitute` -/

inductive SubVal where
  /-- the dependency is renamed to another key -/
  | key (k : Obj)
  /-- the dependency is replaced by a node (inlined) -/
  | node (n : Node)
  deriving Repr, Inhabited

mutual
/-- `node.substitute(subs)` on the references of a node: `Alias.substitute`, `TaskRef.substitute`, `Task.substitute`
    (arguments and keyword arguments, recursively), `DataNode.substitute`; raw arguments are left alone.
    An entry `k ↦ k` of `subs` is the identity (`subs_filtered` drops it). -/
def substNode (σ : List (Obj × SubVal)) : Node → Node
  | .alias t =>
    match σ.lookup t with
    | some (.key k') => .alias k'
    | some (.node m) => m
    | none => .alias t
  | .ref k =>
    match σ.lookup k with
    | some (.key k') => .ref k'
    | some (.node m) => m
    | none => .ref k
  | .data v => .data v
  | .raw v => .raw v
  | .task f args kw => .task f (substNodes σ args) (substKw σ kw)
def substNodes (σ : List (Obj × SubVal)) : List Node → List Node
  | [] => []
  | n :: ns => substNode σ n :: substNodes σ ns
def substKw (σ : List (Obj × SubVal)) : List (Obj × Node) → List (Obj × Node)
  | [] => []
  | (k, n) :: ns => (k, substNode σ n) :: substKw σ ns
end

/-! ### `resolve_aliases` -/

/-- `isinstance(t, Alias)` -/
def Node.isAlias : Node → Bool
  | .alias _ => true
  | _ => false

/-- one iteration of `while work:` (the stack top is the list head). `ndependents x` = `len(dependents[x])` of the
    `dependents` mapping the caller passes in (it is *not* updated by the function). -/
def resolveStep (keys : List Obj) (ndependents : Obj → Nat) (g : NGraph) (k : Obj) (work seen : List Obj) :
    NGraph × List Obj × List Obj :=
  if seen.contains k then (g, work, seen)
  else match g.lookup k with
    | none => (g, work, seen)
    | some t =>
      match t with
      | .alias target =>
        if !keys.contains target && (g.lookup target).isSome && ndependents target == 1 then
          match g.lookup target with
          | some tnew =>
            let g' := setKey (dropKey g target) k tnew
            if tnew.isAlias then (g', target :: k :: work, seen)                 -- work.append(k); seen.discard(k)
            else (g', target :: (tnew.deps.reverse ++ work), k :: seen)           -- work.extend(tnew.dependencies)
          | none => (g, target :: work, k :: seen)
        else (g, target :: work, k :: seen)
      | n => (g, n.deps.reverse ++ work, k :: seen)

def resolveLoop (keys : List Obj) (ndependents : Obj → Nat) : Nat → NGraph → List Obj → List Obj → Option NGraph
  | _, g, [], _ => some g
  | 0, _, _ :: _, _ => none
  | fuel + 1, g, k :: work, seen =>
    let r := resolveStep keys ndependents g k work seen
    resolveLoop keys ndependents fuel r.1 r.2.1 r.2.2

def resolveFuel (g : NGraph) (keys : List Obj) : Nat :=
  2 * (keys.length + (g.map fun kn => kn.2.deps.length + 2).sum) + 2

/-- `resolve_aliases(dsk, keys, dependents)`; `none` = `ValueError("No keys provided")` or fuel exhausted.
    `work` = the requested keys in the order given (the top of the stack is the last one, as `list.pop()` takes). -/
def resolveAliases (g : NGraph) (keys : List Obj) (ndependents : Obj → Nat) : Option NGraph :=
  if keys.isEmpty then none else resolveLoop keys ndependents (resolveFuel g keys) g keys.reverse []

/-- the true `len(dependents[x])` for `dependents = reverse_dict(DependenciesMapping(dsk))`: how many entries refer to `x` -/
def countRefs (g : NGraph) (x : Obj) : Nat := (g.filter fun kn => kn.2.deps.contains x).length

/-! ### fused tasks: `GraphNode.fuse` and `_execute_subgraph` -/

/-- a node of a graph after fusion: an ordinary node, or `Task(key, _execute_subgraph, inner_dsk, outkey, external_deps,
    *(TaskRef(k) for k in external_deps))` -/
inductive FNode where
  | plain (n : Node)
  | fused (inner : NGraph) (outkey : Obj) (ext : List Obj)
  deriving Repr, Inhabited

abbrev FGraph := List (Obj × FNode)

def FNode.deps : FNode → List Obj
  | .plain n => n.deps
  | .fused _ _ ext => ext

/-- `final[k] = DataNode(None, v) for k, v in zip(inkeys, dependencies)`: inside the subgraph only the external
    dependencies are visible, with the values the caller passes -/
def extCache (ext : List Obj) (env : Obj → Option Obj) : Obj → Option Obj :=
  fun k => if ext.contains k then env k else none

/-- `node(values)` for a node of a fused graph; `fuel` bounds the evaluation of the inner graph -/
def evalFNode (env : Obj → Option Obj) (fuel : Nat) : FNode → Option Obj
  | .plain n => evalNode env n
  | .fused inner outkey ext => evalKeyN inner (extCache ext env) fuel outkey

/-- value of key `k` in a graph with fused tasks -/
def evalKeyF (g : FGraph) (cache : Obj → Option Obj) : Nat → Obj → Option Obj
  | 0, _ => none
  | fuel + 1, k =>
    match g.lookup k with
    | some n => evalFNode (evalKeyF g cache fuel) fuel n
    | none => cache k

def liftGraph (g : NGraph) : FGraph := g.map fun kn => (kn.1, .plain kn.2)

/-- `all_deps - all_keys` -/
def externalDeps (tasks : NGraph) : List Obj :=
  let ks := tasks.map Prod.fst
  dedupKeys ((tasks.flatMap fun kn => kn.2.deps).filter fun d => !ks.contains d)

/-- `leafs = all_keys - all_deps` -/
def fuseLeafs (tasks : NGraph) : List Obj :=
  let ds := tasks.flatMap fun kn => kn.2.deps
  dedupKeys ((tasks.map Prod.fst).filter fun k => !ds.contains k)

/-- `GraphNode.fuse(*tasks)`: `none` = ValueError (several outputs) / KeyError (`leafs.pop()` of an empty set) -/
def taskFuse (tasks : NGraph) : Option FNode :=
  match tasks with
  | [] => none
  | [(_, n)] => some (.plain n)
  | _ =>
    match fuseLeafs tasks with
    | [out] => some (.fused tasks out (externalDeps tasks))
    | _ => none

/-! ### `fuse_linear_task_spec` -/

/-- `dependencies[k]` (a set) -/
def depSet (g : NGraph) (k : Obj) : List Obj :=
  match g.lookup k with
  | some n => dedupKeys n.deps
  | none => []

/-- `dependents[k]` of `reverse_dict(dependencies)` (a set) -/
def dependentSet (g : NGraph) (k : Obj) : List Obj :=
  (g.filter fun kn => kn.2.deps.contains k).map Prod.fst

structure FuseSt where
  seen : List Obj
  result : FGraph
  deriving Repr

/-- "walk towards the leafs": returns the chain prefix (bottom first) that is put in front of `key`, and the state -/
def walkDown (g : NGraph) (keys : List Obj) : Nat → List Obj → List Obj → FuseSt → List Obj × FuseSt
  | 0, _, chain, st => (chain, st)
  | fuel + 1, deps, chain, st =>
    match deps with
    | [newKey] =>
      if st.seen.contains newKey then (chain, st)
      else
        let st := { st with seen := newKey :: st.seen }
        match g.lookup newKey with
        | none => (chain, st)
        | some n =>
          if (dependentSet g newKey).length != 1 || keys.contains newKey then
            (chain, { st with result := setKey st.result newKey (.plain n) })
          else walkDown g keys fuel (depSet g newKey) (newKey :: chain) st
    | _ => (chain, st)

/-- "walk the tree towards the root": returns the chain suffix (in order) appended after `key`, the top key, the state -/
def walkUp (g : NGraph) (keys : List Obj) : Nat → List Obj → Obj → List Obj → FuseSt → List Obj × Obj × FuseSt
  | 0, _, top, chain, st => (chain, top, st)
  | fuel + 1, dependentsKey, top, chain, st =>
    match dependentsKey with
    | [newKey] =>
      if keys.contains top then (chain, top, st)
      else if st.seen.contains newKey then (chain, top, st)
      else
        let st := { st with seen := newKey :: st.seen }
        match g.lookup newKey with
        | none => (chain, top, st)                                   -- unreachable: a dependent is a key of `dsk`
        | some n =>
          if (depSet g newKey).length != 1 then
            (chain, top, { st with result := setKey st.result newKey (.plain n) })
          else walkUp g keys fuel (dependentSet g newKey) newKey (chain ++ [newKey]) st
    | _ => (chain, top, st)

/-- the key under which a fused chain is stored: the renamer's answer, unless there is none or the name is already
    taken (`renamed_key in dependents or renamed_key in result`) — then the top key -/
def chooseName (g : NGraph) (result : FGraph) (top : Obj) : Option Obj → Obj
  | none => top
  | some r =>
    if r != top && ((g.map Prod.fst).contains r || (g.any fun kn => kn.2.deps.contains r) ||
                    (result.map Prod.fst).contains r) then top else r

/-- the body of `for key in dsk:` -/
def fuseLinearStep (g : NGraph) (keys : List Obj) (rename : List Obj → Option Obj) (st : FuseSt) (key : Obj) : FuseSt :=
  if st.seen.contains key then st
  else
    let st := { st with seen := key :: st.seen }
    match g.lookup key with
    | none => st
    | some n =>
      let deps := depSet g key
      let dependentsKey := dependentSet g key
      if deps.length != 1 && dependentsKey.length != 1 then
        { st with result := setKey st.result key (.plain n) }
      else
        let (below, st) := walkDown g keys g.length deps [] st
        let (above, top, st) := walkUp g keys g.length dependentsKey key [] st
        let chain := below ++ key :: above
        match chain with
        | [_] => { st with result := setKey st.result top (.plain n) }
        | _ =>
          let tasks := restrictTo g chain
          let renamed := chooseName g st.result top (rename chain)
          match taskFuse tasks with
          | none => st                                               -- ValueError: not reached on a linear chain
          | some fn =>
            let res := setKey st.result renamed fn
            if renamed != top then { st with result := setKey res top (.plain (.alias renamed)) }
            else { st with result := res }

/-- `fuse_linear_task_spec(dsk, keys)`; `rename` = `default_fused_keys_renamer` on the chain's keys (bottom first) -/
def fuseLinearSpec (g : NGraph) (keys : List Obj) (rename : List Obj → Option Obj) : FGraph :=
  ((g.map Prod.fst).foldl (fuseLinearStep g keys rename) { seen := [], result := [] }).result

/-! ### a checker for real outputs of `fuse_linear_task_spec` / `GraphNode.fuse` (soundness: Lemmas/SpecFuse.lean) -/

def Func.beq : Func → Func → Bool
  | .call a, .call b => a == b
  | .identityCast a, .identityCast b => a == b
  | .toContainer a, .toContainer b => a == b
  | .bindFirst, .bindFirst => true
  | .constNone, .constNone => true
  | _, _ => false

mutual
def Node.beq : Node → Node → Bool
  | .alias a, .alias b => a == b
  | .data a, .data b => a == b
  | .ref a, .ref b => a == b
  | .raw a, .raw b => a == b
  | .task f a k, .task g b l => Func.beq f g && beqNodes a b && beqKwNodes k l
  | _, _ => false
def beqNodes : List Node → List Node → Bool
  | [], [] => true
  | x :: xs, y :: ys => x.beq y && beqNodes xs ys
  | _, _ => false
def beqKwNodes : List (Obj × Node) → List (Obj × Node) → Bool
  | [], [] => true
  | (k, x) :: xs, (k', y) :: ys => k == k' && x.beq y && beqKwNodes xs ys
  | _, _ => false
end

def nodupKeys : List Obj → Bool
  | [] => true
  | x :: xs => !xs.contains x && nodupKeys xs

def FNode.innerKeys : FNode → List Obj
  | .fused inner _ _ => inner.map Prod.fst
  | .plain _ => []

/-- all keys that sit inside some fused task -/
def innerKeysOf (out : FGraph) : List Obj := out.flatMap fun kn => kn.2.innerKeys

/-- is the entry `out[k] = fn` justified by the input graph `g`? -/
def fuseEntryOK (g : NGraph) (req : List Obj) (out : FGraph) (k : Obj) : FNode → Bool
  | .plain n =>
    -- an untouched entry …
    (match g.lookup k with
     | some n' => n.beq n'
     | none => false) ||
    -- … or `Alias(top_key → renamed_key)` next to the fused task stored under the new name
    (match n with
     | .alias nk =>
       (g.lookup nk).isNone &&
       (match out.lookup nk with
        | some (.fused _ top _) => top == k
        | _ => false)
     | _ => false)
  | .fused inner top ext =>
    let ik := inner.map Prod.fst
    -- the inner graph consists of entries of `g`, one of them is the output
    inner.all (fun cn => match g.lookup cn.1 with
      | some n' => cn.2.beq n'
      | none => false) &&
    nodupKeys ik && ik.contains top &&
    -- stored under the output key, or under a name that is new to the graph with an alias left behind
    (k == top ||
      ((g.lookup k).isNone && !(g.any fun kn => kn.2.deps.contains k) &&
       (match out.lookup top with
        | some (.plain (.alias a)) => a == k
        | _ => false))) &&
    -- every dependency that is not computed inside is passed in
    inner.all (fun cn => cn.2.deps.all fun d => ik.contains d || ext.contains d) &&
    -- the inner keys other than the output are private: not requested, gone from the graph, referred to only from inside
    ik.all (fun c => c == top ||
      (!req.contains c && (out.lookup c).isNone && g.all (fun kn => ik.contains kn.1 || !kn.2.deps.contains c)))

/-- `fuseSpecOK g req out`: `out` is `g` with some disjoint groups of entries replaced by fused tasks -/
def fuseSpecOK (g : NGraph) (req : List Obj) (out : FGraph) : Bool :=
  nodupKeys (out.map Prod.fst) &&
  out.all (fun kn => fuseEntryOK g req out kn.1 kn.2) &&
  g.all (fun kn =>
    (match out.lookup kn.1 with
     | some (.plain n') => n'.beq kn.2
     | _ => false) || (innerKeysOf out).contains kn.1) &&
  nodupKeys (innerKeysOf out) &&
  req.all (fun k => (g.lookup k).isNone || (out.lookup k).isSome)

end Dask.TaskTerm
