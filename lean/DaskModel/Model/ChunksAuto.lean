import DaskModel.Model.Chunks
import DaskModel.Model.ChunksPlanner
/-
K4c `ChunksAuto`: `auto_chunks` (dask/array/core.py) as it is - both branches.

Everything that `auto_chunks` computes in floating point (`size = (limit / itemsize / largest_block) ** (1 / len(autos))`,
`multiplier`, `proposed`, `max_chunk_size`, the test `multiplier != last_multiplier`) enters the model as an *observed
value*: the harness reads the locals of the real call through a line tracer and passes every float as the exact
fraction `float.as_integer_ratio()`.  The model then performs the control flow and all integer results exactly
(comparisons of ints with those fractions, `int(·)`, `round_to`, the aggregation of previous chunks, the fix-point loop).
The theorems hold for every value of the observed quantities.

Python                                                   Lean
------                                                   ----
a float                                                  `Frac` (numerator / denominator, both `Nat`)
`for a in sorted(autos)` + `autos.remove/discard`        `roundGo` over the list of remaining auto axes
`while multiplier_remaining`                             `prevLoop`, structural in the observed `!=` flags (one per recomputation)
recursion `return auto_chunks(chunks, shape, …)`          `autoNoPrev`, structural in the observed `size` values (one per level)
ZeroDivisionError / ValueError                           `.error .raised`
Import-free (linked into the native driver).
-/
namespace Dask.Chunks

inductive AErr where
  | raised   -- Python raises
  | oracle   -- the observed values do not fit the control flow of the model (too few / too many)
  deriving Repr, DecidableEq

/-- a non-negative float as the exact fraction `num / den` -/
structure Frac where
  num : Nat
  den : Nat
  deriving Repr, DecidableEq

def Spec.isEmptyTup : Spec → Bool
  | .tup [] => true
  | _ => false

def hasAuto (chunks : List Spec) : Bool := chunks.any Spec.isAuto

def nAutos : List Spec → Nat
  | [] => 0
  | c :: cs => (if c.isAuto then 1 else 0) + nAutos cs

def imax (t : List Int) : Int := t.foldr max 0

/-- `(cs if isinstance(cs, Number) else max(cs)) or 1` of one non-auto entry -/
def Spec.maxW : Spec → Nat
  | .int c => orOne c.toNat
  | .flt c => orOne c.toNat
  | .tup t => orOne (imax t).toNat
  | _ => 1

/-- `largest_block`: the product over the entries that are not `"auto"` -/
def largestBlockSpec : List Spec → Nat
  | [] => 1
  | c :: cs => (if c.isAuto then 1 else c.maxW) * largestBlockSpec cs

/-- `round_to(c, s)` for `c = num/den`: `max(1, int(c))` if `c <= s`, else the float `c // s * s` -/
def roundTo (num den s : Nat) : Except AErr Spec :=
  if num ≤ s * den then .ok (.int ((max 1 (num / den) : Nat) : Int))
  else if s = 0 ∨ den = 0 then .error .raised
  else .ok (.flt ((num / (den * s) * s : Nat) : Int))

/-! ## without `previous_chunks` -/

/-- `small = [i for i in autos if shape[i] < size]` is non-empty -/
def anySmall (num den : Nat) : List Spec → List Nat → Bool
  | c :: cs, s :: ss => (c.isAuto && decide (s * den < num)) || anySmall num den cs ss
  | _, _ => false

/-- `for i in small: chunks[i] = (shape[i],)` -/
def fixSmall (num den : Nat) : List Spec → List Nat → List Spec
  | c :: cs, s :: ss => (if c.isAuto && decide (s * den < num) then Spec.tup [(s : Int)] else c) :: fixSmall num den cs ss
  | cs, [] => cs
  | [], _ => []

/-- `for i in autos: chunks[i] = round_to(size, shape[i])` -/
def roundAll (num den : Nat) : List Spec → List Nat → Except AErr (List Spec)
  | c :: cs, s :: ss =>
    match (if c.isAuto then roundTo num den s else .ok c), roundAll num den cs ss with
    | .ok c', .ok r => .ok (c' :: r)
    | .error e, _ => .error e
    | _, .error e => .error e
  | [], _ => .ok []
  | _ :: _, [] => .error .raised   -- `shape[i]` past the end

/-- the `else:` branch of `auto_chunks` with its recursion; `sizes` = the observed `size` of every level, outermost first -/
def autoNoPrev (shape : List Nat) (itemsize : Nat) : List Spec → List Frac → Except AErr (List Spec)
  | chunks, [] =>
    if !hasAuto chunks then .ok chunks
    else if itemsize = 0 then .error .raised
    else .error .oracle
  | chunks, sz :: rest =>
    if !hasAuto chunks then .error .oracle
    else if itemsize = 0 then .error .raised
    else if anySmall sz.num sz.den chunks shape then autoNoPrev shape itemsize (fixSmall sz.num sz.den chunks shape) rest
    else if rest.isEmpty then roundAll sz.num sz.den chunks shape
    else .error .oracle

/-- executable form of `SizesSound` (Lemmas/ChunksAutoLemmas.lean): every observed `size` satisfies
    `int(size) ^ k * itemsize * largest_block <= limit` at its level -/
def sizesSoundB (limit isz : Nat) (shape : List Nat) : List Spec → List Frac → Bool
  | _, [] => true
  | chunks, sz :: rest =>
    decide (0 < sz.den) &&
      decide ((sz.num / sz.den) ^ nAutos chunks * (isz * largestBlockSpec chunks) ≤ limit) &&
      sizesSoundB limit isz shape (fixSmall sz.num sz.den chunks shape) rest

/-! ## with `previous_chunks` -/

/-- what is observed when the `for a in sorted(autos)` loop reaches `if proposed > shape[a]` -/
structure AVisit where
  p : Frac   -- `proposed`
  m : Frac   -- `max_chunk_size`
  deriving Repr

/-- the aggregation loop `for c in previous_chunks[a]: if c + new_chunk <= proposed: … else: …` -/
def aggGo (pn pd : Nat) : List Nat → Nat → List Nat
  | [], nc => if nc > 0 then [nc] else []
  | c :: cs, nc =>
    if (c + nc) * pd ≤ pn then aggGo pn pd cs (nc + c)
    else (if nc > 0 then [nc] else []) ++ aggGo pn pd cs c

/-- `mode, count = max(frequencies(previous_chunks[i]).items(), key=lambda kv: kv[1])` (first maximum in
    first-occurrence order), then `mode if mode > 1 and count >= len / 2 else s` -/
def modeGo (l : List Nat) : List Nat → Nat × Nat → Nat × Nat
  | [], best => best
  | x :: xs, best => modeGo l xs (if l.count x > best.2 then (x, l.count x) else best)

def idealOf (s : Nat) (prevA : List Nat) : Nat :=
  let mc := modeGo prevA prevA.eraseDups (0, 0)
  if mc.1 > 1 ∧ 2 * mc.2 ≥ prevA.length then mc.1 else s

/-- one iteration of `for a in sorted(autos)`: `(result[a], a leaves autos, multiplier_remaining := True)` -/
def visitAxis (s : Nat) (prevA : List Nat) (ideal : Nat) (reduce : Bool) (v : AVisit) : Except AErr (Spec × Bool × Bool) :=
  if v.p.num > s * v.p.den then .ok (.tup [(s : Int)], true, true)          -- "we've hit the shape boundary"
  else if reduce || decide (maxL prevA * v.m.den > v.m.num) then
    match roundTo v.p.num v.p.den ideal with
    | .error e => .error e
    | .ok c => .ok (c, decide (v.p.num < v.p.den), decide (v.p.num < v.p.den))
  else .ok (.tup ((aggGo v.p.num v.p.den prevA 0).map Int.ofNat), false, false)

/-- the `for a in sorted(autos)` loop of one round: remaining autos, remaining observations, results so far, flag -/
def roundGo (shape : List Nat) (prev : List (List Nat)) (reduce : Bool) :
    List Nat → List AVisit → List Spec → List Nat → Bool → Except AErr (List Nat × List AVisit × List Spec × Bool)
  | [], vis, out, keep, rem => .ok (keep.reverse, vis, out, rem)
  | _ :: _, [], _, _, _ => .error .oracle
  | a :: as, v :: vis, out, keep, rem =>
    match visitAxis (shape.getD a 0) (prev.getD a []) (idealOf (shape.getD a 0) (prev.getD a [])) reduce v with
    | .error e => .error e
    | .ok (c, drop, r) => roundGo shape prev reduce as vis (out.set a c) (if drop then keep else a :: keep) (rem || r)

/-- `while multiplier_remaining`; `flags` = the observed outcomes of `multiplier != last_multiplier`, one per
    recomputation (`if multiplier_remaining or reduce_case`) -/
def prevLoop (shape : List Nat) (prev : List (List Nat)) (reduce : Bool) :
    List Bool → List Nat → List AVisit → List Spec → Except AErr (List Spec)
  | [], autos, vis, out =>
    match roundGo shape prev reduce autos vis out [] false with
    | .error e => .error e
    | .ok (_, vis', out', rem) =>
      if rem || reduce then .error .oracle
      else if vis'.isEmpty then .ok out' else .error .oracle
  | ch :: flags, autos, vis, out =>
    match roundGo shape prev reduce autos vis out [] false with
    | .error e => .error e
    | .ok (autos', vis', out', rem) =>
      if rem || reduce then
        (if rem || ch then prevLoop shape prev reduce flags autos' vis' out'
         else if vis'.isEmpty && flags.isEmpty then .ok out' else .error .oracle)
      else .error .oracle

/-- indices of the `"auto"` entries, ascending -/
def autosOf : Nat → List Spec → List Nat
  | _, [] => []
  | i, c :: cs => (if c.isAuto then [i] else []) ++ autosOf (i + 1) cs

/-- `v or 0` -/
def orZero : Spec → Spec
  | .tup [] => .int 0
  | c => c

/-- `for k, v in result.items(): chunks[k] = v or 0` (`result` has exactly the auto axes as keys) -/
def finishPrev : List Spec → List Spec → List Spec
  | c :: cs, o :: os => (if c.isAuto then orZero o else o) :: finishPrev cs os
  | _, os => os

/-- everything `auto_chunks` observes in floating point -/
structure AOracle where
  sizes : List Frac      -- no `previous_chunks`: `size` per recursion level
  reduce : Bool          -- `reduce_case = multiplier < 1`
  visits : List AVisit
  flags : List Bool
  deriving Repr

/-- `auto_chunks(chunks, shape, limit, dtype, previous_chunks)` for known shape/dtype; `prev` = the previous chunks
    after `_convert_int_chunk_to_tuple` (`none` / empty = the branch without previous chunks) -/
def autoChunks (chunks : List Spec) (shape : List Nat) (itemsize : Nat) (prev : Option (List (List Nat))) (o : AOracle) :
    Except AErr (List Spec) :=
  if !hasAuto chunks then .ok chunks
  else if chunks.any Spec.isEmptyTup then .error .raised   -- `max(cs)` of an explicit empty tuple: ValueError
  else
    match prev with
    | some (p :: ps) =>
      (match prevLoop shape (p :: ps) o.reduce o.flags (autosOf 0 chunks) o.visits chunks with
       | .error e => .error e
       | .ok out => .ok (finishPrev chunks out))
    | _ => autoNoPrev shape itemsize chunks o.sizes

end Dask.Chunks
