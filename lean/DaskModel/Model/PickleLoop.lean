/-
`_normalize_pickle` (dask/tokenize.py): the retry loop that decides whether an object pickles deterministically,
transliterated.

Python                                                        Lean
------                                                        ----
one pass of the loop body: pickle (cloudpickle for objects     `attempts : List (Option Nat)`: the digest of the bytes
  of `__main__`, cloudpickle again when pickle or the round     produced in the 1st, 2nd, 3rd pass (`none`: pickle and
  trip fail), `pik2 = hash_buffer_hex(out)`                     cloudpickle both failed → `break`)
`if pik and pik2 and pik == pik2: break`                       two consecutive passes agree: deterministic
`pik = pik2`
`else:` of the `for _ in range(3)`                             three passes without agreement: `_maybe_raise_nondeterministic`
`if pik is None: …; pik = int(uuid.uuid4())`                   nothing pickled: a random token
result `pik, [hash(buf) …]`                                    `Outcome`

Import-free.
-/
namespace Dask.PickleLoop

inductive Outcome where
  /-- the token is this digest; `flagged`: `_maybe_raise_nondeterministic` was called on the way (it raises when
      deterministic tokens are demanded, otherwise the last digest is used) -/
  | digest (d : Nat) (flagged : Bool)
  /-- nothing could be pickled: flagged, then a fresh uuid -/
  | random
  deriving DecidableEq, Repr

/-- the loop over at most `fuel` passes; `pik` is the digest of the previous pass -/
def loop : Nat → Option Nat → List (Option Nat) → Outcome
  | 0, pik, _ =>
    -- the `else` of the for loop: no two consecutive passes agreed
    match pik with
    | some d => .digest d true
    | none => .random
  | _ + 1, pik, [] =>
    -- (the harness always supplies three attempts)
    match pik with
    | some d => .digest d true
    | none => .random
  | _ + 1, pik, none :: _ =>
    -- `break` out of the loop: no `else`, the digest of the previous pass (if any) is used as it is
    match pik with
    | some d => .digest d false
    | none => .random
  | n + 1, pik, some d :: rest =>
    if pik = some d then .digest d false else loop n (some d) rest

/-- `_normalize_pickle(o)` -/
def normalizePickle (attempts : List (Option Nat)) : Outcome := loop 3 none attempts

end Dask.PickleLoop
