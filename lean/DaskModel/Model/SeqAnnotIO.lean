import DaskModel.DriverLib
import DaskModel.Model.SeqAnnot
/-!
Driver handler of the C13 annotation extension (appended to the table of `Drivers/token.lean`):
`(seqannot (op…))`, op = `((type ((key value)…))…)` ↦ the merged annotations in the same form (items in dict order).
-/
namespace Dask.SeqAnnotIO
open Dask

def decDict (e : SExp) : Option (List (Nat × Nat)) := do
  (← e.toList?).mapM (fun p => match p with
    | .list [k, v] => do pure ((← k.toNat?), (← v.toNat?))
    | _ => none)

def decAnn (e : SExp) : Option (SeqAnnot.Ann Nat Nat Nat) := do
  (← e.toList?).mapM (fun p => match p with
    | .list [t, d] => do pure ((← t.toNat?), (← decDict d))
    | _ => none)

def encAnn (a : SeqAnnot.Ann Nat Nat Nat) : SExp :=
  .list (a.map (fun e => .list [SExp.ofNat e.1, .list (e.2.map (fun p => .list [SExp.ofNat p.1, SExp.ofNat p.2]))]))

def hSeqAnnot : Handler := handler fun args =>
  match args with
  | [ops] => do
    let ops ← (← ops.toList?).mapM decAnn
    pure (encAnn (SeqAnnot.merge ops))
  | _ => none

def handlers : List (String × Handler) := [("seqannot", hSeqAnnot)]

end Dask.SeqAnnotIO
