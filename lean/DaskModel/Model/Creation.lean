import DaskModel.Model.Chunks
/-
Creation routines (dask/array/creation.py): the per-block arithmetic of `arange`, `linspace`,
`eye`, `diag` (1-d, k = 0), `tri`, over exact integers.

Fractional `start/stop/step` are rationals; multiplying them by a common denominator `D` turns
every formula below into the integer one (`ceil((stop-start)/step)` is invariant, values scale by
`D`), so the theorems over `Int` are the theorems over ℚ.  Floats: `arange`'s block plan is generic in
the arithmetic (`Arith`); binary64 itself is modelled exactly in Model/SoftFloat.lean and `da.arange`
over it in Model/CreationFloat.lean.  `linspace` is modelled over exact rationals only (its float
branch for an underflowing step — `fix: da.linspace over a denormal range …` — coincides with the main
formula in exact arithmetic); its float values are compared with NumPy bit for bit by the harness.

Python                                              Lean
------                                              ----
int(max(np.ceil((stop - start) / step), 0))         `arangeNum` (`ceilDivInt`, `Int.toNat`)
for i, bs in enumerate(chunks[0]): (offset, bs)     `linspaceOffsets` (elem_count recurrence; shared with linspace)
chunk.arange_block(start, step, offset, size)       `arangeElem`, `arangeBlockG` (after `fix: da.arange computes every
                                                    element from its global index`): `first + idx*(second - first)`,
                                                    indices 0, 1 stored as `first`, `second`; generic in the arithmetic (`Arith`):
                                                    `intArith` here, binary64 in Model/CreationFloat.lean
chunk.arange(blockstart, blockstop, step, bs)       `arangeBlocks`, `chunkArange` (`np.arange` then trim): the fallback of
                                                    `arange_block` for dtypes without index arithmetic (bool, datetime64)
linspace: one task per chunk with its global offset  `linspaceOffsets`, `linspaceBlock` (numerators over `div`)
eye: row_start / col_start / local_k / branch       `eyeBlock`, `eyeTable`
Import-free (linked into the native driver).
-/
namespace Dask.Creation
open Dask.Chunks

/-- `ceil(a / b)` for integers, `b ≠ 0` (Python: `-((-a) // b)`) -/
def ceilDivInt (a b : Int) : Int := -(Int.fdiv (-a) b)

/-- `num = int(max(np.ceil((stop - start) / step), 0))`; `step = 0` divides by zero -/
def arangeNum (start stop step : Int) : Option Nat :=
  if step = 0 then none else some (ceilDivInt (stop - start) step).toNat

/-- arguments of one `chunk.arange` task -/
structure ABlock where
  start : Int
  stop : Int
  len : Nat
  deriving Repr, DecidableEq

/-- the task loop of `arange`: `blockstart = start + elem_count*step`, `blockstop = start + (elem_count+bs)*step` -/
def arangeBlocks (start step : Int) : Nat → List Nat → List ABlock
  | _, [] => []
  | ec, bs :: rest =>
    ⟨start + (ec : Int) * step, start + ((ec + bs : Nat) : Int) * step, bs⟩ :: arangeBlocks start step (ec + bs) rest

/-- `np.arange(a, b, s)` in exact arithmetic: `ceil((b-a)/s)` values `a + j*s` -/
def npArange (a b s : Int) : List Int :=
  (List.range (ceilDivInt (b - a) s).toNat).map (fun (j : Nat) => a + (j : Int) * s)

/-- `chunk.arange`: `res = np.arange(start, stop, step); res[:-1] if len(res) > length else res` -/
def chunkArange (step : Int) (blk : ABlock) : List Int :=
  let res := npArange blk.start blk.stop step
  if res.length > blk.len then res.dropLast else res

/-- the computed blocks of `da.arange(start, stop, step, chunks=cs)` -/
def arangeValues (start step : Int) (cs : List Nat) : List (List Int) :=
  (arangeBlocks start step 0 cs).map (chunkArange step)

/-- NumPy's `arange(start, stop, step)` -/
def arangeSpec (start step : Int) (num : Nat) : List Int :=
  (List.range num).map (fun (i : Nat) => start + (i : Int) * step)

/-! ### arange after `fix: da.arange computes every element from its global index` -/

/-- the arithmetic of the computation dtype (`comp` of `chunk.arange_block`): exact integers, or binary64 -/
structure Arith (α : Type) where
  add : α → α → α
  sub : α → α → α
  mul : α → α → α
  /-- `idx.astype(comp)` -/
  ofIdx : Nat → α

/-- element `i` of the array: `res = first + idx * (second - first)`; `res[0] = first`; `res[1] = second` -/
def arangeElem {α} (A : Arith α) (first second : α) (i : Nat) : α :=
  if i = 0 then first else if i = 1 then second else A.add first (A.mul (A.ofIdx i) (A.sub second first))

/-- `chunk.arange_block(start, step, offset, size)` with `first, second = start, start + step` (in `comp`) -/
def arangeBlockG {α} (A : Arith α) (first second : α) (off size : Nat) : List α :=
  (List.range size).map (fun (j : Nat) => arangeElem A first second (off + j))

/-- the task loop of `arange`: one `chunk.arange_block` task per chunk with its global `offset` (`elem_count`) -/
def blockOffsets : Nat → List Nat → List (Nat × Nat)
  | _, [] => []
  | off, bs :: rest => (off, bs) :: blockOffsets (off + bs) rest

/-- the computed blocks of `da.arange(start, stop, step, chunks=cs)` -/
def arangeValuesG {α} (A : Arith α) (first second : α) (cs : List Nat) : List (List α) :=
  (blockOffsets 0 cs).map (fun p => arangeBlockG A first second p.1 p.2)

def intArith : Arith Int := ⟨(· + ·), (· - ·), (· * ·), fun i => (i : Int)⟩

/-- integer inputs: `first = start`, `second = start + step` -/
def arangeValuesInt (start step : Int) (cs : List Nat) : List (List Int) :=
  arangeValuesG intArith start (start + step) cs

/-! ### linspace (numerators over the common denominator `div`) -/

/-- `div = (num - 1) if endpoint else num; if div == 0: div = 1` (`-1` for `num = 0` with the endpoint) -/
def linspaceDiv (num : Nat) (endpoint : Bool) : Int :=
  let d : Int := if endpoint then (num : Int) - 1 else (num : Int)
  if d = 0 then 1 else d

/-- the task loop of `linspace` (after `fix: da.linspace computes every element from its global index`):
    one `chunk.linspace_block` task per chunk with its global `offset` -/
def linspaceOffsets : Nat → List Nat → List (Nat × Nat)
  | _, [] => []
  | off, bs :: rest => (off, bs) :: linspaceOffsets (off + bs) rest

/-- `chunk.linspace_block`: `arange(offset, offset + size) * step + start`, as numerators over `div`
    (`a = start*div`, `range = stop - start`, `step = range/div`); the last element of the whole array is
    pinned to `stop` (numerator `b = stop*div`) when `endpoint and num > 1` -/
def linspaceBlock (a b range : Int) (num : Nat) (endpoint : Bool) (off size : Nat) : List Int :=
  (List.range size).map (fun (j : Nat) =>
    if endpoint ∧ 1 < num ∧ off + j + 1 = num then b else a + ((off + j : Nat) : Int) * range)

def linspaceValues (a b range : Int) (num : Nat) (endpoint : Bool) (cs : List Nat) : List (List Int) :=
  (linspaceOffsets 0 cs).map (fun p => linspaceBlock a b range num endpoint p.1 p.2)

/-- NumPy: `arange(0, num) * step + start`, `y[-1] = stop` -/
def linspaceSpec (a b range : Int) (num : Nat) (endpoint : Bool) : List Int := linspaceBlock a b range num endpoint 0 num

/-! ### linspace over any arithmetic (what `chunk.linspace_block` computes in the result dtype) -/

/-- element `i` of `linspace`: `y = arange(offset, offset+size)`; `y = y / div * (stop - start)` if the step underflowed
    to zero else `y * step`; `y + start`; the last element of the array pinned to `stop` -/
def linspaceElemG {α} (A : Arith α) (fdiv : α → α → α) (start stop step range divv : α) (stepZero : Bool)
    (num : Nat) (endpoint : Bool) (i : Nat) : α :=
  if endpoint ∧ 1 < num ∧ i + 1 = num then stop
  else if stepZero then A.add (A.mul (fdiv (A.ofIdx i) divv) range) start
  else A.add (A.mul (A.ofIdx i) step) start

def linspaceBlockG {α} (A : Arith α) (fdiv : α → α → α) (start stop step range divv : α) (stepZero : Bool)
    (num : Nat) (endpoint : Bool) (off size : Nat) : List α :=
  (List.range size).map (fun (j : Nat) => linspaceElemG A fdiv start stop step range divv stepZero num endpoint (off + j))

def linspaceValuesG {α} (A : Arith α) (fdiv : α → α → α) (start stop step range divv : α) (stepZero : Bool)
    (num : Nat) (endpoint : Bool) (cs : List Nat) : List (List α) :=
  (blockOffsets 0 cs).map (fun p => linspaceBlockG A fdiv start stop step range divv stepZero num endpoint p.1 p.2)

/-! ### eye (after `fix: da.eye declares the chunks it builds`) -/

/-- `np.eye(n, m, k)[r, c]` -/
def npEye (k : Int) (r c : Nat) : Nat := if (c : Int) - (r : Int) = k then 1 else 0

/-- one block of `eye`: the branch taken (`np.eye` or `np.zeros`) and the local diagonal offset -/
def eyeBlock (vchunk hchunk rowStart colStart : Nat) (k : Int) : Bool × Int :=
  let localK := k - ((colStart : Int) - (rowStart : Int))
  (decide (-(vchunk : Int) < localK ∧ localK < (hchunk : Int)), localK)

/-- value of block element `(r, c)` -/
def eyeBlockVal (vchunk hchunk rowStart colStart : Nat) (k : Int) (r c : Nat) : Nat :=
  if (eyeBlock vchunk hchunk rowStart colStart k).1 then npEye (eyeBlock vchunk hchunk rowStart colStart k).2 r c else 0

def eyeRow (vchunk rowStart : Nat) (k : Int) : Nat → List Nat → List (Bool × Int)
  | _, [] => []
  | colStart, h :: hs => eyeBlock vchunk h rowStart colStart k :: eyeRow vchunk rowStart k (colStart + h) hs

/-- the whole task table, row-major: for the function-level diff against the real graph -/
def eyeTable (k : Int) (hchunks : List Nat) : Nat → List Nat → List (List (Bool × Int))
  | _, [] => []
  | rowStart, v :: vs => eyeRow v rowStart k 0 hchunks :: eyeTable k hchunks (rowStart + v) vs

/-- element `(r, c)` of the assembled array -/
def eyeDen (vchunks hchunks : List Nat) (k : Int) (r c : Nat) : Option Nat := do
  let (bi, ro) ← blockOf vchunks r
  let (bj, co) ← blockOf hchunks c
  let v ← vchunks[bi]?
  let h ← hchunks[bj]?
  pure (eyeBlockVal v h (blockStart vchunks bi) (blockStart hchunks bj) k ro co)

/-! ### diag of a 1-d array, k = 0: block `(i, j)` is `np.diag(block i)` if `i = j` else zeros -/

def diagDen {α} [Inhabited α] (zero : α) (cs : List Nat) (xs : List α) (r c : Nat) : Option α := do
  let (bi, ro) ← blockOf cs r
  let (bj, co) ← blockOf cs c
  if bi = bj then
    let blk := (splitBy cs xs).getD bi []
    pure (if ro = co then blk.getD ro zero else zero)
  else pure zero

/-! ### `diagonal` of a 2-d array (axis1 = 0, axis2 = 1): following the k-diagonal through the chunks -/

/-- one task: `np.diagonal(block (I, J), k)` producing `len` elements -/
structure DSeg where
  I : Nat
  J : Nat
  k : Int
  len : Int
  deriving Repr, DecidableEq

/-- the `while kdiag_row_start < a.shape[axis1] and kdiag_col_start < a.shape[axis2]` loop.
    `r`, `c` = global `kdiag_row_start`, `kdiag_col_start`; `none` = IndexError / fuel exhausted. -/
def diagLoop (rch cch : List Nat) (N M : Nat) : Nat → Int → Int → Nat → Nat → Option (List DSeg)
  | 0, r, c, _, _ => if r < N ∧ c < M then none else some []
  | fuel + 1, r, c, I, J =>
    if ¬ (r < N ∧ c < M) then some [] else do
      let nrows ← rch[I]?
      let ncols ← cch[J]?
      let lr : Int := r - blockStart rch I       -- kdiag_row_start -= row_starts[I]
      let lc : Int := c - blockStart cch J
      let k : Int := if lr > 0 then -lr else lc
      let rowEnd : Int := min (nrows : Int) ((ncols : Int) - k)
      let len : Int := rowEnd - lr
      let r' : Int := rowEnd + blockStart rch I
      let c' : Int := min (ncols : Int) ((nrows : Int) + k) + blockStart cch J
      let I' := if r' = ((blockStart rch I + nrows : Nat) : Int) then I + 1 else I
      let J' := if c' = ((blockStart cch J + ncols : Nat) : Int) then J + 1 else J
      let rest ← diagLoop rch cch N M fuel r' c' I' J'
      pure (⟨I, J, k, len⟩ :: rest)

/-- `diagonal(a, offset=k)` for a 2-d array chunked `(rch, cch)`: the segments, or `some []` for an empty diagonal -/
def diagonalPlan (rch cch : List Nat) (k : Int) : Option (List DSeg) :=
  let N := sum rch
  let M := sum cch
  let r0 : Int := max 0 (-k)
  let c0 : Int := max 0 k
  let rowStop : Int := min (N : Int) ((M : Int) - k)
  if rowStop - r0 ≤ 0 then some []
  else
    match blockOf rch r0.toNat, blockOf cch c0.toNat with
    | some (I, _), some (J, _) => diagLoop rch cch N M (N + M) r0 c0 I J
    | _, _ => none


/-- global positions `np.diagonal(block (I, J), k)` reads: it starts at local `(max 0 (-k), max 0 k)` -/
def segPoints (rch cch : List Nat) (s : DSeg) : List (Int × Int) :=
  (List.range s.len.toNat).map (fun (t : Nat) =>
    ((blockStart rch s.I : Int) + max 0 (-s.k) + t, (blockStart cch s.J : Int) + max 0 s.k + t))

/-- the number of elements `np.diagonal` of an `nrows × ncols` block returns for offset `k` -/
def npDiagLen (nrows ncols : Nat) (k : Int) : Int := max 0 (min ((nrows : Int) - max 0 (-k)) ((ncols : Int) - max 0 k))

def diagPoints (r c : Int) (L : Nat) : List (Int × Int) := (List.range L).map (fun (t : Nat) => (r + t, c + t))

/-! ### tri: `arange(N)[:, None] >= arange(-k, M-k)[None, :]` -/
def triSpec (k : Int) (i j : Nat) : Bool := decide ((j : Int) - k ≤ (i : Int))

end Dask.Creation
