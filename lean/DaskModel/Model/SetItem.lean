import DaskModel.Model.Slice1D
/-
K3 (assignment part): the pure integer logic of `dask/array/slicing.py::parse_assignment_indices`
and of the per-block planning inside `setitem_array`, one axis at a time.

Python                                                   Lean
------                                                   ----
parse_assignment_indices, slice branch                   `parseSlice size idx` ↦ (parsed slice, implied size, reversed?)
divmod(a, b) with b > 0                                  `a / b`, `a % b` (Int.ediv/emod = floor for b > 0)
setitem_array, "Index is a slice" branch                 `blockSlice start stop step loc0 loc1`
block_index_from_1d_index (integer numpy array)          `blockIndexInt index loc0 loc1`
value_indices_from_1d_int_index (integer numpy array)    `valueIndicesInt index loc0 loc1`
block_index_from_1d_index / …shape… / n_preceding (bool) `blockBool mask loc0 loc1`
the "reverse the indices to assignment value" loop       `reverseValueSlice size a b`
chunk locations `[(s, s + dim) …]`                       `locations lengths`
Import-free (linked into the native driver).
-/
namespace Dask.SetItem
open Dask.Slice1D

/-- `div, mod = divmod(a, step); if mod: div += 1` (step > 0) -/
def ceilDivPos (a step : Int) : Int := if a % step = 0 then a / step else a / step + 1

structure Parsed where
  index : PSlice      -- the reformatted slice (all three fields are integers)
  implied : Int       -- entry appended to `implied_shape`
  reversed : Bool     -- axis recorded in `reverse`
  deriving Repr, DecidableEq

/-- the `if step < 0:` block: a decreasing `slice(start, stop, step)` (as returned by `indices`) becomes an
    increasing slice selecting the same positions, or the zero-sized slice when nothing is selected -/
def reverseSlice (start stop step : Int) : PSlice × Bool :=
  if start ≤ stop then (PSlice.ofInts 0 0 1, false)
  else
    let step := step * (-1)
    let div := (start - stop - 1) / step
    let divStep := div * step
    let start := start - divStep
    let stop := start + divStep + 1
    (PSlice.ofInts start stop step, true)

/-- `div, mod = divmod(stop - start, step)`; zero-sized, or `div` rounded up -/
def impliedOf (start stop step : Int) : Int :=
  let div := (stop - start) / step
  let mod := (stop - start) % step
  if div = 0 ∧ mod = 0 then 0 else if mod ≠ 0 then div + 1 else div

/-- slice branch of `parse_assignment_indices` for one (already normalised) slice `idx` on an axis of
    length `size`; `none` = `idx.indices` raised (step 0). -/
def parseSlice (size : Nat) (idx : PSlice) : Option Parsed :=
  match pyIndices size idx with
  | none => none
  | some (start, stop, step) =>
    -- `if step < 0 and stop == -1: stop = None`
    let index0 : PSlice := ⟨some start, if step < 0 ∧ stop = -1 then none else some stop, some step⟩
    let ir : PSlice × Bool :=
      if step < 0 then
        match pyIndices size index0 with
        | none => (index0, false)      -- cannot happen: step ≠ 0
        | some (a, b, c) => reverseSlice a b c
      else (index0, false)
    match pyIndices size ir.1 with
    | none => none
    | some (a, b, c) => some ⟨ir.1, impliedOf a b c, ir.2⟩

/-- `[(s, s + dim) for s, dim in zip(cumsum0, chunks)]` -/
def locationsFrom (acc : Int) : List Nat → List (Int × Int)
  | [] => []
  | l :: ls => (acc, acc + l) :: locationsFrom (acc + l) ls

def locations (lengths : List Nat) : List (Int × Int) := locationsFrom 0 lengths

structure BlockSlice where
  bstart : Int
  bstop : Int
  size : Int         -- `block_index_size`
  npre : Int         -- `n_preceding`
  deriving Repr, DecidableEq

/-- "Index is a slice" branch of the per-block loop of `setitem_array` for the parsed slice
    `slice(start, stop, step)` (step > 0) and the block `[loc0, loc1)`; `none` = "does not overlap". -/
def blockSlice (start stop step loc0 loc1 : Int) : Option BlockSlice :=
  let bstop0 := loc1 - loc0
  let bstop := if stop < loc1 then bstop0 - (loc1 - stop) else bstop0
  let bstart0 := start - loc0
  let bstart := if bstart0 < 0 then bstart0 % step else bstart0
  if bstart ≥ bstop then none
  else
    let size := ceilDivPos (bstop - bstart) step
    -- pre = index.indices(loc0)
    match pyIndices loc0.toNat (PSlice.ofInts start stop step) with
    | none => none
    | some (p0, p1, _) => some ⟨bstart, bstop, size, ceilDivPos (p1 - p0) step⟩

/-- `index[np.where((loc0 <= index) & (index < loc1))[0]] - loc0` (posified integer numpy array) -/
def blockIndexInt (index : List Int) (loc0 loc1 : Int) : List Int :=
  (index.filter (fun v => decide (loc0 ≤ v) && decide (v < loc1))).map (fun v => v - loc0)

/-- positions `np.where((loc0 <= index) & (index < loc1))[0]` -/
def valueIndicesFrom (k : Nat) (loc0 loc1 : Int) : List Int → List Nat
  | [] => []
  | v :: vs => if loc0 ≤ v ∧ v < loc1 then k :: valueIndicesFrom (k + 1) loc0 loc1 vs
               else valueIndicesFrom (k + 1) loc0 loc1 vs

def valueIndicesInt (index : List Int) (loc0 loc1 : Int) : List Nat := valueIndicesFrom 0 loc0 loc1 index

def countTrue (m : List Bool) : Nat := (m.filter id).length

/-- boolean index: `(index[loc0:loc1], np.sum(index[loc0:loc1]), np.sum(index[:loc0]))` -/
def blockBool (mask : List Bool) (loc0 loc1 : Nat) : List Bool × Nat × Nat :=
  let blk := (mask.drop loc0).take (loc1 - loc0)
  (blk, countTrue blk, countTrue (mask.take loc0))

/-- the loop "reverse the indices to assignment value": `value_indices[i] = slice(a, b)` on a value
    axis of length `size` becomes `slice(size-1-a', size-1-b' or None, -1)` with `(a', b') = slice(a,b).indices(size)` -/
def reverseValueSlice (size : Nat) (a b : Int) : Option PSlice :=
  match pyIndices size ⟨some a, some b, none⟩ with
  | none => none
  | some (a', b', _) =>
    let sz : Int := (size : Int) - 1
    let start := sz - a'
    let stop := sz - b'
    some ⟨some start, if stop < 0 then none else some stop, some (-1)⟩

/-- the whole axis plan for a parsed slice: per block `none` (untouched) or the block slice -/
def axisPlanSlice (lengths : List Nat) (start stop step : Int) : List (Option BlockSlice) :=
  (locations lengths).map fun (l0, l1) => blockSlice start stop step l0 l1

end Dask.SetItem
