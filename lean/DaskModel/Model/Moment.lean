import DaskModel.Model.ArrayReduce
/-
`da.var` / `da.std` / `da.moment(order=2)` (`dask/array/reductions.py`: `moment_chunk`, `moment_combine`, `moment_agg`,
`_moment_helper` at order 2) over exact rationals.

Python                                                            Lean
------                                                            ----
moment_chunk: n = numel(A); total = sum(A); u = total / n;        `momChunk`  (a block = its element list; `n = 0` gives
  M = sum((A - u) ** 2)                                             total 0 and M 0 — the sums over no element)
moment_combine: n = Σ ns; total = Σ totals; mu = total / n;       `momCombine`
  inner = where(ns == 0, 0, totals / ns - mu);
  M = Σ Ms + Σ ns * inner ** 2          (_moment_helper, order 2)
moment_agg: the same merge, then M / (n - ddof), nan when          `momAgg ddof` (`none` = the degrees of freedom are ≤ 0: NumPy
  n - ddof < 0 (division by zero when n = ddof)                      returns nan or ±inf with a warning — undefined value)
np.var(x, ddof)                                                   `varSpec ddof`
Divisions are only evaluated where the code evaluates them with a non-zero divisor (`x / 0 = 0` of `Rat` is never
relied upon: `inner` is guarded by `ns == 0` exactly as the code's `np.where`, `mu` is only used under that guard or
multiplied by `n = 0`).  Import-free of Mathlib.
-/
namespace Dask.Moment
open Dask.ArrayReduce

structure P where
  n : Nat
  total : Rat
  m2 : Rat
  deriving Repr, DecidableEq

def rsum (xs : List Rat) : Rat := xs.foldr (· + ·) 0
def nsum (xs : List Nat) : Nat := xs.foldr (· + ·) 0

/-- Σ (x - c)² -/
def sqdev (c : Rat) (xs : List Rat) : Rat := rsum (xs.map fun x => (x - c) * (x - c))

def momChunk (b : List Rat) : P :=
  let t := rsum b
  ⟨b.length, t, sqdev (t / (b.length : Nat)) b⟩

def inner (mu : Rat) (p : P) : Rat := if p.n = 0 then 0 else p.total / (p.n : Nat) - mu

def momCombine (ps : List P) : P :=
  let n := nsum (ps.map (·.n))
  let t := rsum (ps.map (·.total))
  let mu := t / (n : Nat)
  ⟨n, t, rsum (ps.map (·.m2)) + rsum (ps.map fun p => (p.n : Nat) * (inner mu p * inner mu p))⟩

def momAgg (ddof : Nat) (ps : List P) : Option Rat :=
  let c := momCombine ps
  if c.n ≤ ddof then none else some (c.m2 / ((c.n - ddof : Nat) : Rat))

/-- `np.var(xs, ddof=ddof)` -/
def varSpec (ddof : Nat) (xs : List Rat) : Option Rat :=
  if xs.length ≤ ddof then none
  else some (sqdev (rsum xs / (xs.length : Nat)) xs / ((xs.length - ddof : Nat) : Rat))

def redVar (ddof : Nat) : Red Rat P (Option Rat) := ⟨fun b => some (momChunk b), momCombine, momAgg ddof⟩

end Dask.Moment
