import DaskModel.DriverLib
import DaskModel.Model.LocList
/-! Driver handlers of the C41 extension (`LocList` / `LocElement`); kept out of `Drivers/dfpart.lean`.
    Import-free of Mathlib. -/
namespace Dask.LocList
open Dask Dask.Divs

def rows? (e : SExp) : Option (List (Nat × Nat)) := do
  (← e.toList?).mapM fun r => match r with
    | .list [k, v] => do pure (← k.toNat?, ← v.toNat?)
    | _ => none

def parts? (e : SExp) : Option (List (List (Nat × Nat))) := do (← e.toList?).mapM rows?

def ofItems (items : List (Nat × List Nat)) : SExp :=
  .list (items.map fun e => .list [SExp.ofNat e.1, SExp.ofNats e.2])

/-- `(loclist-plan (divs…) (labels…))` ↦
    `(items loop-items (known (d…))|(unknown) (lowered (sel…) (d'…) items')|(same)|(partitions-raised))` -/
def hLocListPlan : Handler := handler fun
  | [ds, ls] => do
    let divs ← ds.toNats?
    let labels ← ls.toNats?
    let items := routeItems divs labels
    let dv := match locListDivs items with
      | some d => SExp.list [.sym "known", SExp.ofNats d]
      | none => .list [.sym "unknown"]
    let low := match locListLowerSel (divs.length - 1) items with
      | none => SExp.list [.sym "same"]
      | some _ => match locListLowered divs labels with
        | some (sel, d', items') => .list [.sym "lowered", SExp.ofNats sel, SExp.ofNats d', ofItems items']
        | none => .list [.sym "partitions-raised"]
    pure (.list [ofItems items, ofItems (routeLoop divs labels), dv, low])
  | _ => none

/-- `(loclist-parts (divs…) (labels…) parts)`, a partition = `(key id)` rows ↦ `(ok ((ids…)…))` | `(raised)` -/
def hLocListParts : Handler := handler fun
  | [ds, ls, ps] => do
    let divs ← ds.toNats?
    let labels ← ls.toNats?
    let parts ← parts? ps
    match locListParts (fun r : Nat × Nat => r.1) parts (routeItems divs labels) with
    | some out => pure (.list [.sym "ok", SExp.ofNatss (out.map (·.map (·.2)))])
    | none => pure (.list [.sym "raised"])
  | _ => none

/-- `(locelem (divs…) x parts)` ↦ `(raised)` | `(ok part (x x) (ids…) (sel…)|none)` -/
def hLocElem : Handler := handler fun
  | [ds, x, ps] => do
    let divs ← ds.toNats?
    let x ← x.toNat?
    let parts ← parts? ps
    match locElement divs x with
    | none => pure (.list [.sym "raised"])
    | some (part, d) =>
      match locElementParts (fun r : Nat × Nat => r.1) parts part x with
      | some [rows] =>
        let sel := match locElementLowerSel divs x with
          | some s => SExp.ofNats s
          | none => .sym "none"
        pure (.list [.sym "ok", SExp.ofNat part, SExp.ofNats d, SExp.ofNats (rows.map (·.2)), sel])
      | _ => pure (.list [.sym "raised"])
  | _ => none

def handlers : List (String × Handler) :=
  [("loclist-plan", hLocListPlan), ("loclist-parts", hLocListParts), ("locelem", hLocElem)]

end Dask.LocList
