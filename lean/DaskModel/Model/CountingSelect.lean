import DaskModel.Model.Counting
/-
`digitize`, `compress`, `extract` (C27, dask/array/routines.py).

Python                                                              Lean
------                                                              ----
a.map_blocks(np.digitize, bins=bins, right=right)                    `daDigitize` (block by block)
np.digitize: mono = _monotonicity(bins) (ValueError when 0);
  side = 'left' if right else 'right';
  mono == -1:  len(bins) - searchsorted(bins[::-1], x, side)
  else:        searchsorted(bins, x, side)                           `isInc`, `isDec`, `digitize1`
compress(condition, a, axis): a = a[:len(condition)] along the axis,
  then a[condition]; a dask condition goes through
  slice_with_bool_dask_array = blockwise(getitem) on the chunks
  common to the axis and the condition                              `compress`, `compressChunked cs`
  (a NumPy condition may be longer than the axis if its surplus is False) `compressNp`
extract(condition, arr) = compress(condition.ravel(), arr.ravel())   `extract`
Values are `Nat`; `np.searchsorted` on a sorted list is specified as a count (`sidePred`).
Import-free (linked into the native driver).
-/
namespace Dask.Counting
open Dask.Chunks

/-! ### digitize -/

def isInc : List Nat → Bool
  | a :: b :: t => decide (a ≤ b) && isInc (b :: t)
  | _ => true

def isDec : List Nat → Bool
  | a :: b :: t => decide (b ≤ a) && isDec (b :: t)
  | _ => true

/-- `np.digitize(x, bins, right)` for one element; `none` = "bins must be monotonically increasing or decreasing".
    (`side='right'` counts the bins `≤ x`, `side='left'` the bins `< x`.) -/
def digitize1 (right : Bool) (bins : List Nat) (x : Nat) : Option Nat :=
  if isInc bins then some (bins.countP (sidePred (!right) x))
  else if isDec bins then some (bins.length - bins.reverse.countP (sidePred (!right) x))
  else none

def optMapM {γ δ} (g : γ → Option δ) : List γ → Option (List δ)
  | [] => some []
  | x :: xs => match g x, optMapM g xs with
    | some y, some ys => some (y :: ys)
    | _, _ => none

/-- `da.digitize(a, bins, right)`: `np.digitize` on every block -/
def daDigitize (right : Bool) (bins : List Nat) (blocks : List (List Nat)) : Option (List (List Nat)) :=
  optMapM (optMapM (digitize1 right bins)) blocks

/-! ### compress / extract -/

/-- boolean selection: the elements of `xs` whose partner in `cond` is true (NumPy's `xs[cond]`, equal lengths) -/
def selectBy {α} (cond : List Bool) (xs : List α) : List α := ((cond.zip xs).filter (·.1)).map (·.2)

/-- `np.compress(cond, xs)` along the axis: a condition shorter than the axis is padded with `False`;
    `none` = the condition is longer than the axis (IndexError / ValueError in dask) -/
def compress {α} (cond : List Bool) (xs : List α) : Option (List α) :=
  if xs.length < cond.length then none else some (selectBy cond (xs.take cond.length))

/-- `da.compress` with a dask condition: the axis is cut to `len(cond)`, axis and condition are brought to the common
    chunks `cs` (blockwise / unify_chunks), every block is indexed by its block of the condition -/
def compressChunked {α} (cs : List Nat) (cond : List Bool) (xs : List α) : Option (List (List α)) :=
  if xs.length < cond.length then none
  else some (List.zipWith selectBy (splitBy cs cond) (splitBy cs (xs.take cond.length)))

/-- `da.compress` with a NumPy condition (its values are known when the graph is built): surplus entries beyond the
    axis must all be False (`none` = IndexError, as in NumPy), then the condition is cut to the axis -/
def compressNp {α} (cond : List Bool) (xs : List α) : Option (List α) :=
  if (cond.drop xs.length).any id then none
  else some (selectBy (cond.take xs.length) (xs.take (cond.take xs.length).length))

/-- `da.extract(cond, arr)` on the C-order flattenings -/
def extract {α} (condFlat : List Bool) (arrFlat : List α) : Option (List α) := compress condFlat arrFlat

end Dask.Counting
