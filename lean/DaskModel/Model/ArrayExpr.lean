/-
C30: a small model of the array expression engine (`dask/array/_array_expr`), 1-d integer arrays.

Python                                                       Lean
------                                                       ----
FromArray / Elemwise(neg) / Elemwise(add) /                  `AE` constructors `leaf un bin binS slice rechunk concat finalize`
  (unary neg/abs/square, binary add/sub/mul/maximum, array ∘ scalar)
  SliceSlicesIntegers (step 1) / Rechunk, TasksRechunk /
  Concatenate / FinalizeComputeArray
`.chunks` of every node                                      `chunks` (`common_blockdim` of two known chunkings = `refine`;
                                                              slicing chunk arithmetic = `sliceChunks`)
the NumPy value the node denotes                             `den` (`none` = the construction raises: inconsistent shapes/chunks)
rewrite rules present in this tree:
  Rechunk._lower: chunks already equal → the operand          `rootRewrites` (rechunk elision)
  FinalizeComputeArray._simplify_down: ≤ 1 block → operand,   `rootRewrites` (finalize)
      else Rechunk(arr, all -1)
  Elemwise._lower (unify_chunks_expr): wrap the operands      `rootRewrites` (add: align to `refine`)
      whose chunks differ from the common chunks in Rechunk
  Rechunk → TasksRechunk (physical node)                      same constructor (`rechunk`)
one `simplify_once` / `lower_once` pass over the tree         `parStep` (≤ 2 root rewrites, then the children)
Import-free.
-/
namespace Dask.ArrayExpr

inductive UnOp where | neg | abs | square
  deriving Repr, BEq, DecidableEq
inductive BinOp where | add | sub | mul | max
  deriving Repr, BEq, DecidableEq

def UnOp.fn : UnOp → Int → Int
  | .neg => fun v => -v
  | .abs => fun v => if v < 0 then -v else v
  | .square => fun v => v * v

def BinOp.fn : BinOp → Int → Int → Int
  | .add => (· + ·)
  | .sub => (· - ·)
  | .mul => (· * ·)
  | .max => fun a b => if a < b then b else a

inductive AE where
  | leaf (d : List Int) (c : List Nat)
  | un (op : UnOp) (a : AE)
  | bin (op : BinOp) (a b : AE)
  | binS (op : BinOp) (a : AE) (s : Int)
  | slice (s e : Nat) (a : AE)
  | rechunk (c : List Nat) (a : AE)
  | concat (a b : AE)
  | finalize (a : AE)
  deriving Repr, BEq, DecidableEq

/-- common refinement of two chunkings of the same length (`common_blockdim` for known sizes) -/
def refine : Nat → List Nat → List Nat → List Nat
  | 0, _, _ => []
  | _ + 1, [], _ => []
  | _ + 1, as, [] => as
  | fuel + 1, a :: as, b :: bs =>
    if a = b then a :: refine fuel as bs
    else if a < b then a :: refine fuel as ((b - a) :: bs)
    else b :: refine fuel ((a - b) :: as) bs

def refine' (as bs : List Nat) : List Nat := refine (as.length + bs.length) as bs

/-- chunk lengths of `x[s:e]`: the positive overlaps of the blocks with `[s, e)` -/
def sliceChunksAux (s e : Nat) : Nat → List Nat → List Nat
  | _, [] => []
  | off, c :: cs =>
    let lo := max off s
    let hi := min (off + c) e
    if lo < hi then (hi - lo) :: sliceChunksAux s e (off + c) cs else sliceChunksAux s e (off + c) cs

def sliceChunks (s e : Nat) (cs : List Nat) : List Nat :=
  match sliceChunksAux s e 0 cs with
  | [] => [0]
  | r => r

def isum (xs : List Nat) : Nat := xs.foldr (· + ·) 0

def chunks : AE → List Nat
  | .leaf _ c => c
  | .un _ a => chunks a
  | .bin _ a b => refine' (chunks a) (chunks b)
  | .binS _ a _ => chunks a
  | .slice s e a => sliceChunks s e (chunks a)
  | .rechunk c _ => c
  | .concat a b => chunks a ++ chunks b
  | .finalize a => [isum (chunks a)]

def den : AE → Option (List Int)
  | .leaf d c => if isum c = d.length then some d else none
  | .un op a => (den a).map (List.map op.fn)
  | .bin op a b =>
    match den a, den b with
    | some xs, some ys => if xs.length = ys.length then some (List.zipWith op.fn xs ys) else none
    | _, _ => none
  | .binS op a s => (den a).map (List.map (fun v => op.fn v s))
  | .slice s e a => (den a).map fun xs => (xs.drop s).take (e - s)
  | .rechunk c a =>
    match den a with
    | some xs => if isum c = xs.length then some xs else none
    | none => none
  | .concat a b =>
    match den a, den b with
    | some xs, some ys => some (xs ++ ys)
    | _, _ => none
  | .finalize a => den a

def wrap (c : List Nat) (x : AE) : AE := if chunks x = c then x else .rechunk c x

/-- the node itself plus what a single application of one of the engine's rules at the root gives -/
def rootRewrites (e : AE) : List AE :=
  match e with
  | .rechunk c a => if c = chunks a then [e, a] else [e]
  | .finalize a => [e, if (chunks a).length ≤ 1 then a else .rechunk [isum (chunks a)] a]
  | .bin op a b =>
    let c := refine' (chunks a) (chunks b)
    [e, .bin op (wrap c a) (wrap c b)]
  | _ => [e]

def rootRewrites2 (e : AE) : List AE := (rootRewrites e).flatMap rootRewrites

/-- `after` results from `before` by one optimizer pass: up to two rule applications at the root,
    then (recursively) passes on the children. Structural recursion on `after`. -/
def parStep : AE → AE → Bool
  | e, .leaf d c => (rootRewrites2 e).any fun r => match r with | .leaf d' c' => d' == d && c' == c | _ => false
  | e, .un op' a' => (rootRewrites2 e).any fun r => match r with | .un op a => decide (op = op') && parStep a a' | _ => false
  | e, .bin op' a' b' => (rootRewrites2 e).any fun r => match r with | .bin op a b => decide (op = op') && parStep a a' && parStep b b' | _ => false
  | e, .binS op' a' s' => (rootRewrites2 e).any fun r => match r with | .binS op a s => decide (op = op') && s == s' && parStep a a' | _ => false
  | e, .slice s' e' a' => (rootRewrites2 e).any fun r => match r with | .slice s t a => s == s' && t == e' && parStep a a' | _ => false
  | e, .rechunk c' a' => (rootRewrites2 e).any fun r => match r with | .rechunk c a => c == c' && parStep a a' | _ => false
  | e, .concat a' b' => (rootRewrites2 e).any fun r => match r with | .concat a b => parStep a a' && parStep b b' | _ => false
  | e, .finalize a' => (rootRewrites2 e).any fun r => match r with | .finalize a => parStep a a' | _ => false

end Dask.ArrayExpr
