import DaskModel.Model.Sched
/-
`dask/cache.py::Cache` - the cost bookkeeping (`_pretask`, `_posttask`, `_finish`), as a fold over the callback events.

Python                                                          Lean
------                                                          ----
`self.starttimes[key] = default_timer()`                        `starts.set k t`
`duration = default_timer() - self.starttimes[key]`             `t - st`  (`KeyError` when there was no pretask)
`if deps: duration += max(self.durations.get(k, 0) for k in deps)`   `+ maxDur durs deps`  (0 for no dependencies)
`self.durations[key] = duration`                                `durs.set k d`
`self.cache.put(key, value, cost=duration / nb / 1e9, …)`       `puts ++ [(k, d)]`  (the duration the cost is made of)
`_finish`: `starttimes.clear(); durations.clear()`              `starts := [], durs := []`
-/
namespace Dask.Diag
open Dask.Sched

inductive CEv where
  | pre (k : Key) (t : Nat)
  | post (k : Key) (t : Nat) (deps : List Key)
  | finish
  deriving Repr

structure CostSt where
  starts : Map Nat := []
  durs : Map Nat := []
  puts : List (Key × Nat) := []
  deriving Repr

/-- `self.durations.get(k, 0)` -/
def durOf (durs : Map Nat) (k : Key) : Nat := (durs.get? k).getD 0

/-- `max(self.durations.get(k, 0) for k in deps)`, 0 when there are no dependencies -/
def maxDur (durs : Map Nat) : List Key → Nat
  | [] => 0
  | d :: ds => max (durOf durs d) (maxDur durs ds)

def costStep (s : CostSt) : CEv → Except Err CostSt
  | .pre k t => .ok { s with starts := s.starts.set k t }
  | .post k t deps =>
    match s.starts.get? k with
    | none => .error (.keyError .result)
    | some st =>
      .ok { s with durs := s.durs.set k ((t - st) + maxDur s.durs deps),
                   puts := s.puts ++ [(k, (t - st) + maxDur s.durs deps)] }
  | .finish => .ok { s with starts := [], durs := [] }

def costRun : CostSt → List CEv → Except Err CostSt
  | s, [] => .ok s
  | s, e :: rest =>
    match costStep s e with
    | .ok s' => costRun s' rest
    | .error err => .error err

def postKey : CEv → Option Key
  | .post k _ _ => some k
  | _ => none

end Dask.Diag
