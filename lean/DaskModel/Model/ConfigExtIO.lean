import DaskModel.DriverLib
import DaskModel.Model.ConfigSpec
import DaskModel.Model.ConfigInterp
/-
Driver handlers of the C17 extension round (appended to the table of `Drivers/stores.lean`):
`cfg-nd-expect` — `update(old, new, "new-defaults", defaults)` next to the specification `ndExpect` for a list of paths;
`iv-interp` / `iv-repr` — `interpret_value` and `repr` on the modelled literal grammar (`Model/ConfigInterp.lean`).
No Mathlib.
-/
namespace Dask.ConfigExt
open Dask Dask.Config

partial def toCfg? : SExp → Option Cfg
  | .int i => some (.leaf i)
  | .list items => do
    let kvs ← items.mapM fun it =>
      match it with
      | .list [k, v] => do pure ((← k.toStr?), (← toCfg? v))
      | _ => none
    pure (.node kvs)
  | _ => none

def toDict? (e : SExp) : Option Dict := do
  match ← toCfg? e with
  | .node d => some d
  | .leaf _ => none

partial def ofCfg : Cfg → SExp
  | .leaf i => .int i
  | .node d => .list (d.map fun kv => .list [.str kv.1, ofCfg kv.2])

def toDflt? : SExp → Option (Option Cfg)
  | .sym "none" => some none
  | e => (toCfg? e).map some

/-- `(cfg-nd-expect old new defaults|none ((path c) …))` ↦
    `(clean? (ok result)|(raised) ((canonical-path expected) …))` -/
def hNdExpect : Handler := handler fun args =>
  match args with
  | [old, new, dflt, qs] => do
    let old ← toDict? old
    let new ← toDict? new
    let dflt ← toDflt? dflt
    let qs ← (← qs.toList?).mapM fun q =>
      match q with
      | .list [p, c] => do pure ((← (← p.toList?).mapM SExp.toStr?), (← c.toInt?))
      | _ => none
    let res := match update .newDefaults old new dflt with
      | some d => SExp.list [.sym "ok", ofCfg (.node d)]
      | none => SExp.list [.sym "raised"]
    pure (.list [SExp.ofBool (cleanDB new), res,
      .list (qs.map fun pc => .list [.list ((canonPath pc.1 old).map .str), ofCfg (ndExpect pc.2 pc.1 old dflt)])])
  | _ => none

/-! ### interpret_value.  Wire format of a literal: `(i n)`, `(f neg "int-part" "frac-part")`, `(b true|false)`, `(n)`,
`(s "text")`, `(l (items…))`, `(d ((key value)…))`. -/
open Dask.Interp in
partial def ofLit : Lit → SExp
  | .int i => .list [.sym "i", .int i]
  | .flt neg ip fp => .list [.sym "f", SExp.ofBool neg, .str (String.ofList ip), .str (String.ofList fp)]
  | .bool b => .list [.sym "b", SExp.ofBool b]
  | .none => .list [.sym "n"]
  | .str s => .list [.sym "s", .str (String.ofList s)]
  | .list xs => .list [.sym "l", .list (xs.map ofLit)]
  | .dict kvs => .list [.sym "d", .list (kvs.map fun kv => .list [ofLit kv.1, ofLit kv.2])]

open Dask.Interp in
partial def toLit? : SExp → Option Lit
  | .list [.sym "i", .int i] => some (.int i)
  | .list [.sym "f", neg, ip, fp] => do pure (.flt (← neg.toBool?) (← ip.toStr?).toList (← fp.toStr?).toList)
  | .list [.sym "b", b] => do pure (.bool (← b.toBool?))
  | .list [.sym "n"] => some .none
  | .list [.sym "s", s] => do pure (.str (← s.toStr?).toList)
  | .list [.sym "l", .list xs] => do pure (.list (← xs.mapM toLit?))
  | .list [.sym "d", .list kvs] => do
    let ps ← kvs.mapM fun kv =>
      match kv with
      | .list [k, v] => do pure ((← toLit? k), (← toLit? v))
      | _ => none
    pure (.dict ps)
  | _ => none

/-- `(iv-interp "text")` ↦ `(in-scope? (lit L)|(raw "text"))` -/
def hInterp : Handler := handler fun args =>
  match args with
  | [s] => do
    let cs := (← s.toStr?).toList
    let r := match Dask.Interp.interpretValue cs with
      | .lit v => SExp.list [.sym "lit", ofLit v]
      | .raw t => SExp.list [.sym "raw", .str (String.ofList t)]
    pure (.list [SExp.ofBool (Dask.Interp.inScope cs), r])
  | _ => none

/-- `(iv-repr L)` ↦ `"repr(L)"` -/
def hRepr : Handler := handler fun args =>
  match args with
  | [l] => do pure (.str (String.ofList (Dask.Interp.reprLit (← toLit? l))))
  | _ => none

def handlers : List (String × Handler) := [("cfg-nd-expect", hNdExpect), ("iv-interp", hInterp), ("iv-repr", hRepr)]

end Dask.ConfigExt
