import DaskModel.DriverLib
import DaskModel.Model.ConfigSpec
/-
Driver handlers of the C17 extension round (appended to the table of `Drivers/stores.lean`):
`cfg-nd-expect` — `update(old, new, "new-defaults", defaults)` next to the specification `ndExpect` for a list of paths.
No Mathlib.
-/
namespace Dask.ConfigExt
open Dask Dask.Config

partial def toCfg? : SExp → Option Cfg
  | .int i => some (.leaf i)
  | .list items => do
    let kvs ← items.mapM fun it =>
      match it with
      | .list [k, v] => do pure ((← k.toStr?), (← toCfg? v))
      | _ => none
    pure (.node kvs)
  | _ => none

def toDict? (e : SExp) : Option Dict := do
  match ← toCfg? e with
  | .node d => some d
  | .leaf _ => none

partial def ofCfg : Cfg → SExp
  | .leaf i => .int i
  | .node d => .list (d.map fun kv => .list [.str kv.1, ofCfg kv.2])

def toDflt? : SExp → Option (Option Cfg)
  | .sym "none" => some none
  | e => (toCfg? e).map some

/-- `(cfg-nd-expect old new defaults|none ((path c) …))` ↦
    `(clean? (ok result)|(raised) ((canonical-path expected) …))` -/
def hNdExpect : Handler := handler fun args =>
  match args with
  | [old, new, dflt, qs] => do
    let old ← toDict? old
    let new ← toDict? new
    let dflt ← toDflt? dflt
    let qs ← (← qs.toList?).mapM fun q =>
      match q with
      | .list [p, c] => do pure ((← (← p.toList?).mapM SExp.toStr?), (← c.toInt?))
      | _ => none
    let res := match update .newDefaults old new dflt with
      | some d => SExp.list [.sym "ok", ofCfg (.node d)]
      | none => SExp.list [.sym "raised"]
    pure (.list [SExp.ofBool (cleanDB new), res,
      .list (qs.map fun pc => .list [.list ((canonPath pc.1 old).map .str), ofCfg (ndExpect pc.2 pc.1 old dflt)])])
  | _ => none

def handlers : List (String × Handler) := [("cfg-nd-expect", hNdExpect)]

end Dask.ConfigExt
