/-
K10' (dfrows): frames as row lists, partitioned frames, and the row-wise / elementwise fragment of
dask-expr (`Blockwise`/`Elemwise`, `Projection`, `Filter`, `Assign`, arithmetic/comparison, `Fillna`,
`Clip`, `Where`/`Mask`, `Isin`, `Abs`, `astype(bool→int)`), `dask/dataframe/dask_expr/_expr.py`.

Python                                             Lean
------                                             ----
a numeric cell, NaN                                `Cell = Option Int` (`none` = NaN)
a row (index label, values in column order)        `Row`
pandas frame / one partition                       `Frame = List Row`
dask frame (partitions in order, divisions)        `PFrame`;  denotation `den` = concatenation
`Blockwise._task(name, i)`: op(arg_i…)             `mapParts` (unary), `zipParts` (co-partitioned binary),
                                                   broadcast of a 1-partition lower-dim dependency = a constant
column expression trees (`Add(Projection(f,'a'), 1)`) `CE` / `BE` evaluated per row
`df[cols]`, `df[pred]`, `df.assign`                `Op.project`, `Op.filter`, `Op.assign`
pandas' semantics of each elementwise op on one block is the Lean `eval` (validated against pandas
on every run); what is PROVED is that applying it per partition equals applying it to the whole.
Import-free (linked into the native driver).
-/
namespace Dask.Frame

abbrev Cell := Option Int

structure Row where
  idx : Int
  cells : List Cell
  deriving DecidableEq, Repr

abbrev Frame := List Row

structure PFrame where
  parts : List Frame
  divisions : Option (List Int) := none
  deriving Repr

/-- the pandas frame a dask frame stands for -/
def PFrame.den (pf : PFrame) : Frame := pf.parts.flatten

/-- a unary `Blockwise` expression: partition `i` of the result is `f (partition i)`; divisions kept -/
def PFrame.mapParts (f : Frame → Frame) (pf : PFrame) : PFrame :=
  { parts := pf.parts.map f, divisions := pf.divisions }

/-- a binary `Blockwise` expression over two co-partitioned collections (same `divisions`, same
    partition count): partition `i` is `op (a_i) (b_i)` -/
def zipParts (op : List α → List β → List γ) : List (List α) → List (List β) → List (List γ)
  | a :: as, b :: bs => op a b :: zipParts op as bs
  | _, _ => []

inductive Cmp where
  | lt | le | gt | ge | eq | ne
  deriving DecidableEq, Repr

def Cmp.app : Cmp → Int → Int → Bool
  | .lt, a, b => a < b
  | .le, a, b => a ≤ b
  | .gt, a, b => a > b
  | .ge, a, b => a ≥ b
  | .eq, a, b => a == b
  | .ne, a, b => a != b

mutual
/-- numeric column expressions -/
inductive CE where
  | col (i : Nat)
  | lit (k : Int)
  | add (a b : CE)
  | sub (a b : CE)
  | mul (a b : CE)
  | neg (a : CE)
  | abs (a : CE)
  | fillna (a : CE) (k : Int)
  | clip (a : CE) (lo hi : Int)
  | whereE (c : BE) (a other : CE)      -- `a.where(c, other)`
  | maskE (c : BE) (a other : CE)       -- `a.mask(c, other)`
  | ofBool (c : BE)                     -- `c.astype(int)`
/-- boolean column expressions -/
inductive BE where
  | cmp (op : Cmp) (a b : CE)
  | isin (a : CE) (vals : List Int)
  | isna (a : CE)
  | and (a b : BE)
  | or (a b : BE)
  | not (a : BE)
end

def lift2 (f : Int → Int → Int) : Cell → Cell → Cell
  | some a, some b => some (f a b)
  | _, _ => none

mutual
def CE.eval : CE → List Cell → Cell
  | .col i, r => (r[i]?).getD none
  | .lit k, _ => some k
  | .add a b, r => lift2 (· + ·) (a.eval r) (b.eval r)
  | .sub a b, r => lift2 (· - ·) (a.eval r) (b.eval r)
  | .mul a b, r => lift2 (· * ·) (a.eval r) (b.eval r)
  | .neg a, r => (a.eval r).map (fun v => -v)
  | .abs a, r => (a.eval r).map (fun v => (v.natAbs : Int))
  | .fillna a k, r => some ((a.eval r).getD k)
  | .clip a lo hi, r => (a.eval r).map (fun v => if v < lo then lo else if hi < v then hi else v)
  | .whereE c a o, r => if c.eval r then a.eval r else o.eval r
  | .maskE c a o, r => if c.eval r then o.eval r else a.eval r
  | .ofBool c, r => some (if c.eval r then 1 else 0)
def BE.eval : BE → List Cell → Bool
  | .cmp op a b, r =>
    match a.eval r, b.eval r with
    | some x, some y => op.app x y
    | _, _ => op == .ne          -- comparisons with NaN are False, `!=` is True
  | .isin a vals, r => match a.eval r with | some x => vals.contains x | none => false
  | .isna a, r => (a.eval r).isNone
  | .and a b, r => a.eval r && b.eval r
  | .or a b, r => a.eval r || b.eval r
  | .not a, r => !(a.eval r)
end

/-- frame-level row-wise operations -/
inductive Op where
  | project (cols : List Nat)          -- `df[[…]]`
  | filter (p : BE)                    -- `df[pred]`
  | assign (j : Nat) (e : CE)          -- replace column `j`, or append when `j = ncols`


def setCol (cells : List Cell) (j : Nat) (v : Cell) : List Cell :=
  if j < cells.length then cells.set j v else cells ++ [v]

def Op.applyRow : Op → Row → Option Row
  | .project cols, r => some { r with cells := cols.map (fun i => (r.cells[i]?).getD none) }
  | .filter p, r => if p.eval r.cells then some r else none
  | .assign j e, r => some { r with cells := setCol r.cells j (e.eval r.cells) }

/-- pandas on one block: every row independently, order and index kept -/
def Op.apply (op : Op) (f : Frame) : Frame := f.filterMap op.applyRow

def pipeline (ops : List Op) (f : Frame) : Frame := ops.foldl (fun acc op => op.apply acc) f

/-- dask: each op is a `Blockwise` expression, i.e. applied to every partition -/
def daskPipeline (ops : List Op) (pf : PFrame) : PFrame := ops.foldl (fun acc op => acc.mapParts op.apply) pf

/-- a series (one column with its index) as a block -/
abbrev SBlock := List (Int × Cell)

/-- `Filter(frame, predicate)` on one block where predicate is a co-indexed boolean series -/
def maskBlock : Frame → List Bool → Frame
  | r :: rs, b :: bs => if b then r :: maskBlock rs bs else maskBlock rs bs
  | _, _ => []

end Dask.Frame
