import DaskModel.Model.PyStr
import DaskModel.Model.Bytes
/-
`dask.utils.key_split` for a `str` argument (bytes are decoded, tuples use their first element, anything else that
raises inside the `try` gives `"Other"`), ASCII only.

Python                                          Lean
------                                          ----
`s.split("-")`                                  `splitL '-'`
`words[0][0]`  (IndexError → "Other")           pattern match on the first word
`words[0].split(",")[0].strip("_'()\"")`        `stripSet`
`word.isalpha()`                                non-empty, all letters
`hex_pattern.match(word)` (`[a-f]+` at start)   first character in `a..f`
`re.match(r"[a-f0-9]{32}", result)`             all 32 characters in `[a-f0-9]`
`result.strip("<>").split()[0].split(".")[-1]`  `stripSet`, first whitespace-separated token (IndexError → "Other"),
                                                last dot-separated piece
-/
namespace Dask.KeySplit
open Dask.PyStr Dask.Bytes

def stripLeft (set : List Char) : List Char → List Char
  | [] => []
  | c :: r => if set.contains c then stripLeft set r else c :: r

/-- `s.strip(chars)` -/
def stripSet (set : List Char) (cs : List Char) : List Char :=
  (stripLeft set (stripLeft set cs).reverse).reverse

def isSpace (c : Char) : Bool := c = ' ' || c = '\t' || c = '\n' || c = '\r' || c = '\x0b' || c = '\x0c'

/-- `s.split()[0]`; `none` = IndexError (no token) -/
def firstToken (cs : List Char) : Option (List Char) :=
  match cs.dropWhile isSpace with
  | [] => none
  | r => some (r.takeWhile (fun c => !isSpace c))

def isWordAlpha (w : List Char) : Bool := !w.isEmpty && w.all isAlpha

def isHexLower (c : Char) : Bool := 'a' ≤ c && c ≤ 'f'

/-- `len(word) == 8 and hex_pattern.match(word) is not None` -/
def looksHex8 (w : List Char) : Bool :=
  w.length == 8 && (match w with | c :: _ => isHexLower c | [] => false)

/-- the `for word in words[1:]` loop: keep appending `-word` while the word is alphabetic and does not look like hex -/
def extend (result : List Char) : List (List Char) → List Char
  | [] => result
  | w :: ws => if isWordAlpha w && !looksHex8 w then extend (result ++ '-' :: w) ws else result

def isHexDigit (c : Char) : Bool := isHexLower c || isDigit c

/-- `key_split(s)`; `none` = an exception inside the `try` (the function then returns `"Other"`) -/
def keySplitCore (cs : List Char) : Option (List Char) :=
  match splitL '-' cs with
  | [] => none
  | w0 :: ws =>
    match w0 with
    | [] => none                                    -- words[0][0] → IndexError
    | c0 :: _ =>
      let start := if !isAlpha c0 then
          (match splitL ',' w0 with
           | p :: _ => stripSet ['_', '\'', '(', ')', '"'] p
           | [] => [])
        else w0
      let result := extend start ws
      if result.length == 32 && result.all isHexDigit then some "data".toList
      else
        match result with
        | [] => none                                -- result[0] → IndexError
        | '<' :: _ =>
          (firstToken (stripSet ['<', '>'] result)).map fun tok =>
            match (splitL '.' tok).getLast? with
            | some p => p
            | none => []
        | _ => some result

def keySplit (s : String) : String :=
  match keySplitCore s.toList with
  | some r => String.ofList r
  | none => "Other"

end Dask.KeySplit
