import DaskModel.Model.PyStr
import DaskModel.Model.Bytes
/-
`dask.utils.key_split` for a `str` argument (bytes are decoded, tuples use their first element, anything else that
raises inside the `try` gives `"Other"`), ASCII only.

Python                                          Lean
------                                          ----
`s.split("-")`                                  `splitL '-'`
`words[0][0]`  (IndexError → "Other")           pattern match on the first word
`words[0].split(",")[0].strip("_'()\"")`        `stripSet`
`word.isalpha()`                                non-empty, all letters
`hex_pattern.match(word)` (`[a-f]+` at start)   first character in `a..f`
`re.match(r"[a-f0-9]{32}", result)`             all 32 characters in `[a-f0-9]`
`result.strip("<>").split()[0].split(".")[-1]`  `stripSet`, first whitespace-separated token (IndexError → "Other"),
                                                last dot-separated piece
-/
namespace Dask.KeySplit
open Dask.PyStr Dask.Bytes

def stripLeft (set : List Char) : List Char → List Char
  | [] => []
  | c :: r => if set.contains c then stripLeft set r else c :: r

/-- `s.strip(chars)` -/
def stripSet (set : List Char) (cs : List Char) : List Char :=
  (stripLeft set (stripLeft set cs).reverse).reverse

/-- `str.split()` whitespace, ASCII: space, `\t \n \r \x0b \x0c` and the separators `\x1c`–`\x1f` -/
def isSpace (c : Char) : Bool :=
  c = ' ' || c = '\t' || c = '\n' || c = '\r' || c = '\x0b' || c = '\x0c' || c = '\x1c' || c = '\x1d' || c = '\x1e' || c = '\x1f'

/-- `s.split()[0]`; `none` = IndexError (no token) -/
def firstToken (cs : List Char) : Option (List Char) :=
  match cs.dropWhile isSpace with
  | [] => none
  | r => some (r.takeWhile (fun c => !isSpace c))

def isWordAlpha (w : List Char) : Bool := !w.isEmpty && w.all isAlpha

def isHexLower (c : Char) : Bool := 'a' ≤ c && c ≤ 'f'

/-- `len(word) == 8 and hex_pattern.match(word) is not None` -/
def looksHex8 (w : List Char) : Bool :=
  w.length == 8 && (match w with | c :: _ => isHexLower c | [] => false)

/-- the `for word in words[1:]` loop: keep appending `-word` while the word is alphabetic and does not look like hex -/
def extend (result : List Char) : List (List Char) → List Char
  | [] => result
  | w :: ws => if isWordAlpha w && !looksHex8 w then extend (result ++ '-' :: w) ws else result

def isHexDigit (c : Char) : Bool := isHexLower c || isDigit c

/-- `words[0].split(",")[0].strip("_'()\"")` -/
def firstPiece (w0 : List Char) : List Char :=
  match splitL ',' w0 with
  | p :: _ => stripSet ['_', '\'', '(', ')', '"'] p
  | [] => []

/-- `result` before the loop: `words[0]` if it starts with a letter, else its cleaned first comma-piece -/
def startOf (c0 : Char) (w0 : List Char) : List Char := if !isAlpha c0 then firstPiece w0 else w0

/-- `key_split(s)`; `none` = an exception inside the `try` (the function then returns `"Other"`) -/
def keySplitCore (cs : List Char) : Option (List Char) :=
  match splitL '-' cs with
  | [] => none
  | w0 :: ws =>
    match w0 with
    | [] => none                                    -- words[0][0] → IndexError
    | c0 :: _ =>
      let result := extend (startOf c0 w0) ws
      if result.length == 32 && result.all isHexDigit then some "data".toList
      else
        match result with
        | [] => none                                -- result[0] → IndexError
        | '<' :: _ =>
          (firstToken (stripSet ['<', '>'] result)).map fun tok =>
            match (splitL '.' tok).getLast? with
            | some p => p
            | none => []
        | _ => some result

def keySplit (s : String) : String :=
  match keySplitCore s.toList with
  | some r => String.ofList r
  | none => "Other"

/-- `dask.utils.typename(typ, short)` for a class with `typ.__module__ = module` (`none`: `None`) and
    `typ.__name__ = name`: builtins and module-less classes print bare; `short` keeps the top-level package only -/
def typenameOf (module : Option String) (name : String) (short : Bool) : String :=
  match module with
  | none => name
  | some m =>
    if m.isEmpty || m == "builtins" then name
    else
      let pkg := if short then (match splitL '.' m.toList with | p :: _ => String.ofList p | [] => m) else m
      pkg ++ "." ++ name

end Dask.KeySplit
