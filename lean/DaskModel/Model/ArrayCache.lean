/-
C20 / C21: the cached attributes of `dask.array.core.Array` as a state machine.

Python (class Array)                                              Lean
--------------------                                              ----
__name, __chunks (the identity of the collection)                 `St.name`, `St.chunks`
_cached_keys (slot; filled by __dask_keys__)                      `St.cachedKeys`   the (name, numblocks) the keys were made from
@cached_property _key_array / numblocks / npartitions / shape / ndim / size    (instance __dict__)   `St.keyArray` … `St.size`
__dask_keys__: return _cached_keys if not None else build from (name, chunks, numblocks) and store   `readKeys`
_key_array = np.array(self.__dask_keys__(), dtype=object)          `readKeyArray`
_name.setter: __name = val; _cached_keys = None; _reset_cache("_key_array")     `setName`
_chunks.setter: __chunks = chunks; reset numblocks, npartitions, shape, ndim, size, _key_array   `setChunks`
Array.__new__: … self._meta = meta_from_array(meta, ndim=self.ndim, dtype=dtype)   `constructed` (ndim and shape are cached)
Array.__setitem__: self._name = y.name; self._chunks = y.chunks    `assignInPlace`
handle_out(out, result): out._chunks = result.chunks; out._name = result.name   `handleOut`
compute_chunk_sizes: x._chunks = <same number of blocks per axis>   `setChunks` (with `numblocksOf` unchanged)
The nested key list / key array of an array is a function of (name, numblocks); it is represented by that pair.
Import-free (linked into the native driver).
-/
namespace Dask.ArrayCache

abbrev Chunks := List (List Nat)

def numblocksOf (c : Chunks) : List Nat := c.map List.length
def shapeOf (c : Chunks) : List Nat := c.map List.sum
def prod (l : List Nat) : Nat := l.foldl (· * ·) 1

structure St where
  name : Nat
  chunks : Chunks
  cachedKeys : Option (Nat × List Nat)
  keyArray : Option (Nat × List Nat)
  numblocks : Option (List Nat)
  npartitions : Option Nat
  shape : Option (List Nat)
  ndim : Option Nat
  size : Option Nat
  deriving Repr, DecidableEq

/-- a freshly constructed array: nothing cached -/
def fresh (name : Nat) (chunks : Chunks) : St := ⟨name, chunks, none, none, none, none, none, none, none⟩

/-! ### reads (cached_property: compute once, store in `__dict__`) -/

def readNumblocks (s : St) : St × List Nat :=
  match s.numblocks with
  | some v => (s, v)
  | none => let v := numblocksOf s.chunks; ({ s with numblocks := some v }, v)

def readNpartitions (s : St) : St × Nat :=
  match s.npartitions with
  | some v => (s, v)
  | none => let (s1, nb) := readNumblocks s; let v := prod nb; ({ s1 with npartitions := some v }, v)

def readShape (s : St) : St × List Nat :=
  match s.shape with
  | some v => (s, v)
  | none => let v := shapeOf s.chunks; ({ s with shape := some v }, v)

def readNdim (s : St) : St × Nat :=
  match s.ndim with
  | some v => (s, v)
  | none => let (s1, sh) := readShape s; let v := sh.length; ({ s1 with ndim := some v }, v)

def readSize (s : St) : St × Nat :=
  match s.size with
  | some v => (s, v)
  | none => let (s1, sh) := readShape s; let v := prod sh; ({ s1 with size := some v }, v)

/-- `__dask_keys__` -/
def readKeys (s : St) : St × (Nat × List Nat) :=
  match s.cachedKeys with
  | some v => (s, v)
  | none => let (s1, nb) := readNumblocks s; let v := (s1.name, nb); ({ s1 with cachedKeys := some v }, v)

/-- `_key_array` -/
def readKeyArray (s : St) : St × (Nat × List Nat) :=
  match s.keyArray with
  | some v => (s, v)
  | none => let (s1, v) := readKeys s; ({ s1 with keyArray := some v }, v)

/-- the state right after `Array.__new__`: `meta_from_array(meta, ndim=self.ndim, …)` has read `ndim` (hence `shape`) -/
def constructed (name : Nat) (chunks : Chunks) : St := (readNdim (fresh name chunks)).1

/-! ### writes -/

def setName (s : St) (n : Nat) : St := { s with name := n, cachedKeys := none, keyArray := none }

def setChunks (s : St) (c : Chunks) : St :=
  { s with chunks := c, numblocks := none, npartitions := none, shape := none, ndim := none, size := none, keyArray := none }

/-- `Array.__setitem__` (both paths): name first, then chunks -/
def assignInPlace (s : St) (n : Nat) (c : Chunks) : St := setChunks (setName s n) c

/-- `handle_out`: chunks first, then name -/
def handleOut (s : St) (n : Nat) (c : Chunks) : St := setName (setChunks s c) n

/-! ### histories -/

inductive Op where
  | rNumblocks | rNpartitions | rShape | rNdim | rSize | rKeys | rKeyArray
  | wName (n : Nat) | wChunks (c : Chunks)
  | assign (n : Nat) (c : Chunks) | out (n : Nat) (c : Chunks)
  deriving Repr, DecidableEq

/-- what a read returns (numbers as lists for uniformity): (name if any, list) -/
def step (s : St) : Op → St × Option (Option Nat × List Nat)
  | .rNumblocks => let (t, v) := readNumblocks s; (t, some (none, v))
  | .rNpartitions => let (t, v) := readNpartitions s; (t, some (none, [v]))
  | .rShape => let (t, v) := readShape s; (t, some (none, v))
  | .rNdim => let (t, v) := readNdim s; (t, some (none, [v]))
  | .rSize => let (t, v) := readSize s; (t, some (none, [v]))
  | .rKeys => let (t, v) := readKeys s; (t, some (some v.1, v.2))
  | .rKeyArray => let (t, v) := readKeyArray s; (t, some (some v.1, v.2))
  | .wName n => (setName s n, none)
  | .wChunks c => (setChunks s c, none)
  | .assign n c => (assignInPlace s n c, none)
  | .out n c => (handleOut s n c, none)

/-- which caches are filled: `_cached_keys is not None` and the keys of the instance `__dict__` -/
def filled (s : St) : List Bool :=
  [s.cachedKeys.isSome, s.keyArray.isSome, s.numblocks.isSome, s.npartitions.isSome, s.shape.isSome, s.ndim.isSome,
   s.size.isSome]

def run (s : St) : List Op → List (Option (Option Nat × List Nat) × List Bool)
  | [] => []
  | op :: rest => let (t, r) := step s op; (r, filled t) :: run t rest

/-- what a FRESH array with the current name and chunks returns for a read -/
def freshAnswer (s : St) : Op → Option (Option Nat × List Nat)
  | .rNumblocks => some (none, numblocksOf s.chunks)
  | .rNpartitions => some (none, [prod (numblocksOf s.chunks)])
  | .rShape => some (none, shapeOf s.chunks)
  | .rNdim => some (none, [(shapeOf s.chunks).length])
  | .rSize => some (none, [prod (shapeOf s.chunks)])
  | .rKeys => some (some s.name, numblocksOf s.chunks)
  | .rKeyArray => some (some s.name, numblocksOf s.chunks)
  | _ => none

end Dask.ArrayCache
