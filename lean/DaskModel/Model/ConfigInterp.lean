import DaskModel.Model.Bytes
import DaskModel.Model.PyStr
/-
`dask/config.py: interpret_value(value)` — what an environment variable `DASK_…=value` becomes:

    try: return ast.literal_eval(value)
    except (SyntaxError, ValueError): pass
    return {"none": None, "null": None, "false": False, "true": True}.get(value.lower(), value)

`ast.literal_eval` is modelled on the literal grammar that dask documents for configuration values
(docs/source/configuration.rst, "Environment Variables": ints, floats, `True/False/None`, quoted strings, lists and
dicts of these), NOT on all of Python's expression syntax:

    value  := ws* item ws*                      ws = ' ' | '\t'   (literal_eval strips leading blanks; the tokenizer
    item   := int | float | True | False | None | string | list | dict             ignores blanks between tokens)
    int    := ['-'] digits                      no leading zeros unless the value is 0 (Python: SyntaxError otherwise)
    float  := ['-'] digits '.' digits           kept as TEXT (`Lit.flt neg int-part frac-part`): the binary64 value is
                                                `float(text)`, computed on the Python side of the tie
    string := q body q,  q = ' or "             body: printable ASCII without q and without backslash
    list   := '[' ws* ']' | '[' item (ws* ',' ws* item)* ws* [',' ws*] ']'
    dict   := '{' ws* '}' | '{' pair (ws* ',' ws* pair)* ws* [',' ws*] '}'        pair := item ws* ':' ws* item
    a number / keyword token must not be followed directly by a letter, digit, '_' or '.'

Strings of Python's richer syntax (`1e3`, `0x10`, `1_000`, `+1`, `(1, 2)`, `{1, 2}`, `b'x'`, escapes, `'a' 'b'`, `1.`,
comments, …) are NOT parsed by the model; `inScope` says for which strings the model claims to agree with the real
function (a modelled literal with unambiguous dict keys, or a plain word), everything else is checked against the oracle
only.  `reprLit` is `repr(v)` for the modelled values.  No Mathlib.
-/
namespace Dask.Interp
open Dask.Bytes (natDigits isDigit isAlpha digitsVal)
open Dask.PyStr (lowerL)

inductive Lit where
  | int (i : Int)
  | flt (neg : Bool) (ip fp : List Char)
  | bool (b : Bool)
  | none
  | str (s : List Char)
  | list (xs : List Lit)
  | dict (kvs : List (Lit × Lit))
  deriving Inhabited

/-! ### repr -/

/-- the quote `repr(str)` picks: `"` only if the text has a `'` and no `"` -/
def quoteOf (s : List Char) : Char := if s.contains '\'' && !s.contains '"' then '"' else '\''

def reprInt (i : Int) : List Char :=
  if i < 0 then '-' :: natDigits (-i).toNat else natDigits i.toNat

mutual
def reprLit : Lit → List Char
  | .int i => reprInt i
  | .flt neg ip fp => (if neg then ['-'] else []) ++ ip ++ '.' :: fp
  | .bool true => ['T', 'r', 'u', 'e']
  | .bool false => ['F', 'a', 'l', 's', 'e']
  | .none => ['N', 'o', 'n', 'e']
  | .str s => quoteOf s :: s ++ [quoteOf s]
  | .list xs => '[' :: reprElems xs
  | .dict kvs => '{' :: reprPairs kvs
def reprElems : List Lit → List Char
  | [] => [']']
  | x :: xs => reprLit x ++ reprTail xs
def reprTail : List Lit → List Char
  | [] => [']']
  | x :: xs => ',' :: ' ' :: (reprLit x ++ reprTail xs)
def reprPairs : List (Lit × Lit) → List Char
  | [] => ['}']
  | kv :: r => reprLit kv.1 ++ ':' :: ' ' :: (reprLit kv.2 ++ reprPTail r)
def reprPTail : List (Lit × Lit) → List Char
  | [] => ['}']
  | kv :: r => ',' :: ' ' :: (reprLit kv.1 ++ ':' :: ' ' :: (reprLit kv.2 ++ reprPTail r))
end

/-! ### the parser -/

def isWs (c : Char) : Bool := c == ' ' || c == '\t'
def skipWs (cs : List Char) : List Char := cs.dropWhile isWs
def isIdChar (c : Char) : Bool := isAlpha c || isDigit c || c == '_'

/-- a number / keyword token ends here -/
def tokEnd : List Char → Bool
  | [] => true
  | c :: _ => !(isIdChar c || c == '.')

def strChar (q c : Char) : Bool := c != q && c != '\\' && decide (32 ≤ c.toNat) && decide (c.toNat < 127)

/-- after the opening quote `q` -/
def parseStr (q : Char) (cs : List Char) : Option (Lit × List Char) :=
  match cs.dropWhile (strChar q) with
  | c :: r => if c = q then some (.str (cs.takeWhile (strChar q)), r) else none
  | [] => none

/-- Python accepts the decimal integer `ds` iff it has no leading zeros, or is zero -/
def intDigitsOK (ds : List Char) : Bool := natDigits (digitsVal ds) == ds || digitsVal ds == 0

/-- after the optional minus sign -/
def parseNum (neg : Bool) (cs : List Char) : Option (Lit × List Char) :=
  if (cs.takeWhile isDigit).isEmpty then none
  else if (cs.dropWhile isDigit).head? = some '.' then
    (if ((cs.dropWhile isDigit).tail.takeWhile isDigit).isEmpty || !tokEnd ((cs.dropWhile isDigit).tail.dropWhile isDigit)
     then none
     else some (.flt neg (cs.takeWhile isDigit) ((cs.dropWhile isDigit).tail.takeWhile isDigit),
                (cs.dropWhile isDigit).tail.dropWhile isDigit))
  else if !tokEnd (cs.dropWhile isDigit) then none
  else if intDigitsOK (cs.takeWhile isDigit) then
    some (.int (if neg then -(digitsVal (cs.takeWhile isDigit) : Int) else (digitsVal (cs.takeWhile isDigit) : Int)),
          cs.dropWhile isDigit)
  else none

def kwTrue : List Char := ['T', 'r', 'u', 'e']
def kwFalse : List Char := ['F', 'a', 'l', 's', 'e']
def kwNone : List Char := ['N', 'o', 'n', 'e']

def parseKw (cs : List Char) : Option (Lit × List Char) :=
  if kwTrue.isPrefixOf cs && tokEnd (cs.drop 4) then some (.bool true, cs.drop 4)
  else if kwFalse.isPrefixOf cs && tokEnd (cs.drop 5) then some (.bool false, cs.drop 5)
  else if kwNone.isPrefixOf cs && tokEnd (cs.drop 4) then some (.none, cs.drop 4)
  else none

mutual
/-- one item at the head of the text (no leading blanks); fuel = nesting + siblings, `parseLit` supplies enough -/
def parseItem : Nat → List Char → Option (Lit × List Char)
  | 0, _ => none
  | _ + 1, [] => none
  | n + 1, c :: r =>
    if c = '[' then
      (match skipWs r with
       | [] => none
       | c1 :: r1 =>
         if c1 = ']' then some (.list [], r1)
         else match parseItem n (c1 :: r1) with
           | none => none
           | some (x, r2) =>
             match parseTail n r2 with
             | none => none
             | some (xs, r3) => some (.list (x :: xs), r3))
    else if c = '{' then
      (match skipWs r with
       | [] => none
       | c1 :: r1 =>
         if c1 = '}' then some (.dict [], r1)
         else match parsePair n (c1 :: r1) with
           | none => none
           | some (kv, r2) =>
             match parsePTail n r2 with
             | none => none
             | some (kvs, r3) => some (.dict (kv :: kvs), r3))
    else if c = '\'' || c = '"' then parseStr c r
    else if c = '-' then parseNum true r
    else if isDigit c then parseNum false (c :: r)
    else parseKw (c :: r)
/-- after an element of a list: `ws* ']'`, or `ws* ',' ws*` followed by `']'` or by the next element and its tail -/
def parseTail : Nat → List Char → Option (List Lit × List Char)
  | 0, _ => none
  | n + 1, cs =>
    match skipWs cs with
    | [] => none
    | c :: r =>
      if c = ']' then some ([], r)
      else if c = ',' then
        (match skipWs r with
         | [] => none
         | c1 :: r1 =>
           if c1 = ']' then some ([], r1)
           else match parseItem n (c1 :: r1) with
             | none => none
             | some (x, r2) =>
               match parseTail n r2 with
               | none => none
               | some (xs, r3) => some (x :: xs, r3))
      else none
/-- `item ws* ':' ws* item` -/
def parsePair : Nat → List Char → Option ((Lit × Lit) × List Char)
  | 0, _ => none
  | n + 1, cs =>
    match parseItem n cs with
    | none => none
    | some (k, r1) =>
      match skipWs r1 with
      | [] => none
      | c :: r2 =>
        if c = ':' then
          (match parseItem n (skipWs r2) with
           | none => none
           | some (v, r3) => some ((k, v), r3))
        else none
def parsePTail : Nat → List Char → Option (List (Lit × Lit) × List Char)
  | 0, _ => none
  | n + 1, cs =>
    match skipWs cs with
    | [] => none
    | c :: r =>
      if c = '}' then some ([], r)
      else if c = ',' then
        (match skipWs r with
         | [] => none
         | c1 :: r1 =>
           if c1 = '}' then some ([], r1)
           else match parsePair n (c1 :: r1) with
             | none => none
             | some (kv, r2) =>
               match parsePTail n r2 with
               | none => none
               | some (kvs, r3) => some (kv :: kvs, r3))
      else none
end

/-- `ast.literal_eval(s)` on the modelled grammar (`none`: not a modelled literal) -/
def parseLit (s : List Char) : Option Lit :=
  match parseItem (s.length + 1) (skipWs s) with
  | some (v, r) => if (skipWs r).isEmpty then some v else none
  | none => none

/-- `hardcoded_map.get(value.lower())` -/
def hardcoded (s : List Char) : Option Lit :=
  if lowerL s = ['n', 'o', 'n', 'e'] || lowerL s = ['n', 'u', 'l', 'l'] then some .none
  else if lowerL s = ['f', 'a', 'l', 's', 'e'] then some (.bool false)
  else if lowerL s = ['t', 'r', 'u', 'e'] then some (.bool true)
  else none

inductive Val where
  | lit (v : Lit)
  | raw (s : List Char)       -- the string itself

/-- `interpret_value(s)` -/
def interpretValue (s : List Char) : Val :=
  match parseLit s with
  | some v => .lit v
  | none =>
    match hardcoded s with
    | some v => .lit v
    | none => .raw s

/-! ### where the model claims to agree with the real function -/

def keyEq : Lit → Lit → Bool
  | .str a, .str b => a == b
  | .int a, .int b => a == b
  | _, _ => false

def keyOK : Lit → Bool
  | .str _ => true
  | .int _ => true
  | _ => false

mutual
/-- dict keys are strings / ints, pairwise different (so that the pair list IS the Python dict) -/
def scopeLit : Lit → Bool
  | .list xs => scopeList xs
  | .dict kvs => scopePairs kvs
  | _ => true
def scopeList : List Lit → Bool
  | [] => true
  | x :: xs => scopeLit x && scopeList xs
def scopePairs : List (Lit × Lit) → Bool
  | [] => true
  | kv :: r => keyOK kv.1 && !(r.any fun kv' => keyEq kv.1 kv'.1) && scopeLit kv.2 && scopePairs r
end

/-- a word: starts with a letter or `_`, then letters, digits and `_ - . / :` and blanks — Python parses it (if at all)
    as a name / attribute / arithmetic on names, which `literal_eval` rejects -/
def plainWord : List Char → Bool
  | [] => false
  | c :: r => (isAlpha c || c == '_') &&
      r.all fun c => isIdChar c || c == '-' || c == '.' || c == '/' || c == ':' || c == ' '

def printable (c : Char) : Bool := (decide (32 ≤ c.toNat) && decide (c.toNat < 127)) || c == '\t'

def inScope (s : List Char) : Bool :=
  s.all printable &&
  (match parseLit s with
   | some v => scopeLit v
   | none => plainWord s || s.isEmpty)

end Dask.Interp
