import DaskModel.Model.Shuffle
/-
K9b: `sort_values` / `set_index` / `drop_duplicates` pipelines of `dask_expr/_shuffle.py` and `_reductions.py`,
on top of the shuffle model.

Python                                                        Lean
------                                                        ----
`DataFrame.sort_values(by, ascending, na_position)` order      `keyLe` (key = value | NaN)
`Assign(frame, "_partitions", _SetPartitionsPreSetIndex(…))`   `assignPartitions`
`SortValuesBlockwise` / `SortIndexBlockwise` on one partition  `sortPart` (a stable sort; the theorems only use
                                                                "sorted permutation", pandas' default is not stable)
`SortValues._lower` / `SetPartition._lower` (not presorted)    `sortValuesWith sh` (`sh` = the lowered `Shuffle`),
                                                                `sortValuesTasks` / `sortValuesSimple`
`_calculate_divisions`: `mins`, `maxes`, `nulls`, `presorted`  `partMin`, `partMax`, `bfill`, `presortedB`
`SortValues._lower` / `SetIndex._lower`, presorted shortcut    `sortValuesPresorted`, `presortedDivisions`
`M.drop_duplicates(keep=…)` on one partition                   `dedupLast`, `dedupFirst`
`DropDuplicates` → `TreeReduce` (split_out = 1)                `dedupTree`
`DropDuplicates` → `ShuffleReduce` (chunk, shuffle, aggregate) `dedupShuffleWith sh`
Import-free (core only).
-/
namespace Dask.SortValues
open Dask.Shuffle

/-- `a` may stand before `b` in `sort_values(ascending, na_position)`; `none` = NaN / NA -/
def keyLe (asc naLast : Bool) : Option Nat → Option Nat → Bool
  | none, none => true
  | none, some _ => !naLast
  | some _, none => naLast
  | some a, some b => if asc then decide (a ≤ b) else decide (b ≤ a)

variable {β : Type}

/-- `Assign(frame, "_partitions", set_partitions_pre(frame[by[0]], divisions, ascending, na_position))`
    on one partition -/
def assignPartitions (key : β → Option Nat) (divs : List Nat) (asc naLast : Bool) (rows : List β) : List (Nat × β) :=
  rows.map fun r => (setPartitionsPre divs (key r) asc naLast, r)

/-- stable insertion sort (structural recursion: evaluates in the kernel, unlike `List.mergeSort`) -/
def insertBy (le : β → β → Bool) (x : β) : List β → List β
  | [] => [x]
  | y :: ys => if le x y then x :: y :: ys else y :: insertBy le x ys

def isort (le : β → β → Bool) : List β → List β
  | [] => []
  | x :: xs => insertBy le x (isort le xs)

/-- `sort_values` / `sort_index` of ONE partition -/
def sortPart (key : β → Option Nat) (asc naLast : Bool) (rows : List β) : List β :=
  isort (fun a b => keyLe asc naLast (key a) (key b)) rows

/-- `SortValues._lower` / `SetPartition._lower` when the frame is not presorted: assign `_partitions`, shuffle to
    `len(divisions) - 1` partitions, drop the column, sort every partition. `sh` is the lowered `Shuffle`,
    `sortp` the per-partition sort. -/
def sortValuesWith (sh : List (List (Nat × β)) → Nat → List (List (Nat × β))) (sortp : List β → List β)
    (key : β → Option Nat) (divs : List Nat) (asc naLast : Bool) (parts : List (List β)) : List (List β) :=
  (sh (parts.map (assignPartitions key divs asc naLast)) (divs.length - 1)).map fun p => sortp (p.map (·.2))

/-- with the staged task shuffle -/
def sortValuesTasks (key : β → Option Nat) (divs : List Nat) (asc naLast : Bool) (k stages : Nat)
    (parts : List (List β)) : List (List β) :=
  sortValuesWith (fun ps n => taskShuffle ps n k stages) (sortPart key asc naLast) key divs asc naLast parts

/-- with `SimpleShuffle` (what `TaskShuffle._layer` builds for ≤ `max_branch` partitions) -/
def sortValuesSimple (key : β → Option Nat) (divs : List Nat) (asc naLast : Bool) (parts : List (List β)) :
    List (List β) :=
  sortValuesWith simpleShuffle (sortPart key asc naLast) key divs asc naLast parts

/-! ### `_calculate_divisions`: the "already sorted" test -/

def minNat? : List Nat → Option Nat
  | [] => none
  | x :: xs => some (xs.foldl min x)

def maxNat? : List Nat → Option Nat
  | [] => none
  | x :: xs => some (xs.foldl max x)

/-- `Series.min()` of one partition's keys: NaN are skipped, an empty / all-NaN partition gives NaN -/
def partMin (keys : List (Option Nat)) : Option Nat := minNat? (keys.filterMap id)
def partMax (keys : List (Option Nat)) : Option Nat := maxNat? (keys.filterMap id)

/-- `Series.bfill()`: a missing entry takes the next valid one (stays missing at the end) -/
def bfill : List (Option Nat) → List (Option Nat)
  | [] => []
  | x :: xs =>
    let r := bfill xs
    (match x with
      | some v => some v
      | none => r.head?.join) :: r

/-- `xs.tolist() == xs.sort_values(ascending=asc).tolist()` -/
def equalsSorted (asc : Bool) (xs : List Nat) : Bool :=
  xs == isort (fun a b => if asc then decide (a ≤ b) else decide (b ≤ a)) xs

/-- the `presorted` flag of `_calculate_divisions` (after b29bf66) together with the `mins` / `maxes` lists it
    returns; `parts` = the key column partition by partition -/
def calcPresorted (asc : Bool) (parts : List (List (Option Nat))) : Bool × List (Option Nat) × List (Option Nat) :=
  let mins := bfill (parts.map partMin)
  let maxes := bfill (parts.map partMax)
  let nulls := parts.map fun ks => ks.any Option.isNone
  if mins.any Option.isNone || maxes.any Option.isNone || nulls.any id then (false, mins, maxes)
  else
    let mn := mins.filterMap id
    let mx := maxes.filterMap id
    let n := mn.length
    let maxes2 := if asc then mx.take (n - 1) else mx.drop 1
    let mins2 := if asc then mn.drop 1 else mn.take (n - 1)
    (equalsSorted asc mn && equalsSorted asc mx && (maxes2.zip mins2).all fun ab => decide (ab.1 < ab.2), mins, maxes)

def presortedB (asc : Bool) (parts : List (List (Option Nat))) : Bool := (calcPresorted asc parts).1

/-- the presorted shortcut of `SortValues._lower` / `SetIndex._lower`: every partition is sorted where it is -/
def sortValuesPresorted (sortp : List β → List β) (parts : List (List β)) : List (List β) := parts.map sortp

/-- `BaseSetIndexSortValues._divisions` in the presorted case: `mins + [maxes[-1]]` -/
def presortedDivisions (mins maxes : List Nat) : List Nat := mins ++ maxes.getLast?.toList

/-! ### drop_duplicates -/

/-- `drop_duplicates(keep="last")` of one pandas frame: a row stays iff no LATER row has its key -/
def dedupLast (key : β → Nat) : List β → List β
  | [] => []
  | x :: xs => if xs.any (fun y => key y == key x) then dedupLast key xs else x :: dedupLast key xs

/-- `drop_duplicates(keep="first")`: a row stays iff no EARLIER row has its key -/
def dedupFirst (key : β → Nat) (l : List β) : List β := (dedupLast key l.reverse).reverse

def dedup (first : Bool) (key : β → Nat) (l : List β) : List β := if first then dedupFirst key l else dedupLast key l

/-- `DropDuplicates` lowered to `TreeReduce` (`split_out = 1`): `chunk` on every partition, `combine` = concat,
    `aggregate` = `drop_duplicates` of the concatenation (concats keep the partition order) -/
def dedupTree (first : Bool) (key : β → Nat) (parts : List (List β)) : List β :=
  dedup first key (parts.map (dedup first key)).flatten

/-- `DropDuplicates` lowered to `ShuffleReduce`: `chunk` on every partition, hash-shuffle on the subset to `n`
    partitions (`hash` = pandas' `hash_object` of the key cells), `drop_duplicates` on every output -/
def dedupShuffleWith (sh : List (List (Nat × β)) → Nat → List (List (Nat × β))) (first : Bool) (key : β → Nat)
    (hash : Nat → Nat) (n : Nat) (parts : List (List β)) : List (List β) :=
  let chunked := parts.map (dedup first key)
  (sh (chunked.map fun rows => rows.map fun r => (hash (key r) % n, r)) n).map fun p => dedup first key (p.map (·.2))

end Dask.SortValues
