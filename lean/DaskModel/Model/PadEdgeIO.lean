import DaskModel.DriverLib
import DaskModel.Model.Chunks
import DaskModel.Model.PadEdge
/-! Driver handlers of the C24 extension (`pad_edge`, mode "edge"); kept out of `Drivers/chunks.lean`.
    Import-free of Mathlib. -/
namespace Dask.PadEdge
open Dask Dask.Chunks

def encBlocks (xs : List (List Int)) : SExp := .list (xs.map SExp.ofInts)
def encOpt (r : Option (List (List Int))) : SExp :=
  match r with
  | some b => .list [.sym "ok", encBlocks b]
  | none => .list [.sym "raised"]

/-- `(pad_edge ((block…)…) l r)` ↦ `((ok blocks)|(raised)  (ok (np…))|(raised))`: one pass of the loop and NumPy's spec -/
def hPadEdge : Handler := handler fun
  | [bs, l, r] => do
    let blocks ← (← bs.toList?).mapM SExp.toInts?
    let l ← l.toNat?
    let r ← r.toNat?
    pure (.list [encOpt (padEdgeBlocks blocks l r), encOpt ((npPadEdge blocks.flatten l r).map fun x => [x])])
  | _ => none

/-- `(pad_edge2 ((rowblock = (row…))…) l0 r0 (cc…) l1 r1)` ↦ `((ok rows)|(raised) (ok rows)|(raised))`: the two-axis
    loop with column chunks `cc` and NumPy's axis-by-axis spec -/
def hPadEdge2 : Handler := handler fun
  | [rb, l0, r0, cc, l1, r1] => do
    let rowBlocks ← (← rb.toList?).mapM fun b => do (← b.toList?).mapM SExp.toInts?
    let cc ← cc.toNats?
    let l0 ← l0.toNat?
    let r0 ← r0.toNat?
    let l1 ← l1.toNat?
    let r1 ← r1.toNat?
    pure (.list [encOpt (padEdge2 rowBlocks l0 r0 (splitBy cc) l1 r1), encOpt (npPadEdge2 rowBlocks.flatten l0 r0 l1 r1)])
  | _ => none

def handlers : List (String × Handler) := [("pad_edge", hPadEdge), ("pad_edge2", hPadEdge2)]

end Dask.PadEdge
