import DaskModel.Model.TaskNode
/-
Task objects are stateful: `Task._get_token` caches the token in the slot `_token` the first time it is asked
for (`hash`, `==`, `tokenize`, membership in a set), and new objects are derived from old ones by
`substitute`, `copy` and pickling.  This file models the cache as explicit state and the derivations as the
code performs them.

Python (dask/_task_spec.py)                                   Lean
---------------------------                                   ----
a Task with its slot `_token` (None until first use)          `CNode.task f args kwargs cache`
Task._get_token: `if self._token: return self._token`, else
   compute tokenize((name, func, args, kwargs)) and store it  `nfC` (what is returned now) / `forceC` (state afterwards;
                                                               computing it asks the nested tasks for their tokens, which
                                                               fills their caches too)
Task.__init__: `self._token = None`                            every constructor call below yields `cache := none`
Task.substitute(subs): no dependency is hit -> `self` (with its cache);
   otherwise `type(self)(key, func, *new_args, **new_kwargs)`  `substC hit new`
TaskRef.substitute / Alias.substitute / NestedContainer.substitute / Dict.substitute    the other cases of `substC`
Task.copy(): `type(self)(key, func, *args, **kwargs)`          `copyC` (same argument objects, fresh cache)
pickle round trip: `__getstate__`/`__setstate__` carry every slot, `_token` included   `pickleC` (identity)

`hit k` says that key `k` is replaced (`k in subs and subs[k] != k`), `new k` is its replacement key.
Keys of tasks are not modelled (they are not part of the identity), so a pure renaming is `copyC`.
Inside a task `substitute` only passes on the entries of `subs` that are dependencies of the task, so the *key* of a
nested Alias is never replaced there; replacing the key of a top-level Alias is `substAliasTop`.
-/
namespace Dask.TaskNode
open Dask.NF

inductive CNode where
  | lit (v : Val)
  | ref (key : Val)
  | alias (key target : Val)
  | data (v : Val)
  | task (f : Nat) (args : List CNode) (kwargs : List (String × CNode)) (cache : Option Val)
  | cont (k : Kind) (args : List CNode)
  | dict (items : List (CNode × CNode))
  deriving Repr, Inhabited

mutual
/-- the node as its current fields describe it (caches forgotten) -/
def erase : CNode → Node
  | .lit v => .lit v
  | .ref k => .ref k
  | .alias k t => .alias k t
  | .data v => .data v
  | .task f args kws _ => .task f (eraseL args) (eraseKw kws)
  | .cont k args => .cont k (eraseL args)
  | .dict items => .dict (eraseP items)
def eraseL : List CNode → List Node
  | [] => []
  | a :: as => erase a :: eraseL as
def eraseKw : List (String × CNode) → List (String × Node)
  | [] => []
  | (k, v) :: r => (k, erase v) :: eraseKw r
def eraseP : List (CNode × CNode) → List (Node × Node)
  | [] => []
  | (k, v) :: r => (erase k, erase v) :: eraseP r
end

mutual
/-- a freshly constructed node: no token computed yet -/
def fresh : Node → CNode
  | .lit v => .lit v
  | .ref k => .ref k
  | .alias k t => .alias k t
  | .data v => .data v
  | .task f args kws => .task f (freshL args) (freshKw kws) none
  | .cont k args => .cont k (freshL args)
  | .dict items => .dict (freshP items)
def freshL : List Node → List CNode
  | [] => []
  | a :: as => fresh a :: freshL as
def freshKw : List (String × Node) → List (String × CNode)
  | [] => []
  | (k, v) :: r => (k, fresh v) :: freshKw r
def freshP : List (Node × Node) → List (CNode × CNode)
  | [] => []
  | (k, v) :: r => (fresh k, fresh v) :: freshP r
end

mutual
/-- `normalize_token(n)` as the code computes it NOW: a task whose cache is filled answers with the cache -/
def nfC : CNode → Val
  | .lit v => norm v
  | .ref key => .pickled "TaskRef" key
  | .alias k t => .tuple [.str "Alias", k, t]
  | .data v => .tuple [.str "DataNode", .digest (norm v)]
  | .task f args kws cache =>
    match cache with
    | some t => t
    | none =>
      .digest (.tuple [.str "tuple", .tuple [.str "Task", .pickled "func" (.int f),
        .tuple [.str "tuple", .tuple (nfCL args)],
        .tuple [.str "dict", .tuple ((ssort (kwC kws)).map Prod.snd)]]])
  | .cont k args =>
    .tuple [.str k.name, .atom k.klass,
      match k with
      | .set => .sortedTokens (tokensC args)
      | _ => .list (tokensC args)]
  | .dict items => .tuple [.str "Dict", .atom "<class 'dict'>", .sortedTokens (pairTokensC items)]
def nfCL : List CNode → List Val
  | [] => []
  | a :: as => nfC a :: nfCL as
def tokensC : List CNode → List Val
  | [] => []
  | a :: as => .digest (nfC a) :: tokensC as
def kwC : List (String × CNode) → List (SortKey × Val)
  | [] => []
  | (k, v) :: r => ((k, "str"), pairNF (.str k) (nfC v)) :: kwC r
def pairTokensC : List (CNode × CNode) → List Val
  | [] => []
  | (k, v) :: r => .digest (pairNF (nfC k) (nfC v)) :: pairTokensC r
end

mutual
/-- the state after the token of the node has been asked for (`hash(n)`, `n == m`, `tokenize(n)`, `n in set`) -/
def forceC : CNode → CNode
  | .task f args kws cache =>
    match cache with
    | some t => .task f args kws (some t)
    | none => .task f (forceCL args) (forceCKw kws) (some (nfC (.task f args kws none)))
  | .cont k args => .cont k (forceCL args)
  | .dict items => .dict (forceCP items)
  | n => n
def forceCL : List CNode → List CNode
  | [] => []
  | a :: as => forceC a :: forceCL as
def forceCKw : List (String × CNode) → List (String × CNode)
  | [] => []
  | (k, v) :: r => (k, forceC v) :: forceCKw r
def forceCP : List (CNode × CNode) → List (CNode × CNode)
  | [] => []
  | (k, v) :: r => (forceC k, forceC v) :: forceCP r
end

mutual
/-- `self.dependencies & subs.keys()` non-empty (for the keys that really change) -/
def anyHit (hit : Val → Bool) : CNode → Bool
  | .lit _ => false
  | .ref k => hit k
  | .alias _ t => hit t
  | .data _ => false
  | .task _ args kws _ => anyHitL hit args || anyHitKw hit kws
  | .cont _ args => anyHitL hit args
  | .dict items => anyHitP hit items
def anyHitL (hit : Val → Bool) : List CNode → Bool
  | [] => false
  | a :: as => anyHit hit a || anyHitL hit as
def anyHitKw (hit : Val → Bool) : List (String × CNode) → Bool
  | [] => false
  | (_, v) :: r => anyHit hit v || anyHitKw hit r
def anyHitP (hit : Val → Bool) : List (CNode × CNode) → Bool
  | [] => false
  | (k, v) :: r => anyHit hit k || anyHit hit v || anyHitP hit r
end

mutual
/-- `n.substitute(subs)` for a key-to-key substitution -/
def substC (hit : Val → Bool) (new : Val → Val) : CNode → CNode
  | .lit v => .lit v
  | .ref k => if hit k then .ref (new k) else .ref k
  | .alias k t => if hit t then .alias k (new t) else .alias k t
  | .data v => .data v
  | .task f args kws cache =>
    if anyHitL hit args || anyHitKw hit kws
    then .task f (substCL hit new args) (substCKw hit new kws) none     -- a new object: `_token = None`
    else .task f args kws cache                                         -- `return self`
  | .cont k args => if anyHitL hit args then .cont k (substCL hit new args) else .cont k args
  | .dict items => if anyHitP hit items then .dict (substCP hit new items) else .dict items
def substCL (hit : Val → Bool) (new : Val → Val) : List CNode → List CNode
  | [] => []
  | a :: as => substC hit new a :: substCL hit new as
def substCKw (hit : Val → Bool) (new : Val → Val) : List (String × CNode) → List (String × CNode)
  | [] => []
  | (k, v) :: r => (k, substC hit new v) :: substCKw hit new r
def substCP (hit : Val → Bool) (new : Val → Val) : List (CNode × CNode) → List (CNode × CNode)
  | [] => []
  | (k, v) :: r => (substC hit new k, substC hit new v) :: substCP hit new r
end

/-- `Alias.substitute` called on the alias itself: key and target are both looked up -/
def substAliasTop (hit : Val → Bool) (new : Val → Val) : CNode → CNode
  | .alias k t => if hit k || hit t then .alias (if hit k then new k else k) (if hit t then new t else t) else .alias k t
  | n => substC hit new n

/-- `n.copy()` / a pure renaming `n.substitute({}, key=…)`: a new object on the same argument objects -/
def copyC : CNode → CNode
  | .task f args kws _ => .task f args kws none
  | n => n

/-- `pickle.loads(pickle.dumps(n))`: every slot travels, the cached token included -/
def pickleC (n : CNode) : CNode := n

mutual
/-- substitution on the plain node (no object identity, no caches) -/
def substN (hit : Val → Bool) (new : Val → Val) : Node → Node
  | .lit v => .lit v
  | .ref k => if hit k then .ref (new k) else .ref k
  | .alias k t => if hit t then .alias k (new t) else .alias k t
  | .data v => .data v
  | .task f args kws => .task f (substNL hit new args) (substNKw hit new kws)
  | .cont k args => .cont k (substNL hit new args)
  | .dict items => .dict (substNP hit new items)
def substNL (hit : Val → Bool) (new : Val → Val) : List Node → List Node
  | [] => []
  | a :: as => substN hit new a :: substNL hit new as
def substNKw (hit : Val → Bool) (new : Val → Val) : List (String × Node) → List (String × Node)
  | [] => []
  | (k, v) :: r => (k, substN hit new v) :: substNKw hit new r
def substNP (hit : Val → Bool) (new : Val → Val) : List (Node × Node) → List (Node × Node)
  | [] => []
  | (k, v) :: r => (substN hit new k, substN hit new v) :: substNP hit new r
end

/-- one step of an object history -/
inductive Op where
  | force
  | subst (hit : Val → Bool) (new : Val → Val)
  | copy
  | pickle

def step : Op → CNode → CNode
  | .force, n => forceC n
  | .subst hit new, n => substC hit new n
  | .copy, n => copyC n
  | .pickle, n => pickleC n

def run : List Op → CNode → CNode
  | [], n => n
  | op :: ops, n => run ops (step op n)

end Dask.TaskNode
