import DaskModel.Model.Counting
/-
`aligned_coarsen_chunks` and `da.coarsen` (C27, dask/array/routines.py) — the chunk alignment that makes
block-by-block coarsening legal for ANY chunking of the axis.

Python (aligned_coarsen_chunks(chunks, multiple))                Lean
-------------------------------------------------                ----
overflow = np.array(chunks) % multiple                            `overflowOf`
excess = overflow.sum()                                           `excessOf`
new_chunks = np.array(chunks) - overflow                          `floorChunks`
valid_inds, invalid_inds = where(new == chunks), where(~...)      `validInds`, `invalidInds`
chunk_modification_order = [*invalid_inds[argsort(new[invalid])],
                            *valid_inds[argsort(new[valid])]]     `modificationOrder` (a stable argsort); the real
                                                                   tie-breaking is a parameter (`…With order`)
partitioned_excess, remainder = _partition(excess, multiple)      `excess / m` copies of `m`, `excess % m`
for idx, extra in enumerate(partitioned_excess):
    new_chunks[chunk_modification_order[idx]] += extra            `bumpAll` (`none` = IndexError)
new_chunks = [*new_chunks, *remainder]; new_chunks[new_chunks>0]
return tuple(new_chunks) or (0,)                                  `alignedCoarsenChunks`

da.coarsen(reduction, x, {0: d}, trim_excess)                      `daCoarsen`:
  ValueError unless trim_excess or shape % d == 0                   guard
  rechunk to the aligned chunks when they differ                    `splitBy aligned xs` (rechunk = same values, C23)
  chunk.coarsen per block (reshape raises on a ragged block
  unless trim_excess)                                               `chunkCoarsen`
  declared chunks: bd // d for every block with bd // d > 0, or (0,) `coarsenDeclaredChunks`
Import-free (linked into the native driver).
-/
namespace Dask.Counting
open Dask.Chunks

/-! ### aligned_coarsen_chunks -/

def overflowOf (m : Nat) (cs : List Nat) : List Nat := cs.map (· % m)
def excessOf (m : Nat) (cs : List Nat) : Nat := sum (overflowOf m cs)
/-- `chunks - chunks % multiple` -/
def floorChunks (m : Nat) (cs : List Nat) : List Nat := cs.map (fun c => c - c % m)

def invalidInds (m : Nat) (cs : List Nat) : List Nat := (List.range cs.length).filter (fun i => cs.getD i 0 % m != 0)
def validInds (m : Nat) (cs : List Nat) : List Nat := (List.range cs.length).filter (fun i => cs.getD i 0 % m == 0)

/-- stable insertion: `i` goes before the first `j` whose key is not smaller -/
def insertByKey (key : Nat → Nat) (i : Nat) : List Nat → List Nat
  | [] => [i]
  | j :: js => if key i ≤ key j then i :: j :: js else j :: insertByKey key i js

/-- `inds[np.argsort(key[inds])]` with a stable sort -/
def argsortBy (key : Nat → Nat) (inds : List Nat) : List Nat := inds.foldr (insertByKey key) []

def modificationOrder (m : Nat) (cs : List Nat) : List Nat :=
  let new := floorChunks m cs
  argsortBy (fun i => new.getD i 0) (invalidInds m cs) ++ argsortBy (fun i => new.getD i 0) (validInds m cs)

/-- `l[i] += m` (no-op past the end; `bumpAll` checks the bound first) -/
def addAt (m : Nat) : Nat → List Nat → List Nat
  | _, [] => []
  | 0, x :: xs => (x + m) :: xs
  | i + 1, x :: xs => x :: addAt m i xs

/-- `for i in order: new[i] += m`; `none` = IndexError -/
def bumpAll (m : Nat) : List Nat → List Nat → Option (List Nat)
  | [], new => some new
  | i :: is, new => if i < new.length then bumpAll m is (addAt m i new) else none

/-- `aligned_coarsen_chunks(chunks, multiple)` with the modification order as a parameter (the tie-breaking of
    `np.argsort` among equal sizes is NumPy's business: quicksort / SIMD sorts are not stable);
    `none` = the Python raises (multiple 0, or an IndexError in the loop) -/
def alignedCoarsenChunksWith (order : List Nat) (cs : List Nat) (m : Nat) : Option (List Nat) :=
  if m = 0 then none else
  let k := excessOf m cs / m
  if order.length < k then none else
  match bumpAll m (order.take k) (floorChunks m cs) with
  | none => none
  | some new =>
    let rem := excessOf m cs % m
    let r := (new ++ (if rem = 0 then [] else [rem])).filter (fun c => decide (0 < c))
    some (if r.isEmpty then [0] else r)

/-- what the loop needs of the order: in-range indices, at least `excess // multiple` of them
    (every permutation of `range(len(chunks))` — any argsort — qualifies) -/
def ValidOrder (order : List Nat) (cs : List Nat) (m : Nat) : Prop :=
  (∀ i ∈ order, i < cs.length) ∧ excessOf m cs / m ≤ order.length

instance (order cs : List Nat) (m : Nat) : Decidable (ValidOrder order cs m) := by
  unfold ValidOrder; exact inferInstance

/-- the function with a stable argsort -/
def alignedCoarsenChunks (cs : List Nat) (m : Nat) : Option (List Nat) :=
  alignedCoarsenChunksWith (modificationOrder m cs) cs m

/-! ### da.coarsen along one axis -/

/-- `chunk.coarsen(reduction, block, {0: d}, trim_excess)`: `none` = reshape raises (ragged block, no trimming) -/
def chunkCoarsen {α β} (f : List α → β) (trim : Bool) (d : Nat) (xs : List α) : Option (List β) :=
  if !trim && xs.length % d != 0 then none else some (coarsenBlock f d xs)

def optAll {γ} : List (Option γ) → Option (List γ)
  | [] => some []
  | none :: _ => none
  | some x :: xs => (optAll xs).map (x :: ·)

/-- the lazily declared chunks of the result: `bd // d` for the blocks where that is positive; an axis that loses
    every block keeps one zero-length block -/
def coarsenDeclaredChunks (d : Nat) (aligned : List Nat) : List Nat :=
  let r := (aligned.map (· / d)).filter (fun c => decide (0 < c))
  if r.isEmpty then [0] else r

/-- `da.coarsen(f, x, {0: d}, trim_excess)` for a 1-d `x` with chunks `cs` and values `xs`:
    the blocks of the result, in block order (`none` = an exception, at graph construction or at compute time) -/
def daCoarsenWith {α β} (order : List Nat) (f : List α → β) (trim : Bool) (d : Nat) (cs : List Nat) (xs : List α) :
    Option (List (List β)) :=
  if d = 0 then none else
  if !trim && sum cs % d != 0 then none else
  match alignedCoarsenChunksWith order cs d with
  | none => none
  | some aligned => optAll ((splitBy aligned xs).map (chunkCoarsen f trim d))

def daCoarsen {α β} (f : List α → β) (trim : Bool) (d : Nat) (cs : List Nat) (xs : List α) : Option (List (List β)) :=
  daCoarsenWith (modificationOrder d cs) f trim d cs xs

end Dask.Counting
