import DaskModel.Model.Frame
/-!
# `Series.map(dict)` on one column of a frame (C36 extension)

`df.assign(dst = df[src].map(d))` for a dict `d` with integer keys: pandas looks every cell up in the
dict, a key that is missing gives NaN, a NaN cell stays NaN (`d` has no NaN key).  dask runs it as one
`Blockwise` `Map` task per partition followed by a `Blockwise` `Assign`.
Import-free of Mathlib (linked into the native driver).
-/
namespace Dask.Frame

/-- pandas `Series.map(dict)` on one cell -/
def mapCell (d : List (Int × Int)) : Cell → Cell
  | none => none
  | some v => d.lookup v

/-- one row of `df.assign(dst = df[src].map(d))` (`dst = ncols` appends a column) -/
def mapColRow (d : List (Int × Int)) (src dst : Nat) (r : Row) : Row :=
  { r with cells := setCol r.cells dst (mapCell d ((r.cells[src]?).getD none)) }

/-- pandas on one block / on the whole frame -/
def mapCol (d : List (Int × Int)) (src dst : Nat) (f : Frame) : Frame := f.map (mapColRow d src dst)

/-- dask: one task per partition, divisions kept -/
def daskMapCol (d : List (Int × Int)) (src dst : Nat) (pf : PFrame) : PFrame := pf.mapParts (mapCol d src dst)

end Dask.Frame
