import DaskModel.Model.RelExpr
/-
K7''' (dfrows, review round): dtype propagation for the arithmetic / comparison / boolean subset of the relational
fragment — what `Expr._meta` computes for `Projection`, `Filter`, `Assign`, the `Binop` subclasses and `Invert` by
running pandas on EMPTY operands, as a table. The table itself (`binDType`, `notDType`) is pandas' behaviour and is
checked against pandas every run, on empty AND on non-empty operands (value independence); `dtypeOf` composes it along
an expression exactly as `metaOf` composes kinds and column names.

Python                                                   Lean
------                                                   ----
`int64` / `float64` / `bool` column dtypes               `DT`
dtype of `a <op> b` (Series/Series, Series/int)          `binDType op da db` (`none` = pandas raises TypeError, or a
                                                            bitwise use of `&`/`|`/`~` that the value model does not cover)
a Python int operand                                     typed `int64`
`._meta.dtypes` / `._meta.dtype`                         `dtypeOf`
Import-free (linked into the native driver).
-/
namespace Dask.RelExpr

inductive DT where
  | int64 | float64 | bool
  deriving DecidableEq, Repr

/-- result dtype of a binary operator on two numeric/boolean operands -/
def binDType : BinOp → DT → DT → Option DT
  | .lt, _, _ | .le, _, _ | .gt, _, _ | .ge, _, _ | .eq, _, _ | .ne, _, _ => some .bool
  | .and, .bool, .bool | .or, .bool, .bool => some .bool
  | .and, _, _ | .or, _, _ => none
  | .sub, .bool, .bool => none                      -- numpy boolean subtract: TypeError
  | .add, .bool, .bool | .mul, .bool, .bool => some .bool
  | _, .float64, _ | _, _, .float64 => some .float64
  | _, _, _ => some .int64

/-- `~x`: logical not of a boolean operand only -/
def notDType : DT → Option DT
  | .bool => some .bool
  | _ => none

inductive TSchema where
  | frame (cols : List (String × DT))
  | series (d : DT)
  | scalar (d : DT)
  deriving DecidableEq, Repr

def TSchema.erase : TSchema → Schema
  | .frame cols => .frame (cols.map (·.1))
  | .series _ => .series
  | .scalar _ => .scalar

def lookupDT (cols : List (String × DT)) (n : String) : Option DT := (cols.find? (·.1 == n)).map (·.2)

/-- `df.assign(n=v)` on the typed column list: replace in place, or append -/
def setDT (cols : List (String × DT)) (n : String) (d : DT) : List (String × DT) :=
  if (colIdx (cols.map (·.1)) n).isSome then cols.map (fun kv => if kv.1 == n then (n, d) else kv) else cols ++ [(n, d)]

/-- the lazy typed schema: kind of object, column names in order, dtypes — computed WITHOUT data -/
def dtypeOf (src : List (String × DT)) : E → Option TSchema
  | .src => some (.frame src)
  | .proj cs f =>
    match dtypeOf src f with
    | some (.frame cols) =>
      if cs.all (fun c => (colIdx (cols.map (·.1)) c).isSome) then
        some (.frame (cs.map (fun c => (c, (lookupDT cols c).getD .float64))))
      else none
    | _ => none
  | .col f n =>
    match dtypeOf src f with
    | some (.frame cols) => if (colIdx (cols.map (·.1)) n).isSome then (lookupDT cols n).map TSchema.series else none
    | _ => none
  | .filter f p =>
    match dtypeOf src f, dtypeOf src p with
    | some (.frame cols), some (.series .bool) => some (.frame cols)
    | some (.series d), some (.series .bool) => some (.series d)
    | _, _ => none
  | .assign f n v =>
    match dtypeOf src f, dtypeOf src v with
    | some (.frame cols), some (.series d) => some (.frame (setDT cols n d))
    | some (.frame cols), some (.scalar d) => some (.frame (setDT cols n d))
    | _, _ => none
  | .lit _ => some (.scalar .int64)
  | .bin op a b =>
    match dtypeOf src a, dtypeOf src b with
    | some (.series x), some (.series y) => (binDType op x y).map TSchema.series
    | some (.series x), some (.scalar y) => (binDType op x y).map TSchema.series
    | some (.scalar x), some (.series y) => (binDType op x y).map TSchema.series
    | some (.scalar x), some (.scalar y) => (binDType op x y).map TSchema.scalar
    | _, _ => none
  | .not a =>
    match dtypeOf src a with
    | some (.series d) => (notDType d).map TSchema.series
    | some (.scalar d) => (notDType d).map TSchema.scalar
    | _ => none

end Dask.RelExpr
