import DaskModel.DriverLib
import DaskModel.Model.TaskTermIO
import DaskModel.Model.Rename
/-! Driver handlers of the C16 model that were added in the review round (kept out of `Drivers/graph.lean` so that
    several people can extend the group's driver without editing the same file). Import-free of Mathlib. -/
namespace Dask.TaskTerm
open Dask

/-- extra handlers of the C16 model: `(op, handler)` pairs appended to the table of `dm_graph` -/
def renameIoHandlers : List (String × Handler) := []

end Dask.TaskTerm
