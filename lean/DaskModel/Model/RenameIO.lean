import DaskModel.DriverLib
import DaskModel.Model.TaskTermIO
import DaskModel.Model.Rename
/-! Driver handlers of the C16 model that were added in the review round (kept out of `Drivers/graph.lean` so that
    several people can extend the group's driver without editing the same file). Import-free of Mathlib. -/
namespace Dask.TaskTerm
open Dask

/-- a finite renaming given as an association list; identity elsewhere -/
def rhoOfList (kvs : List (Obj × Obj)) : Obj → Obj := fun k => (kvs.lookup k).getD k

def bindTo? : SExp → Option (Option Obj)
  | .sym "nobind" => some none
  | e => (Obj.ofSExp? e).map some

/-- `(clone_spec_layer keys rho bindto|nobind graph)` ↦ `(layer bound)`: `Layer.clone` on task-spec nodes -/
def hCloneSpecLayer : Handler := handler fun
  | [keys, rho, bindTo, g] => do
    let r := cloneSpecLayer (← objs? keys) (rhoOfList (← lgraph? rho)) (← bindTo? bindTo) (← ngraph? g)
    pure (.list [ofNGraph r.1, SExp.ofBool r.2])
  | _ => none

/-- `(clone_legacy_layer keys rho bindto|nobind bindfn graph)` ↦ `(layer bound)`: `Layer.clone` on legacy values -/
def hCloneLegacyLayer : Handler := handler fun
  | [keys, rho, bindTo, bindFn, g] => do
    let r := cloneLegacyLayer (← objs? keys) (rhoOfList (← lgraph? rho)) (← bindTo? bindTo) (← Obj.ofSExp? bindFn) (← lgraph? g)
    pure (.list [ofLGraph r.1, SExp.ofBool r.2])
  | _ => none

def layerMap? (e : SExp) : Option LayerMap := do
  (← e.toList?).mapM fun
    | .list [n, ds, leaf] => do some (← Obj.ofSExp? n, (← objs? ds, ← leaf.toBool?))
    | _ => none

def depMap? (e : SExp) : Option (List (Obj × List Obj)) := do
  (← e.toList?).mapM fun
    | .list [n, ds] => do some (← Obj.ofSExp? n, ← objs? ds)
    | _ => none

def LayerOrigin.toSExp : LayerOrigin → SExp
  | .blocker => .list [.sym "blocker"]
  | .cloned prev b => .list [.sym "cloned", prev.toSExp, SExp.ofBool b]
  | .verbatim => .list [.sym "verbatim"]

/-- the order in which the model pops the Python sets: 0 = first, 1 = last, 2 = middle -/
def selOf (n : Nat) : List Obj → Nat := fun w =>
  match n with
  | 0 => 0
  | 1 => w.length - 1
  | _ => w.length / 2

/-- `(bind_one G child omit rho blocker|noblocker B order1 order2)` with `G = ((name (deps…) leaf) …)`,
    `B = ((name (deps…)) …)` ↦ `(ok ((name origin (deps…)) …))` | `(keyerror k)` | `(fuel)`: `_bind_one`'s
    `new_layers` / `new_deps` -/
def hBindOne : Handler := handler fun
  | [g, child, om, rho, blk, b, o1, o2] => do
    let G ← layerMap? g
    let child ← objs? child
    let blk ← match blk with
      | .sym "noblocker" => some none
      | e => (Obj.ofSExp? e).map some
    match bindOne G child (← objs? om) (rhoOfList (← lgraph? rho)) blk (← depMap? b) (selOf (← o1.toNat?)) (selOf (← o2.toNat?))
        (bindFuel G child) with
    | .ok acc =>
      pure (.list [.sym "ok", .list (acc.layers.map fun (n, o) =>
        .list [n.toSExp, o.toSExp, .list (((acc.deps.lookup n).getD []).map Obj.toSExp)])])
    | .keyError k => pure (.list [.sym "keyerror", k.toSExp])
    | .fuel => pure (.list [.sym "fuel"])
  | _ => none

def bwArg? : SExp → Option BwArg
  | .list [.sym "name", k] => do some (BwArg.name (← Obj.ofSExp? k))
  | .list [.sym "ref", k] => do some (BwArg.ref (← Obj.ofSExp? k))
  | .list [.sym "other"] => some BwArg.other
  | _ => none

def BwArg.toSExp : BwArg → SExp
  | .name k => .list [.sym "name", k.toSExp]
  | .ref k => .list [.sym "ref", k.toSExp]
  | .other => .list [.sym "other"]

/-- `(bw_clone (names…) rho bindto|nobind output (indices…) (numblocks-keys…) taskkey)` ↦
    `((output (indices…) (numblocks…) taskkey wrapped|none) bound)` -/
def hBwClone : Handler := handler fun
  | [names, rho, bindTo, out, idx, nb, tk] => do
    let idx ← (← idx.toList?).mapM bwArg?
    let r := blockwiseClone (← objs? names) (rhoOfList (← lgraph? rho)) (← bindTo? bindTo)
      ⟨← Obj.ofSExp? out, idx, ← objs? nb, ← Obj.ofSExp? tk⟩
    pure (.list [.list [r.1.output.toSExp, .list (r.1.indices.map BwArg.toSExp), .list (r.1.numblocks.map Obj.toSExp),
      r.1.taskKey.toSExp, SExp.ofOptNat r.1.wrapped], SExp.ofBool r.2])
  | _ => none

/-- `(checkpoint_reduce2 name split_every (mapkeys…) fuel|auto)` ↦ `(ok ((key (inputs…)) …))` | `(fuel)` -/
def hCheckpointReduce2 : Handler := handler fun
  | [name, se, mk, fuel] => do
    let name ← Obj.ofSExp? name
    let mapKeys ← objs? mk
    let fuel ← match fuel with
      | .sym "auto" => some (mapKeys.length + 1)
      | e => e.toNat?
    match checkpointReduce? name (fun i => .tuple [name, .int i]) (← se.toNat?) fuel mapKeys [] with
    | some r => pure (.list [.sym "ok", .list (r.map fun (k, ins) => .list [k.toSExp, .list (ins.map Obj.toSExp)])])
    | none => pure (.list [.sym "fuel"])
  | _ => none

/-- extra handlers of the C16 model: `(op, handler)` pairs appended to the table of `dm_graph` -/
def renameIoHandlers : List (String × Handler) :=
  [("clone_spec_layer", hCloneSpecLayer), ("clone_legacy_layer", hCloneLegacyLayer), ("bind_one", hBindOne),
   ("bw_clone", hBwClone), ("checkpoint_reduce2", hCheckpointReduce2)]

end Dask.TaskTerm
