import DaskModel.DriverLib
import DaskModel.Model.TaskTermIO
import DaskModel.Model.Rename
/-! Driver handlers of the C16 model that were added in the review round (kept out of `Drivers/graph.lean` so that
    several people can extend the group's driver without editing the same file). Import-free of Mathlib. -/
namespace Dask.TaskTerm
open Dask

/-- a finite renaming given as an association list; identity elsewhere -/
def rhoOfList (kvs : List (Obj × Obj)) : Obj → Obj := fun k => (kvs.lookup k).getD k

def bindTo? : SExp → Option (Option Obj)
  | .sym "nobind" => some none
  | e => (Obj.ofSExp? e).map some

/-- `(clone_spec_layer keys rho bindto|nobind graph)` ↦ `(layer bound)`: `Layer.clone` on task-spec nodes -/
def hCloneSpecLayer : Handler := handler fun
  | [keys, rho, bindTo, g] => do
    let r := cloneSpecLayer (← objs? keys) (rhoOfList (← lgraph? rho)) (← bindTo? bindTo) (← ngraph? g)
    pure (.list [ofNGraph r.1, SExp.ofBool r.2])
  | _ => none

/-- `(clone_legacy_layer keys rho bindto|nobind bindfn graph)` ↦ `(layer bound)`: `Layer.clone` on legacy values -/
def hCloneLegacyLayer : Handler := handler fun
  | [keys, rho, bindTo, bindFn, g] => do
    let r := cloneLegacyLayer (← objs? keys) (rhoOfList (← lgraph? rho)) (← bindTo? bindTo) (← Obj.ofSExp? bindFn) (← lgraph? g)
    pure (.list [ofLGraph r.1, SExp.ofBool r.2])
  | _ => none

/-- extra handlers of the C16 model: `(op, handler)` pairs appended to the table of `dm_graph` -/
def renameIoHandlers : List (String × Handler) :=
  [("clone_spec_layer", hCloneSpecLayer), ("clone_legacy_layer", hCloneLegacyLayer)]

end Dask.TaskTerm
