import DaskModel.Model.Blockwise
import DaskModel.Model.Elemwise
import DaskModel.Model.MapBlocks
/-
`dask/array/gufunc.py`, index bookkeeping end to end (C35 extension).

Python                                                           Lean
------                                                           ----
`re.sub(r"\s+", "", signature)`                                  `stripWs`  (`isWs` = Python's Unicode `\s`)
`re.match(_SIGNATURE, …)` + `split("->")` + `findall`s           `parseSig` (one deterministic automaton `step` with accumulators;
                                                                  `none` = ValueError "Not a valid gufunc signature")
`outs[0] if len(outs) == 1 and out_txt[-1] != ","`               `Sig.single`
`len(input_coredimss) != len(args)`                              `GErr.nargs`
`arg.transpose(tidc)` with the default axes, `ndim < len(icd)`   `GErr.ndim`   (ValueError "axes don't match array")
`num_loopdims`, `max_loopdims`, `loop_input_dimss`, `input_dimss` `nLoop`, `maxLoop`, `inDims` (`MapBlocks.loopDims`)
`merge(*core_input_shapes); core_shapes.update(output_sizes)`    `coreShapes` (newest binding first; `List.lookup`)
`dimsizess` / `chunksizess` (dicts, first-seen key order)        `occs`, `dimKeys`, `occOf`
the three checks of the `for dim, sizes in dimsizess.items()`    `checkDim` (`lengths`, `coreMulti`, `chunksize`)
`blockwise(func, loop_output_dims, *arginds, concatenate=True)`  `Plan.outInd`, `Plan.inDims` (no `new_axes`, no `adjust_chunks`)
`core_shapes[d] for d in ocd`  (KeyError)                        `outCore` (`GErr.missingSize`)
leaf layers `(leaf_name,) + key[1:] + core_chunkinds`            `leafKey`, `leafLayer` (`getitem` index iff several outputs)
`output_chunks = loop_output_chunks + core_output_shape`         `outChunks`

A dimension is `Dim.loop d` (`"__loopdim{d}__"`) or `Dim.core name`: the model is faithful when no core-dimension name has
the form `__loopdim<d>__` (the harness checks this on every input; see notes/hlg.md for what the real code does otherwise).
The `axes=`/`axis=`/`keepdims=` transpositions are outside the model (validated by the harness section `gufunc_axes`).
Import-free of Mathlib.
-/
namespace Dask.Gufunc
open Dask.Blockwise (traverse Coord)
open Dask.Elemwise (locate globalOf localIdx)

/-! ## 1. `_parse_gufunc_signature` -/

/-- Python `re`'s `\s` on `str` patterns (`Py_UNICODE_ISSPACE`) -/
def isWs (c : Char) : Bool :=
  let n := c.toNat
  (9 ≤ n && n ≤ 13) || (28 ≤ n && n ≤ 32) || n == 0x85 || n == 0xA0 || n == 0x1680 || (0x2000 ≤ n && n ≤ 0x200A)
    || n == 0x2028 || n == 0x2029 || n == 0x202F || n == 0x205F || n == 0x3000

/-- `\w` restricted to ASCII (non-ASCII signatures are outside the model) -/
def isWord (c : Char) : Bool :=
  let n := c.toNat
  (48 ≤ n && n ≤ 57) || (65 ≤ n && n ≤ 90) || (97 ≤ n && n ≤ 122) || n == 95

def stripWs (cs : List Char) : List Char := cs.filter (fun c => !isWs c)

/-- phases of the automaton for `^INPUT_ARGUMENTS->OUTPUT_ARGUMENTS$` -/
inductive Ph where
  | start      -- beginning of the input / output argument list
  | arg0       -- just after `(`
  | name       -- inside a `\w+`
  | nameComma  -- after `name,` inside an argument
  | afterArg   -- after `)`
  | argComma   -- after `),`
  | arrow      -- after `-`
  deriving DecidableEq, Repr

structure St where
  out : Bool := false                      -- right of `->`
  ph : Ph := .start
  cur : List Char := []                    -- the name being read
  names : List (List Char) := []           -- names of the argument being read
  ins : List (List (List Char)) := []
  outs : List (List (List Char)) := []
  deriving Repr

def St.pushArg (s : St) (names : List (List Char)) : St :=
  if s.out then { s with ph := .afterArg, cur := [], names := [], outs := s.outs ++ [names] }
  else { s with ph := .afterArg, cur := [], names := [], ins := s.ins ++ [names] }

/-- one character; `none` = the regular expression cannot match -/
def step (s : St) (c : Char) : Option St :=
  match s.ph with
  | .start =>
    if c = '(' then some { s with ph := .arg0 }
    else if c = '-' ∧ s.out = false then some { s with ph := .arrow }
    else none
  | .arg0 =>
    if c = ')' then some (s.pushArg [])
    else if isWord c then some { s with ph := .name, cur := [c] }
    else none
  | .name =>
    if isWord c then some { s with cur := s.cur ++ [c] }
    else if c = ',' then some { s with ph := .nameComma, cur := [], names := s.names ++ [s.cur] }
    else if c = ')' then some (s.pushArg (s.names ++ [s.cur]))
    else none
  | .nameComma =>
    if isWord c then some { s with ph := .name, cur := [c] }
    else if c = ')' then some (s.pushArg s.names)
    else none
  | .afterArg =>
    if c = ',' then some { s with ph := .argComma }
    else if c = '-' ∧ s.out = false then some { s with ph := .arrow }
    else none
  | .argComma =>
    if c = '(' then some { s with ph := .arg0 }
    else if c = '-' ∧ s.out = false then some { s with ph := .arrow }
    else none
  | .arrow =>
    if c = '>' then some { s with out := true, ph := .start }
    else none

def run : St → List Char → Option St
  | s, [] => some s
  | s, c :: r => match step s c with
    | none => none
    | some s' => run s' r

/-- parsed signature; names are character lists -/
structure Sig (ν : Type) where
  ins : List (List ν)
  outs : List (List ν)
  deriving Repr, DecidableEq

/-- `outs = outs[0] if len(outs) == 1 and out_txt[-1] != ","`: a valid `out_txt` always ends with `)` -/
def Sig.single {ν : Type} (s : Sig ν) : Bool := s.outs.length == 1

/-- `re.match(_SIGNATURE, …)`, `split("->")` and the `findall`s on a text without whitespace -/
def parseStripped (cs : List Char) : Option (Sig (List Char)) :=
  match run {} cs with
  | some s => if s.out ∧ s.ph = .afterArg then some ⟨s.ins, s.outs⟩ else none
  | none => none

/-- `_parse_gufunc_signature` (`none` = ValueError) -/
def parseSig (cs : List Char) : Option (Sig (List Char)) := parseStripped (stripWs cs)

/-- canonical text of a signature -/
def renderNames : List (List Char) → List Char
  | [] => []
  | [n] => n
  | n :: m :: r => n ++ ',' :: renderNames (m :: r)
def renderArg (names : List (List Char)) : List Char := '(' :: renderNames names ++ [')']
def renderArgs : List (List (List Char)) → List Char
  | [] => []
  | [a] => renderArg a
  | a :: b :: r => renderArg a ++ ',' :: renderArgs (b :: r)
def render (s : Sig (List Char)) : List Char := renderArgs s.ins ++ '-' :: '>' :: renderArgs s.outs

/-! ## 2. `apply_gufunc`: guards and the arguments of the `blockwise` call -/

inductive Dim (ν : Type) where
  | loop (d : Nat)
  | core (n : ν)
  deriving DecidableEq, Repr

inductive GErr (ν : Type) where
  | malformed                 -- not a dask array (never produced by the real code)
  | nargs                     -- ValueError "According to `signature`, `func` requires …"
  | ndim                      -- ValueError "axes don't match array"
  | lengths (d : Dim ν)       -- ValueError "Dimension `…` with different lengths in arrays"
  | coreMulti (d : Dim ν)     -- ValueError "Core dimension `…` consists of multiple chunks"
  | chunksize (d : Dim ν)     -- ValueError "Dimension `…` with different chunksize present"
  | missingSize (n : ν)       -- KeyError (an output core dimension without a size)
  deriving DecidableEq, Repr

structure GArg where
  shape : List Nat
  chunks : List (List Nat)
  deriving Repr, DecidableEq

def GArg.wellFormed (a : GArg) : Bool :=
  a.chunks.length == a.shape.length && a.chunks.all (fun c => !c.isEmpty) && a.chunks.map List.sum == a.shape

section
variable {ν : Type} [DecidableEq ν]

def nLoop (a : GArg) (cd : List ν) : Nat := a.shape.length - cd.length

def maxLoop (ns : List Nat) : Nat := ns.foldl max 0

/-- `input_dimss[k]` -/
def inDims (mx : Nat) (a : GArg) (cd : List ν) : List (Dim ν) :=
  (MapBlocks.loopDims mx (nLoop a cd)).map Dim.loop ++ cd.map Dim.core

/-- `core_shapes`, newest binding first -/
def coreShapes (ins : List (List ν)) (args : List GArg) (outSizes : List (ν × Nat)) : List (ν × Nat) :=
  (((args.zip ins).flatMap fun p => p.2.zip (p.1.shape.drop (nLoop p.1 p.2))) ++ outSizes).reverse

/-- all `(dim, size, chunksize)` triples in the order of the two nested `for` loops -/
def occs (mx : Nat) (ins : List (List ν)) (args : List GArg) : List (Dim ν × Nat × List Nat) :=
  (args.zip ins).flatMap fun p => (inDims mx p.1 p.2).zip (p.1.shape.zip p.1.chunks)

/-- keys of `dimsizess` in insertion order -/
def dimKeys (P : List (Dim ν × Nat × List Nat)) : List (Dim ν) := (P.map (·.1)).eraseDups

def occOf (P : List (Dim ν × Nat × List Nat)) (d : Dim ν) : List (Dim ν × Nat × List Nat) := P.filter (fun p => p.1 == d)

/-- `(dim in core_shapes) and (chunksizes[0][0] < core_shapes[dim])` -/
def coreTooSmall (cs : List (ν × Nat)) (d : Dim ν) (occ : List (Dim ν × Nat × List Nat)) : Bool :=
  match d with
  | .loop _ => false
  | .core n => match cs.lookup n with
    | none => false
    | some v => match occ with
      | (_, _, c0 :: _) :: _ => c0 < v
      | _ => false

/-- `set(sizes) | {1} != {1, max(sizes)}` -/
def lengthsDiffer (sizes : List Nat) : Bool := sizes.any fun s => s != 1 && s != sizes.foldl max 0

/-- `len(list(unique(c for s, c in zip(sizes, chunksizes) if s > 1))) > 1` -/
def chunksDiffer (occ : List (Dim ν × Nat × List Nat)) : Bool :=
  (((occ.filter fun p => p.2.1 > 1).map (·.2.2)).eraseDups).length > 1

/-- the body of `for dim, sizes in dimsizess.items()` -/
def checkDim (allow : Bool) (cs : List (ν × Nat)) (P : List (Dim ν × Nat × List Nat)) (d : Dim ν) : Option (GErr ν) :=
  let occ := occOf P d
  if lengthsDiffer (occ.map (·.2.1)) then some (.lengths d)
  else if allow then none
  else if coreTooSmall cs d occ then some (.coreMulti d)
  else if chunksDiffer occ then some (.chunksize d)
  else none

/-- `tuple(core_shapes[d] for d in ocd)` for one output -/
def outCore (cs : List (ν × Nat)) : List ν → Except (GErr ν) (List Nat)
  | [] => .ok []
  | n :: r => match cs.lookup n with
    | none => .error (.missingSize n)
    | some v => match outCore cs r with
      | .error e => .error e
      | .ok l => .ok (v :: l)

def outCores (cs : List (ν × Nat)) : List (List ν) → Except (GErr ν) (List (List Nat))
  | [] => .ok []
  | o :: r => match outCore cs o with
    | .error e => .error e
    | .ok v => match outCores cs r with
      | .error e => .error e
      | .ok l => .ok (v :: l)

structure Plan (ν : Type) where
  mx : Nat
  /-- `loop_output_dims`: the output index string of the `blockwise` call -/
  outInd : List (Dim ν)
  /-- `input_dimss`: the index string of every argument -/
  inDims : List (List (Dim ν))
  coreShapes : List (ν × Nat)
  /-- `core_output_shape` of every output -/
  outCore : List (List Nat)
  deriving Repr

/-- the first error of the guards in the order the code evaluates them -/
def guards (sig : Sig ν) (args : List GArg) (outSizes : List (ν × Nat)) (allow : Bool) : Option (GErr ν) :=
  if args.any (fun a => !a.wellFormed) then some .malformed
  else if sig.ins.length != args.length then some .nargs
  else if (args.zip sig.ins).any (fun p => p.1.shape.length < p.2.length) then some .ndim
  else
    let mx := maxLoop ((args.zip sig.ins).map fun p => nLoop p.1 p.2)
    let P := occs mx sig.ins args
    (dimKeys P).findSome? (checkDim allow (coreShapes sig.ins args outSizes) P)

/-- everything `apply_gufunc` decides before and after the `blockwise` call (default `axes`) -/
def plan (sig : Sig ν) (args : List GArg) (outSizes : List (ν × Nat)) (allow : Bool) : Except (GErr ν) (Plan ν) :=
  match guards sig args outSizes allow with
  | some e => .error e
  | none =>
    let mx := maxLoop ((args.zip sig.ins).map fun p => nLoop p.1 p.2)
    let cs := coreShapes sig.ins args outSizes
    match outCores cs sig.outs with
    | .error e => .error e
    | .ok oc => .ok { mx := mx, outInd := (MapBlocks.loopDims mx mx).map Dim.loop,
                      inDims := (args.zip sig.ins).map fun p => inDims mx p.1 p.2, coreShapes := cs, outCore := oc }

/-! ### interning into K13 symbols -/

/-- loop dimension `d` ↦ `d`, core dimension ↦ `mx + position in the list of core names` -/
def symOf (mx : Nat) (names : List ν) : Dim ν → Nat
  | .loop d => d
  | .core n => mx + names.idxOf n

/-- the `(name, ind)` entry of argument `k` as K13 sees it (`nb` = its `numblocks`) -/
def bwArg (mx : Nat) (names : List ν) (k : Nat) (dims : List (Dim ν)) (nb : List Nat) : Blockwise.Arg :=
  { name := k, ind := dims.map (symOf mx names), nb := nb }

end

/-! ## 3. the output layers -/

/-- `(leaf_name,) + key[1:] + core_chunkinds` (without the name) -/
def leafKey (key : List Nat) (ncore : Nat) : List Nat := key ++ List.replicate ncore 0

/-- the leaf layer of output `i`: `(leaf key, key of tmp, getitem index)`; `none` = the alias `key` (single output) -/
def leafLayer (single : Bool) (i ncore : Nat) (tmpKeys : List (List Nat)) : List (List Nat × List Nat × Option Nat) :=
  tmpKeys.map fun k => (leafKey k ncore, k, if single then none else some i)

/-- `output_chunks = loop_output_chunks + core_output_shape` -/
def outChunks (loopChunks : List (List Nat)) (coreShape : List Nat) : List (List Nat) :=
  loopChunks ++ coreShape.map fun s => [s]

/-! ## 4. what a call sees and what is assembled (the loop dimensions; a core slice is an abstract value) -/

/-- one argument of the `blockwise` call, as far as the loop dimensions go -/
structure LArg (σ : Type) where
  /-- chunks of its loop axes (after `unify_chunks`) -/
  lchunks : List (List Nat)
  /-- number of blocks along each core axis -/
  cnb : List Nat
  /-- the core slice at a loop multi-index of the ARGUMENT -/
  val : List Nat → σ

/-- NumPy's broadcast index: loop axes right-aligned, `0` where the argument has length 1 -/
def npIdx {σ : Type} (mx : Nat) (a : LArg σ) (l : List Nat) : List Nat :=
  List.zipWith (fun c i => if c.sum = 1 then 0 else i) a.lchunks (l.drop (mx - a.lchunks.length))

/-- `numpy.vectorize(f, signature=…)` at loop index `l` -/
def vectorizeAt {σ τ : Type} (f : List σ → τ) (mx : Nat) (args : List (LArg σ)) (l : List Nat) : τ :=
  f (args.map fun a => a.val (npIdx mx a l))

/-- block and offset of every loop coordinate in the output chunks -/
def locateAll : List (List Nat) → List Nat → Option (List (Nat × Nat))
  | [], [] => some []
  | c :: cs, i :: is => match locate c i with
    | none => none
    | some p => (locateAll cs is).map (p :: ·)
  | _, _ => none

/-- along one loop axis: the position in the argument of the element that the (vectorised) user function reads at
    offset `l` of the block with K13 coordinate `c` (NumPy broadcasting inside the block) -/
def axisRead (cArg : List Nat) (c : Coord) (l : Nat) : Option Nat :=
  match c with
  | .one ab => (cArg[ab]?).map fun len => globalOf cArg ab (localIdx len l)
  | .many _ => none

def axesRead : List (List Nat) → List Coord → List Nat → Option (List Nat)
  | [], _, _ => some []
  | cA :: cs, c :: r, l :: ls => match axisRead cA c l with
    | none => none
    | some p => (axesRead cs r ls).map (p :: ·)
  | _, _, _ => none

/-- a core coordinate hands over the WHOLE core dimension: all `nb` blocks in order (concatenated: `concatenate=True`) -/
def wholeCore (nb : Nat) (c : Coord) : Bool := decide (c = .many (List.range nb))

/-- the core slice argument `a` contributes at offsets `offs` of output block `o` -/
def argRead {σ : Type} (mx : Nat) (out dums : List Nat) (dims : List (Nat × Nat)) (o offs : List Nat)
    (a : LArg σ) (bw : Blockwise.Arg) : Option σ := do
  let cs ← Blockwise.argCoords out dums dims true o bw
  let n := a.lchunks.length
  if (List.zipWith wholeCore a.cnb (cs.drop n)).all id && (cs.drop n).length = a.cnb.length then
    (axesRead a.lchunks (cs.take n) (offs.drop (mx - n))).map a.val
  else none

/-- the value `apply_gufunc`'s graph assembles at loop index `l`: locate `l` in the output chunks `oc`, take the blocks
    the `blockwise` layer (index strings `out`/`bws`) passes for that output block, apply `f` to what the call sees at the
    block offsets -/
def gufuncAt {σ τ : Type} (f : List σ → τ) (mx : Nat) (out dums : List Nat) (dims : List (Nat × Nat)) (oc : List (List Nat))
    (args : List (LArg σ × Blockwise.Arg)) (l : List Nat) : Option τ := do
  let bl ← locateAll oc l
  let vals ← traverse (fun p => argRead mx out dums dims (bl.map (·.1)) (bl.map (·.2)) p.1 p.2) args
  pure (f vals)

end Dask.Gufunc
