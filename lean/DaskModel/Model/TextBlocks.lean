/-
K11 `TextBlocks`: `dask.bytes.core.read_bytes` (offset/length planning), `fsspec.utils.seek_delimiter`
/ `read_block`, `dask.bytes.core.read_block_from_file`, `dask.bag.text.decode` / `file_to_blocks`.

Python                                        Lean
------                                        ----
bytes / str                                   `List Nat` (byte values / code points)
`size / (size // blocksize)` (a double)       exact fixed point: a double `v` is the `Nat` `v * 2^52`
                                              (every double that occurs in the loop is a multiple of
                                              2^-52: all are >= 1 or differences of such), rounding
                                              `round53` = round-to-nearest-even to 53 significant bits
`place += blocksize1`, `size - place`,        `FArith.rnd (exact scaled value)`
`blocksize1 * 2 - 1`
`int(place)`                                  `place / 2^52`
`while` loop                                  fuel; `none` = fuel exhausted (theorem: never for the real arithmetic)
`file.seek / tell / read`                     a position `Nat` into the byte list
`bytes.index`, `in`                           `findIdx`
`str.split(sep)`                              `pySplit`
ZeroDivisionError (blocksize 0)               `none`
`str.encode('utf-8')`                         `utf8`, `encode` (code points → bytes)
Import-free (linked into the native driver).
-/
namespace Dask.TextBlocks

/-! ## doubles as fixed point numbers -/

/-- the scale: a double `v` is represented by the natural number `v * S` -/
def S : Nat := 2 ^ 52

/-- round-half-even of the rational `p / q` (`q > 0`) to an integer -/
def rhe (p q : Nat) : Nat :=
  let f := p / q
  let r := p % q
  if 2 * r < q then f else if q < 2 * r then f + 1 else if f % 2 = 0 then f else f + 1

/-- round the non-negative rational `p / q` to 53 significant bits (ties to even); for values below
    `2^53` this is rounding to an integer. In units of 2^-52 this is IEEE double rounding of every
    value `>= 1` (no overflow below 2^971). -/
def round53 (p q : Nat) : Nat :=
  let v := p / q
  let sh := if v < 2 ^ 53 then 0 else Nat.log2 v - 52
  rhe p (q * 2 ^ sh) * 2 ^ sh

/-- the two rounding primitives the offset loop uses, abstracted so that the theorems can state
    exactly which properties of IEEE arithmetic they rely on -/
structure FArith where
  /-- `fl(a / b)` for Python ints `a`, `b` (scaled result) -/
  div : Nat → Nat → Nat
  /-- `fl(x)` for an exact scaled value `x` -/
  rnd : Nat → Nat

/-- IEEE double arithmetic (round to nearest even) -/
def ieee : FArith := { div := fun a b => round53 (a * S) b, rnd := fun x => round53 x 1 }

/-! ## `read_bytes`: offsets and lengths of one file -/

/-- the `while size - place > blocksize1 * 2 - 1` loop when `blocksize1` is a Python int
    (`size - place > 2 b - 1  ⇔  size ≥ place + 2 b`); returns the offsets appended (in order) -/
def loopInt (size b : Nat) : Nat → Nat → List Nat
  | 0, _ => []
  | fuel + 1, place =>
    if place + 2 * b ≤ size then (place + b) :: loopInt size b fuel (place + b) else []

/-- the same loop when `blocksize1` is a double (`bs1`, scaled); `place` scaled -/
def loopFloat (A : FArith) (size bs1 : Nat) : Nat → Nat → Option (List Nat)
  | 0, _ => none
  | fuel + 1, place =>
    let fsize := A.rnd (size * S)
    -- `size - place`  >  `blocksize1 * 2 - 1`; while `place` is still the Python int `0` the left side is an exact
    -- int that Python compares EXACTLY with the double on the right (matters for sizes ≥ 2^53 only), afterwards
    -- `float(size) - place` is a rounded double
    let diff := if place = 0 then size * S else A.rnd (fsize - place)
    if place < fsize ∧ A.rnd (A.rnd (2 * bs1) - S) < diff then
      let place' := A.rnd (place + bs1)
      (loopFloat A size bs1 fuel place').map (fun r => place' / S :: r)
    else some []

/-- offsets of a file of `size` bytes cut with `blocksize` (the `else` branch, `size ≠ 0`);
    `none` = Python raises (ZeroDivisionError) or the model ran out of fuel -/
def offsets (A : FArith) (size blocksize : Nat) : Option (List Nat) :=
  if size = 0 then some []
  else if blocksize = 0 then none
  else if size % blocksize ≠ 0 ∧ blocksize < size then
    (loopFloat A size (A.div size (size / blocksize)) (size + 1) 0).map (0 :: ·)
  else some (0 :: loopInt size blocksize (size + 1) 0)

/-- `length.append(off[-1] - off[-2])` … `length.append(size - off[-1])` -/
def lengthsOf (size : Nat) : List Nat → List Nat
  | [] => []
  | [o] => [size - o]
  | o :: o' :: rest => (o' - o) :: lengthsOf size (o' :: rest)

/-- `(offsets, lengths)` as `read_bytes` computes them for one file -/
def plan (A : FArith) (size blocksize : Nat) : Option (List Nat × List Nat) :=
  (offsets A size blocksize).map (fun o => (o, lengthsOf size o))

/-! ## `fsspec.utils.seek_delimiter` / `read_block` -/

/-- Python `d in t` / `t.index(d)`: first index at which `d` is a prefix of the rest -/
def findIdx (d : List Nat) : List Nat → Option Nat
  | [] => if d.isEmpty then some 0 else none
  | c :: cs => if d.isPrefixOf (c :: cs) then some 0 else (findIdx d cs).map (· + 1)

/-- `seek_delimiter` reading the whole rest at once: `(position afterwards, found)` -/
def seekSimple (d data : List Nat) (pos : Nat) : Nat × Bool :=
  if pos = 0 then (0, false)
  else match findIdx d (data.drop pos) with
    | some i => (pos + i + d.length, true)
    | none => (max pos data.length, false)

/-- `seek_delimiter(file, delimiter, blocksize)` transliterated: reads `bsz` bytes at a time and
    keeps the last `len(delimiter)` bytes; state = (file position, `last`) -/
def seekChunkedLoop (bsz : Nat) (d data : List Nat) : Nat → Nat → List Nat → Nat × Bool
  | 0, pos, _ => (pos, false)
  | fuel + 1, pos, last =>
    let current := (data.drop pos).take bsz
    let pos' := pos + current.length
    if current.isEmpty then (pos, false)
    else
      let full := last ++ current
      match findIdx d full with
      | some i => (pos' - (full.length - i) + d.length, true)
      | none =>
        if current.length < bsz then (pos', false)
        else seekChunkedLoop bsz d data fuel pos' (full.drop (full.length - d.length))

def seekChunked (bsz : Nat) (d data : List Nat) (pos : Nat) : Nat × Bool :=
  if pos = 0 then (0, false) else seekChunkedLoop bsz d data (data.length + 2) pos []

/-- `f.seek(a); f.read(n)` -/
def readAt (data : List Nat) (a n : Nat) : List Nat := (data.drop a).take n

/-- `fsspec.utils.read_block(f, offset, length, delimiter)` (with `split_before=False`), parameterised
    by the seek function. `length = none` reads to the end. With a delimiter the computed
    `length = end - start` is negative only if `seek` is not monotone; Python's `read(negative)` reads
    everything, which is modelled. -/
def readBlockWith (seek : List Nat → List Nat → Nat → Nat × Bool) (data d : List Nat) (off : Nat)
    (len : Option Nat) : List Nat :=
  if d.isEmpty then
    match len with
    | some n => readAt data off n
    | none => data.drop off
  else
    let start := (seek d data off).1
    match len with
    | none => data.drop start
    | some n =>
      -- `length -= start - offset; f.seek(start + length)` = seek(offset + n)
      let stop := (seek d data (off + n)).1
      if stop < start then data.drop start else readAt data start (stop - start)

def readBlock := readBlockWith seekSimple
def readBlockChunked (bsz : Nat) := readBlockWith (seekChunked bsz)

/-- `read_block_from_file(lazy_file, off, bs, delimiter)` -/
def readBlockFromFile (data d : List Nat) (off : Nat) (len : Option Nat) : List Nat :=
  if off = 0 ∧ len.isNone then data else readBlock data d off len

/-- all blocks of one file as `read_bytes(..., delimiter=d, blocksize=bs)` computes them
    (`bs = none`: one block, the whole file) -/
def fileBlocks (A : FArith) (data d : List Nat) (bs : Option Nat) : Option (List (List Nat)) :=
  match bs with
  | none => some [readBlockFromFile data d 0 none]
  | some b => (plan A data.length b).map fun (offs, lens) =>
      (offs.zip lens).map fun (o, l) => readBlockFromFile data d o (some l)

/-! ## `not_zero`, `sample` -/

/-- `off[0] = 1; length[0] -= 1`, and — repair a184e7a — `if length[0] == 0 and len(off) > 1: del off[0], length[0]`
    (a one-byte blocksize: the empty first block would share its offset, hence its key, with the second) -/
def shiftHead (ol : List Nat × List Nat) : List Nat × List Nat :=
  match ol.1, ol.2 with
  | _ :: os, l :: ls => if l - 1 = 0 ∧ !os.isEmpty then (os, ls) else (1 :: os, (l - 1) :: ls)
  | os, ls => (os, ls)

/-- `read_bytes(..., not_zero=True)`: `off[0] = 1; length[0] -= 1` (only in the blocksize branch, non-empty file) -/
def planNotZero (A : FArith) (size blocksize : Nat) : Option (List Nat × List Nat) :=
  (plan A size blocksize).map shiftHead

/-- the blocks of `read_bytes(path, delimiter=d, blocksize=b, not_zero=True)` -/
def fileBlocksNotZero (A : FArith) (data d : List Nat) (b : Nat) : Option (List (List Nat)) :=
  (planNotZero A data.length b).map fun (offs, lens) =>
    (offs.zip lens).map fun (o, l) => readBlockFromFile data d o (some l)

/-- the `sample` loop of `read_bytes` (a delimiter is given): read `n` bytes, keep reading `n` at a time until a
    chunk contains the delimiter, cut after it. `fuel` = number of chunks that can exist. -/
def sampleLoop (n : Nat) (d data : List Nat) : Nat → Nat → List Nat → List Nat
  | 0, _, buff => buff
  | fuel + 1, pos, buff =>
    let new := (data.drop pos).take n
    if new.isEmpty then buff
    else match findIdx d new with
      | some i => buff ++ new.take i ++ d
      | none => sampleLoop n d data fuel (pos + n) (buff ++ new)

/-- `sample` returned by `read_bytes(path, delimiter=d, sample=n)` for `n > 0` -/
def sampleOf (n : Nat) (d data : List Nat) : List Nat :=
  sampleLoop n d data (data.length + 1) n (data.take n)

/-! ## `str.split`, `decode`, `file_to_blocks` -/

/-- Python `t.split(d)` for a non-empty separator `d`: greedy, left to right. `skip` = bytes of an
    already matched delimiter still to be consumed, `acc` = the current part reversed. Always returns
    at least one part. (Structural recursion on the text so that the kernel can evaluate it.) -/
def pySplitAux (d : List Nat) : Nat → List Nat → List Nat → List (List Nat)
  | _, acc, [] => [acc.reverse]
  | skip + 1, acc, _ :: cs => pySplitAux d skip acc cs
  | 0, acc, c :: cs =>
    if d.isPrefixOf (c :: cs) then acc.reverse :: pySplitAux d (d.length - 1) [] cs
    else pySplitAux d 0 (c :: acc) cs

/-- `t.split(d)`; `none` = ValueError("empty separator") -/
def pySplit (d t : List Nat) : Option (List (List Nat)) :=
  if d.isEmpty then none else some (pySplitAux d 0 [] t)

/-- `text.endswith(d)` -/
def endsWith (t d : List Nat) : Bool := d.isSuffixOf t

/-- the last part of a split, kept unless it is empty: `parts[-1:] if parts[-1] else []` -/
def lastPart (parts : List (List Nat)) : List (List Nat) :=
  (parts.drop (parts.length - 1)).filter (fun p => !p.isEmpty)

/-- `decode(block, encoding, errors, line_delimiter)` for a custom (non-newline) delimiter, on the
    decoded text (after the repair `ece4d43`):
    `[t + d for t in parts[:-1]] + (parts[-1:] if parts[-1] else [])` -/
def decode (d t : List Nat) : Option (List (List Nat)) :=
  if t.isEmpty then some []
  else (pySplit d t).map fun parts => parts.dropLast.map (· ++ d) ++ lastPart parts

/-- `decode` as in the ORIGINAL source: the last part was kept iff `not text.endswith(d)` — kept for
    the refutation witness (`aaa` / `aa` lost the trailing `a`). -/
def decodeOrig (d t : List Nat) : Option (List (List Nat)) :=
  if t.isEmpty then some []
  else (pySplit d t).map fun parts =>
    parts.dropLast.map (· ++ d) ++ (if endsWith t d then [] else parts.drop (parts.length - 1))

/-- `file_to_blocks(include_path=False, f, delimiter=d)` as in the ORIGINAL source (before the repair
    `7fec26d` of defect #10): `[line + d for line in parts[:-1]] + parts[-1:]` — kept for the
    refutation witness. -/
def fileToBlocksOrig (d t : List Nat) : Option (List (List Nat)) :=
  if t.isEmpty then some []
  else (pySplit d t).map fun parts => parts.dropLast.map (· ++ d) ++ parts.drop (parts.length - 1)

/-- `file_to_blocks` after the repair: an empty last part is dropped, exactly as `decode` does. -/
def fileToBlocks (d t : List Nat) : Option (List (List Nat)) := decode d t

/-- the reference of the statement: the text split after each (greedy, left-to-right) delimiter, no
    empty trailing element -/
def refLines (d t : List Nat) : Option (List (List Nat)) :=
  (pySplit d t).map fun parts => parts.dropLast.map (· ++ d) ++ lastPart parts

/-- `read_text(blocksize=bs, linedelimiter=d)` on one file (custom delimiter): lines of all blocks -/
def readTextLines (A : FArith) (d data : List Nat) (bs : Option Nat) : Option (List (List Nat)) :=
  match bs with
  | none => fileToBlocks d data
  | some b => do
    let blocks ← fileBlocks A data d (some b)
    let ls ← blocks.mapM (decode d)
    pure ls.flatten

/-! ## universal newlines (`linedelimiter=None`): `io.StringIO(text, newline=None)` -/

/-- translation applied by `StringIO(initial, newline=None)`: `\r\n → \n`, lone `\r → \n` -/
def translateNL : List Nat → List Nat
  | [] => []
  | 13 :: 10 :: rest => 10 :: translateNL rest
  | 13 :: rest => 10 :: translateNL rest
  | c :: rest => c :: translateNL rest

/-- `list(io.StringIO(text, newline=None))` -/
def univLines (t : List Nat) : Option (List (List Nat)) := refLines [10] (translateNL t)

/-- `read_text(blocksize=bs, linedelimiter=None)` on one file: blocks cut after `\n`, each block read
    in universal-newlines mode -/
def readTextUniv (A : FArith) (data : List Nat) (bs : Option Nat) : Option (List (List Nat)) :=
  match bs with
  | none => univLines data
  | some b => do
    let blocks ← fileBlocks A data [10] (some b)
    let ls ← blocks.mapM univLines
    pure ls.flatten

/-! ## several files: `files_per_partition`, `include_path`, blocksize -/

/-- `toolz`-free grouping `files[start : start + n] for start in range(0, len(files), n)` (fuel = length) -/
def groupsOf (n : Nat) : Nat → List α → List (List α)
  | 0, _ => []
  | fuel + 1, xs => if xs.isEmpty then [] else xs.take n :: groupsOf n fuel (xs.drop n)

/-- `read_text(paths, blocksize=None, linedelimiter=d, files_per_partition=fpp, include_path=True)`:
    the partitions, every line paired with the index of its file (`include_path=False` is the projection
    to the lines). `none` = ValueError (`files_per_partition=0`: `range()` step 0) / empty separator. -/
def readTextFiles (d : List Nat) (files : List (List Nat)) (fpp : Option Nat) : Option (List (List (Nat × List Nat))) :=
  if d.isEmpty then none
  else
    let one := fun (fi : List Nat × Nat) => ((decode d fi.1).getD []).map fun l => (fi.2, l)
    match fpp with
    | none => some (files.zipIdx.map one)
    | some 0 => none
    | some (n + 1) => some ((groupsOf (n + 1) files.length files.zipIdx).map fun g => g.flatMap one)

/-- `read_text(paths, blocksize=b, linedelimiter=d, include_path=True)`: one partition per block, files in order -/
def readTextFilesBlocks (A : FArith) (d : List Nat) (files : List (List Nat)) (b : Nat) :
    Option (List (List (Nat × List Nat))) :=
  if d.isEmpty then none
  else (files.zipIdx.mapM fun fi =>
      (fileBlocks A fi.1 d (some b)).map fun blocks => blocks.map fun blk => ((decode d blk).getD []).map fun l => (fi.2, l)).map
    fun pss => if pss.flatten.isEmpty then [[]] else pss.flatten

/-- does `d` have a border (a proper non-empty prefix that is also a suffix)? -/
def hasBorder (d : List Nat) : Bool :=
  (List.range d.length).any fun k => 0 < k && d.take k == d.drop (d.length - k)

/-! ## UTF-8 (`str.encode` / `bytes.decode`): `read_text` cuts BYTES, `decode` splits TEXT -/

/-- UTF-8 encoding of one code point (`c < 0x110000`; CPython refuses surrogates, which changes nothing here) -/
def utf8 (c : Nat) : List Nat :=
  if c < 0x80 then [c]
  else if c < 0x800 then [0xC0 + c / 64, 0x80 + c % 64]
  else if c < 0x10000 then [0xE0 + c / 4096, 0x80 + c / 64 % 64, 0x80 + c % 64]
  else [0xF0 + c / 262144, 0x80 + c / 4096 % 64, 0x80 + c / 64 % 64, 0x80 + c % 64]

/-- `str.encode("utf-8")` on a list of code points -/
def encode (t : List Nat) : List Nat := t.flatMap utf8

/-- continuation byte `10xxxxxx` -/
def isCont (b : Nat) : Bool := 0x80 ≤ b && b < 0xC0

def ValidText (t : List Nat) : Prop := ∀ c ∈ t, c < 0x110000

end Dask.TextBlocks
