/-
`dask.array.percentile.merge_percentiles`, transliterated over exact rationals (`Rat`, core Lean).

Python                                                   Lean
------                                                   ----
inputs with N == 0 are dropped; none left → ValueError    `live`, `none`
count[0] = q[0]*N; count[1:] = diff(q)*N                  `countsOf`
np.argsort(combined_vals) (+ np.take)                     `isortBy` — a *stable* insertion sort; NumPy's default
                                                          sort is not stable for > 16 entries, so the theorems are
                                                          stated for **every** value-sorted arrangement of the entries
combined_q = cumsum(counts); desired_q = finalq*sum(Ns)   `cumsum`, `d`
np.searchsorted(cq, d, 'left') / ('right')                `countLt` / `countLe` (cq is non-decreasing)
np.minimum(left, n-1); np.maximum(right - 1, 0)           `min`, truncated `Nat` subtraction (the clamp of the fix)
np.interp(d, cq, vals)                                    `interp` (j = last index with cq[j] ≤ d, as NumPy's bisection)
np.where(d <= 0, vals[0], rv); np.where(d >= cq[-1], …)   `select` (pinned ends, second `where` wins)
Array indexing `vals[i]` is `nth` (= `getD … 0`); every index used is proved `< length` in Props/C32.
Import-free.
-/
namespace Dask.Percentile

structure Entry where
  val : Rat
  cnt : Rat
  deriving Repr, BEq

inductive Method where
  | linear | lower | higher | midpoint | nearest
  deriving Repr, DecidableEq

/-- one input of `merge_percentiles`: its percentiles `q`, the values `v` at them, its size `N` -/
structure Input where
  q : List Rat
  v : List Rat
  N : Nat

def countsOf (q : List Rat) (N : Rat) : List Rat :=
  match q with
  | [] => []
  | q0 :: rest => (q0 * N) :: List.zipWith (fun a b => (b - a) * N) (q0 :: rest) rest

def entriesOf (i : Input) : List Entry := List.zipWith Entry.mk i.v (countsOf i.q i.N)

def insertBy (x : Entry) : List Entry → List Entry
  | [] => [x]
  | y :: ys => if x.val ≤ y.val then x :: y :: ys else y :: insertBy x ys

/-- stable insertion sort by value (equal values keep their input order) -/
def isortBy : List Entry → List Entry
  | [] => []
  | x :: xs => insertBy x (isortBy xs)

def cumsum (acc : Rat) : List Rat → List Rat
  | [] => []
  | x :: xs => (acc + x) :: cumsum (acc + x) xs

def countLt (cq : List Rat) (d : Rat) : Nat := (cq.filter (· < d)).length
def countLe (cq : List Rat) (d : Rat) : Nat := (cq.filter (· ≤ d)).length

def nth (xs : List Rat) (i : Nat) : Rat := xs.getD i 0

def rabs (x : Rat) : Rat := if x < 0 then -x else x

/-- `np.interp(d, cq, vals)` for non-decreasing `cq` -/
def interp (cq vals : List Rat) (d : Rat) : Rat :=
  let c := countLe cq d
  if c = 0 then nth vals 0
  else if c ≥ vals.length then nth vals (vals.length - 1)
  else
    let j := c - 1
    nth vals j + (d - nth cq j) * ((nth vals (j + 1) - nth vals j) / (nth cq (j + 1) - nth cq j))

def lowerIdx (cq : List Rat) (n : Nat) (d : Rat) : Nat := min (min (countLt cq d) (n - 1)) (countLe cq d - 1)
def upperIdx (cq : List Rat) (n : Nat) (d : Rat) : Nat := max (min (countLt cq d) (n - 1)) (countLe cq d - 1)

/-- the method-specific rule, before the ends are pinned -/
def core (m : Method) (vals cq : List Rat) (d : Rat) : Rat :=
  let n := vals.length
  let lo := lowerIdx cq n d
  let hi := upperIdx cq n d
  match m with
  | .linear => interp cq vals d
  | .lower => nth vals lo
  | .higher => nth vals hi
  | .midpoint => (nth vals lo + nth vals hi) / 2
  | .nearest => if rabs (nth cq lo - d) > rabs (nth cq hi - d) then nth vals hi else nth vals lo

/-- one output of `merge_percentiles` for desired cumulative weight `d` -/
def select (m : Method) (vals cq : List Rat) (d : Rat) : Rat :=
  if d ≥ nth cq (cq.length - 1) then nth vals (vals.length - 1)
  else if d ≤ 0 then nth vals 0
  else core m vals cq d

def isum (xs : List Nat) : Nat := xs.foldr (· + ·) 0

/-- is `order` a permutation of `0 … n-1` that arranges `es` by non-decreasing value? -/
def validOrder (es : List Entry) (order : List Nat) : Bool :=
  order.length == es.length && order.all (fun i => i < es.length) &&
  (List.range es.length).all (fun i => order.contains i) &&
  (let vs := order.map fun i => (es.getD i ⟨0, 0⟩).val
   (vs.zip vs.tail).all fun (a, b) => a ≤ b)

/-- the merged entries in the arrangement chosen by `np.argsort`: `none` = the stable one -/
def arrange (es : List Entry) : Option (List Nat) → Option (List Entry)
  | none => some (isortBy es)
  | some order => if validOrder es order then some (order.map fun i => es.getD i ⟨0, 0⟩) else none

/-- `merge_percentiles(finalq, qs, vals, method, Ns)` with the sort permutation as a parameter;
    outer `none` = invalid permutation (harness error), inner `none` = "No non-trivial arrays found" -/
def mergePercentilesWith (order : Option (List Nat)) (m : Method) (finalq : List Rat) (inputs : List Input) :
    Option (Option (List Rat)) :=
  let live := inputs.filter (fun i => i.N != 0)
  if live.isEmpty then some none
  else
    match arrange (live.flatMap entriesOf) order with
    | none => none
    | some entries =>
      let vals := entries.map (·.val)
      let cq := cumsum 0 (entries.map (·.cnt))
      let total : Rat := (isum (live.map (·.N)) : Nat)
      some (some (finalq.map fun fq => select m vals cq (fq * total)))

/-- `merge_percentiles` with a stable sort -/
def mergePercentiles (m : Method) (finalq : List Rat) (inputs : List Input) : Option (List Rat) :=
  (mergePercentilesWith none m finalq inputs).join

end Dask.Percentile
