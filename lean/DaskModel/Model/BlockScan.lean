/-
K2 `BlockScan`: cumulative reductions of `dask/array/reductions.py`.

Python                                            Lean
------                                            ----
np.cumsum / np.cumprod on one block               `scanIncl op`
cumreduction (method="sequential"):               `seqScan op ident`
   extra_0 = full_like(ident), out_0 = m_0
   extra_i = _cumreduction_carry(binop, extra_{i-1}, m_{i-1}, axis)
   out_i   = binop(extra_i, m_i)
prefixscan_blelloch:                              `schedule n_vals` = the (level, i, stride) triples of the
   up-sweep / down-sweep `while` loops              tasks `(binop, prefix_vals[i - stride], prefix_vals[i])`
                                                  in creation order; `runSched` executes them;
   2 ** ceil(log2(n_vals // 2))                   `pow2ceil (n / 2)` (exact; the float formula is checked
                                                    against it by the harness for every n ≤ 4096)
   _prefixscan_first / _prefixscan_combine        `blelloch op ident`
Only the scan axis is modelled (the other axes are pointwise). Import-free.
-/
namespace Dask.BlockScan

variable {α : Type}

/-- `[op acc x₁, op (op acc x₁) x₂, …]` -/
def scanFrom (op : α → α → α) (acc : α) : List α → List α
  | [] => []
  | x :: xs => op acc x :: scanFrom op (op acc x) xs

/-- inclusive scan (`np.cumsum`) -/
def scanIncl (op : α → α → α) : List α → List α
  | [] => []
  | x :: xs => x :: scanFrom op x xs

/-- `_cumreduction_carry(binop, extra, m, axis)`: merge the last element of the accumulated block `m`
    into the running total; a zero-length block leaves it unchanged -/
def carry (op : α → α → α) (extra : α) (m : List α) : α :=
  match m.getLast? with
  | none => extra
  | some l => op extra l

/-- the sequential method; the state is the running total `extra` -/
def seqScanAux (op : α → α → α) (extra : α) : List (List α) → List (List α)
  | [] => []
  | b :: bs =>
    let m := scanIncl op b
    m.map (op extra) :: seqScanAux op (carry op extra m) bs

/-- `cumreduction(..., method="sequential")` along the scan axis; output blocks in order -/
def seqScan (op : α → α → α) (ident : α) : List (List α) → List (List α)
  | [] => []
  | b :: bs =>
    let m := scanIncl op b
    m :: seqScanAux op (carry op ident m) bs

/-! ### Blelloch -/

/-- Python `range(start, stop, step)` for `step > 0`; `fuel` ≥ number of elements -/
def rangeStep (start stop step : Nat) : Nat → List Nat
  | 0 => []
  | fuel + 1 => if start < stop then start :: rangeStep (start + step) stop step fuel else []

/-- smallest power of two `≥ m` (`2 ** ceil(log2(m))` for `m ≥ 1`) -/
def pow2ceilAux (m : Nat) : Nat → Nat → Nat
  | 0, p => p
  | fuel + 1, p => if m ≤ p then p else pow2ceilAux m fuel (2 * p)

def pow2ceil (m : Nat) : Nat := pow2ceilAux m m 1

/-- a task `(binop, prefix_vals[i - stride], prefix_vals[i])` created at `level` -/
structure Step where
  level : Nat
  i : Nat
  stride : Nat
  deriving Repr, DecidableEq

/-- up-sweep `while stride2 <= n_vals` -/
def upsweep (n : Nat) : Nat → Nat → Nat → List Step
  | 0, _, _ => []
  | fuel + 1, stride, level =>
    let stride2 := 2 * stride
    if stride2 ≤ n then
      (rangeStep (stride2 - 1) n stride2 n).map (fun i => ⟨level, i, stride⟩)
        ++ upsweep n fuel stride2 (level + 1)
    else []

/-- number of up-sweep levels executed -/
def upLevels (n : Nat) : Nat → Nat → Nat
  | 0, _ => 0
  | fuel + 1, stride => if 2 * stride ≤ n then 1 + upLevels n fuel (2 * stride) else 0

/-- down-sweep `while stride > 0` -/
def downsweep (n : Nat) : Nat → Nat → Nat → List Step
  | 0, _, _ => []
  | fuel + 1, stride, level =>
    if stride > 0 then
      let stride2 := 2 * stride
      (rangeStep (stride2 + stride - 1) n stride2 n).map (fun i => ⟨level, i, stride⟩)
        ++ downsweep n fuel (stride / 2) (level + 1)
    else []

/-- all `binop` tasks of `prefixscan_blelloch` for `n_vals = n`, in creation order -/
def schedule (n : Nat) : List Step :=
  if n ≥ 2 then
    let up := upsweep n (n + 1) 1 0
    let stride2 := max 2 (pow2ceil (n / 2))
    up ++ downsweep n (n + 1) (stride2 / 2) (upLevels n (n + 1) 1)
  else []

/-- `prefix_vals[i] = op prefix_vals[i - stride] prefix_vals[i]`; `none` = index error -/
def runStep (op : α → α → α) (pv : List α) (s : Step) : Option (List α) :=
  if s.stride ≤ s.i then
    match pv[s.i - s.stride]?, pv[s.i]? with
    | some l, some r => some (pv.set s.i (op l r))
    | _, _ => none
  else none

def runSched (op : α → α → α) : List Step → List α → Option (List α)
  | [], pv => some pv
  | s :: ss, pv => (runStep op pv s).bind (runSched op ss)

def fold (op : α → α → α) (ident : α) (xs : List α) : α := xs.foldr op ident

/-- `prefixscan_blelloch` along the scan axis: `batches = preop(block)`, the sweeps over all but the
    last batch, then `_prefixscan_first` / `_prefixscan_combine`. -/
def blelloch (op : α → α → α) (ident : α) (blocks : List (List α)) : Option (List (List α)) :=
  match blocks with
  | [] => some []
  | b :: bs => do
    let batches := (b :: bs).map (fold op ident)
    let pv0 := batches.dropLast
    let pv ← runSched op (schedule pv0.length) pv0
    pure (scanIncl op b :: List.zipWith (fun pre blk => (scanIncl op blk).map (op pre)) pv bs)

/-! ### the interval interpretation of a schedule (used by the proof) -/

/-- run the schedule on segments: slot `i` holds the fold of `batches[lo[i] .. i]`; a step is legal
    iff the two segments are adjacent. Returns the final `lo` table. -/
def segStep (lo : List Nat) (s : Step) : Option (List Nat) :=
  if s.stride ≤ s.i ∧ 0 < s.stride then
    match lo[s.i - s.stride]?, lo[s.i]? with
    | some a, some b => if b = s.i - s.stride + 1 then some (lo.set s.i a) else none
    | _, _ => none
  else none

def segRun : List Step → List Nat → Option (List Nat)
  | [], lo => some lo
  | s :: ss, lo => (segStep lo s).bind (segRun ss)

/-- the schedule for `n` turns every slot into the full prefix `[0 .. i]` -/
def schedOk (n : Nat) : Bool :=
  segRun (schedule n) (List.range n) == some (List.replicate n 0)

end Dask.BlockScan
