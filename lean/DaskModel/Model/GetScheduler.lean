import DaskModel.Generated.NamedSchedulers
/-
`dask.base.get_scheduler` (dask/base.py): which scheduler function `compute` / `persist` use.

Python                                                   Lean
------                                                   ----
scheduler=<callable> / "name" / Executor / anything else `Spec.callable id / name s / executor max_workers / other`
dask.config "scheduler" (same kinds; falsy = unset)       `cfgSched : Spec`
named_schedulers (extracted table)                        `Generated.NamedSchedulers.namedSchedulers`
collection.__dask_scheduler__ / cls.__dask_scheduler__    a `Nat` naming the default get function
result: a get function / partial(get_async, submit, n) / None / an exception     `Res`
`distributed` is not installed here: `"distributed"` names raise RuntimeError, no default client.
-/
namespace Dask.GetScheduler

inductive Spec where
  | none
  | callable (id : Nat)
  | name (s : String)
  | executor (maxWorkers : Option Nat)
  | other
  deriving Repr, DecidableEq

inductive Res where
  | fn (f : String)               -- an entry of `named_schedulers`
  | callable (id : Nat)           -- the callable that was passed in
  | async (workers : Nat)         -- partial(local.get_async, executor.submit, workers)
  | default (id : Nat)            -- the `__dask_scheduler__` of the class / the collections
  | nothing                       -- None
  | typeError | valueError | runtimeError | assertionError
  deriving Repr, DecidableEq

def lookup (tbl : List (String × String)) (s : String) : Option String :=
  (tbl.find? (fun p => p.1 == s)).map Prod.snd

/-- the `if scheduler is not None:` branch -/
def resolve (tbl : List (String × String)) (cfgWorkers : Option Nat) (cpu : Nat) : Spec → Res
  | .none => .nothing
  | .callable id => .callable id
  | .name s =>
    let l := s.toLower
    match lookup tbl l with
    | some f => .fn f
    | none => if l == "dask.distributed" || l == "distributed" then .runtimeError else .valueError
  | .executor w =>
    let n := match w with
      | some n => n
      | none => cfgWorkers.getD cpu
    if n > 0 then .async n else .assertionError
  | .other => .valueError

/-- is the config value truthy (`if config.get("scheduler", None):`) -/
def truthy : Spec → Bool
  | .none => false
  | .name s => !s.isEmpty
  | _ => true

/-- `get_scheduler(get, scheduler, collections, cls)` with the config values `scheduler` / `get` / `num_workers` -/
def getScheduler (tbl : List (String × String)) (cpu : Nat) (get : Bool) (sched : Spec) (cfgSched : Spec) (cfgGet : Bool)
    (cfgWorkers : Option Nat) (cls : Option Nat) (colls : List (Option Nat)) : Res :=
  if get then .typeError
  else if sched != .none then resolve tbl cfgWorkers cpu sched
  else if truthy cfgSched then resolve tbl cfgWorkers cpu cfgSched
  else if cfgGet then .valueError
  else match cls with
    | some c => .default c
    | none =>
      match colls.filterMap id with
      | [] => .nothing
      | c :: rest => if rest.all (· == c) then .default c else .valueError

end Dask.GetScheduler
