import DaskModel.DriverLib
import DaskModel.Model.GroupbyX
/-! Driver handlers of the C38 extension (`Model/GroupbyX.lean`), kept out of `Drivers/dfpart.lean`. Import-free of Mathlib.
    A row travels as `(key|none value|none)` (key `none` = NaN key); group ids in answers are encoded: 0 = the NaN group,
    k + 1 = key k. -/
namespace Dask.GroupbyX
open Dask Dask.Groupby

def key? : SExp → Option Key
  | .sym "none" => some none
  | e => do pure (some (← e.toNat?))

/-- partitions as lists of `(key|none value|none)` -/
def rowsK? (e : SExp) : Option (List (List (Key × Option Int))) := do
  (← e.toList?).mapM fun p => do
    (← p.toList?).mapM fun r => match r with
      | .list [k, v] => do pure (← key? k, ← v.toOptInt?)
      | _ => none

def dedupN (xs : List Nat) : List Nat := xs.foldl (fun acc x => if acc.contains x then acc else acc ++ [x]) []

def cumOpX? (name : String) : Option ((Int → Int → Int) × Int) :=
  match name with
  | "sum" => some ((· + ·), 0)
  | "prod" => some ((· * ·), 1)
  | "count" => some (opCount, -1)
  | _ => none

/-- `(groupby-nuniquex dropna split_every parts)` ↦ `((gid model|none spec|none)…)` over every encoded group id of the frame -/
def hNuniqueX : Handler := handler fun
  | [d, k, ps] => do
    let d ← d.toBool?
    let k ← k.toNat?
    let parts ← rowsK? ps
    let keys := dedupN (parts.flatten.map fun r => encK r.1)
    let f := nuniqueD d k (parts.length + 2) parts
    let g := nuniqueSpecD d parts.flatten
    pure (.list (keys.map fun key => .list [SExp.ofNat key, SExp.ofOptNat (f key), SExp.ofOptNat (g key)]))
  | _ => none

/-- `(groupby-cumx sum|prod|count dropRaw dropLast parts)` ↦ `((dask cells…) (global cells…) (carry…))`: the finalizer
    partition by partition (flattened), the cumulative operation over the whole frame with `dropna = dropRaw`, and the
    carry tables `(cum-last…, i)`, i = 1 …, each as `((gid value|none)…)` over every encoded group id of the frame;
    for `count` every cell counts as 0 -/
def hCumX : Handler := handler fun
  | [.sym name, dr, dl, ps] => do
    let (op, e) ← cumOpX? name
    let dr ← dr.toBool?
    let dl ← dl.toBool?
    let parts ← rowsK? ps
    let parts := if name == "count" then parts.map (·.map fun r => (r.1, some (0 : Int))) else parts
    let keys := dedupN (parts.flatten.map fun r => encK r.1)
    let carry := cumCarryD op e dr dl parts
    pure (.list [.list ((cumDaskD op e dr dl parts).flatten.map SExp.ofOptInt),
      .list ((cumRawD op dr parts.flatten).map SExp.ofOptInt),
      .list (carry.map fun st => .list (keys.map fun key => .list [SExp.ofNat key, SExp.ofOptInt (st key)]))])
  | _ => none

/-- `(cum-lastx sum|prod|count dropRaw dropLast rows)` ↦ `((gid value|none)…)`: `cum_last` of ONE partition -/
def hCumLastX : Handler := handler fun
  | [.sym name, dr, dl, rows] => do
    let (op, _) ← cumOpX? name
    let dr ← dr.toBool?
    let dl ← dl.toBool?
    let rows ← (← rowsK? (.list [rows])).head?
    let rows := if name == "count" then rows.map fun r => (r.1, some (0 : Int)) else rows
    let keys := dedupN (rows.map fun r => encK r.1)
    let st := cumLastD op dr dl rows
    pure (.list (keys.map fun key => .list [SExp.ofNat key, SExp.ofOptInt (st key)]))
  | _ => none

/-- partitions as lists of `(key value|none label)` -/
def idxRowsX? (e : SExp) : Option (List (List (Nat × (Option Int × Int)))) := do
  (← e.toList?).mapM fun p => do
    (← p.toList?).mapM fun r => match r with
      | .list [k, v, l] => do pure (← k.toNat?, (← v.toOptInt?, ← l.toInt?))
      | _ => none

/-- `(groupby-idxlex min|max split_every parts)` ↦ `((key tree-label|none whole-frame-label|none position|none)…)`: the
    repaired idxmin/idxmax (lexicographic (value, position) merge) over the partitioning and over the whole frame -/
def hIdxLex : Handler := handler fun
  | [.sym how, k, ps] => do
    let k ← k.toNat?
    let parts ← idxRowsX? ps
    let sign : Int ← match how with
      | "min" => some 1
      | "max" => some (-1)
      | _ => none
    let rows := parts.flatten
    let keys := dedupN (rows.map (·.1))
    let tree := idxRepaired sign k (parts.length + 2) parts
    let whole := chunk opLex (lexInj sign) (numbered rows)
    pure (.list (keys.map fun key => .list [SExp.ofNat key, SExp.ofOptInt (idxLabel rows (tree key)),
      SExp.ofOptInt (idxLabel rows (whole key)), SExp.ofOptNat ((tree key).map (·.2))]))
  | _ => none

def handlers : List (String × Handler) :=
  [("groupby-nuniquex", hNuniqueX), ("groupby-cumx", hCumX), ("cum-lastx", hCumLastX), ("groupby-idxlex", hIdxLex)]

end Dask.GroupbyX
