/-
Merging the task graphs of several collections (`toolz.merge` / `HighLevelGraph.merge` / `dict.update`:
a later definition of a key replaces an earlier one) and evaluating keys of the merged graph.

A task is kept abstract: the keys it depends on and a function of their values (`Task.__call__`).
Python                                   Lean
------                                   ----
graph: dict key -> task                  `Graph κ V = κ → Option (ATask κ V)`
merge(g1, g2)                            `merge g1 g2` (g2 wins on shared keys)
get(graph, key) (recursive evaluation)   `evalG g fuel key` (`none`: missing key or fuel exhausted)

Import-free.
-/
namespace Dask.GraphMerge

structure ATask (κ V : Type) where
  deps : List κ
  fn : List V → V

abbrev Graph (κ V : Type) := κ → Option (ATask κ V)

/-- all dependency values, or `none` if one is missing -/
def sequence {V : Type} : List (Option V) → Option (List V)
  | [] => some []
  | none :: _ => none
  | some x :: r => (sequence r).map (x :: ·)

def evalG {κ V : Type} (g : Graph κ V) : Nat → κ → Option V
  | 0, _ => none
  | n + 1, k =>
    match g k with
    | none => none
    | some t => (sequence (t.deps.map (evalG g n))).map t.fn

/-- `merge(g1, g2)`: the later graph wins on shared keys -/
def merge {κ V : Type} (g1 g2 : Graph κ V) : Graph κ V := fun k =>
  match g2 k with
  | some t => some t
  | none => g1 k

def emptyG {κ V : Type} : Graph κ V := fun _ => none

/-- `merge(*graphs)` -/
def mergeAll {κ V : Type} : List (Graph κ V) → Graph κ V
  | [] => emptyG
  | g :: gs => merge g (mergeAll gs)

end Dask.GraphMerge
