import DaskModel.Model.Bytes
/-
`dask.utils.format_time(n)` for a non-negative finite float `n` (a Python int below 2**53 behaves as `float(n)`),
with the EXACT binary64 arithmetic of `Model/Bytes.lean`:

Python                                   Lean
------                                   ----
`n > 24 * 60 * 60 * 2` …                 `Dy.gtNat` (exact comparison of a float with an int)
`n / 3600`, `… / 24`, `… / 60`           `Dy.divNat` (float / int, correctly rounded: `ratToDy`)
`n - d * 3600 * 24`                      `Dy.subNat` (float − int, correctly rounded; the difference can be a tiny
                                         negative number when the quotient was rounded up to an integer: sign kept)
`int(x)`                                 truncation toward zero (`SDy.trunc`)
`f"{n:.2f} s"`, `"%.2f ms" % (n * 1e3)`  `centsOf 2` + `fixedDigits` (correctly rounded decimal rendering), `mulR`
`n >= 1`, `n >= 1e-3`                    `Dy.geDy` against the exact value of the literal
The constants (172800, 7200, 600, 3600, 24, 60, 1e-3, 1e3, 1e6) are those of the source; the function is
fingerprinted, so a change of the source is reported. No Mathlib.
-/
namespace Dask.Bytes

/-- exact `x > n` for a natural `n` -/
def Dy.gtNat (x : Dy) (n : Nat) : Bool := !(x.leNat n)

/-- exact `a ≥ b` -/
def Dy.geDy (a b : Dy) : Bool :=
  -- compare a.m·2^a.e with b.m·2^b.e after scaling both by 2^(−min e)
  let e := min a.e b.e
  b.m * 2 ^ (b.e - e).toNat ≤ a.m * 2 ^ (a.e - e).toNat

/-- float / positive int, correctly rounded -/
def Dy.divNat (x : Dy) (k : Nat) : Dy :=
  if x.e ≥ 0 then ratToDy (x.m * 2 ^ x.e.toNat) k else ratToDy x.m (k * 2 ^ (-x.e).toNat)

/-- a signed dyadic -/
structure SDy where
  neg : Bool
  mag : Dy
  deriving Repr

/-- float − int, correctly rounded (the exact difference is `N · 2^e` with `e ≤ 0`; one rounding to 53 bits) -/
def Dy.subNat (x : Dy) (k : Nat) : SDy :=
  let e : Int := min x.e 0
  let a := x.m * 2 ^ (x.e - e).toNat          -- x = a · 2^e
  let b := k * 2 ^ (-e).toNat                 -- k = b · 2^e
  if b ≤ a then ⟨false, ⟨rn53 (a - b), e⟩⟩ else ⟨true, ⟨rn53 (b - a), e⟩⟩

/-- signed float / positive int -/
def SDy.divNat (x : SDy) (k : Nat) : SDy := ⟨x.neg, x.mag.divNat k⟩

/-- `int(x)`: truncation toward zero -/
def SDy.trunc (x : SDy) : Int := if x.neg then -((x.mag.floor : Nat) : Int) else (x.mag.floor : Nat)

/-- `str(i)` for an int -/
def intDigits : Int → List Char
  | .ofNat n => natDigits n
  | .negSucc n => '-' :: natDigits (n + 1)

/-- `1e-3` as the exact value of that binary64 number -/
def milliDy : Dy := ⟨1152921504606847, -60⟩

/-- `"%.2f" % x` for `x ≥ 0` -/
def fmt2 (x : Dy) : List Char := fixedDigits 2 (centsOf 2 x)

/-- `format_time(n)` for `n ≥ 0` -/
def formatTimeL (n : Dy) : List Char :=
  if n.gtNat (24 * 60 * 60 * 2) then
    let d := ((n.divNat 3600).divNat 24).floor
    let h := ((n.subNat (d * 3600 * 24)).divNat 3600).trunc
    natDigits d ++ "d ".toList ++ intDigits h ++ "hr".toList
  else if n.gtNat (60 * 60 * 2) then
    let h := (n.divNat 3600).floor
    let m := ((n.subNat (h * 3600)).divNat 60).trunc
    natDigits h ++ "hr ".toList ++ intDigits m ++ "m".toList
  else if n.gtNat (60 * 10) then
    let m := (n.divNat 60).floor
    let s := (n.subNat (m * 60)).trunc
    natDigits m ++ "m ".toList ++ intDigits s ++ "s".toList
  else if n.geDy ⟨1, 0⟩ then fmt2 n ++ " s".toList
  else if n.geDy milliDy then fmt2 (mulR n ⟨1000, 0⟩) ++ " ms".toList
  else fmt2 (mulR n ⟨1000000, 0⟩) ++ " us".toList

def formatTime (n : Dy) : String := String.ofList (formatTimeL n)

end Dask.Bytes
