import DaskModel.Model.NormalForm
/-
How the main collection constructors name their output layer: `f"{prefix}-{tokenize(*args, **kwargs)}"`.  For each
constructor the prefix and the argument tuple the source hands to `tokenize` (read off the source; the harness
captures the real tuple by wrapping `tokenize` during construction and diffs it against these).

Python (source)                                                                 Lean
---------------                                                                 ----
dask/array/core.py from_array:
  `tokenize(x, chunks, lock, asarray, fancy, getitem, inline_array)`              `fromArray`
  after `asarray = not hasattr(x, "__array_function__")` when `asarray is None`,
  `chunks = normalize_chunks(...)` (C23; here a parameter), `name = name or f"array-{token}"`
dask/bag/core.py from_sequence: `tokenize(seq, partition_size)`, `seq = list(seq)`,  `fromSequence`, `partitionSize`
  partition_size from npartitions / len(seq) as in the source
dask/bag/core.py from_delayed: `tokenize(*values)` (a Delayed tokenises as its key)  `bagFromDelayed`
dask/array/core.py from_delayed: `"from-value-" + tokenize(value, shape, dtype, meta)` `arrayFromDelayed`
dask/delayed.py delayed(obj, pure=True), leaf: `prefix = obj.__name__` or
  `type(obj).__name__`; `tokenize(obj, nout, pure=pure)`                          `delayedLeaf`
dask/delayed.py call_function: `f"{funcname(func)}-{tokenize(func_token, *args,
  pure=pure, **kwargs)}"`                                                         `delayedCall`
dask/array/core.py elemwise: `f"{funcname(op)}-" + tokenize(op, dtype, *args, where,
  *([out] if where is not True else []))`                                         `elemwise`
dask/array/blockwise.py blockwise: `"{}-{}".format(token or funcname(func).strip("_"),
  tokenize(func, out_ind, argindsstr, adjust_chunks, new_axes, align_arrays,
  concatenate, meta, dtype, **kwargs))`, `new_axes = new_axes or {}`,
  `argindsstr` = the flat list `[arg0, ind0, arg1, ind1, …]` (arrays by name)      `blockwise`

Opaque leaves (functions, dtypes, locks, meta arrays, other collections) are `Val` parameters holding what
`normalize_token` makes of them (`.pickled`, `.str dtype.str`, `.str name`, …).  Import-free.
-/
namespace Dask.CtorNames
open Dask.NF

/-- what a constructor hands to `tokenize`, and the prefix it puts in front of the token -/
structure Call where
  pre : String
  args : List Val
  kwargs : List (String × Val)

/-- the value whose `str` is hashed -/
def Call.nf (c : Call) : Val := tokNFKw c.args c.kwargs

/-- the string that is hashed -/
def Call.preimage (c : Call) : String := tokPreKw c.args c.kwargs

/-- `f"{prefix}-{token}"`, the token being the digest `H` of the normal form (md5 ∘ str: not modelled) -/
def Call.name (H : Val → List Char) (c : Call) : List Char := c.pre.toList ++ '-' :: H c.nf

/-- normalised chunks: a tuple of tuples of ints -/
def chunksVal (chunks : List (List Nat)) : Val :=
  .tuple (chunks.map fun c => .tuple (c.map fun n => .int (Int.ofNat n)))

def shapeVal (shape : List Nat) : Val := .tuple (shape.map fun n => .int (Int.ofNat n))

def optNat : Option Nat → Val
  | none => .none
  | some n => .int (Int.ofNat n)

/-! ## dask.array.from_array -/

/-- `if asarray is None: asarray = not hasattr(x, "__array_function__")` -/
def resolveAsarray (asarray : Option Bool) (hasArrayFunction : Bool) : Bool :=
  match asarray with
  | some b => b
  | none => !hasArrayFunction

def fromArray (x : Val) (chunks : List (List Nat)) (lock : Val) (asarray : Option Bool) (hasArrayFunction : Bool)
    (fancy : Bool) (getitem : Val) (inline : Bool) : Call :=
  ⟨"array", [x, chunksVal chunks, lock, .bool (resolveAsarray asarray hasArrayFunction), .bool fancy, getitem, .bool inline], []⟩

/-! ## dask.bag.from_sequence -/

/-- search upwards for the least `k ≥ k₀` with `n ≤ 100·k²` -/
def sqrtSearch (n : Nat) : Nat → Nat → Nat
  | 0, k => k
  | fuel + 1, k => if n ≤ 100 * k * k then k else sqrtSearch n fuel (k + 1)

/-- `math.ceil(math.sqrt(n) / math.sqrt(100))` (exact for the sizes the harness feeds) -/
def ceilSqrtDiv10 (n : Nat) : Nat := sqrtSearch n n 0

def ceilDiv (a b : Nat) : Nat := (a + b - 1) / b

/-- the two `if`s of `from_sequence` that fix `partition_size`; `none` = still `None` (then `partition_all` raises) -/
def partitionSize (len : Nat) (npartitions partitionSize : Option Nat) : Option Nat :=
  let truthy (o : Option Nat) : Bool := match o with | some (_ + 1) => true | _ => false
  -- `if npartitions and not partition_size:`
  let ps1 : Option Nat :=
    match npartitions with
    | some np =>
      if truthy npartitions && !truthy partitionSize then
        some (if len ≤ 100 then ceilDiv len np else max 1 (len / np))
      else partitionSize
    | none => partitionSize
  -- `if npartitions is None and partition_size is None:`
  match npartitions, ps1 with
  | none, none => some (if len ≤ 100 then 1 else max 1 (ceilSqrtDiv10 len))
  | _, r => r

def fromSequence (seq : List Val) (npartitions partSize : Option Nat) : Option Call :=
  (partitionSize seq.length npartitions partSize).map fun p =>
    ⟨"from_sequence", [.list seq, .int (Int.ofNat p)], []⟩

/-! ## dask.bag.from_delayed, dask.array.from_delayed -/

/-- `tokenize(*values)`: every Delayed tokenises as its key -/
def bagFromDelayed (keys : List String) : Call := ⟨"bag-from-delayed", keys.map .str, []⟩

def arrayFromDelayed (valueKey : String) (shape : List Nat) (dtype metaV : Val) : Call :=
  ⟨"from-value", [.str valueKey, shapeVal shape, dtype, metaV], []⟩

/-! ## dask.delayed -/

/-- `type(obj).__name__`: read off the value for plain data; the opaque leaves (`atom`: the identity-dispatched classes
    — Path, datetime, Ellipsis …; `pickled`) do not carry their class, it is the parameter `cls` -/
def leafTypeName (cls : String) : Val → String
  | .atom _ => cls
  | .pickled _ _ => cls
  | v => typeName v

/-- `delayed(obj, pure=True)` on a leaf (nothing to unpack): `prefix = obj.__name__`, else `type(obj).__name__` -/
def delayedLeaf (dunderName : Option String) (cls : String) (obj : Val) (nout : Option Nat) : Call :=
  ⟨match dunderName with | some n => n | none => leafTypeName cls obj, [obj, optNat nout], []⟩

/-- `call_function` with `pure=True`: `funcname(func)`-`tokenize(func_token, *args, **kwargs)`; Delayed arguments are
    in `args` / `kwargs` by their keys -/
def delayedCall (funcname funcKey : String) (args : List Val) (kwargs : List (String × Val)) : Call :=
  ⟨funcname, .str funcKey :: args, kwargs⟩

/-! ## dask.array elemwise / blockwise -/

/-- `where is True` -/
def isTrue : Val → Bool
  | .bool true => true
  | _ => false

/-- dask arrays among `args`, `where`, `out` appear by their names -/
def elemwise (opname : String) (op dtype : Val) (args : List Val) (wher out : Val) : Call :=
  ⟨opname, op :: dtype :: (args ++ wher :: (if isTrue wher then [] else [out])), []⟩

/-- `[arg0, ind0, arg1, ind1, …]` -/
def flatPairs : List (Val × Val) → List Val
  | [] => []
  | (a, i) :: r => a :: i :: flatPairs r

def stripUnderscores (cs : List Char) : List Char :=
  ((cs.dropWhile (· == '_')).reverse.dropWhile (· == '_')).reverse

/-- `token or funcname(func).strip("_")` -/
def blockwisePrefix (token : Option String) (funcname : String) : String :=
  match token with
  | some t => if t.isEmpty then String.ofList (stripUnderscores funcname.toList) else t
  | none => String.ofList (stripUnderscores funcname.toList)

/-- `new_axes = new_axes or {}` -/
def newAxesVal : Option (List (Val × Val)) → Val
  | none => .dict []
  | some kvs => .dict kvs

def blockwise (token : Option String) (funcname : String) (func outInd : Val) (pairs : List (Val × Val))
    (adjust : Val) (newAxes : Option (List (Val × Val))) (align : Bool) (concat metaV dtype : Val)
    (kwargs : List (String × Val)) : Call :=
  ⟨blockwisePrefix token funcname,
   [func, outInd, .list (flatPairs pairs), adjust, newAxesVal newAxes, .bool align, concat, metaV, dtype], kwargs⟩

end Dask.CtorNames
