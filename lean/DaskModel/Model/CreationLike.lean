import DaskModel.Model.Chunks

/-! # `*_like` creation routines (dask/array/creation.py): argument resolution

`ones_like` / `zeros_like` / `full_like` / `empty_like` first call

```python
def _get_like_function_shapes_chunks(a, chunks, shape):
    if shape is None:
        shape = a.shape
        if chunks is None:
            chunks = a.chunks
    elif chunks is None:
        chunks = "auto"
    return shape, chunks
```

and then `ones(shape, chunks=chunks, …)` etc. (dask/array/wrap.py: `_parse_wrap_args` → `normalize_chunks(chunks, shape, dtype=dtype)`).
The template `a` enters only through `(a.shape, a.chunks)` (known sizes; `nan` shapes take the `map_blocks` path, outside). -/

namespace Dask.CreationLike
open Dask.Chunks

/-- one axis of `a.chunks` (a tuple of ints) as an entry of a `chunks=` argument -/
def tupOf (c : List Nat) : Spec := .tup (c.map Int.ofNat)

/-- `a.chunks` (a tuple of tuples of ints) as a `chunks=` argument -/
def chunksTop (aChunks : List (List Nat)) : Top := .seq (aChunks.map tupOf)

/-- `_get_like_function_shapes_chunks(a, chunks, shape)`; `none` = the Python `None` default -/
def likeArgs : List Nat → List (List Nat) → Option Top → Option (List Nat) → List Nat × Top
  | aShape, aChunks, none, none => (aShape, chunksTop aChunks)
  | aShape, _, some t, none => (aShape, t)
  | _, _, none, some s => (s, .scalar .auto)
  | _, _, some t, some s => (s, t)

/-- the lazily reported chunks of `ones_like(a, chunks=…, shape=…)` (same for zeros/full/empty):
    `normalize_chunks` of the resolved arguments. `limit`/`autoRes` as in `Chunks.normalize`. -/
def likeChunks (aShape : List Nat) (aChunks : List (List Nat)) (chunks : Option Top) (shape : Option (List Nat))
    (limit : Option Nat) (autoRes : Option (List Spec)) : Except Err (List (List Int)) :=
  normalize (likeArgs aShape aChunks chunks shape).2 (likeArgs aShape aChunks chunks shape).1 limit autoRes

/-- `a.chunks` as `normalize_chunks` returns it -/
def asInts (aChunks : List (List Nat)) : List (List Int) := aChunks.map (fun c => c.map Int.ofNat)

/-- what a dask array with known sizes guarantees about `(a.shape, a.chunks)`: one non-empty tuple per axis adding
    up to the axis length -/
def Template : List Nat → List (List Nat) → Prop
  | [], [] => True
  | s :: ss, c :: cs => c ≠ [] ∧ sum c = s ∧ Template ss cs
  | _, _ => False

end Dask.CreationLike
