/-
K9 (merge_asof): `dask/dataframe/multi.py::pair_partitions`, `merge_asof_padded`,
`dask_expr/_merge_asof.py::MergeAsofIndexed._layer`, `compute_tails` / `compute_heads`.

Python                                                       Lean
------                                                       ----
`pair_partitions(L, R)`                                      `pairPartitions` (`initLoop` = the first `while`; `lowerOf`,
                                                             `upperOf`, `nextI`, `nextJ`, `pairLoop` = the main loop with fuel;
                                                             `jj` = `j + 1`, so `jj = 0` is Python's `j = -1`; `none` =
                                                             IndexError or fuel exhausted)
`(partition, lower, upper)`                                  `Piece`
`boundary_slice(left_i, lower, upper, False)`                `slice` (rows with `lower ≤ key < upper`)
`compute_tails(right)[j]`: last row of the most recent       `tailOf` (specification of the prefix reduction)
   non-empty partition before `j`
`compute_heads(right)[j]`: first row of the next             `headOf`
   non-empty partition after `j`
`most_recent_tail(left, right)` / `most_recent_head`         `mrt` / `mrh` (the scan network of `prefix_reduction` is not
                                                             modelled: its result is diffed against `tailOf` / `headOf`)
`merge_asof_padded(left, right, prev, next, **kwargs)`       `frameFor` (which of prev / next exist depends on `direction`),
                                                             `asof`
`pandas.merge_asof` on one pair of frames, per left row      `backCand`, `fwdCand`, `pick`, `asof` (direction, tolerance,
                                                             allow_exact_matches; `by=` is not modelled)
`MergeAsofIndexed._layer`: partition i = concat of pieces    `planOut`
the global result                                            `globalOut`
Rows are `(key, id)`. Import-free.
-/
namespace Dask.MergeAsof

abbrev Row := Nat × Nat

structure Piece where
  part : Nat
  lower : Option Nat
  upper : Option Nat
deriving DecidableEq, Repr

/-! ## `pair_partitions` -/

/-- `while j + 1 < m and R[j + 1] <= L[i]: j += 1` (with `i = 0`); `jj = j + 1` -/
def initLoop (R : List Nat) (l0 m : Nat) : Nat → Nat → Option Nat
  | 0, _ => none
  | fuel + 1, jj =>
    if jj < m then
      match R[jj]? with
      | some r => if r ≤ l0 then initLoop R l0 m fuel (jj + 1) else some jj
      | none => none
    else some jj

/-- `lower = R[j] if j >= 0 and R[j] > L[i] else None` -/
def lowerOf (R : List Nat) (li jj : Nat) : Option (Option Nat) :=
  if jj = 0 then some none
  else match R[jj - 1]? with
    | some r => some (if r > li then some r else none)
    | none => none

/-- `upper = R[j+1] if j + 1 < m and (R[j+1] < L[i+1] or R[j+1] == L[i+1] and i == n - 1) else None` -/
def upperOf (R : List Nat) (li1 jj m i n : Nat) : Option (Option Nat) :=
  if jj < m then
    match R[jj]? with
    | some r => some (if r < li1 ∨ (r = li1 ∧ i = n - 1) then some r else none)
    | none => none
  else some none

/-- `i1 = i + 1 if j + 1 == m or (i + 1 < n and R[j + 1] >= L[i + 1]) else i` -/
def nextI (R : List Nat) (li1 jj m i n : Nat) : Option Nat :=
  if jj = m then some (i + 1)
  else if i + 1 < n then (R[jj]?).map fun r => if r ≥ li1 then i + 1 else i
  else some i

/-- `j1 = j + 1 if i + 1 == n or (j + 1 < m and L[i + 1] >= R[j + 1]) else j` -/
def nextJ (R : List Nat) (li1 jj m i n : Nat) : Option Nat :=
  if i + 1 = n then some (jj + 1)
  else if jj < m then (R[jj]?).map fun r => if li1 ≥ r then jj + 1 else jj
  else some jj

/-- `partition = max(0, min(m - 1, j))` -/
def partOf (jj m : Nat) : Nat := min (m - 1) (jj - 1)

/-- the pieces of one iteration -/
def pieceOf (L R : List Nat) (n m i jj : Nat) : Option Piece :=
  match L[i]?, L[i + 1]? with
  | some li, some li1 =>
    match lowerOf R li jj, upperOf R li1 jj m i n with
    | some lo, some up => some ⟨partOf jj m, lo, up⟩
    | _, _ => none
  | _, _ => none

/-- `elif i == n - 1 and R[j1] > L[n]` (`j1 = jj1 - 1`; only evaluated when `i == n - 1`, where `j1 = j + 1 ≥ 0`) -/
def breakNow (L R : List Nat) (n i jj1 : Nat) : Option Bool :=
  if i = n - 1 then
    match R[jj1 - 1]?, L[n]? with
    | some r, some l => some (decide (r > l))
    | _, _ => none
  else some false

def pairLoop (L R : List Nat) (n m : Nat) : Nat → Nat → Nat → List Piece → List (List Piece) → Option (List (List Piece))
  | 0, _, _, _, _ => none
  | fuel + 1, i, jj, J, res =>
    if i < n then
      match pieceOf L R n m i jj, L[i + 1]? with
      | some p, some li1 =>
        match nextI R li1 jj m i n, nextJ R li1 jj m i n with
        | some i1, some jj1 =>
          if i1 > i then pairLoop L R n m fuel i1 jj1 [] (res ++ [J ++ [p]])
          else match breakNow L R n i jj1 with
            | some true => some (res ++ [J ++ [p]])
            | some false => pairLoop L R n m fuel i1 jj1 (J ++ [p]) res
            | none => none
        | _, _ => none
      | _, _ => none
    else some res

/-- `pair_partitions(L, R)` -/
def pairPartitions (L R : List Nat) : Option (List (List Piece)) :=
  match L[0]? with
  | some l0 =>
    match initLoop R l0 (R.length - 1) (R.length + 1) 0 with
    | some jj => pairLoop L R (L.length - 1) (R.length - 1) (L.length + R.length + 2) 0 jj [] []
    | none => none
  | none => none

/-! ## the certificate of a plan (what the soundness theorem needs; evaluated on every real plan) -/

/-- piece `(part, lower, upper)` of left partition `i` may be merged with right partition `part` padded by its tail and
    head: every key of the slice is `≥ R[part]` (or `part = 0`) and `< R[part+1]` (or `part` is the last one) -/
def pieceOK (L R : List Nat) (n m i : Nat) (p : Piece) : Bool :=
  decide (p.part < m) &&
  (p.part == 0 ||
    (match p.lower with
     | some a => (match R[p.part]? with | some r => decide (r ≤ a) | none => false)
     | none => (match R[p.part]?, L[i]? with | some r, some l => decide (r ≤ l) | _, _ => false))) &&
  (p.part + 1 == m ||
    (match p.upper with
     | some b => (match R[p.part + 1]? with | some r => decide (b ≤ r) | none => false)
     | none =>
        (match R[p.part + 1]?, L[i + 1]? with
         | some r, some l => if i + 1 == n then decide (l < r) else decide (l ≤ r)
         | _, _ => false)))

/-- the pieces of one left partition tile the key axis: first lower open, consecutive bounds equal and
    non-decreasing, last upper open -/
def tiles : Option Nat → List Piece → Bool
  | _, [] => false
  | lo, [p] => p.lower == lo && p.upper == none
  | lo, p :: q :: rest =>
    p.lower == lo &&
    (match p.upper with
     | some b => (match lo with | some a => decide (a ≤ b) | none => true) && tiles (some b) (q :: rest)
     | none => false)

/-- a lower bound below the partition's first division cuts nothing off: `None` and any `a ≤ L[i]` mean `L[i]` -/
def normLower (li : Nat) (p : Piece) : Piece := { p with lower := some (max (p.lower.getD 0) li) }

/-- the pieces of left partition `i` (whose keys are `≥ li = L[i]`) tile it -/
def tilesFrom (li : Nat) (J : List Piece) : Bool := tiles (some li) (J.map (normLower li))

def planOKFrom (L R : List Nat) (n m : Nat) : Nat → List (List Piece) → Bool
  | _, [] => true
  | i, J :: rest =>
    (match L[i]? with | some li => tilesFrom li J | none => false) && J.all (pieceOK L R n m i) &&
      planOKFrom L R n m (i + 1) rest

def planOK (L R : List Nat) (plan : List (List Piece)) : Bool :=
  plan.length == L.length - 1 && planOKFrom L R (L.length - 1) (R.length - 1) 0 plan

/-! ## `pandas.merge_asof` per left row -/

inductive Dir where
  | backward
  | forward
  | nearest
deriving DecidableEq, Repr

structure Opts where
  dir : Dir
  exact : Bool
  tol : Option Nat
deriving DecidableEq, Repr

/-- last right row at or before `k` (`strict`: before) -/
def backCand (strict : Bool) (k : Nat) (F : List Row) : Option Row :=
  (F.filter fun r => if strict then decide (r.1 < k) else decide (r.1 ≤ k)).getLast?

/-- first right row at or after `k` (`strict`: after) -/
def fwdCand (strict : Bool) (k : Nat) (F : List Row) : Option Row :=
  (F.filter fun r => if strict then decide (k < r.1) else decide (k ≤ r.1)).head?

def within (tol : Option Nat) (k : Nat) (r : Row) : Bool :=
  match tol with
  | none => true
  | some t => decide (max k r.1 - min k r.1 ≤ t)

/-- the match of a left key given the two candidates (nearest: the closer one, a tie goes backward) -/
def pick (o : Opts) (k : Nat) (b f : Option Row) : Option Row :=
  match o.dir with
  | .backward => b.filter (within o.tol k)
  | .forward => f.filter (within o.tol k)
  | .nearest =>
    match b.filter (within o.tol k), f.filter (within o.tol k) with
    | none, f' => f'
    | b', none => b'
    | some x, some y => if k - x.1 ≤ y.1 - k then some x else some y

def asof (o : Opts) (k : Nat) (F : List Row) : Option Row :=
  pick o k (backCand (!o.exact) k F) (fwdCand (!o.exact) k F)

/-! ## the planned computation -/

def slice (P : List Row) (lo up : Option Nat) : List Row :=
  P.filter fun r => (match lo with | some a => decide (a ≤ r.1) | none => true) &&
    (match up with | some b => decide (r.1 < b) | none => true)

def tailOf (Rp : List (List Row)) (j : Nat) : List Row := ((Rp.take j).flatten.getLast?).toList
def headOf (Rp : List (List Row)) (j : Nat) : List Row := ((Rp.drop (j + 1)).flatten.head?).toList
def partAt (Rp : List (List Row)) (j : Nat) : List Row := ((Rp.drop j).take 1).flatten

/-- `pd.concat([prev, right_j, next])`: `prev` only for backward / nearest, `next` only for forward / nearest -/
def frameFor (d : Dir) (Rp : List (List Row)) (j : Nat) : List Row :=
  (if d = .forward then [] else tailOf Rp j) ++ partAt Rp j ++ (if d = .backward then [] else headOf Rp j)

def pieceOut (o : Opts) (Rp : List (List Row)) (P : List Row) (p : Piece) : List (Row × Option Row) :=
  (slice P p.lower p.upper).map fun l => (l, asof o l.1 (frameFor o.dir Rp p.part))

/-- `MergeAsofIndexed._layer`: output partition `i` -/
def planOut (o : Opts) (plan : List (List Piece)) (Lp Rp : List (List Row)) : List (List (Row × Option Row)) :=
  List.zipWith (fun J P => J.flatMap (pieceOut o Rp P)) plan Lp

/-- `pandas.merge_asof(left, right)` on the whole frames, kept in the left partitioning -/
def globalOut (o : Opts) (Lp Rp : List (List Row)) : List (List (Row × Option Row)) :=
  Lp.map fun P => P.map fun l => (l, asof o l.1 Rp.flatten)

/-! ## the operators of the prefix / suffix reductions -/

/-- `most_recent_tail(left, right)`: `right.tail(1)` unless `right` is empty -/
def mrt (left right : List Row) : List Row := if right.isEmpty then left else right.getLast?.toList
/-- `most_recent_head(left, right)`: `left.head(1)` unless `left` is empty -/
def mrh (left right : List Row) : List Row := if left.isEmpty then right else left.head?.toList

end Dask.MergeAsof
