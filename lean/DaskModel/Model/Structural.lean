import DaskModel.Model.Chunks
/-
Structural operations (C24): the block-level plans of `concatenate`, `flip`, `roll`, `repeat`,
`pad` (constant/edge chunk arithmetic, reflect/symmetric/wrap reuse), `reshape`'s chunk helpers
(`expand_tuple`, `contract_tuple`, `_calc_lower_dimension_chunks`) and the merge-reshape of
row blocks, on one axis (the n-d operation is the product over axes; validated at API level).

Python                                                     Lean
------                                                     ----
concatenate: `names[bisect(cum_dims, b) - 1]`, `b - cum`   `concatPlan` (= `blockOf` on the block counts)
x[a:b] (slice with Python's negative-wrap / clipping)      `pySlice`
pad_reuse / _pad_reuse_pieces (one axis)                   `padCopies`, `piecesAway`, `padSide`, `padReuse`
np.pad reflect/symmetric/wrap (periodic extension)         `padSpec`
reshape.expand_tuple / contract_tuple                      `expandTuple` / `contractTuple`
_shuffle: grouping loop, sorter, source chunks, takers      `packGroups`, `sortPairs`, `runsBy`, `shuffleChunk`
Import-free (linked into the native driver).
-/
namespace Dask.Structural
open Dask.Chunks

/-! ### concatenate -/

/-- output block `b` along the concatenation axis comes from array `i`, local block `j`:
    `i = bisect(cum_dims, b) - 1`, `j = b - cum_dims[i]` where `cum_dims` accumulates the block counts. -/
def concatPlan (counts : List Nat) (b : Nat) : Option (Nat × Nat) := blockOf counts b

/-- chunks of the result along the axis: `sum((bd[axis] for bd in bds), ())` -/
def concatChunks (css : List (List Nat)) : List Nat := css.flatten

/-- blocks of the result, by the plan -/
def concatBlocks {α} (blockss : List (List (List α))) : List (List α) :=
  let counts := blockss.map List.length
  (List.range (sum counts)).map (fun b =>
    match concatPlan counts b with
    | some (i, j) => (blockss.getD i []).getD j []
    | none => [])

/-! ### Python slices on one axis (step 1) -/

/-- resolve a bound as Python does for step 1: negative wraps once, then clip to `[0, n]` -/
def pyBound (n : Nat) (b : Int) : Nat :=
  if b < 0 then (if b + n < 0 then 0 else (b + n).toNat) else (if (n : Int) < b then n else b.toNat)

/-- `xs[start:stop]` with `None` = omitted -/
def pySlice {α} (xs : List α) (start stop : Option Int) : List α :=
  let n := xs.length
  let a := match start with | none => 0 | some s => pyBound n s
  let b := match stop with | none => n | some s => pyBound n s
  (xs.drop a).take (b - a)

/-! ### flip / roll / repeat -/

/-- `roll` along one axis: `s = 0 if n == 0 else -shift % n; concatenate([x[s:], x[:s]])` -/
def roll {α} (xs : List α) (shift : Int) : List α :=
  let n := xs.length
  let s : Int := if n = 0 then 0 else Int.fmod (-shift) n
  pySlice xs (some s) none ++ pySlice xs none (some s)

/-- NumPy's `roll`: element `p` of the result is `x[(p - shift) mod n]` -/
def rollSpec {α} [Inhabited α] (xs : List α) (shift : Int) : List α :=
  (List.range xs.length).map (fun (p : Nat) => xs.getD (Int.fmod ((p : Int) - shift) xs.length).toNat default)

/-- `repeat` with integer `repeats` applied slab by slab, then concatenated -/
def repeatSlabs {α} (slabs : List (List α)) (r : Nat) : List α :=
  (slabs.map (fun slab => slab.flatMap (fun x => List.replicate r x))).flatten

/-! ### pad -/

inductive PadMode where | reflect | symmetric | wrap
  deriving Repr, DecidableEq

/-! `pad_reuse` (after `fix: da.pad reflect/symmetric/wrap with a pad wider than the axis`): axis by axis, each side is
    assembled from as many (alternately reversed) copies of the array as the width needs plus one partial copy -/

inductive Side where | before | after
  deriving Repr, DecidableEq

/-- `(period, forward, backward)` of `_pad_reuse_pieces` -/
def padCopies {α} (mode : PadMode) (side : Side) (xs : List α) : Nat × List α × List α :=
  let n := xs.length
  match mode with
  | .wrap => (n, xs, xs)
  | .symmetric => (n, xs, xs.reverse)
  | .reflect =>
    if n = 1 then (1, xs, xs)
    else match side with
      | .before => (n - 1, xs.take (n - 1), (xs.drop 1).reverse)       -- x[:-1], x[:0:-1]
      | .after => (n - 1, xs.drop 1, (xs.take (n - 1)).reverse)        -- x[1:],  x[-2::-1]

/-- the `while remaining > 0` loop: pieces listed going away from the array -/
def piecesAway {α} (mode : PadMode) (side : Side) (period : Nat) (fwd bwd : List α) : Nat → Nat → Nat → List (List α)
  | 0, _, _ => []
  | fuel + 1, i, remaining =>
    if remaining = 0 then []
    else
      let piece := if mode = .wrap ∨ i % 2 = 1 then fwd else bwd
      let piece := if remaining < period then
          (match side with
           | .before => piece.drop (period - remaining)
           | .after => piece.take remaining)
        else piece
      piece :: piecesAway mode side period fwd bwd fuel (i + 1) (remaining - period)

/-- `_pad_reuse_pieces(array, axis, width, mode, side)`, flattened along the axis -/
def padSide {α} (mode : PadMode) (side : Side) (xs : List α) (width : Nat) : List α :=
  let (period, fwd, bwd) := padCopies mode side xs
  let pieces := piecesAway mode side period fwd bwd width 0 width
  match side with
  | .before => pieces.reverse.flatten
  | .after => pieces.flatten

/-- `pad_reuse` for a 1-d array; `none` = ValueError (extending an empty axis) -/
def padReuse {α} (mode : PadMode) (xs : List α) (l r : Nat) : Option (List α) :=
  if l = 0 ∧ r = 0 then some xs
  else if xs.length = 0 then none
  else some (padSide mode .before xs l ++ xs ++ padSide mode .after xs r)



/-- source index of NumPy's periodic extension at offset `t` from the start of the data -/
def padIndex (mode : PadMode) (n : Nat) (t : Int) : Nat :=
  match mode with
  | .wrap => (Int.fmod t n).toNat
  | .symmetric =>
    let m := (Int.fmod t (2 * (n : Int))).toNat
    if m < n then m else 2 * n - 1 - m
  | .reflect =>
    if n ≤ 1 then 0 else
    let m := (Int.fmod t (2 * (n : Int) - 2)).toNat
    if m < n then m else 2 * n - 2 - m

/-- `np.pad(x, (l, r), mode)` for reflect / symmetric / wrap -/
def padSpec {α} [Inhabited α] (mode : PadMode) (xs : List α) (l r : Nat) : List α :=
  (List.range (l + xs.length + r)).map (fun (p : Nat) => xs.getD (padIndex mode xs.length ((p : Int) - l)) default)

/-- `get_pad_shapes_chunks` for one axis, constant mode: the pad is chunked like the array's largest chunk
    (`normalize_chunks((max(chunks),), (width,))`), other modes / width 0: a single chunk -/
def padChunks (constant : Bool) (chunks : List Nat) (width : Nat) : List Nat :=
  if !constant || width = 0 then [width]
  else
    let bd := chunks.foldr max 0
    if bd = 0 then [width] else List.replicate (width / bd) bd ++ (if width % bd ≠ 0 then [width % bd] else [])

/-! ### `_shuffle` (take / shuffle along one axis) -/

def packGroups (limit tolNum tolDen : Nat) : List Nat → List (List Nat) → List (List Nat)
  | cur, [] => if cur.length > 0 then [cur] else []
  | cur, idx :: rest =>
    if cur.length + idx.length > limit ∧ cur.length > 0 then cur :: packGroups limit tolNum tolDen idx rest
    else if (cur ++ idx).length * tolNum > limit * tolDen then (cur ++ idx) :: packGroups limit tolNum tolDen [] rest
    else packGroups limit tolNum tolDen (cur ++ idx) rest

/-- stable insertion into a list of `(value, position)` pairs sorted by value -/
def insertP (a : Nat × Nat) : List (Nat × Nat) → List (Nat × Nat)
  | [] => [a]
  | b :: l => if a.1 ≤ b.1 then a :: b :: l else b :: insertP a l

/-- `sorter = np.argsort(taker)` with the sorted values: pairs `(taker[sorter[i]], sorter[i])` -/
def sortPairs (T : List Nat) : List (Nat × Nat) := (T.zipIdx).foldr insertP []

/-- `np.searchsorted(chunk_boundaries, g, side="right")`: the source chunk of global index `g` -/
def sourceOf (old : List Nat) (g : Nat) : Nat := ((blockOf old g).map (·.1)).getD old.length

/-- `np.unique(source chunks of the sorted taker, return_index=True)`: consecutive runs with the same source chunk -/
def runsBy (key : Nat → Nat) : List Nat → List (Nat × List Nat)
  | [] => []
  | g :: gs =>
    match runsBy key gs with
    | (k, run) :: rest => if key g = k then (k, g :: run) :: rest else (key g, [g]) :: (k, run) :: rest
    | [] => [(key g, [g])]

/-- one output chunk of `_shuffle`: per source chunk a fancy-index `getitem` with the local positions
    `sorted[b_start:b_end] - boundary`, concatenation, then `take(…, np.argsort(sorter))` -/
def shuffleChunk {α} [Inhabited α] (old : List Nat) (blocks : List (List α)) (T : List Nat) : List α :=
  let sp := sortPairs T
  let sorted := sp.map (·.1)
  let sorter := sp.map (·.2)
  let merged := (runsBy (sourceOf old) sorted).flatMap
    (fun cr => cr.2.map (fun g => (blocks.getD cr.1 []).getD (g - blockStart old cr.1) default))
  let inv := (List.range T.length).map (fun p => sorter.idxOf p)
  inv.map (fun i => merged.getD i default)


/-! ### reshape helpers -/

/-- `int(part)` where `part = max(c / factor, 1)` -/
def expandPart (c factor : Nat) : Nat := if factor ≤ c then c / factor else 1

/-- `x >= 2 * part`; the float comparison `x >= 2*c/factor` is the exact `x*factor >= 2*c` -/
def expandCond (c factor x : Nat) : Bool :=
  if factor ≤ c then decide (2 * c ≤ x * factor) else decide (2 ≤ x)

/-- `if x: out.append(x)` -/
def expandRest (x : Nat) : List Nat := if x ≠ 0 then [x] else []

/-- inner `while x >= 2 * part: out.append(int(part)); x -= int(part)` (fuel = the chunk) -/
def expandLoop (c factor : Nat) : Nat → Nat → List Nat
  | 0, x => expandRest x
  | fuel + 1, x =>
    if expandCond c factor x then expandPart c factor :: expandLoop c factor fuel (x - expandPart c factor)
    else expandRest x

/-- `expand_tuple(chunks, factor)` -/
def expandTuple (chunks : List Nat) (factor : Nat) : List Nat :=
  if factor = 1 then chunks else chunks.flatMap (fun c => expandLoop c factor c c)

/-- loop of `contract_tuple` -/
def contractLoop (factor : Nat) : Nat → List Nat → List Nat
  | _, [] => []
  | residual, chunk :: rest =>
    let ch := chunk + residual
    let good := factor * (ch / factor)
    (if good ≠ 0 then [good] else []) ++ contractLoop factor (ch % factor) rest

/-- `contract_tuple(chunks, factor)`; `none` = the `assert sum(chunks) % factor == 0` fails / factor 0 -/
def contractTuple (chunks : List Nat) (factor : Nat) : Option (List Nat) :=
  if factor = 0 then none else if sum chunks % factor ≠ 0 then none else some (contractLoop factor 0 chunks)

/-- `_calc_lower_dimension_chunks` for two axes: products in `itertools.product` order -/
def lowerDimChunks (a b : List Nat) : List Nat := a.flatMap (fun x => b.map (fun y => x * y))

/-- merge-reshape `(R, m) -> (R*m,)` done block by block: the input is chunked by whole rows
    (`rowChunks`, second axis a single chunk), block `k` is flattened in C order -/
def reshapeMergeBlocks {α} (rowChunks : List Nat) (rows : List (List α)) : List (List α) :=
  (splitBy rowChunks rows).map List.flatten

/-- merge-reshape `(R, m) -> (R*m,)` in the "only moving blocks around" case of `reshape_rechunk`: every row is its own
    chunk and the columns are chunked `cc`; block `(i, j)` (a `1 × c_j` piece of row `i`) becomes output block `i*k + j` -/
def reshapeMergeOnesBlocks {α} (cc : List Nat) (rows : List (List α)) : List (List α) :=
  rows.flatMap (fun row => splitBy cc row)


end Dask.Structural
