import DaskModel.Model.Structural
/-
Block-level plans of the structural operations that are `blockwise` / key-map constructions (C24): transpose (and
swapaxes / moveaxis, which call it with a particular permutation), flip, rot90 (NumPy's own composition of flip and
transpose), tril / triu (a `tri` mask from two chunked `arange`s, then `where`), stack, broadcast_to, tile, diff.

A 2-d chunked array is a `Grid`: the two chunk tuples and a block table `blk i j r s` (= element `(r, s)` of block
`(i, j)`); `Grid.read` is what the assembled array holds at a global position. Every plan below is "new chunks + which
old block each new block is made of + the NumPy kernel applied to that block", as in the code:

Python                                                                       Lean
------                                                                       ----
transpose: blockwise(np.transpose, axes, a, range(ndim), axes=axes)          `Grid.transpose` (2-d), `NArr.transpose` (n-d, any permutation)
flip: m[::-1] along the axis (blocks in reverse order, each reversed)        `Grid.flip0`, `Grid.flip1`, `flipBlocks` (1-d)
rot90: k=1 transpose(flip(m, axes[1])), k=2 flip(flip(m, 0), 1), k=3 flip(transpose(m), axes[1])   `Grid.rot90`
tril: where(tri(N, M, k, chunks=m.chunks[-2:]), m, 0); tri = arange(N)[:, None] >= arange(-k, M - k)   `Grid.tril`, `Grid.triu`
stack: key (k, j) <- getitem(block j of array k, (None, slice))              `stackRows`, `stackCols`
broadcast_to: old_index = 0 if bd == (1,) else i; np.broadcast_to(block, chunk_shape)   `broadcastRows`, `broadcastLen1`
tile: block([c] * nrep) = concatenate of the copies                          `tileBlocks`
diff: r[1:] - r[:-1] (elementwise on the unified chunks)                     `diff1`, `elemwiseBlocks`
concatenate (2-d, along either axis) / block([[a, b], [c, d]]) / tile(A, (r0, r1))   `Grid.hcat`, `Grid.vcat`, `block2x2`, `Grid.tile`
pad_edge, mode="constant" (one axis)                                          `padConstBlocks`
Import-free (linked into the native driver).
-/
namespace Dask.Structural
open Dask.Chunks

/-- a 1-d chunked array -/
structure Vec (α : Type) where
  cs : List Nat
  blk : Nat → Nat → α

/-- a 2-d chunked array -/
structure Grid (α : Type) where
  rc : List Nat
  cc : List Nat
  blk : Nat → Nat → Nat → Nat → α

def Vec.read {α} (v : Vec α) (p : Nat) : Option α :=
  match blockOf v.cs p with
  | some (b, o) => some (v.blk b o)
  | none => none

def Grid.read {α} (g : Grid α) (p q : Nat) : Option α :=
  match blockOf g.rc p, blockOf g.cc q with
  | some (i, r), some (j, s) => some (g.blk i j r s)
  | _, _ => none

/-- the array `A` cut into blocks -/
def Vec.ofFn {α} (cs : List Nat) (A : Nat → α) : Vec α := ⟨cs, fun b o => A (blockStart cs b + o)⟩
def Grid.ofFn {α} (rc cc : List Nat) (A : Nat → Nat → α) : Grid α :=
  ⟨rc, cc, fun i j r s => A (blockStart rc i + r) (blockStart cc j + s)⟩

/-- `blockwise(np.transpose, (1, 0), a, (0, 1))`: block `(j, i)` of the result is the transposed block `(i, j)` -/
def Grid.transpose {α} (g : Grid α) : Grid α := ⟨g.cc, g.rc, fun j i s r => g.blk i j r s⟩

/-- `m[::-1]`: blocks along axis 0 in reverse order, each one reversed -/
def Grid.flip0 {α} (g : Grid α) : Grid α :=
  ⟨g.rc.reverse, g.cc, fun i j r s =>
    let i' := g.rc.length - 1 - i
    g.blk i' j (g.rc.getD i' 0 - 1 - r) s⟩

/-- `m[:, ::-1]` -/
def Grid.flip1 {α} (g : Grid α) : Grid α :=
  ⟨g.rc, g.cc.reverse, fun i j r s =>
    let j' := g.cc.length - 1 - j
    g.blk i j' r (g.cc.getD j' 0 - 1 - s)⟩

/-- `rot90(m, k, axes=(0, 1))` after `k %= 4` -/
def Grid.rot90 {α} (k : Nat) (g : Grid α) : Grid α :=
  match k % 4 with
  | 0 => g
  | 1 => g.flip1.transpose
  | 2 => g.flip0.flip1
  | _ => g.transpose.flip1

/-- block `(i, j)` of `tri(N, M, k, chunks=(rc, cc))`: `arange(N)` block `i` (as a column) `>=` `arange(-k, M - k)` block `j` -/
def triMask (rc cc : List Nat) (k : Int) (i j r s : Nat) : Bool :=
  decide (-k + ((blockStart cc j + s : Nat) : Int) ≤ ((blockStart rc i + r : Nat) : Int))

/-- `where(tri(*m.shape, k=k, chunks=m.chunks), m, 0)` -/
def Grid.tril {α} (zero : α) (k : Int) (g : Grid α) : Grid α :=
  ⟨g.rc, g.cc, fun i j r s => if triMask g.rc g.cc k i j r s then g.blk i j r s else zero⟩

/-- `where(tri(*m.shape, k=k-1, chunks=m.chunks), 0, m)` -/
def Grid.triu {α} (zero : α) (k : Int) (g : Grid α) : Grid α :=
  ⟨g.rc, g.cc, fun i j r s => if triMask g.rc g.cc (k - 1) i j r s then zero else g.blk i j r s⟩

/-- `stack(seq, axis=0)` of `n` 1-d arrays with (unified) chunks `cs`: chunks `((1,)*n, cs)`, key `(k, j)` is block `j` of
    array `k` with a new leading axis -/
def stackRows {α} (n : Nat) (cs : List Nat) (arr : Nat → Nat → Nat → α) : Grid α :=
  ⟨List.replicate n 1, cs, fun k j _ s => arr k j s⟩

/-- `stack(seq, axis=1)` (= `axis=-1`) of 1-d arrays: chunks `(cs, (1,)*n)` -/
def stackCols {α} (n : Nat) (cs : List Nat) (arr : Nat → Nat → Nat → α) : Grid α :=
  ⟨cs, List.replicate n 1, fun j k r _ => arr k j r⟩

/-- `broadcast_to(x, (R, n))` of a 1-d array with `n > 1` elements: a new leading axis chunked `rows`; block `(i, j)` is
    `np.broadcast_to(block j, (rows_i, c_j))` -/
def broadcastRows {α} (rows : List Nat) (v : Vec α) : Grid α := ⟨rows, v.cs, fun _ j _ s => v.blk j s⟩

/-- `broadcast_to(x, (n,), chunks=new)` of a length-one array chunked `(1,)`: `old_index = 0`, every new block is the
    single element repeated -/
def broadcastLen1 {α} (new : List Nat) (v : Vec α) : Vec α := ⟨new, fun _ _ => v.blk 0 0⟩

/-! ### one-axis plans on lists of blocks -/

/-- `x[::-1]`: blocks in reverse order, each reversed -/
def flipBlocks {α} (blocks : List (List α)) : List (List α) := blocks.reverse.map List.reverse

/-- `tile(x, r)` for a 1-d array: `block([x] * r)` = `concatenate` of `r` copies: the block list repeated -/
def tileBlocks {α} (r : Nat) (blocks : List (List α)) : List (List α) := (List.replicate r blocks).flatten

/-- elementwise operation on two arrays with the same (unified) chunks -/
def elemwiseBlocks {α β γ} (f : α → β → γ) (a : List (List α)) (b : List (List β)) : List (List γ) :=
  List.zipWith (List.zipWith f) a b

/-- `r[1:] - r[:-1]` -/
def diff1 (xs : List Int) : List Int := List.zipWith (· - ·) (xs.drop 1) xs.dropLast

/-- `for _ in range(n): r = r[1:] - r[:-1]` -/
def diffN : Nat → List Int → List Int
  | 0, xs => xs
  | n + 1, xs => diffN n (diff1 xs)

/-! ### concatenate along an axis of a 2-d array, block, tile -/

/-- `concatenate([g1, g2], axis=1)` of two arrays with the same (unified) row chunks: chunks `cc1 + cc2`, key `(i, j)` is
    block `j - cum_dims[k]` of array `k = bisect(cum_dims, j) - 1` -/
def Grid.hcat {α} (g1 g2 : Grid α) : Grid α :=
  ⟨g1.rc, g1.cc ++ g2.cc, fun i j r s => if j < g1.cc.length then g1.blk i j r s else g2.blk i (j - g1.cc.length) r s⟩

/-- `concatenate([g1, g2], axis=0)` -/
def Grid.vcat {α} (g1 g2 : Grid α) : Grid α :=
  ⟨g1.rc ++ g2.rc, g1.cc, fun i j r s => if i < g1.rc.length then g1.blk i j r s else g2.blk (i - g1.rc.length) j r s⟩

/-- `n * [g]` concatenated along axis 1 / axis 0 (what `tile` hands to `block`) -/
def Grid.hrep {α} (g : Grid α) : Nat → Grid α
  | 0 => ⟨g.rc, [], g.blk⟩
  | n + 1 => g.hcat (g.hrep n)

def Grid.vrep {α} (g : Grid α) : Nat → Grid α
  | 0 => ⟨[], g.cc, g.blk⟩
  | n + 1 => g.vcat (g.vrep n)

/-- `block([[a, b], [c, d]])`: innermost lists along the last axis, then along the first -/
def block2x2 {α} (a b c d : Grid α) : Grid α := (a.hcat b).vcat (c.hcat d)

/-- `tile(A, (r0, r1))` = `block(r0 * [r1 * [A]])` -/
def Grid.tile {α} (g : Grid α) (r0 r1 : Nat) : Grid α := (g.hrep r1).vrep r0


/-- `pad(x, (l, r), mode="constant", constant_values=v)` along one axis: `concatenate([broadcast_to(v, l, chunks), x,
    broadcast_to(v, r, chunks)])` with the pads chunked by `get_pad_shapes_chunks` (`padChunks`) -/
def padConstBlocks {α} (chunks : List Nat) (blocks : List (List α)) (l r : Nat) (v : α) : List (List α) :=
  splitBy (padChunks true chunks l) (List.replicate l v) ++ blocks ++ splitBy (padChunks true chunks r) (List.replicate r v)

/-! ### squeeze / expand_dims of a leading axis of length one -/
/-- `squeeze(x, axis=0)` of a `1 × M` array: `x[0, :]` (an integer index on the single block row) -/
def squeezeRow {α} (g : Grid α) : Vec α := ⟨g.cc, fun j s => g.blk 0 j 0 s⟩
/-- `expand_dims(x, 0)` of a 1-d array = `x.reshape((1, n))`: chunks `((1,), cs)`, block `(0, j)` = block `j` reshaped -/
def expandRow {α} (v : Vec α) : Grid α := ⟨[1], v.cs, fun _ j _ s => v.blk j s⟩

/-! ### n-d: transpose with any permutation of the axes -/

/-- an n-d chunked array: one chunk tuple per axis and a block table (block index, index inside the block) -/
structure NArr (α : Type) where
  chunks : List (List Nat)
  blk : List Nat → List Nat → α

/-- per axis: the block that holds the position and the offset inside it -/
def locate : List (List Nat) → List Nat → Option (List Nat × List Nat)
  | [], [] => some ([], [])
  | c :: cs, p :: ps =>
    match blockOf c p, locate cs ps with
    | some (b, o), some (bs, os) => some (b :: bs, o :: os)
    | _, _ => none
  | _, _ => none

def NArr.read {α} (a : NArr α) (idx : List Nat) : Option α :=
  (locate a.chunks idx).map (fun bo => a.blk bo.1 bo.2)

/-- `[xs[a] for a in axes]` -/
def permuteBy {β} (d : β) (axes : List Nat) (xs : List β) : List β := axes.map (fun a => xs.getD a d)

/-- the index `X'` with `X'[axes[k]] = X[k]` -/
def unpermuteBy (axes : List Nat) (X : List Nat) : List Nat :=
  (List.range axes.length).map (fun a => X.getD (axes.idxOf a) 0)

/-- `blockwise(np.transpose, axes, a, range(ndim), axes=axes)`: chunks permuted, block `B` of the result is
    `np.transpose(block unperm(B), axes)` -/
def NArr.transpose {α} (axes : List Nat) (a : NArr α) : NArr α :=
  ⟨permuteBy [] axes a.chunks, fun B O => a.blk (unpermuteBy axes B) (unpermuteBy axes O)⟩

/-- `axes` is a permutation of `0 .. n-1` -/
def IsPerm (axes : List Nat) : Prop := axes.Nodup ∧ ∀ a, a ∈ axes ↔ a < axes.length

/-- … executable -/
def isPermB (axes : List Nat) : Bool :=
  decide axes.Nodup && axes.all (fun a => decide (a < axes.length)) && (List.range axes.length).all (fun a => axes.contains a)

/-- the array `A` (a function of the index vector) cut into blocks -/
def NArr.ofFn {α} (chunks : List (List Nat)) (A : List Nat → α) : NArr α :=
  ⟨chunks, fun bs os => A ((List.range chunks.length).map (fun k => blockStart (chunks.getD k []) (bs.getD k 0) + os.getD k 0))⟩


/-- all index vectors below the given extents, in C order -/
def cartesian : List Nat → List (List Nat)
  | [] => [[]]
  | n :: ns => (List.range n).flatMap (fun i => (cartesian ns).map (fun t => i :: t))

end Dask.Structural
