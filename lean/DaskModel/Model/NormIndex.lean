import DaskModel.Model.Slice1D
/-
C20: `dask/array/slicing.py::replace_ellipsis` and `normalize_index` for indices made of slices, integers,
`None` (np.newaxis), `Ellipsis`, 1-d integer lists and 1-d boolean masks (NumPy).

Python                                                               Lean
------                                                               ----
replace_ellipsis(n, index)                                           `replaceEllipsis n index`
   isellipsis = [i for i, ind in enumerate(index) if ind is Ellipsis]; loc = isellipsis[0]
   extra_dimensions = n - (len(index) - sum(i is None for i in index) - 1)
   index[:loc] + (slice(None),) * extra_dimensions + index[loc + 1:]      (`(x,) * negative == ()`)
normalize_index(idx, shape):
   n_sliced_dims (None skipped); idx + (slice(None),) * (len(shape) - n_sliced_dims)      `padded`
   "Too many indices for array"                                      `none`
   none_shape; check_index; sanitize_index; normalize_slice; posify_index   `normEntry` per entry
A second `Ellipsis` is not replaced and makes `sanitize_index` raise: `none`.
Import-free of Mathlib (linked into the native driver).
-/
namespace Dask.NormIndex
open Dask.Slice1D

inductive Entry where
  | sl (s : PSlice)
  | int (i : Int)
  | newaxis
  | ellipsis
  | lst (index : List Int)
  | mask (m : List Bool)
  deriving Repr, DecidableEq

def isEllipsis : Entry → Bool
  | .ellipsis => true
  | _ => false

def isNewaxis : Entry → Bool
  | .newaxis => true
  | _ => false

/-- position of the first `Ellipsis` -/
def firstEllipsis : List Entry → Option Nat
  | [] => none
  | e :: rest => if isEllipsis e then some 0 else (firstEllipsis rest).map (· + 1)

def replaceEllipsis (n : Nat) (index : List Entry) : List Entry :=
  match firstEllipsis index with
  | none => index
  | some loc =>
    let extra := n - (index.length - (index.filter isNewaxis).length - 1)
    index.take loc ++ List.replicate extra (Entry.sl colon) ++ index.drop (loc + 1)

/-- `np.nonzero(mask)[0]`: the positions of the `True` entries, increasing (`sanitize_index` on a boolean array) -/
def nonzeroFrom : Nat → List Bool → List Int
  | _, [] => []
  | k, b :: rest => if b then (k : Int) :: nonzeroFrom (k + 1) rest else nonzeroFrom (k + 1) rest

def nonzero (m : List Bool) : List Int := nonzeroFrom 0 m

/-- one entry against the length `d` of its axis: `check_index`, `normalize_slice`, `posify_index`;
    `none` = IndexError / ValueError / TypeError -/
def normEntry (d : Nat) : Entry → Option Entry
  | .sl s => (normalizeSlice s d).map Entry.sl
  | .int i => if checkIntOOB d i then none else some (Entry.int (posifyInt d i))
  | .lst l => if l.any (checkIntOOB d) then none else some (Entry.lst (l.map (posifyInt d)))
  | .mask m => if m.length ≠ d then none else some (Entry.lst (nonzero m))   -- check_index: size must match; sanitize_index: nonzero
  | .newaxis => some Entry.newaxis       -- not reached: `None` entries have no axis
  | .ellipsis => none

/-- walk the entries along the axes (`none_shape`): a `None` entry takes no axis -/
def normEntries : List Nat → List Entry → Option (List Entry)
  | _, [] => some []
  | shape, .newaxis :: rest => (normEntries shape rest).map (Entry.newaxis :: ·)
  | d :: shape, e :: rest =>
    match normEntry d e, normEntries shape rest with
    | some e', some r => some (e' :: r)
    | _, _ => none
  | [], _ :: _ => none

def padded (ndim : Nat) (index : List Entry) : List Entry :=
  let idx := replaceEllipsis ndim index
  idx ++ List.replicate (ndim - (idx.filter (fun e => !isNewaxis e)).length) (Entry.sl colon)

def normalizeIndex (shape : List Nat) (index : List Entry) : Option (List Entry) :=
  let idx := padded shape.length index
  if (idx.filter (fun e => !isNewaxis e)).length > shape.length then none
  else normEntries shape idx

end Dask.NormIndex
