import DaskModel.Model.TaskTerm
/-
K7 (part 2): the legacy graph passes of dask/optimization.py that are modelled directly.

Python                                        Lean
------                                        ----
dask.core.subs(task, key, val)                `subs key val task` (`subsArgs` = the argument loop with `arg in {key}`)
dask.optimization.cull(dsk, keys)             `cull g keys`: rounds of `work`, `seen`; `out`/`dependencies` are rebuilt
                                              from the list of visited keys (`out[k] = dsk[k]` always)
KeyError for a requested key not in dsk       `none`
Import-free (linked into the native driver).
-/
namespace Dask.TaskTerm

mutual
/-- `subs(task, key, val)` -/
def subs (key val : Obj) : Obj → Obj
  | .tuple (h :: args) =>
    if h.callable then .tuple (h :: subsArgs key val args)
    else if Obj.tuple (h :: args) == key then val else .tuple (h :: args)
  | .tuple [] => if Obj.tuple [] == key then val else .tuple []
  | .list xs => if Obj.list xs == key then val else .list (subsList key val xs)
  | .dict kvs => if Obj.dict kvs == key then val else .dict (subsVals key val kvs)
  | o => if o == key then val else o
/-- `[subs(x, key, val) for x in xs]` -/
def subsList (key val : Obj) : List Obj → List Obj
  | [] => []
  | x :: xs => subs key val x :: subsList key val xs
/-- `{k: subs(v, key, val) for k, v in d.items()}` -/
def subsVals (key val : Obj) : List (Obj × Obj) → List (Obj × Obj)
  | [] => []
  | (k, v) :: rest => (k, subs key val v) :: subsVals key val rest
/-- the `for arg in task[1:]` loop -/
def subsArgs (key val : Obj) : List Obj → List Obj
  | [] => []
  | .tuple (h :: as) :: rest =>
    (if h.callable then subs key val (.tuple (h :: as))
     else if (Obj.tuple (h :: as)).hashable && Obj.tuple (h :: as) == key then val else .tuple (h :: as))
      :: subsArgs key val rest
  | .list xs :: rest => .list (subsList key val xs) :: subsArgs key val rest
  | .dict kvs :: rest => .dict (subsVals key val kvs) :: subsArgs key val rest
  | a :: rest => (if a.hashable && a == key then val else a) :: subsArgs key val rest
end

/-- `for d in dependencies_k: if d not in seen: seen.add(d); new_work.append(d)` -/
def addNew : List Obj → List Obj → List Obj → List Obj × List Obj
  | seen, nw, [] => (seen, nw)
  | seen, nw, d :: ds => if seen.contains d then addNew seen nw ds else addNew (d :: seen) (nw ++ [d]) ds

/-- one `for k in work:` sweep; `none` = KeyError -/
def cullRound (g : LGraph) (allKeys : List Obj) :
    List Obj → List Obj → List Obj → List Obj → Option (List Obj × List Obj × List Obj)
  | [], seen, visited, nw => some (seen, visited, nw)
  | k :: ws, seen, visited, nw =>
    match g.lookup k with
    | none => none
    | some t =>
      let r := addNew seen nw (legacyRefs allKeys t)
      cullRound g allKeys ws r.1 (if visited.contains k then visited else visited ++ [k]) r.2

/-- `while work:`; returns the keys of `out` in insertion order -/
def cullLoop (g : LGraph) (allKeys : List Obj) : Nat → List Obj → List Obj → List Obj → Option (List Obj)
  | 0, _, _, _ => none
  | fuel + 1, work, seen, visited =>
    if work.isEmpty then some visited
    else match cullRound g allKeys work seen visited [] with
      | none => none
      | some (seen', visited', nw) => cullLoop g allKeys fuel nw seen' visited'

def dedup : List Obj → List Obj
  | [] => []
  | x :: xs => if xs.contains x then dedup xs else x :: dedup xs

def restrict (g : LGraph) (ks : List Obj) : LGraph :=
  ks.filterMap (fun k => (g.lookup k).map (fun v => (k, v)))

/-- `cull(dsk, keys)` → `(out, dependencies)`; `none` = KeyError -/
def cull (g : LGraph) (keys : List Obj) : Option (LGraph × List (Obj × List Obj)) :=
  let allKeys := g.map Prod.fst
  (cullLoop g allKeys (g.length + 2) (dedup keys) [] []).map fun visited =>
    (restrict g visited,
     visited.map (fun k => (k, match g.lookup k with | some t => legacyRefs allKeys t | none => [])))

end Dask.TaskTerm

namespace Dask.TaskTerm

/-! ### a checker for the outputs of the substitution-based passes (`inline`, `inline_functions`, `fuse_linear`, `fuse`) -/

/-- the term obtained from `t` by replacing every reference to a key of `S` by the (recursively) final term of that
    key's definition — what `fuse`/`inline` build bottom-up with `subs` -/
def finalTerm (g : LGraph) (K S : List Obj) : Nat → Obj → Obj
  | 0, t => t
  | fuel + 1, t =>
    (legacyRefs K t).foldl (fun acc c =>
      if S.contains c then
        match g.lookup c with
        | some tc => subs c (finalTerm g K S fuel tc) acc
        | none => acc
      else acc) t

/-- `fuseOK g h S req`: the output graph `h` is the input graph `g` with the keys of `S` substituted by their
    definitions everywhere, some of the substituted keys deleted, nothing else changed, no dangling reference, and every
    requested key kept. -/
def fuseOK (g h : LGraph) (S req : List Obj) : Bool :=
  let K := g.map Prod.fst
  let K' := h.map Prod.fst
  h.all (fun kv => match g.lookup kv.1 with
    | some t => kv.2 == finalTerm g K S (g.length + 1) t
    | none => false) &&
  K.all (fun k => K'.contains k || S.contains k) &&
  h.all (fun kv => (legacyRefs K kv.2).all (fun d => K'.contains d)) &&
  req.all (fun k => K'.contains k) &&
  S.all (fun c => inKeys K c)

end Dask.TaskTerm

namespace Dask.TaskTerm

/-! ### outputs with key renaming (`rename_keys=True` / a custom renamer)

`fuse`: `rv[new] = rv[old]; rv[old] = new`. `fuse_linear` also replaces the references to `old` by `new` and deletes
`old` unless it is requested. -/

/-- replace every reference to an old key by its new name -/
def normR (R : List (Obj × Obj)) (t : Obj) : Obj := R.foldl (fun acc on => subs on.1 on.2 acc) t

def nodupObjs : List Obj → Bool
  | [] => true
  | x :: xs => !xs.contains x && nodupObjs xs

/-- `fuseOKR g h S R req`: like `fuseOK`, for an output `h` in which the keys `old` of `R = [(old, new), …]` were
    renamed: `h[new]` is the (final) term of `old`, `h[old]`, if still there, is the alias `new`, and references to an
    `old` may or may not have been replaced by its `new` (both sides are compared after replacing all of them). -/
def fuseOKR (g h : LGraph) (S : List Obj) (R : List (Obj × Obj)) (req : List Obj) : Bool :=
  let K := g.map Prod.fst
  let K' := h.map Prod.fst
  let U := K ++ R.map Prod.snd
  let fuel := g.length + 1
  let termOK (t t0 : Obj) : Bool :=
    let ft := finalTerm g K S fuel t0
    normR R t == normR R ft && (legacyRefs U ft).all (fun d => K.contains d)
  R.all (fun on => inKeys K on.1 && !K.contains on.2 && on.2.keyTyped && on.2.hashable && !on.2.isTask &&
                   K'.contains on.2) &&
  nodupObjs (R.map Prod.snd) &&
  h.all (fun kv =>
    match R.find? (fun on => on.2 == kv.1) with
    | some on =>
      (match g.lookup on.1 with
       | some t0 => termOK kv.2 t0
       | none => false)
    | none =>
      match g.lookup kv.1 with
      | none => false
      | some t0 => R.any (fun on => on.1 == kv.1 && kv.2 == on.2) || termOK kv.2 t0) &&
  h.all (fun kv => (legacyRefs U kv.2).all (fun d => K'.contains d)) &&
  req.all (fun k => K'.contains k) &&
  S.all (fun c => inKeys K c)

end Dask.TaskTerm
