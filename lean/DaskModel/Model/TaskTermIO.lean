import DaskModel.Sexp
import DaskModel.Model.TaskTerm
/-! s-expression codecs for `Obj`, `Node`, graphs (driver side of the line protocol). -/
namespace Dask.TaskTerm
open Dask

mutual
partial def Obj.toSExp : Obj → SExp
  | .int n => .int n
  | .str s => .str s
  | .none => .sym "none"
  | .fn f => .list [.sym "fn", .int f]
  | .quoted v => .list [.sym "q", v.toSExp]
  | .tuple xs => .list (.sym "t" :: xs.map Obj.toSExp)
  | .list xs => .list (.sym "l" :: xs.map Obj.toSExp)
  | .dict kvs => .list (.sym "d" :: kvs.map fun (k, v) => .list [k.toSExp, v.toSExp])
  | .app f a k => .list [.sym "app", .int f, .list (a.map Obj.toSExp),
                         .list (k.map fun (k, v) => .list [k.toSExp, v.toSExp])]
end

partial def Obj.ofSExp? : SExp → Option Obj
  | .int n => some (.int n)
  | .str s => some (.str s)
  | .sym "none" => some .none
  | .list [.sym "fn", .int f] => if f ≥ 0 then some (.fn f.toNat) else Option.none
  | .list [.sym "q", v] => do some (.quoted (← Obj.ofSExp? v))
  | .list (.sym "t" :: xs) => do some (.tuple (← xs.mapM Obj.ofSExp?))
  | .list (.sym "l" :: xs) => do some (.list (← xs.mapM Obj.ofSExp?))
  | .list (.sym "d" :: kvs) => do
    some (.dict (← kvs.mapM fun
      | .list [k, v] => do some (← Obj.ofSExp? k, ← Obj.ofSExp? v)
      | _ => Option.none))
  | .list [.sym "app", .int f, .list a, .list k] => do
    some (.app f.toNat (← a.mapM Obj.ofSExp?) (← k.mapM fun
      | .list [k, v] => do some (← Obj.ofSExp? k, ← Obj.ofSExp? v)
      | _ => Option.none))
  | _ => Option.none

def Kind.toSExp : Kind → SExp
  | .list => .sym "list" | .tuple => .sym "tuple" | .dict => .sym "dict"

def Kind.ofSExp? : SExp → Option Kind
  | .sym "list" => some .list | .sym "tuple" => some .tuple | .sym "dict" => some .dict | _ => none

def Func.toSExp : Func → SExp
  | .call h => .list [.sym "call", h.toSExp]
  | .identityCast k => .list [.sym "icast", k.toSExp]
  | .toContainer k => .list [.sym "cont", k.toSExp]
  | .bindFirst => .list [.sym "bindfirst"]
  | .constNone => .list [.sym "constnone"]

def Func.ofSExp? : SExp → Option Func
  | .list [.sym "call", h] => do some (.call (← Obj.ofSExp? h))
  | .list [.sym "icast", k] => do some (.identityCast (← Kind.ofSExp? k))
  | .list [.sym "cont", k] => do some (.toContainer (← Kind.ofSExp? k))
  | .list [.sym "bindfirst"] => some .bindFirst
  | .list [.sym "constnone"] => some .constNone
  | _ => none

partial def Node.toSExp : Node → SExp
  | .alias t => .list [.sym "alias", t.toSExp]
  | .data v => .list [.sym "data", v.toSExp]
  | .ref k => .list [.sym "ref", k.toSExp]
  | .raw v => .list [.sym "raw", v.toSExp]
  | .task f args kw => .list [.sym "task", f.toSExp, .list (args.map Node.toSExp),
                              .list (kw.map fun (k, n) => .list [k.toSExp, n.toSExp])]

partial def Node.ofSExp? : SExp → Option Node
  | .list [.sym "alias", t] => do some (.alias (← Obj.ofSExp? t))
  | .list [.sym "data", t] => do some (.data (← Obj.ofSExp? t))
  | .list [.sym "ref", t] => do some (.ref (← Obj.ofSExp? t))
  | .list [.sym "raw", t] => do some (.raw (← Obj.ofSExp? t))
  | .list [.sym "task", f, .list args, .list kw] => do
    some (.task (← Func.ofSExp? f) (← args.mapM Node.ofSExp?) (← kw.mapM fun
      | .list [k, n] => do some (← Obj.ofSExp? k, ← Node.ofSExp? n)
      | _ => none))
  | _ => none

def objs? (e : SExp) : Option (List Obj) := do (← e.toList?).mapM Obj.ofSExp?

def lgraph? (e : SExp) : Option LGraph := do
  (← e.toList?).mapM fun
    | .list [k, v] => do some (← Obj.ofSExp? k, ← Obj.ofSExp? v)
    | _ => none

def ngraph? (e : SExp) : Option NGraph := do
  (← e.toList?).mapM fun
    | .list [k, v] => do some (← Obj.ofSExp? k, ← Node.ofSExp? v)
    | _ => none

def ofNGraph (g : NGraph) : SExp := .list (g.map fun (k, n) => .list [k.toSExp, n.toSExp])
def ofLGraph (g : LGraph) : SExp := .list (g.map fun (k, n) => .list [k.toSExp, n.toSExp])

def ofOptObj : Option Obj → SExp
  | some v => .list [.sym "ok", v.toSExp]
  | none => .list [.sym "raised"]

/-- an environment given as an association list -/
def envOf (kvs : List (Obj × Obj)) : Obj → Option Obj := fun k => kvs.lookup k

end Dask.TaskTerm
