import DaskModel.Model.KeySplit
import DaskModel.Model.FusedKey
/-
`default_fused_keys_renamer` (dask/optimization.py) with `dask.utils.key_split` plugged in: the C13 renamer model
(`Model/FusedKey.lean`, which takes the prefixes of the keys as parameters) composed with the C18 model of
`key_split` (`Model/KeySplit.lean`).

Python                                                       Lean
------                                                       ----
a graph key: `"name"` or `("name", i, j, …)`                  `Key.str name` / `Key.tup name idx`
`key_split(k)`: tuples use `k[0]`, any exception → "Other"    `keySplitKey`
`it = reversed(keys); first_key = next(it)`                   `keys.reverse` = `first :: rest`; `[]` → `none` (StopIteration)
`first_name = key_split(first_key)`
`names = {key_split(k) for k in it}` …                        `fusedName h thr keep (rest.map keySplitKey) (keySplitKey first) first.name`
`typ is str` → the name;  tuple → `(name,) + first_key[1:]`   `Key.withName`
`f"{prefix}-{token}"` (how every collection layer is named)   `mkName prefix token`

ASCII only (`str.isalpha` of the source is Unicode aware; `Model/KeySplit.lean` knows the ASCII letters).  Import-free
of Mathlib.
-/
namespace Dask.KeyName
open Dask.KeySplit Dask.FusedKey

inductive Key where
  | str (name : Name)
  | tup (name : Name) (idx : List Int)
  deriving Repr, DecidableEq

def Key.name : Key → Name
  | .str n => n
  | .tup n _ => n

def Key.withName : Key → Name → Key
  | .str _, n => .str n
  | .tup _ idx, n => .tup n idx

/-- `key_split(s)` for a `str`: the result of the `try` block, `"Other"` when anything in it raises -/
def keySplitName (n : Name) : Name :=
  match keySplitCore n with
  | some r => r
  | none => "Other".toList

/-- `key_split(k)`: a tuple key is split by its first element -/
def keySplitKey (k : Key) : Name := keySplitName k.name

/-- `f"{prefix}-{token}"` -/
def mkName (pre tok : Name) : Name := pre ++ '-' :: tok

/-- `default_fused_keys_renamer(keys)` (keys bottom … top of the chain); `none` = `next(it)` raises on no keys -/
def renamer (h : Name → Name) (thr keep : Nat) (keys : List Key) : Option Key :=
  match keys.reverse with
  | [] => none
  | first :: rest =>
    some (first.withName (fusedName h thr keep (rest.map keySplitKey) (keySplitKey first) first.name))

/-- what the driver reports: the kept characters, the full name whose digest is appended when the name was cut, and
    the index part of the top key -/
def renamerParts (thr keep : Nat) (keys : List Key) : Option (Name × Option Name × Option (List Int)) :=
  match keys.reverse with
  | [] => none
  | first :: rest =>
    let (kept, full) := fusedParts thr keep (rest.map keySplitKey) (keySplitKey first) first.name
    some (kept, full, match first with | .str _ => none | .tup _ idx => some idx)

end Dask.KeyName
