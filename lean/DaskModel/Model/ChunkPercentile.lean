import DaskModel.Model.Percentile
/-
The chunk side of `dask.array.percentile.percentile` (1-d, `internal_method="dask"`), over exact rationals, and the
whole pipeline `chunks → _percentile per chunk → merge_percentiles`.

Python                                                             Lean
------                                                             ----
np.percentile(a, q, method) on one chunk (NumPy 2.x `_quantile`):  `pctSorted m (isort a) q`
  arr.partition / sort                                              `isort` (insertion sort; the order of equal values is invisible)
  quantiles = q / 100; virtual index (n - 1) * quantiles            `vindex`
  'lower'  : floor(vi)     'higher' : ceil(vi)                      `floorN`, `ceilN`
  'nearest': np.around(vi) (round half to even)                     `roundN`
  'midpoint': vi' = (floor + ceil)/2, gamma = 0.5 (0 if integral)   `(s[floor] + s[ceil]) / 2`
  'linear' : previous = floor(vi), next = previous + 1 (both the    `lo`, `hi = min (lo+1) (n-1)`, `s[lo] + (s[hi]-s[lo])·(vi-lo)`
             last index when vi ≥ n-1), `_lerp` with gamma = vi - previous
  a percentile outside [0, 100]: ValueError                         `inRange`, `some none`
_percentile(a, q, method): `(None, 0)` for an empty chunk,          `chunkInput` (`v = []`, `N = 0`: dropped by the merge)
  else `(np.percentile(a, q, method), len(a))`
percentile(): calc_q = concatenate(([0], q, [100]));                `calcQ`, `percentile1d`
  merge_percentiles(q, [calc_q]*nblocks, chunk results, method)
Import-free apart from Model/Percentile.
-/
namespace Dask.ChunkPercentile
open Dask.Percentile

def insertR (x : Rat) : List Rat → List Rat
  | [] => [x]
  | y :: ys => if x ≤ y then x :: y :: ys else y :: insertR x ys

/-- the sorted chunk -/
def isort : List Rat → List Rat
  | [] => []
  | x :: xs => insertR x (isort xs)

/-- NumPy's virtual index `(n - 1) * (q / 100)` -/
def vindex (n : Nat) (q : Rat) : Rat := ((n - 1 : Nat) : Rat) * (q / 100)

def floorN (x : Rat) : Nat := x.floor.toNat
def ceilN (x : Rat) : Nat := if ((floorN x : Nat) : Rat) = x then floorN x else floorN x + 1
/-- `np.around`: round half to even -/
def roundN (x : Rat) : Nat :=
  if x - (floorN x : Nat) < 1 / 2 then floorN x
  else if 1 / 2 < x - (floorN x : Nat) then floorN x + 1
  else if floorN x % 2 = 0 then floorN x else floorN x + 1

/-- `np.percentile(a, q, method)` for ONE percentile `0 ≤ q ≤ 100` on the sorted non-empty chunk `s` -/
def pctSorted (m : Method) (s : List Rat) (q : Rat) : Rat :=
  let vi := vindex s.length q
  match m with
  | .linear =>
      nth s (floorN vi) + (nth s (min (floorN vi + 1) (s.length - 1)) - nth s (floorN vi)) * (vi - (floorN vi : Nat))
  | .lower => nth s (floorN vi)
  | .higher => nth s (ceilN vi)
  | .midpoint => (nth s (floorN vi) + nth s (ceilN vi)) / 2
  | .nearest => nth s (roundN vi)

def inRange (q : Rat) : Bool := decide (0 ≤ q) && decide (q ≤ 100)

/-- `calc_q = np.concatenate((zero, q, hundred))` -/
def calcQ (q : List Rat) : List Rat := 0 :: (q ++ [100])

/-- `_percentile(chunk, calc_q, method)` as the input `merge_percentiles` receives for that chunk -/
def chunkInput (m : Method) (cq : List Rat) (a : List Rat) : Input :=
  ⟨cq, if a.isEmpty then [] else cq.map (pctSorted m (isort a)), a.length⟩

/-- `da.percentile(x, q, method).compute()` for the 1-d array with blocks `chunks`.
    outer `none` = invalid sort permutation (harness error); `some none` = ValueError (a percentile outside
    [0, 100], or every block empty: "No non-trivial arrays found") -/
def percentile1d (order : Option (List Nat)) (m : Method) (q : List Rat) (chunks : List (List Rat)) :
    Option (Option (List Rat)) :=
  if q.all inRange then mergePercentilesWith order m q (chunks.map (chunkInput m (calcQ q)))
  else some none

end Dask.ChunkPercentile
