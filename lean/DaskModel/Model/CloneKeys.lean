import DaskModel.DriverLib
import DaskModel.Model.RenameIO
/-! C16 extension (last round): the computation of `clone_keys` and of the effective `omit_layers` at the head of
    `_bind_one` (dask/graph_manipulation.py, lines 345-362), for both values of `assume_layers`. Mathlib-free.
    `ext` = `dsk.get_all_external_keys()`, `L` = `[(name, layer.get_output_keys()) for name, layer in dsk.layers.items()]`
    (a dict: the names are distinct; `List.lookup` finds the only entry). -/
namespace Dask.TaskTerm
open Dask

/-- one round of `for layer_name in omit_layers: try: layer = dsk.layers[layer_name] except KeyError: continue;
    clone_keys -= layer.get_output_keys()` -/
def dropLayer (L : List (Obj × List Obj)) (ck : List Obj) (ln : Obj) : List Obj :=
  match L.lookup ln with
  | some outs => ck.filter fun k => !outs.contains k
  | none => ck

/-- `clone_keys = dsk.get_all_external_keys() - omit_keys`, then minus the output keys of every omitted layer that is a
    layer of the child's graph -/
def cloneKeysOf (ext omitKeys omitLayers : List Obj) (L : List (Obj × List Obj)) : List Obj :=
  omitLayers.foldl (dropLayer L) (ext.filter fun k => !omitKeys.contains k)

/-- `not (layer.get_output_keys() & clone_keys)` -/
def noCloneKey (ck : List Obj) (outs : List Obj) : Bool := !(outs.any fun k => ck.contains k)

/-- the `omit_layers` the two worklists run with: unchanged when `omit_keys` is empty (`assume_layers=True`), otherwise
    extended by every layer none of whose output keys is in `clone_keys` -/
def omitLayersOf (ext omitKeys omitLayers : List Obj) (L : List (Obj × List Obj)) : List Obj :=
  if omitKeys.isEmpty then omitLayers
  else unionL omitLayers ((L.filter fun e => noCloneKey (cloneKeysOf ext omitKeys omitLayers L) e.2).map (·.1))

/-- `(clone_keys ext omit_keys omit_layers ((name (outs…)) …))` ↦ `((clone_keys…) (omit_layers…))` -/
def hCloneKeys : Handler := handler fun
  | [ext, ok, ol, l] => do
    let ext ← objs? ext
    let ok ← objs? ok
    let ol ← objs? ol
    let L ← depMap? l
    pure (.list [.list ((cloneKeysOf ext ok ol L).map Obj.toSExp), .list ((omitLayersOf ext ok ol L).map Obj.toSExp)])
  | _ => none

def cloneKeysIoHandlers : List (String × Handler) := [("clone_keys", hCloneKeys)]

end Dask.TaskTerm
