import DaskModel.DriverLib
import DaskModel.Model.TaskTermIO
import DaskModel.Model.SpecOpt
import DaskModel.Model.FusedName
/-! Driver handlers of the C09 task-spec model (review round). Import-free of Mathlib. -/
namespace Dask.TaskTerm
open Dask

def FNode.toSExp : FNode → SExp
  | .plain n => n.toSExp
  | .fused inner out ext => .list [.sym "fused", ofNGraph inner, out.toSExp, .list (ext.map Obj.toSExp)]

def FNode.ofSExp? : SExp → Option FNode
  | .list [.sym "fused", inner, out, ext] => do
    some (.fused (← ngraph? inner) (← Obj.ofSExp? out) (← objs? ext))
  | e => do some (.plain (← Node.ofSExp? e))

def fgraph? (e : SExp) : Option FGraph := do
  (← e.toList?).mapM fun
    | .list [k, v] => do some (← Obj.ofSExp? k, ← FNode.ofSExp? v)
    | _ => none

def ofFGraph (g : FGraph) : SExp := .list (g.map fun (k, n) => .list [k.toSExp, n.toSExp])

def ofOptNGraph : Option NGraph → SExp
  | some g => .list [.sym "ok", ofNGraph g]
  | none => .list [.sym "raised"]

/-- `(spec_cull graph (keys...))` -/
def hSpecCull : Handler := handler fun
  | [g, keys] => do pure (ofOptNGraph (cullSpec (← ngraph? g) (← objs? keys)))
  | _ => none

def subVal? : SExp → Option SubVal
  | .list [.sym "key", k] => do some (.key (← Obj.ofSExp? k))
  | .list [.sym "node", n] => do some (.node (← Node.ofSExp? n))
  | _ => none

/-- `(spec_subst ((dep (key k')|(node n)) ...) node)` -/
def hSpecSubst : Handler := handler fun
  | [sigma, n] => do
    let σ ← (← sigma.toList?).mapM fun
      | .list [d, s] => do some (← Obj.ofSExp? d, ← subVal? s)
      | _ => none
    pure (substNode σ (← Node.ofSExp? n)).toSExp
  | _ => none

/-- `(spec_resolve graph (keys...) ((key count) ...))`: the last argument is `len(dependents[key])` of the mapping handed
    to the real function -/
def hSpecResolve : Handler := handler fun
  | [g, keys, nd] => do
    let nd ← (← nd.toList?).mapM fun
      | .list [k, c] => do some (← Obj.ofSExp? k, ← c.toNat?)
      | _ => none
    pure (ofOptNGraph (resolveAliases (← ngraph? g) (← objs? keys) (fun k => (nd.lookup k).getD 0)))
  | _ => none

/-- `(spec_count_refs graph key)` -/
def hSpecCountRefs : Handler := handler fun
  | [g, k] => do pure (SExp.ofNat (countRefs (← ngraph? g) (← Obj.ofSExp? k)))
  | _ => none

/-- `(spec_task_fuse tasks)` -/
def hSpecTaskFuse : Handler := handler fun
  | [tasks] => do
    match taskFuse (← ngraph? tasks) with
    | some fn => pure (.list [.sym "ok", fn.toSExp])
    | none => pure (.list [.sym "raised"])
  | _ => none

/-- `(spec_fuse_linear graph (keys...) (((chain keys...) renamed|none) ...))`: the renamer is handed over as a finite
    map from chains (bottom key first) to the name the real renamer gives -/
def hSpecFuseLinear : Handler := handler fun
  | [g, keys, ren] => do
    let ren ← (← ren.toList?).mapM fun
      | .list [c, .sym "norename"] => do some (← objs? c, (none : Option Obj))
      | .list [c, r] => do some (← objs? c, some (← Obj.ofSExp? r))
      | _ => none
    let rename : List Obj → Option Obj := fun c =>
      match ren.find? (fun e => e.1 == c) with
      | some e => e.2
      | none => none
    pure (ofFGraph (fuseLinearSpec (← ngraph? g) (← objs? keys) rename))
  | _ => none

/-- `(spec_fuse_chains graph (keys...))`: the chains (bottom key first) `fuse_linear_task_spec` fuses, i.e. the
    arguments with which it calls the renamer -/
def hSpecFuseChains : Handler := handler fun
  | [g, keys] => do
    let out := fuseLinearSpec (← ngraph? g) (← objs? keys) (fun _ => none)
    pure (.list (out.filterMap fun kn => match kn.2 with
      | .fused inner _ _ => some (.list (inner.map fun cn => cn.1.toSExp))
      | .plain _ => none))
  | _ => none

/-- `(spec_eval_f fgraph cache key)`: value of a key of a graph with fused tasks -/
def hSpecEvalF : Handler := handler fun
  | [g, cache, k] => do
    let g ← fgraph? g
    let fuel := g.length + (g.map fun kn => kn.2.innerKeys.length).sum + 2
    pure (ofOptObj (evalKeyF g (envOf (← lgraph? cache)) fuel (← Obj.ofSExp? k)))
  | _ => none

/-- `(spec_fuse_ok graph (requested...) fgraph)`: the proved checker -/
def hSpecFuseOK : Handler := handler fun
  | [g, req, out] => do pure (SExp.ofBool (fuseSpecOK (← ngraph? g) (← objs? req) (← fgraph? out)))
  | _ => none

/-- `(fused_name (split names of the other keys...) first_name last max_len|none digest)`: the name
    `default_fused_keys_renamer` builds from string parts; `digest` is the hash suffix of the concatenated name as the
    harness computes it (only used when the name is too long). Returns `(concatenated result)`. -/
def hFusedName : Handler := handler fun
  | [names, firstName, last, m, dg] => do
    let names ← (← names.toList?).mapM SExp.toStr?
    let firstName ← firstName.toStr?
    let last ← last.toStr?
    let m ← match m with
      | .sym "none" => some none
      | e => e.toNat?.map some
    let dg ← dg.toStr?
    let c := Dask.FusedName.concatName (names.map String.toList) firstName.toList last.toList
    pure (.list [.str (String.ofList c), .str (String.ofList (Dask.FusedName.renamerLimit m (fun _ => dg.toList) c))])
  | _ => none

def specIoHandlers : List (String × Handler) :=
  [("spec_cull", hSpecCull), ("spec_subst", hSpecSubst), ("spec_resolve", hSpecResolve),
   ("spec_count_refs", hSpecCountRefs), ("spec_task_fuse", hSpecTaskFuse), ("spec_fuse_linear", hSpecFuseLinear),
   ("spec_fuse_chains", hSpecFuseChains), ("spec_eval_f", hSpecEvalF), ("spec_fuse_ok", hSpecFuseOK),
   ("fused_name", hFusedName)]

end Dask.TaskTerm
