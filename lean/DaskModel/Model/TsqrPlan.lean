import DaskModel.Model.Contraction
/-
The task-graph WIRING of `dask.array.linalg.tsqr` as data (C31 extension).

Input: row chunks `chunks = (m₁,…,m_N)` of a tall-and-skinny array with one column block of width `cc`, and the
`_max_vchunk_size` the call received (`none` on the outermost call).  One `Level` per (recursive) call of `tsqr`:

  per-block QR            `qr-T`            (i,0) ← _wrapped_qr(data (i,0))
  Q_i, R_i                `getitem-T-q1`, `-r1`  (i,0) ← qr (i,0) [0] / [1]         R_i has `min(m_i, cc)` rows (`rRows`)
  single-core branch      `stack-T-r1` (0,0) ← vstack(R_0 … R_{N-1});  `qr-T-qr2` ← np.linalg.qr(stack);
                          `getitem-T-q2` (i,0) ← Q'[s_i:e_i, 0:n]  with (s_i,e_i) = `_cumsum_blocks(min(m_i, n))`
  recursive branch        `all_blocks` (`stackGroups`), `stack-T-r1` (g,0) ← vstack(R_j : j ∈ group g), chunks `vchunks`;
                          q_inner, r_inner = tsqr(r_stacked, _max_vchunk_size=cr_max);
                          `getitem-T-q2` (j,0) ← q_inner (g,0) [s:e, 0:n] with (s,e) = `_cumsum_blocks` inside the group
  result                  `dot-T-q3` (i,0) ← np.dot(Q_i, q2 (i,0));   R = Q'R' factor of the stack / r_inner

The branch condition is
  chunks_well_defined and (cr_max if _max_vchunk_size is None else _max_vchunk_size) >= 2*cc
                      and int(np.ceil(nr*cc / cr_max)) > 1
`nr*cc / cr_max` is a Python true division: ZeroDivisionError when every block has 0 rows (modelled: `none`); for
`cr_max > 0` and sizes below 2^52, `ceil(a / b) > 1 ⇔ a > b`.
Import-free of Mathlib.
-/
namespace Dask.TsqrPlan
open Dask.Contraction

/-- rows of the R factor (= columns of the Q factor) of every block: `n_q = min(m_q, cc)` / `q2_block_sizes` -/
def rRows (cc : Nat) (chunks : List Nat) : List Nat := chunks.map fun m => min m cc

/-- `max(data.chunks[0])` (0 for the — impossible — empty tuple) -/
def crMaxOf (chunks : List Nat) : Nat := chunks.foldl max 0

/-- the branch taken: `some true` = recurse, `some false` = single-core, `none` = ZeroDivisionError (`cr_max = 0`) -/
def recurses (chunks : List Nat) (cc : Nat) (maxV : Option Nat) : Option Bool :=
  let crMax := crMaxOf chunks
  if crMax = 0 then none
  else some (decide (2 * cc ≤ maxV.getD crMax) && decide (crMax < chunks.length * cc))

/-- one `getitem-…-q2` task: output block `blk` is rows `[start, stop)` (all columns) of block `src` of the
    Q factor of the stacked R factors -/
structure QSlice where
  blk : Nat
  src : Nat
  start : Nat
  stop : Nat
deriving Repr, DecidableEq

/-- single-core branch: `block_slices`, all taken from the one in-core Q (`src = 0`) -/
def singleSlicesFrom (idx : Nat) : List (Nat × Nat) → List QSlice
  | [] => []
  | (s, e) :: rest => ⟨idx, 0, s, e⟩ :: singleSlicesFrom (idx + 1) rest

def singleSlices (cc : Nat) (chunks : List Nat) : List QSlice :=
  singleSlicesFrom 0 (cumsumBlocks 0 (rRows cc chunks))

/-- recursive branch, one group: `zip([x[0] for x in sub_block_info], _cumsum_blocks([x[1] for x in sub_block_info]))` -/
def groupSlices (gi : Nat) (g : List (Nat × Nat)) : List QSlice :=
  List.zipWith (fun j se => (⟨j, gi, se.1, se.2⟩ : QSlice)) (g.map (·.1)) (cumsumBlocks 0 (g.map (·.2)))

/-- recursive branch: the dict comprehension over `enumerate(all_blocks)` -/
def recSlicesFrom (gi : Nat) : List (List (Nat × Nat)) → List QSlice
  | [] => []
  | g :: gs => groupSlices gi g ++ recSlicesFrom (gi + 1) gs

def recSlices (groups : List (List (Nat × Nat))) : List QSlice := recSlicesFrom 0 groups

/-- `vchunks_rstacked`: the row chunks of the stacked R array handed to the recursive call -/
def vchunksOf (groups : List (List (Nat × Nat))) : List Nat := groups.map fun g => (g.map (·.2)).sum

structure Level where
  chunks : List Nat
  maxV : Option Nat
  recursive : Bool
  /-- the members of every `stack-…-r1` block (single-core: one block holding every R factor) -/
  groups : List (List (Nat × Nat))
  /-- row chunks of the stacked array -/
  vchunks : List Nat
  slices : List QSlice

def expectedBlocks (cc : Nat) : Nat → List Nat → List (Nat × Nat)
  | _, [] => []
  | idx, am :: rest => (idx, min am cc) :: expectedBlocks cc (idx + 1) rest

def singleLevel (chunks : List Nat) (cc : Nat) (maxV : Option Nat) : Level :=
  let g := expectedBlocks cc 0 chunks
  { chunks, maxV, recursive := false, groups := [g], vchunks := vchunksOf [g], slices := singleSlices cc chunks }

def recLevel (chunks : List Nat) (cc : Nat) (maxV : Option Nat) : Level :=
  let gs := stackGroups chunks cc (crMaxOf chunks)
  { chunks, maxV, recursive := true, groups := gs, vchunks := vchunksOf gs, slices := recSlices gs }

inductive PlanResult where
  | ok (levels : List Level)
  | raises            -- ZeroDivisionError
  | fuel              -- recursion budget exhausted (never: the harness reports it)

/-- the chain of `tsqr` calls: a recursive level is followed by the plan of `tsqr(r_stacked, _max_vchunk_size=cr_max)` -/
def planFuel : Nat → List Nat → Nat → Option Nat → PlanResult
  | 0, _, _, _ => .fuel
  | fuel + 1, chunks, cc, maxV =>
    match recurses chunks cc maxV with
    | none => .raises
    | some false => .ok [singleLevel chunks cc maxV]
    | some true =>
      let lv := recLevel chunks cc maxV
      match planFuel fuel lv.vchunks cc (some (crMaxOf chunks)) with
      | .ok ls => .ok (lv :: ls)
      | r => r

/-- every recursive level at least halves the number of blocks once `cr_max ≥ 2 cc`, and a level with `cr_max < 2 cc`
    is followed by a single-core one: `length + 2` calls are more than enough -/
def plan (chunks : List Nat) (cc : Nat) : PlanResult := planFuel (chunks.length + 2) chunks cc none

end Dask.TsqrPlan
