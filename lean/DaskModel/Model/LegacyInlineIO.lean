import DaskModel.DriverLib
import DaskModel.Model.TaskTermIO
import DaskModel.Model.LegacyInline
/-! Driver handlers of the C09 extension round: legacy `inline` / `inline_functions`. Import-free of Mathlib. -/
namespace Dask.TaskTerm
open Dask

def ofOptLGraph : Option LGraph → SExp
  | some g => .list [.sym "ok", ofLGraph g]
  | none => .list [.sym "raised"]

/-- the set-iteration order used by the driver: as listed, or reversed -/
def iterOf (rev : Bool) : List Obj → List Obj := fun l => if rev then l.reverse else l

/-- `(legacy_inline graph (keys...) inline_constants reversed-set-iteration)` -/
def hLegacyInline : Handler := handler fun
  | [g, keys, c, rev] => do
    pure (ofOptLGraph (inline (iterOf (← rev.toBool?)) (← lgraph? g) (← objs? keys) (← c.toBool?)))
  | _ => none

/-- `(legacy_inline_with (replaceorder...) graph (keys...) inline_constants reversed)`: the loops of `inline` run on the
    replace order observed on the real `toposort` call -/
def hLegacyInlineWith : Handler := handler fun
  | [order, g, keys, c, rev] => do
    let g ← lgraph? g
    pure (ofOptLGraph (inlineWith (iterOf (← rev.toBool?)) (← objs? order) g (inlineSet g (← objs? keys) (← c.toBool?))))
  | _ => none

/-- `(legacy_replace_order graph (keys...) inline_constants reversed)` -/
def hLegacyReplaceOrder : Handler := handler fun
  | [g, keys, c, rev] => do
    let g ← lgraph? g
    match replaceOrder (iterOf (← rev.toBool?)) g (inlineSet g (← objs? keys) (← c.toBool?)) with
    | some o => pure (.list [.sym "ok", .list (o.map Obj.toSExp)])
    | none => pure (.list [.sym "raised"])
  | _ => none

/-- `(legacy_inline_functions graph (output...) (fast-functions...) inline_constants reversed)` ↦ the returned graph and the
    keys that were inlined -/
def hLegacyInlineFunctions : Handler := handler fun
  | [g, out, fast, c, rev] => do
    let g ← lgraph? g
    let fast ← objs? fast
    let out ← objs? out
    let r := inlineFunctions (iterOf (← rev.toBool?)) (fun f => fast.contains f) (!fast.isEmpty) g out (← c.toBool?)
    pure (.list [ofOptLGraph r, .list ((inlinableKeys (fun f => fast.contains f) g out).map Obj.toSExp)])
  | _ => none

/-- `(legacy_functions_of task)` -/
def hLegacyFunctionsOf : Handler := handler fun
  | [t] => do pure (.list ((functionsOf (← Obj.ofSExp? t)).map Obj.toSExp))
  | _ => none

def inlineIoHandlers : List (String × Handler) :=
  [("legacy_inline", hLegacyInline), ("legacy_inline_with", hLegacyInlineWith),
   ("legacy_replace_order", hLegacyReplaceOrder), ("legacy_inline_functions", hLegacyInlineFunctions),
   ("legacy_functions_of", hLegacyFunctionsOf)]

end Dask.TaskTerm
