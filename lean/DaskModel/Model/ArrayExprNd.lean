import DaskModel.Model.ArrayExpr
import DaskModel.Model.Slice1D
/-
C30 extension: the array expression engine (`dask/array/_array_expr`) for **n-d** integer arrays.

Python                                                          Lean
------                                                          ----
a NumPy value                                                   `Arr` = shape + a function from index lists (`Idx`) to `Int`
`.chunks` (one tuple per axis), `.shape = sums`                 `Chunks`, `dims`
FromArray / Ones / Zeros / Full / Arange                        `NE.leaf shape data chunks` (C-order data)
Elemwise (neg/abs/square; add/sub/mul/maximum with NumPy        `un`, `bin` (right-aligned broadcasting: `bshapeRev`, `bcIdx`),
  broadcasting; array ∘ scalar)                                  `binS`
SliceSlicesIntegers (per axis: an integer or a normalised       `slice ix` with `AxIx.int` / `AxIx.sl`; selected positions =
  slice with any step)                                            `Slice1D.pySliceIdx` (Python reference), chunks = `Slice1D.newBlockdim`
Rechunk / TasksRechunk                                          `rechunk c`
Transpose (Blockwise, align_arrays = False)                     `transpose axes`
Concatenate (k operands)                                        `concat axis args`
every other node (Stack, PartialReduce, Blockwise of             `opq tag chunks kids`: value = an arbitrary function `F tag` of the
  map_blocks / reductions, SlicesWrapNone, astype …):             operands' values (these nodes have no rewrite rule in this tree)
  no rule of its own
FinalizeComputeArray                                            `finalize`
`unify_chunks_expr` for two array operands (lengths, the        `unify1` / `unifyRev` (`bd` = the `(1,)` substitution for broadcast
  `(1,)` sentinel, `broadcast_dimensions`, `common_blockdim`      axes, `common2` = `common_blockdim` of two different tuples, `cbLoop` =
  incl. its loop, the per-operand target chunks)                  its while-loop), `assign`
rewrite rules of this tree                                      `rootRewritesNd`:
  Rechunk._lower: chunks equal → operand                          rechunk elision
  FinalizeComputeArray._simplify_down: numblocks in ((), (1,))    finalize → operand | `rechunk (finalTarget …)`
      → operand else Rechunk(arr, (-1,…)); `Rechunk.chunks` of
      an all-zero shape = the operand's chunks
  Elemwise._lower: operands whose chunks differ from their        `bin op (wrapNd ca a) (wrapNd cb b)`
      target get `a.rechunk(target)` (`ArrayExpr.rechunk`
      returns `self` for an all-zero shape; skipped when an
      axis has no chunk)
  Rechunk → TasksRechunk                                          same constructor
one `simplify_once` / `lower_once` pass                          `parStepNd` (≤ 2 root rewrites, then passes on the operands)
Import-free of Mathlib.
-/
namespace Dask.ArrayExprNd
open Dask.ArrayExpr (UnOp BinOp isum)
open Dask.Slice1D (PSlice pySliceIdx newBlockdim)

abbrev Idx := List Nat
abbrev Chunks := List (List Nat)

/-- an n-d integer array: its shape and its elements as a function of the index list (only in-range indices matter) -/
structure Arr where
  shape : List Nat
  f : Idx → Int

def dims (c : Chunks) : List Nat := c.map isum

def prod : List Nat → Nat
  | [] => 1
  | d :: ds => d * prod ds

/-- `idx` is a valid index of an array of shape `shape` -/
def inRange : List Nat → Idx → Bool
  | [], [] => true
  | d :: ds, i :: is => decide (i < d) && inRange ds is
  | _, _ => false

/-- C-order flat position -/
def ravelAux : Nat → List Nat → Idx → Nat
  | acc, d :: ds, i :: is => ravelAux (acc * d + i) ds is
  | acc, _, _ => acc

def ravel (shape : List Nat) (idx : Idx) : Nat := ravelAux 0 shape idx

/-- all indices of a shape in C order -/
def allIdx : List Nat → List Idx
  | [] => [[]]
  | d :: ds => (List.range d).flatMap fun i => (allIdx ds).map (i :: ·)

/-- the observable value: shape and C-order data -/
def Arr.toVal (x : Arr) : List Nat × List Int := (x.shape, (allIdx x.shape).map x.f)

/-- two arrays are the same NumPy value -/
def Arr.Equiv (x y : Arr) : Prop := x.shape = y.shape ∧ ∀ idx, inRange x.shape idx = true → x.f idx = y.f idx

def OEquiv : Option Arr → Option Arr → Prop
  | some x, some y => x.Equiv y
  | none, none => True
  | _, _ => False

inductive AxIx where
  | int (i : Nat)
  | sl (ps : PSlice)
  deriving Repr, DecidableEq

mutual
inductive NE where
  | leaf (shape : List Nat) (data : List Int) (c : Chunks)
  | un (op : UnOp) (a : NE)
  | bin (op : BinOp) (a b : NE)
  | binS (op : BinOp) (a : NE) (s : Int)
  | slice (ix : List AxIx) (a : NE)
  | rechunk (c : Chunks) (a : NE)
  | transpose (axes : List Nat) (a : NE)
  | concat (axis : Nat) (args : NEs)
  | opq (tag : Nat) (c : Chunks) (kids : NEs)
  | finalize (a : NE)
inductive NEs where
  | nil
  | cons (a : NE) (as : NEs)
end

/-! ## `unify_chunks_expr` for two array operands -/

/-- the while-loop of `common_blockdim`: `rem` = `total - i`; `[]` of one list before `rem = 0` cannot happen for equal sums -/
def cbLoop : Nat → Nat → List Nat → List Nat → List Nat
  | 0, _, _, _ => []
  | _ + 1, 0, _, _ => []
  | fuel + 1, rem + 1, a :: as, b :: bs =>
    let m := min a b
    m :: cbLoop fuel (rem + 1 - m) (if a - m = 0 then as else (a - m) :: as) (if b - m = 0 then bs else (b - m) :: bs)
  | _ + 1, _ + 1, _, _ => []

/-- `common_blockdim({x, y})` for `x ≠ y`; `[]` in the fourth branch stands for its ValueError (sums differ) -/
def common2 (x y : List Nat) : List Nat :=
  if 1 < x.length ∧ ¬ 1 < y.length then x
  else if 1 < y.length ∧ ¬ 1 < x.length then y
  else if ¬ 1 < x.length ∧ ¬ 1 < y.length then (if x.headD 0 < y.headD 0 then y else x)
  else if isum x ≠ isum y then []
  else if isum x = 0 then [0]
  else cbLoop (x.length + y.length + 1) (isum x) x y

/-- a length-one axis that is broadcast against another length counts as `(1,)` -/
def bd (d : Nat) (c : List Nat) (other : Nat) : List Nat := if d = 1 ∧ other ≠ 1 then [1] else c

/-- the unified chunks of one index shared by both operands -/
def unify1 (da : Nat) (ca : List Nat) (db : Nat) (cb : List Nat) : List Nat :=
  let x := bd da ca db
  let y := bd db cb da
  if x = y then x else if x = [1] then y else if y = [1] then x else common2 x y

/-- over the axes from the LAST to the first (indices of Elemwise are `range(ndim)[::-1]`) -/
def unifyRev : List (Nat × List Nat) → List (Nat × List Nat) → Chunks
  | [], ys => ys.map (·.2)
  | x :: xs, [] => (x :: xs).map (·.2)
  | (da, ca) :: xs, (db, cb) :: ys => unify1 da ca db cb :: unifyRev xs ys

/-- the chunks an operand of length `d` on this axis is rechunked to -/
def assign (U : List Nat) (d : Nat) : List Nat := if 1 < d ∨ isum U = d then U else [d]

def assignRev : Chunks → List (Nat × List Nat) → Chunks
  | U :: Us, (d, _) :: xs => assign U d :: assignRev Us xs
  | _, _ => []

def revPairs (c : Chunks) : List (Nat × List Nat) := (c.map fun ch => (isum ch, ch)).reverse

def unify (ca cb : Chunks) : Chunks := (unifyRev (revPairs ca) (revPairs cb)).reverse

/-- target chunks of the operand with chunks `cx` when the operands have chunks `ca`, `cb` -/
def alignTarget (ca cb cx : Chunks) : Chunks := (assignRev (unifyRev (revPairs ca) (revPairs cb)) (revPairs cx)).reverse

/-! ## chunks -/

/-- `new_blockdim` per non-integer axis -/
def sliceChunks : List AxIx → Chunks → Chunks
  | .int _ :: ix, _ :: cs => sliceChunks ix cs
  | .sl ps :: ix, c :: cs => ((newBlockdim (isum c) c ps).getD []).map Int.toNat :: sliceChunks ix cs
  | _, _ => []

def concatChunks (axis : Nat) : List Chunks → Chunks
  | [] => []
  | c0 :: rest => c0.take axis ++ [((c0 :: rest).map fun c => c.getD axis []).flatten] ++ c0.drop (axis + 1)

mutual
def chunks : NE → Chunks
  | .leaf _ _ c => c
  | .un _ a => chunks a
  | .bin _ a b => unify (chunks a) (chunks b)
  | .binS _ a _ => chunks a
  | .slice ix a => sliceChunks ix (chunks a)
  | .rechunk c _ => c
  | .transpose axes a => axes.map fun k => (chunks a).getD k []
  | .concat axis args => concatChunks axis (chunksL args)
  | .opq _ c _ => c
  | .finalize a => (chunks a).map fun c => [isum c]
def chunksL : NEs → List Chunks
  | .nil => []
  | .cons a as => chunks a :: chunksL as
end

/-! ## denotation -/

def bshapeRev : List Nat → List Nat → Option (List Nat)
  | [], ys => some ys
  | x :: xs, [] => some (x :: xs)
  | x :: xs, y :: ys =>
    if x = y ∨ y = 1 then (bshapeRev xs ys).map (x :: ·)
    else if x = 1 then (bshapeRev xs ys).map (y :: ·)
    else none

/-- NumPy's `broadcast_shapes` of two shapes (`none` = ValueError) -/
def bshape (sa sb : List Nat) : Option (List Nat) := (bshapeRev sa.reverse sb.reverse).map List.reverse

def bcRev : List Nat → List Nat → List Nat
  | d :: ds, i :: is => (if d = 1 then 0 else i) :: bcRev ds is
  | _, _ => []

/-- the index an operand of shape `sa` is read at when the broadcast result is read at `idx` -/
def bcIdx (sa : List Nat) (idx : Idx) : Idx := (bcRev sa.reverse idx.reverse).reverse

def Arr.bin (op : BinOp) (x y : Arr) : Option Arr :=
  (bshape x.shape y.shape).map fun s => ⟨s, fun idx => op.fn (x.f (bcIdx x.shape idx)) (y.f (bcIdx y.shape idx))⟩

/-- a resolved per-axis index: an integer (axis dropped) or the list of selected positions -/
inductive RIx where
  | int (i : Nat)
  | sel (l : List Nat)
  deriving Repr, DecidableEq

def resolve (dim : Nat) : AxIx → Option RIx
  | .int i => if i < dim then some (.int i) else none
  | .sl ps => (pySliceIdx dim ps).map fun l => .sel (l.map Int.toNat)

def resolveAll : List Nat → List AxIx → Option (List RIx)
  | [], [] => some []
  | d :: ds, i :: ix =>
    match resolve d i, resolveAll ds ix with
    | some r, some rs => some (r :: rs)
    | _, _ => none
  | _, _ => none

def outShape : List RIx → List Nat
  | [] => []
  | .int _ :: r => outShape r
  | .sel l :: r => l.length :: outShape r

/-- source index read by the sliced array at `idx` -/
def srcIdx : List RIx → Idx → Idx
  | [], _ => []
  | .int i :: r, idx => i :: srcIdx r idx
  | .sel l :: r, k :: idx => l.getD k 0 :: srcIdx r idx
  | .sel _ :: r, [] => 0 :: srcIdx r []

/-- `x[rix]` as a gather along every axis -/
def Arr.take (rix : List RIx) (x : Arr) : Arr := ⟨outShape rix, fun idx => x.f (srcIdx rix idx)⟩

def isPerm (axes : List Nat) (n : Nat) : Bool := axes.length == n && (List.range n).all fun k => axes.contains k

/-- `np.transpose(x, axes)`: result axis `k` is source axis `axes[k]` -/
def Arr.transpose (axes : List Nat) (x : Arr) : Arr :=
  ⟨axes.map fun k => x.shape.getD k 0, fun idx => x.f ((List.range x.shape.length).map fun m => idx.getD (axes.idxOf m) 0)⟩

def pick (axis : Nat) : List Arr → Idx → Int
  | [], _ => 0
  | x :: xs, idx =>
    let k := idx.getD axis 0
    let d := x.shape.getD axis 0
    if k < d then x.f idx else pick axis xs (idx.set axis (k - d))

/-- `np.concatenate(xs, axis)` (`none` = ValueError) -/
def concatArr (axis : Nat) : List Arr → Option Arr
  | [] => none
  | x0 :: rest =>
    if axis < x0.shape.length ∧ rest.all (fun x => x.shape.set axis 0 == x0.shape.set axis 0) then
      some ⟨x0.shape.set axis (((x0 :: rest).map fun x => x.shape.getD axis 0).foldr (· + ·) 0), pick axis (x0 :: rest)⟩
    else none

def guardShape (s : List Nat) : Option Arr → Option Arr
  | some x => if x.shape = s then some x else none
  | none => none

section
variable (F : Nat → List Arr → Option Arr)

mutual
/-- the NumPy value the expression denotes; `none` = the construction raises (inconsistent shapes / chunks).
    For `slice`, `concat` and `opq` the value is defined only when the engine-side chunks (from which dask derives
    the shape) add up to the NumPy shape. -/
def den : NE → Option Arr
  | .leaf shape data c =>
    if dims c = shape ∧ data.length = prod shape then some ⟨shape, fun idx => data.getD (ravel shape idx) 0⟩ else none
  | .un op a => (den a).map fun x => ⟨x.shape, fun idx => op.fn (x.f idx)⟩
  | .bin op a b =>
    match den a, den b with
    | some x, some y => Arr.bin op x y
    | _, _ => none
  | .binS op a s => (den a).map fun x => ⟨x.shape, fun idx => op.fn (x.f idx) s⟩
  | .slice ix a =>
    match den a with
    | some x =>
      match resolveAll x.shape ix with
      | some rix => guardShape (dims (sliceChunks ix (chunks a))) (some (x.take rix))
      | none => none
    | none => none
  | .rechunk c a =>
    match den a with
    | some x => if dims c = x.shape then some x else none
    | none => none
  | .transpose axes a =>
    match den a with
    | some x => if isPerm axes x.shape.length then some (x.transpose axes) else none
    | none => none
  | .concat axis args =>
    match denL args with
    | some xs => guardShape (dims (concatChunks axis (chunksL args))) (concatArr axis xs)
    | none => none
  | .opq tag c kids =>
    match denL kids with
    | some xs => guardShape (dims c) (F tag xs)
    | none => none
  | .finalize a => den a
def denL : NEs → Option (List Arr)
  | .nil => some []
  | .cons a as =>
    match den a, denL as with
    | some x, some xs => some (x :: xs)
    | _, _ => none
end
end

/-! ## the engine's rewrite rules -/

/-- `x.ndim > 0 and all(s == 0 for s in x.shape)` -/
def allZero (c : Chunks) : Bool := !c.isEmpty && (dims c).all (· == 0)

/-- `a.rechunk(c)` as `unify_chunks_expr` applies it: only if the chunks differ and every axis has a chunk;
    `ArrayExpr.rechunk` returns the array itself for an all-zero shape -/
def wrapNd (c : Chunks) (x : NE) : NE :=
  if c = chunks x ∨ (chunks x).any (·.isEmpty) ∨ allZero (chunks x) then x else .rechunk c x

/-- the chunks `Rechunk(arr, (-1, …))` reports -/
def finalTarget (c : Chunks) : Chunks := if allZero c then c else c.map fun ch => [isum ch]

/-- the node itself plus what a single application of one of the engine's rules at the root gives -/
def rootRewritesNd (e : NE) : List NE :=
  match e with
  | .rechunk c a => if c = chunks a then [e, a] else [e]
  | .finalize a =>
    [e, if (chunks a).map List.length = [] ∨ (chunks a).map List.length = [1] then a
        else .rechunk (finalTarget (chunks a)) a]
  | .bin op a b =>
    [e, .bin op (wrapNd (alignTarget (chunks a) (chunks b) (chunks a)) a) (wrapNd (alignTarget (chunks a) (chunks b) (chunks b)) b)]
  | _ => [e]

def rootRewritesNd2 (e : NE) : List NE := (rootRewritesNd e).flatMap rootRewritesNd

mutual
/-- `after` results from `before` by one optimizer pass: up to two rule applications at the root, then (recursively)
    passes on the operands. Structural recursion on `after`. -/
def parStepNd : NE → NE → Bool
  | e, .leaf s' d' c' => (rootRewritesNd2 e).any fun r => match r with
    | .leaf s d c => s == s' && d == d' && c == c' | _ => false
  | e, .un op' a' => (rootRewritesNd2 e).any fun r => match r with
    | .un op a => decide (op = op') && parStepNd a a' | _ => false
  | e, .bin op' a' b' => (rootRewritesNd2 e).any fun r => match r with
    | .bin op a b => decide (op = op') && parStepNd a a' && parStepNd b b' | _ => false
  | e, .binS op' a' s' => (rootRewritesNd2 e).any fun r => match r with
    | .binS op a s => decide (op = op') && s == s' && parStepNd a a' | _ => false
  | e, .slice ix' a' => (rootRewritesNd2 e).any fun r => match r with
    | .slice ix a => ix == ix' && parStepNd a a' | _ => false
  | e, .rechunk c' a' => (rootRewritesNd2 e).any fun r => match r with
    | .rechunk c a => c == c' && parStepNd a a' | _ => false
  | e, .transpose ax' a' => (rootRewritesNd2 e).any fun r => match r with
    | .transpose ax a => ax == ax' && parStepNd a a' | _ => false
  | e, .concat ax' as' => (rootRewritesNd2 e).any fun r => match r with
    | .concat ax as => ax == ax' && parStepsNd as as' | _ => false
  | e, .opq t' c' as' => (rootRewritesNd2 e).any fun r => match r with
    | .opq t c as => t == t' && c == c' && parStepsNd as as' | _ => false
  | e, .finalize a' => (rootRewritesNd2 e).any fun r => match r with
    | .finalize a => parStepNd a a' | _ => false
def parStepsNd : NEs → NEs → Bool
  | .nil, .nil => true
  | .cons a as, .cons a' as' => parStepNd a a' && parStepsNd as as'
  | _, _ => false
end

end Dask.ArrayExprNd
