/- Line-protocol handlers for the extension round of C46 (`Model/OverlapTime2.lean`). Import-free of Mathlib. -/
import DaskModel.DriverLib
import DaskModel.Model.OverlapTime2
open Dask

namespace Dask.OverlapTime2IO
open Dask.OverlapTime Dask.OverlapTime2

def toCell? : SExp → Option (Option Int)
  | .sym "none" => some none
  | .int i => some (some i)
  | _ => none
def ofCell : Option Int → SExp
  | none => .sym "none"
  | some i => .int i
def ofCells (l : List (Option Int)) : SExp := .list (l.map ofCell)
def ofCellss (l : List (List (Option Int))) : SExp := .list (l.map ofCells)

abbrev Row := TRow (Option Int)
def toRow? : SExp → Option Row
  | .list [.int t, c] => do pure (t, ← toCell? c)
  | _ => none
def toRows? (e : SExp) : Option (List Row) := do (← e.toList?).mapM toRow?
def toRowss? (e : SExp) : Option (List (List Row)) := do (← e.toList?).mapM toRows?
def ofRows (l : List Row) : SExp := .list (l.map (fun (t, c) => .list [.int t, ofCell c]))

/-- `none` | an integer -/
def toOptInt? : SExp → Option (Option Int)
  | .sym "none" => some none
  | .int i => some (some i)
  | _ => none

/-- `none` | `(rows…)` -/
def toOptRows? : SExp → Option (Option (List Row))
  | .sym "none" => some none
  | e => (toRows? e).map some

def gOf (how : String) (m : Nat) : Option (List Row → Row → List Row → Option Int) :=
  match how with
  | "sum" => some (gCRollSum m)
  | "count" => some (gCRollCount m)
  | _ => none

/-- `(thead A (cur rows…) (next rows…))` ↦ `_head_timedelta(current, next_, after)` -/
def hTHead : Handler := handler fun args =>
  match args with
  | [.int a, cur, nxt] => do pure (ofRows (headTime a (← toRows? cur) (← toRows? nxt)))
  | _ => none

/-- `(tnextof A (cur rows…) ((later partition)…))` ↦ the entry of `nexts`: `none` (last partition) | `(raised)` |
    `(rows …)` (the output of the append task) -/
def hTNextOf : Handler := handler fun args =>
  match args with
  | [.int a, cur, rest] => do
    match nextOfTime true a (← toRows? cur) (← toRowss? rest) with
    | none => pure (.list [.sym "raised"])
    | some none => pure (.sym "none")
    | some (some rows) => pure (.list [.sym "rows", ofRows rows])
  | _ => none

/-- `(tcombined2 B|none A prev|none (cur rows…) next|none)` ↦ `(raised)` | `(ok (rows…) prevlen nextlen)` -/
def hTCombined2 : Handler := handler fun args =>
  match args with
  | [b, .int a, prev, cur, nxt] => do
    match combinedTime2 true (← toOptInt? b) a (← toOptRows? prev) (← toRows? cur) (← toOptRows? nxt) with
    | none => pure (.list [.sym "raised"])
    | some (c, pl, nl) => pure (.list [.sym "ok", ofRows c, SExp.ofOptNat pl, SExp.ofOptNat nl])
  | _ => none

/-- `(toverlap2 <how> <m> b|none a B|none A (divs…) (parts…))` ↦ `(ok (cells…)…)` | `(raised)` -/
def hTOverlap2 : Handler := handler fun args =>
  match args with
  | [.sym how, m, b, .int a, bb, .int aa, divs, parts] => do
    let g ← gOf how (← m.toNat?)
    match mapOverlapTime2 (twinFn2 (← toOptInt? b) a g) (← toOptInt? bb) aa (← divs.toInts?) (← toRowss? parts) with
    | some out => pure (.list [.sym "ok", ofCellss out])
    | none => pure (.list [.sym "raised"])
  | _ => none

/-- `(tspec2 <how> <m> b|none a (rows…))` ↦ the two-sided time-window function on the whole series -/
def hTSpec2 : Handler := handler fun args =>
  match args with
  | [.sym how, m, b, .int a, rows] => do
    let g ← gOf how (← m.toNat?)
    pure (ofCells (twinFn2 (← toOptInt? b) a g (← toRows? rows)))
  | _ => none

/-- `(tafterok A (parts…))` ↦ does the look-ahead side accept the partitioning? -/
def hTAfterOK : Handler := handler fun args =>
  match args with
  | [.int a, parts] => do pure (SExp.ofBool (afterOK a (← toRowss? parts)))
  | _ => none

def handlers : List (String × Handler) := [
  ("thead", hTHead), ("tnextof", hTNextOf), ("tcombined2", hTCombined2), ("toverlap2", hTOverlap2),
  ("tspec2", hTSpec2), ("tafterok", hTAfterOK)]

end Dask.OverlapTime2IO
