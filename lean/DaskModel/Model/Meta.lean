import DaskModel.Model.Elemwise
/-
C25: chunk metadata of a small pipeline language, and — separately — the lengths of the blocks that the per-block kernels
really produce.

Python                                                        Lean
------                                                        ----
`Array.chunks`                                                `Chunks = List (List Nat)` (axis ↦ block ↦ length)
lazy metadata of an operation                                 `…Lazy` functions, `lazyChunks`
what the blocks look like after computing                     `…Lens` functions, `blockLens`: from the lengths of the input
                                                              blocks, through the block coordinates blockwise uses (K13:
                                                              `argBlock`) and NumPy's shape rules for the kernels
`elemwise` = `broadcast_shapes` + `unify_chunks` + blockwise  `ewLazy` / `ewLens`
`Array.transpose`                                             `permute`
reduction over one axis / `drop_axis` / contraction           `dropAxis`; with `keepdims=True`: `keepAxis`
`expand_dims` / `map_blocks(new_axis=)`                       `newAxis`
`concatenate` (incl. "drop empty arrays", n == 1 shortcut)    `concatLazy` / `concatLens`
`stack`                                                       `stackLazy` / `stackLens`
`ValueError`                                                  `none`
rechunking inside `unify_chunks` yields blocks of the requested lengths (K4, group chunks)   assumed (ASSUMPTIONS of c25.py)
Import-free apart from the import-free `Elemwise` model.
-/
namespace Dask.Meta
open Dask.Elemwise

abbrev Chunks := List (List Nat)

inductive Prog where
  | leaf (chunks : Chunks)
  | ew (a b : Prog)
  | T (perm : List Nat) (a : Prog)
  | drop (axis : Nat) (a : Prog)
  | keep (axis : Nat) (a : Prog)
  | new (axis : Nat) (a : Prog)
  | concat (axis : Nat) (a b : Prog)
  | stack (axis : Nat) (a b : Prog)
  deriving Repr

def shapeOf (c : Chunks) : List Nat := c.map List.sum
def numel (c : Chunks) : Nat := (shapeOf c).foldl (· * ·) 1

/-! ### elementwise -/

/-- the two arguments as `unify_chunks` sees them (reversed-range index strings) -/
def ewArgs (ca cb : Chunks) : List UArg := [⟨revRange ca.length, ca⟩, ⟨revRange cb.length, cb⟩]

/-- postcondition of `unify_chunks` that the block-level reasoning relies on, CHECKED by the model: every argument's new
    chunks along an axis are the common chunks of the symbol or the single chunk `[1]`, and some argument carries the
    common chunks -/
def unifyPostAxis (common : List Nat) (news : List (List Nat)) : Bool :=
  !common.isEmpty && news.all (fun n => n == common || n == [1]) && news.any (fun n => n == common)

/-- new chunks of the arguments that have symbol `s`, in argument order -/
def newsOf (args : List UArg) (news : List Chunks) (s : Sym) : List (List Nat) :=
  (args.zip news).filterMap fun p => ((p.1.ind.zip p.2).find? (fun q => q.1 == s)).map (·.2)

/-- lazy chunks of `a ⊕ b`: `broadcast_shapes` must accept, `unify_chunks` must succeed (and satisfy the checked
    postcondition); the result has `chunkss[i] for i in out_ind` -/
def ewLazy (ca cb : Chunks) : Option Chunks := do
  let _ ← broadcastShapes [shapeOf ca, shapeOf cb]
  let (cs, news) ← unifyChunks (ewArgs ca cb)
  let out := revRange (max ca.length cb.length)
  let res ← optAll (out.map (lookupSym cs))
  if out.all (fun s => unifyPostAxis ((lookupSym cs s).getD []) (newsOf (ewArgs ca cb) news s)) then some res else none

/-- NumPy broadcasting of two block lengths -/
def bcastLen (x y : Nat) : Option Nat := if x = y then some x else if x = 1 then some y else if y = 1 then some x else none

/-- length of output block `b` along one axis, from the (rechunked) arguments that have this axis -/
def ewAxisLen (news : List (List Nat)) (b : Nat) : Option Nat :=
  news.foldl (fun acc n => do
    let x ← acc
    let y ← n[argBlock n.length b]?
    bcastLen x y) (some 1)

/-- number of output blocks along an axis: `broadcast_dimensions` of the block counts -/
def ewNumBlocks (news : List (List Nat)) : Nat := news.foldl (fun m n => max m n.length) 1

/-- the block lengths an elementwise kernel produces, axis by axis, block by block -/
def ewLens (ca cb : Chunks) : Option Chunks := do
  let _ ← broadcastShapes [shapeOf ca, shapeOf cb]
  let (cs, news) ← unifyChunks (ewArgs ca cb)
  let out := revRange (max ca.length cb.length)
  let _ ← optAll (out.map (lookupSym cs))
  if out.all (fun s => unifyPostAxis ((lookupSym cs s).getD []) (newsOf (ewArgs ca cb) news s)) then
    optAll (out.map fun s =>
      let ns := newsOf (ewArgs ca cb) news s
      optAll ((List.range (ewNumBlocks ns)).map (ewAxisLen ns)))
  else none

/-! ### structural operations -/

def isPerm (perm : List Nat) (n : Nat) : Bool := perm.length == n && (List.range n).all perm.contains

def permute (perm : List Nat) (c : Chunks) : Option Chunks :=
  if isPerm perm c.length then optAll (perm.map (c[·]?)) else none

def dropAxis (ax : Nat) (c : Chunks) : Option Chunks := if ax < c.length then some (c.eraseIdx ax) else none

def keepAxis (ax : Nat) (c : Chunks) : Option Chunks := if ax < c.length then some (c.set ax [1]) else none

def nparts (c : Chunks) : Nat := (c.map List.length).foldl (· * ·) 1

/-- `map_blocks(np.expand_dims, new_axis=ax)`: a new single-chunk axis of length 1, all other chunks kept.
    (`da.expand_dims` is a `reshape` and belongs to C24; since 791783e it replaces an EMPTY multi-block array by a fresh
    single-chunk empty array, so it is not what is modelled here.) -/
def newAxis (ax : Nat) (c : Chunks) : Option Chunks :=
  if ax ≤ c.length then some (c.take ax ++ [1] :: c.drop ax) else none

/-- `unify_chunks` over the non-concatenated axes (distinct symbols on the concatenation axis) -/
def concatArgs (ax : Nat) (ca cb : Chunks) : List UArg :=
  [⟨(List.range ca.length).map (fun i => if i = ax then 1000 else i), ca⟩,
   ⟨(List.range cb.length).map (fun i => if i = ax then 1001 else i), cb⟩]

/-- `concatenate([a, b], axis)`: shapes must agree off-axis; empty arrays are dropped (`n == 1` returns the other array
    unchanged); otherwise the off-axis chunks are unified and the axis chunks are concatenated -/
def concatLazy (ax : Nat) (ca cb : Chunks) : Option Chunks :=
  if ca.length != cb.length || ax ≥ ca.length then none
  else
    let nza := numel ca != 0
    let nzb := numel cb != 0
    if nza && !nzb then some ca
    else if nzb && !nza then some cb
    else if (List.range ca.length).any (fun i => i != ax && (shapeOf ca)[i]? != (shapeOf cb)[i]?) then none
    else do
      let (_, news) ← unifyChunks (concatArgs ax ca cb)
      match news with
      | [na, nb] =>
        let axa ← na[ax]?
        let axb ← nb[ax]?
        -- `seq2[0].chunks[:axis] + (sum(bd[axis] …),) + seq2[0].chunks[axis+1:]`; the model additionally CHECKS that the
        -- unified arguments agree off-axis (otherwise the graph would concatenate mismatching blocks)
        if na.length == nb.length && (List.range na.length).all (fun i => i == ax || na[i]? == nb[i]?)
        then some (na.set ax (axa ++ axb)) else none
      | _ => none

/-- the blocks of the concatenation: along `ax` the blocks of `a` followed by the blocks of `b`; off-axis the (rechunked)
    blocks of both, which must agree -/
def concatLens (ax : Nat) (ca cb : Chunks) : Option Chunks :=
  if ca.length != cb.length || ax ≥ ca.length then none
  else
    let nza := numel ca != 0
    let nzb := numel cb != 0
    if nza && !nzb then some ca
    else if nzb && !nza then some cb
    else if (List.range ca.length).any (fun i => i != ax && (shapeOf ca)[i]? != (shapeOf cb)[i]?) then none
    else do
      let (_, news) ← unifyChunks (concatArgs ax ca cb)
      match news with
      | [na, nb] =>
        if na.length != nb.length then none else
        optAll ((List.range na.length).map fun i =>
          if i = ax then do
            let axa ← na[i]?
            let axb ← nb[i]?
            -- output block j along the axis is block j of a, or block j - |a| of b
            optAll ((List.range (axa.length + axb.length)).map fun j => if j < axa.length then axa[j]? else axb[j - axa.length]?)
          else do
            let x ← na[i]?
            let y ← nb[i]?
            -- the kernel concatenates blocks that must agree off-axis
            if x = y then some x else none)
      | _ => none

def stackArgs (ca cb : Chunks) : List UArg := [⟨List.range ca.length, ca⟩, ⟨List.range cb.length, cb⟩]

/-- `stack([a, b], axis)`: equal shapes, unify, insert `(1, 1)` -/
def stackLazy (ax : Nat) (ca cb : Chunks) : Option Chunks :=
  if shapeOf ca != shapeOf cb || ax > ca.length then none
  else do
    let (_, news) ← unifyChunks (stackArgs ca cb)
    match news with
    | [na, nb] => if na == nb then some (na.take ax ++ [1, 1] :: na.drop ax) else none
    | _ => none

/-- blocks of the stack: block `j` along the new axis is a block of argument `j` with a new axis of length 1 -/
def stackLens (ax : Nat) (ca cb : Chunks) : Option Chunks :=
  if shapeOf ca != shapeOf cb || ax > ca.length then none
  else do
    let (_, news) ← unifyChunks (stackArgs ca cb)
    match news with
    | [na, nb] =>
      if na == nb then
        some (na.take ax ++ ((List.range 2).map fun _ => 1) :: na.drop ax)
      else none
    | _ => none

/-! ### pipelines -/

/-- `.chunks` of the lazy expression -/
def lazyChunks : Prog → Option Chunks
  | .leaf c => some c
  | .ew a b => do ewLazy (← lazyChunks a) (← lazyChunks b)
  | .T perm a => do permute perm (← lazyChunks a)
  | .drop ax a => do dropAxis ax (← lazyChunks a)
  | .keep ax a => do keepAxis ax (← lazyChunks a)
  | .new ax a => do newAxis ax (← lazyChunks a)
  | .concat ax a b => do concatLazy ax (← lazyChunks a) (← lazyChunks b)
  | .stack ax a b => do stackLazy ax (← lazyChunks a) (← lazyChunks b)

/-- lengths of the blocks the graph really computes -/
def blockLens : Prog → Option Chunks
  | .leaf c => some c
  | .ew a b => do ewLens (← blockLens a) (← blockLens b)
  | .T perm a => do permute perm (← blockLens a)
  | .drop ax a => do dropAxis ax (← blockLens a)
  | .keep ax a => do keepAxis ax (← blockLens a)
  | .new ax a => do newAxis ax (← blockLens a)
  | .concat ax a b => do concatLens ax (← blockLens a) (← blockLens b)
  | .stack ax a b => do stackLens ax (← blockLens a) (← blockLens b)

end Dask.Meta
