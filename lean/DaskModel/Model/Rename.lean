import DaskModel.Model.TaskTerm
/-
K7 (part 3): `dask.graph_manipulation` — key regeneration (`clone`/`bind`), `checkpoint` trees.

Python                                                     Lean
------                                                     ----
clone_key(k, seed)  (tokenize-based)                       an explicit renaming `ρ : Obj → Obj` (assumed injective / fresh)
Layer.clone: GraphNode.substitute(subs, key=new_key)       `renameNode ρ`
Layer.clone.clone_value on legacy values                   `cloneValue keys ρ` (returns the new value and `is_leaf`)
(chunks.bind, value, bind_to) / Task(key, chunks.bind, ..) `bindLegacy`, `bindNode`
checkpoint's recursive aggregation (`while … > split_every`) `checkpointReduce`
Import-free (linked into the native driver).
-/
namespace Dask.TaskTerm

mutual
/-- rename every key reference of a task-spec node -/
def renameNode (ρ : Obj → Obj) : Node → Node
  | .alias t => .alias (ρ t)
  | .data v => .data v
  | .ref k => .ref (ρ k)
  | .raw v => .raw v
  | .task f args kw => .task f (renameNodes ρ args) (renameKw ρ kw)
def renameNodes (ρ : Obj → Obj) : List Node → List Node
  | [] => []
  | n :: ns => renameNode ρ n :: renameNodes ρ ns
def renameKw (ρ : Obj → Obj) : List (Obj × Node) → List (Obj × Node)
  | [] => []
  | (k, n) :: ns => (k, renameNode ρ n) :: renameKw ρ ns
end

def renameGraph (ρ : Obj → Obj) (g : NGraph) : NGraph := g.map fun kn => (ρ kn.1, renameNode ρ kn.2)

/-- `Task(key, chunks.bind, value, TaskRef(bind_to))` -/
def bindNode (blocker : Obj) (n : Node) : Node := .task .bindFirst [n, .ref blocker] []

mutual
/-- `clone_value(o)` of `Layer.clone`: `(new value, referenced a replaced key?)` -/
def cloneValue (keys : List Obj) (ρ : Obj → Obj) : Obj → Obj × Bool
  | .tuple (h :: args) =>
    if h.callable then
      let r := cloneValues keys ρ args
      (.tuple (h :: r.1), r.2)
    else if (Obj.tuple (h :: args)).hashable && keys.contains (.tuple (h :: args)) then (ρ (.tuple (h :: args)), true)
    else (.tuple (h :: args), false)
  | .tuple [] => if keys.contains (.tuple []) then (ρ (.tuple []), true) else (.tuple [], false)
  | .list xs => let r := cloneValues keys ρ xs; (.list r.1, r.2)
  | .dict kvs => let r := cloneDictVals keys ρ kvs; (.dict r.1, r.2)
  | o => if o.hashable && keys.contains o then (ρ o, true) else (o, false)
def cloneValues (keys : List Obj) (ρ : Obj → Obj) : List Obj → List Obj × Bool
  | [] => ([], false)
  | x :: xs =>
    let a := cloneValue keys ρ x
    let b := cloneValues keys ρ xs
    (a.1 :: b.1, a.2 || b.2)
def cloneDictVals (keys : List Obj) (ρ : Obj → Obj) : List (Obj × Obj) → List (Obj × Obj) × Bool
  | [] => ([], false)
  | (k, v) :: rest =>
    let a := cloneValue keys ρ v
    let b := cloneDictVals keys ρ rest
    ((k, a.1) :: b.1, a.2 || b.2)
end

/-- one entry of `Layer.clone` for a legacy value: rename, and bind the leaves to `bind_to` -/
def cloneLegacyEntry (keys : List Obj) (ρ : Obj → Obj) (bindTo : Option Obj) (bindFn : Obj) (k v : Obj) : Obj × Obj :=
  if keys.contains k then
    let r := cloneValue keys ρ v
    match bindTo with
    | some b => if r.2 then (ρ k, r.1) else (ρ k, .tuple [bindFn, r.1, b])
    | none => (ρ k, r.1)
  else (k, v)

/-- the legacy branch of the loop of `Layer.clone` (highlevelgraph.py 279-284) with the flag it contributes to
    `bound`: `((new key, new value), was the blocker injected here?)`; its first component is `cloneLegacyEntry` -/
def cloneLegacyEntryB (keys : List Obj) (ρ : Obj → Obj) (bindTo : Option Obj) (bindFn : Obj) (k v : Obj) : (Obj × Obj) × Bool :=
  if keys.contains k then
    let r := cloneValue keys ρ v
    match bindTo with
    | some b => if r.2 then ((ρ k, r.1), false) else ((ρ k, .tuple [bindFn, r.1, b]), true)
    | none => ((ρ k, r.1), false)
  else ((k, v), false)

/-- `Layer.clone(keys, seed, bind_to)` on a layer of legacy values: `(MaterializedLayer(dsk_new), bound)`.
    (`dsk_new` is a dict: the list agrees with it as long as the new keys do not collide — freshness of `clone_key`.) -/
def cloneLegacyLayer (keys : List Obj) (ρ : Obj → Obj) (bindTo : Option Obj) (bindFn : Obj) (g : LGraph) : LGraph × Bool :=
  (g.map fun kv => (cloneLegacyEntryB keys ρ bindTo bindFn kv.1 kv.2).1,
   g.any fun kv => (cloneLegacyEntryB keys ρ bindTo bindFn kv.1 kv.2).2)

/-- the substitution `Layer.clone` hands to `GraphNode.substitute` (highlevelgraph.py 269-273):
    `subs = {dep: clone_key(dep, seed) for dep in value.dependencies if dep in keys}`, identity elsewhere -/
def keyedRho (keys : List Obj) (ρ : Obj → Obj) : Obj → Obj := fun k => if keys.contains k then ρ k else k

/-- `is_leaf = not subs`: the node references no key that is being replaced -/
def specLeaf (keys : List Obj) (n : Node) : Bool := !(n.deps.any fun d => keys.contains d)

/-- one iteration of the loop of `Layer.clone` on a task-spec node (highlevelgraph.py 263-278, `GraphNode` branch):
    `((new key, new value), was the blocker injected here?)` -/
def cloneSpecEntry (keys : List Obj) (ρ : Obj → Obj) (bindTo : Option Obj) (k : Obj) (n : Node) : (Obj × Node) × Bool :=
  if keys.contains k then
    let n' := renameNode (keyedRho keys ρ) n
    match bindTo with
    | some b => if specLeaf keys n then ((ρ k, bindNode b n'), true) else ((ρ k, n'), false)
    | none => ((ρ k, n'), false)
  else ((k, n), false)

/-- `Layer.clone(keys, seed, bind_to)` on a layer of task-spec nodes: `(MaterializedLayer(dsk_new), bound)` -/
def cloneSpecLayer (keys : List Obj) (ρ : Obj → Obj) (bindTo : Option Obj) (g : NGraph) : NGraph × Bool :=
  (g.map fun kn => (cloneSpecEntry keys ρ bindTo kn.1 kn.2).1,
   g.any fun kn => (cloneSpecEntry keys ρ bindTo kn.1 kn.2).2)

/-- `while split_every and len(map_keys) > split_every:` of `_checkpoint_one`;
    returns the reduce layer as `(key, inputs)` in insertion order, the last entry is `name`. `mk i` = `(name, i)`. -/
def checkpointReduce (name : Obj) (mk : Nat → Obj) (se : Nat) : Nat → List Obj → List (Obj × List Obj) → List (Obj × List Obj)
  | 0, mapKeys, layer => layer ++ [(name, mapKeys)]
  | fuel + 1, mapKeys, layer =>
    if se ≠ 0 ∧ mapKeys.length > se then
      let k := mk layer.length
      checkpointReduce name mk se fuel (mapKeys.drop se ++ [k]) (layer ++ [(k, mapKeys.take se)])
    else layer ++ [(name, mapKeys)]

/-! ### `Blockwise.clone`: which regenerated layers are leaves (and therefore bound to the blocker) -/

/-- an entry of `Blockwise.indices`: a collection name, a `TaskRef` (Delayed / Item / scalar passed as an argument),
    or a literal -/
inductive BwArg where
  | name (k : Obj)
  | ref (k : Obj)
  | other
  deriving Repr, Inhabited

/-- `is_leaf` of `Blockwise.clone`: no argument and no `numblocks` entry names a collection that is being regenerated.
    A `TaskRef` to a key that is *not* regenerated (an omitted collection) leaves the layer a leaf. -/
def blockwiseLeaf (names : List Obj) (indices : List BwArg) (numblocks : List Obj) : Bool :=
  !(indices.any fun
      | .name k => names.contains k
      | .ref k => names.contains k
      | .other => false) &&
  !(numblocks.any fun k => names.contains k)

end Dask.TaskTerm
