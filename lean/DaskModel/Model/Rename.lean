import DaskModel.Model.TaskTerm
import DaskModel.Model.SpecOpt
/-
K7 (part 3): `dask.graph_manipulation` — key regeneration (`clone`/`bind`), `checkpoint` trees.

Python                                                     Lean
------                                                     ----
clone_key(k, seed)  (tokenize-based)                       an explicit renaming `ρ : Obj → Obj` (assumed injective / fresh)
Layer.clone: GraphNode.substitute(subs, key=new_key)       `renameNode ρ`
Layer.clone.clone_value on legacy values                   `cloneValue keys ρ` (returns the new value and `is_leaf`)
(chunks.bind, value, bind_to) / Task(key, chunks.bind, ..) `bindLegacy`, `bindNode`
checkpoint's recursive aggregation (`while … > split_every`) `checkpointReduce`
Layer.clone (whole loop, both branches, `bound`)           `cloneSpecLayer`, `cloneLegacyLayer`
Blockwise.clone (indices / numblocks / output / task wrapper) `blockwiseClone` (`blockwiseLeaf` = its `is_leaf`)
_bind_one: the two worklists over layer names, new_layers/new_deps  `cloneLoop`, `verbLoop`, `bindOne` (`setKey` from Model/SpecOpt)
Import-free (linked into the native driver).
-/
namespace Dask.TaskTerm

mutual
/-- rename every key reference of a task-spec node -/
def renameNode (ρ : Obj → Obj) : Node → Node
  | .alias t => .alias (ρ t)
  | .data v => .data v
  | .ref k => .ref (ρ k)
  | .raw v => .raw v
  | .task f args kw => .task f (renameNodes ρ args) (renameKw ρ kw)
def renameNodes (ρ : Obj → Obj) : List Node → List Node
  | [] => []
  | n :: ns => renameNode ρ n :: renameNodes ρ ns
def renameKw (ρ : Obj → Obj) : List (Obj × Node) → List (Obj × Node)
  | [] => []
  | (k, n) :: ns => (k, renameNode ρ n) :: renameKw ρ ns
end

def renameGraph (ρ : Obj → Obj) (g : NGraph) : NGraph := g.map fun kn => (ρ kn.1, renameNode ρ kn.2)

/-- `Task(key, chunks.bind, value, TaskRef(bind_to))` -/
def bindNode (blocker : Obj) (n : Node) : Node := .task .bindFirst [n, .ref blocker] []

mutual
/-- `clone_value(o)` of `Layer.clone`: `(new value, referenced a replaced key?)` -/
def cloneValue (keys : List Obj) (ρ : Obj → Obj) : Obj → Obj × Bool
  | .tuple (h :: args) =>
    if h.callable then
      let r := cloneValues keys ρ args
      (.tuple (h :: r.1), r.2)
    else if (Obj.tuple (h :: args)).hashable && keys.contains (.tuple (h :: args)) then (ρ (.tuple (h :: args)), true)
    else (.tuple (h :: args), false)
  | .tuple [] => if keys.contains (.tuple []) then (ρ (.tuple []), true) else (.tuple [], false)
  | .list xs => let r := cloneValues keys ρ xs; (.list r.1, r.2)
  | .dict kvs => let r := cloneDictVals keys ρ kvs; (.dict r.1, r.2)
  | o => if o.hashable && keys.contains o then (ρ o, true) else (o, false)
def cloneValues (keys : List Obj) (ρ : Obj → Obj) : List Obj → List Obj × Bool
  | [] => ([], false)
  | x :: xs =>
    let a := cloneValue keys ρ x
    let b := cloneValues keys ρ xs
    (a.1 :: b.1, a.2 || b.2)
def cloneDictVals (keys : List Obj) (ρ : Obj → Obj) : List (Obj × Obj) → List (Obj × Obj) × Bool
  | [] => ([], false)
  | (k, v) :: rest =>
    let a := cloneValue keys ρ v
    let b := cloneDictVals keys ρ rest
    ((k, a.1) :: b.1, a.2 || b.2)
end

/-- one entry of `Layer.clone` for a legacy value: rename, and bind the leaves to `bind_to` -/
def cloneLegacyEntry (keys : List Obj) (ρ : Obj → Obj) (bindTo : Option Obj) (bindFn : Obj) (k v : Obj) : Obj × Obj :=
  if keys.contains k then
    let r := cloneValue keys ρ v
    match bindTo with
    | some b => if r.2 then (ρ k, r.1) else (ρ k, .tuple [bindFn, r.1, b])
    | none => (ρ k, r.1)
  else (k, v)

/-- the legacy branch of the loop of `Layer.clone` (highlevelgraph.py 279-284) with the flag it contributes to
    `bound`: `((new key, new value), was the blocker injected here?)`; its first component is `cloneLegacyEntry` -/
def cloneLegacyEntryB (keys : List Obj) (ρ : Obj → Obj) (bindTo : Option Obj) (bindFn : Obj) (k v : Obj) : (Obj × Obj) × Bool :=
  if keys.contains k then
    let r := cloneValue keys ρ v
    match bindTo with
    | some b => if r.2 then ((ρ k, r.1), false) else ((ρ k, .tuple [bindFn, r.1, b]), true)
    | none => ((ρ k, r.1), false)
  else ((k, v), false)

/-- `Layer.clone(keys, seed, bind_to)` on a layer of legacy values: `(MaterializedLayer(dsk_new), bound)`.
    (`dsk_new` is a dict: the list agrees with it as long as the new keys do not collide — freshness of `clone_key`.) -/
def cloneLegacyLayer (keys : List Obj) (ρ : Obj → Obj) (bindTo : Option Obj) (bindFn : Obj) (g : LGraph) : LGraph × Bool :=
  (g.map fun kv => (cloneLegacyEntryB keys ρ bindTo bindFn kv.1 kv.2).1,
   g.any fun kv => (cloneLegacyEntryB keys ρ bindTo bindFn kv.1 kv.2).2)

/-- the substitution `Layer.clone` hands to `GraphNode.substitute` (highlevelgraph.py 269-273):
    `subs = {dep: clone_key(dep, seed) for dep in value.dependencies if dep in keys}`, identity elsewhere -/
def keyedRho (keys : List Obj) (ρ : Obj → Obj) : Obj → Obj := fun k => if keys.contains k then ρ k else k

/-- `is_leaf = not subs`: the node references no key that is being replaced -/
def specLeaf (keys : List Obj) (n : Node) : Bool := !(n.deps.any fun d => keys.contains d)

/-- one iteration of the loop of `Layer.clone` on a task-spec node (highlevelgraph.py 263-278, `GraphNode` branch):
    `((new key, new value), was the blocker injected here?)` -/
def cloneSpecEntry (keys : List Obj) (ρ : Obj → Obj) (bindTo : Option Obj) (k : Obj) (n : Node) : (Obj × Node) × Bool :=
  if keys.contains k then
    let n' := renameNode (keyedRho keys ρ) n
    match bindTo with
    | some b => if specLeaf keys n then ((ρ k, bindNode b n'), true) else ((ρ k, n'), false)
    | none => ((ρ k, n'), false)
  else ((k, n), false)

/-- `Layer.clone(keys, seed, bind_to)` on a layer of task-spec nodes: `(MaterializedLayer(dsk_new), bound)` -/
def cloneSpecLayer (keys : List Obj) (ρ : Obj → Obj) (bindTo : Option Obj) (g : NGraph) : NGraph × Bool :=
  (g.map fun kn => (cloneSpecEntry keys ρ bindTo kn.1 kn.2).1,
   g.any fun kn => (cloneSpecEntry keys ρ bindTo kn.1 kn.2).2)

/-- `while split_every and len(map_keys) > split_every:` of `_checkpoint_one`;
    returns the reduce layer as `(key, inputs)` in insertion order, the last entry is `name`. `mk i` = `(name, i)`. -/
def checkpointReduce (name : Obj) (mk : Nat → Obj) (se : Nat) : Nat → List Obj → List (Obj × List Obj) → List (Obj × List Obj)
  | 0, mapKeys, layer => layer ++ [(name, mapKeys)]
  | fuel + 1, mapKeys, layer =>
    if se ≠ 0 ∧ mapKeys.length > se then
      let k := mk layer.length
      checkpointReduce name mk se fuel (mapKeys.drop se ++ [k]) (layer ++ [(k, mapKeys.take se)])
    else layer ++ [(name, mapKeys)]

/-! ### `Blockwise.clone`: which regenerated layers are leaves (and therefore bound to the blocker) -/

/-- an entry of `Blockwise.indices`: a collection name, a `TaskRef` (Delayed / Item / scalar passed as an argument),
    or a literal -/
inductive BwArg where
  | name (k : Obj)
  | ref (k : Obj)
  | other
  deriving Repr, Inhabited

/-- `is_leaf` of `Blockwise.clone`: no argument and no `numblocks` entry names a collection that is being regenerated.
    A `TaskRef` to a key that is *not* regenerated (an omitted collection) leaves the layer a leaf. -/
def blockwiseLeaf (names : List Obj) (indices : List BwArg) (numblocks : List Obj) : Bool :=
  !(indices.any fun
      | .name k => names.contains k
      | .ref k => names.contains k
      | .other => false) &&
  !(numblocks.any fun k => names.contains k)

/-- `Blockwise.clone`'s view of a layer: output name, the first components of `indices`, the keys of `numblocks`, the
    key of the task -/
structure BwLayer where
  output : Obj
  indices : List BwArg
  numblocks : List Obj
  taskKey : Obj
  deriving Repr, Inhabited

/-- the rewritten layer; `wrapped = some i`: the task became
    `Task(clone_key(task.key), chunks.bind, task, TaskRef(blockwise_token(i)))` (otherwise `task.substitute({}, key=…)`) -/
structure BwClone where
  output : Obj
  indices : List BwArg
  numblocks : List Obj
  taskKey : Obj
  wrapped : Option Nat
  deriving Repr, Inhabited

/-- the loop over `self.indices` (blockwise.py 767-780): exactly the names / TaskRef keys in `names` are renamed -/
def bwRenameArg (names : List Obj) (ρ : Obj → Obj) : BwArg → BwArg
  | .name k => if names.contains k then .name (ρ k) else .name k
  | .ref k => if names.contains k then .ref (ρ k) else .ref k
  | .other => .other

/-- `Blockwise.clone(keys, seed, bind_to)` with `names = {get_name_from_key(k) for k in keys}` (blockwise.py 746-820):
    `(new layer, bind_to is not None and is_leaf)` -/
def blockwiseClone (names : List Obj) (ρ : Obj → Obj) (bindTo : Option Obj) (L : BwLayer) : BwClone × Bool :=
  let leaf := blockwiseLeaf names L.indices L.numblocks
  let idx := L.indices.map (bwRenameArg names ρ)
  let nb := L.numblocks.map fun k => if names.contains k then ρ k else k
  match bindTo with
  | some b =>
    if leaf then (⟨ρ L.output, idx ++ [.ref b], nb, ρ L.taskKey, some idx.length⟩, true)
    else (⟨ρ L.output, idx, nb, ρ L.taskKey, none⟩, false)
  | none => (⟨ρ L.output, idx, nb, ρ L.taskKey, none⟩, false)

/-- the layer names an `indices` list refers to (what `HighLevelGraph.dependencies` records for the layer) -/
def argRefs : List BwArg → List Obj
  | [] => []
  | .name k :: rest => k :: argRefs rest
  | .ref k :: rest => k :: argRefs rest
  | .other :: rest => argRefs rest

/-- `checkpointReduce` with an explicit result for "fuel exhausted while the loop condition still holds" (`none`) -/
def checkpointReduce? (name : Obj) (mk : Nat → Obj) (se : Nat) : Nat → List Obj → List (Obj × List Obj) → Option (List (Obj × List Obj))
  | 0, mapKeys, layer => if se ≠ 0 ∧ mapKeys.length > se then none else some (layer ++ [(name, mapKeys)])
  | fuel + 1, mapKeys, layer =>
    if se ≠ 0 ∧ mapKeys.length > se then
      let k := mk layer.length
      checkpointReduce? name mk se fuel (mapKeys.drop se ++ [k]) (layer ++ [(k, mapKeys.take se)])
    else some (layer ++ [(name, mapKeys)])

/-! ### `_bind_one` (graph_manipulation.py 315-408): bookkeeping over layer names -/

/-- where a layer of the resulting HighLevelGraph comes from -/
inductive LayerOrigin where
  /-- a layer of the checkpoint's graph (`new_layers.update(blocker_dsk.layers)`) -/
  | blocker
  /-- `layer.clone(keys=clone_keys, seed=seed, bind_to=blocker_key)` of layer `prev`, with the `is_bound` it returned -/
  | cloned (prev : Obj) (bound : Bool)
  /-- `dsk.layers[name]` itself -/
  | verbatim
  deriving Repr, Inhabited

/-- the child's HighLevelGraph, abstracted: layer name ↦ (`dsk.dependencies[name]`, would `Layer.clone` bind a leaf
    of this layer if a blocker is given) -/
abbrev LayerMap := List (Obj × (List Obj × Bool))

/-- `new_layers`, `new_deps` -/
structure BindAcc where
  layers : List (Obj × LayerOrigin)
  deps : List (Obj × List Obj)
  deriving Repr, Inhabited

inductive BindRes (α : Type) where
  | ok (a : α)
  /-- `dsk.layers[name]` / `dsk.dependencies[name]` raised KeyError -/
  | keyError (k : Obj)
  | fuel
  deriving Repr, Inhabited

/-- `s.pop()` of a Python set: *some* element; `sel` chooses which (the theorems hold for every `sel`) -/
def popAt (sel : List Obj → Nat) (w : List Obj) : Option (Obj × List Obj) :=
  match w with
  | [] => none
  | x :: xs =>
    match w[sel w % w.length]? with
    | some y => some (y, w.eraseIdx (sel w % w.length))
    | none => some (x, xs)

/-- `s |= t` on duplicate-free lists -/
def unionL (w xs : List Obj) : List Obj := w ++ xs.filter fun x => !w.contains x

/-- `new_dep = {clone_key(dep) for dep in layer_deps - omit_layers} | (layer_deps & omit_layers)`, plus the blocker's key
    when `is_bound` -/
def newDepOf (ρ : Obj → Obj) (om : List Obj) (blk : Option Obj) (ldeps : List Obj) (leaf : Bool) : List Obj :=
  (ldeps.filter fun d => !om.contains d).map ρ ++ (ldeps.filter fun d => om.contains d) ++
    (match blk with
     | some b => if leaf then [b] else []
     | none => [])

/-- `while layers_to_clone:` (lines 367-388). State: `layers_to_clone`, `layers_to_copy_verbatim`, `new_layers/new_deps`. -/
def cloneLoop (G : LayerMap) (om : List Obj) (ρ : Obj → Obj) (blk : Option Obj) (sel : List Obj → Nat) :
    Nat → List Obj → List Obj → BindAcc → BindRes (List Obj × BindAcc)
  | 0, work, verb, acc =>
    match popAt sel work with
    | none => .ok (verb, acc)
    | some _ => .fuel
  | fuel + 1, work, verb, acc =>
    match popAt sel work with
    | none => .ok (verb, acc)
    | some (prev, rest) =>
      if (acc.layers.lookup (ρ prev)).isSome then cloneLoop G om ρ blk sel fuel rest verb acc
      else
        match G.lookup prev with
        | none => .keyError prev
        | some (ldeps, leaf) =>
          cloneLoop G om ρ blk sel fuel
            (unionL rest (ldeps.filter fun d => !om.contains d))
            (unionL verb (ldeps.filter fun d => om.contains d))
            ⟨setKey acc.layers (ρ prev) (.cloned prev (blk.isSome && leaf)),
             setKey acc.deps (ρ prev) (newDepOf ρ om blk ldeps leaf)⟩

/-- `while layers_to_copy_verbatim:` (lines 394-401) -/
def verbLoop (G : LayerMap) (sel : List Obj → Nat) : Nat → List Obj → BindAcc → BindRes BindAcc
  | 0, work, acc =>
    match popAt sel work with
    | none => .ok acc
    | some _ => .fuel
  | fuel + 1, work, acc =>
    match popAt sel work with
    | none => .ok acc
    | some (name, rest) =>
      if (acc.layers.lookup name).isSome then verbLoop G sel fuel rest acc
      else
        match G.lookup name with
        | none => .keyError name
        | some (ldeps, _) =>
          verbLoop G sel fuel (unionL rest ldeps) ⟨setKey acc.layers name .verbatim, setKey acc.deps name ldeps⟩

/-- the initial `new_layers`, `new_deps`: the blocker's layers and dependencies (`B`), or empty without a blocker -/
def bindInit (blk : Option Obj) (B : List (Obj × List Obj)) : BindAcc :=
  match blk with
  | some _ => ⟨B.map fun e => (e.1, .blocker), B⟩
  | none => ⟨[], []⟩

/-- `_bind_one` up to the call of `rebuild`: the layers and dependencies of the new HighLevelGraph.
    `child` = `child.__dask_layers__()`, `blk` = the blocker's key, `B` = `blocker_dsk.dependencies`. -/
def bindOne (G : LayerMap) (child om : List Obj) (ρ : Obj → Obj) (blk : Option Obj) (B : List (Obj × List Obj))
    (sel1 sel2 : List Obj → Nat) (fuel : Nat) : BindRes BindAcc :=
  match cloneLoop G om ρ blk sel1 fuel child [] (bindInit blk B) with
  | .ok (verb, acc) => verbLoop G sel2 fuel verb acc
  | .keyError k => .keyError k
  | .fuel => .fuel

/-- a fuel that always suffices (`bindOne_fuel`) -/
def bindFuel (G : LayerMap) (child : List Obj) : Nat := child.length + 2 * (G.map fun e => e.2.1.length).sum

end Dask.TaskTerm
