import DaskModel.Model.Store
/-
C29 extension: the file plumbing of `to_npy_stack` / `from_npy_stack` (dask/array/core.py).

  to_npy_stack(dirname, x, axis)
      chunks = tuple((c if i == axis else (sum(c),)) for i, c in enumerate(x.chunks))      `npyChunks` (Model/Store.lean)
      xx = x.rechunk(chunks)
      info  <- {"chunks": chunks, "dtype": x.dtype, "axis": axis}                          `toNpyInfo`
      dsk = {(name, i): (np.save, join(dirname, f"{i}.npy"), key)
             for i, key in enumerate(core.flatten(xx.__dask_keys__()))}                     `toNpyTasks`
      every task is run (in the scheduler's order)                                          `runSaves`
  from_npy_stack(dirname)
      chunks, axis <- info
      keys   = list(product([name], *[range(len(c)) for c in chunks]))                      `keyGrid`
      values = [(np.load, join(dirname, f"{i}.npy"), mmap_mode) for i in range(len(chunks[axis]))]
      dsk    = dict(zip(keys, values))                                                      `fromNpyGraph`
      Array(dsk, name, chunks, dtype)                                                       `loadBlock`

A directory is a partial map from the FILE NUMBER `i` (of the file `"{i}.npy"`) to a content; the content type `α`
(what `np.save` / `np.load` move) is a parameter. Keys are block coordinates (the name is left out).
Import-free of Mathlib (linked into the native driver).
-/
namespace Dask.NpyStack
open Dask.Store

/-- `numblocks` of a chunk tuple -/
def numblocks (chunks : List (List Nat)) : List Nat := chunks.map List.length

/-- the block coordinates of an array with these chunks in the order of `core.flatten(x.__dask_keys__())`
    = `itertools.product(*[range(len(c)) for c in chunks])` -/
def keyGrid (chunks : List (List Nat)) : List (List Nat) := product ((numblocks chunks).map List.range)

/-- the `np.save` tasks of `to_npy_stack`: `(i, key)` = the block `key` of the rechunked array goes to `"{i}.npy"`
    (`enumerate` of the flattened keys) -/
def toNpyTasks (axis : Nat) (chunks : List (List Nat)) : List (Nat × List Nat) :=
  (List.range (keyGrid (npyChunks axis chunks)).length).zip (keyGrid (npyChunks axis chunks))

/-- the pickled `info` file (the dtype is not modelled) -/
structure Info where
  chunks : List (List Nat)
  axis : Nat
deriving Repr, DecidableEq

def toNpyInfo (axis : Nat) (chunks : List (List Nat)) : Info := ⟨npyChunks axis chunks, axis⟩

/-- directory: file number ↦ content of `"{i}.npy"` -/
abbrev Dir (α : Type) := Nat → Option α

/-- `np.save(join(dirname, f"{i}.npy"), v)`: creates or overwrites that one file -/
def Dir.save {α : Type} (d : Dir α) (i : Nat) (v : α) : Dir α := fun j => if j = i then some v else d j

/-- the save tasks executed in the order `ts` on the blocks `xx` of the rechunked array -/
def runSaves {α : Type} (xx : List Nat → α) (d : Dir α) (ts : List (Nat × List Nat)) : Dir α :=
  ts.foldl (fun d t => d.save t.1 (xx t.2)) d

/-- the graph of `from_npy_stack`, `dict(zip(keys, values))` as the list of `(key, file number)`;
    `none` = the IndexError of `chunks[axis]` -/
def fromNpyGraph (info : Info) : Option (List (List Nat × Nat)) :=
  (info.chunks[info.axis]?).map fun c => (keyGrid info.chunks).zip (List.range c.length)

/-- the block `key` of the loaded array: the task of the key, then `np.load` of its file
    (`none`: the key has no task, or its file does not exist) -/
def loadBlock {α : Type} (d : Dir α) (g : List (List Nat × Nat)) (key : List Nat) : Option α :=
  (g.lookup key).bind d

/-- the block coordinate `(0, …, 0, i, 0, …, 0)` with `i` on axis `axis` of `n` axes -/
def unitKey (axis n i : Nat) : List Nat := List.replicate axis 0 ++ i :: List.replicate (n - axis - 1) 0

/-- the whole round trip on a directory that already holds the files `stale` (content `none`-marked by `[]`), the
    save tasks run in the order `order` (indices into `toNpyTasks`), content of a block = its own key:
    per key of the declared grid what `from_npy_stack` loads -/
def roundTrip (axis : Nat) (chunks : List (List Nat)) (stale : List Nat) (order : List Nat) :
    Option (List (List Nat × Option (List Nat))) :=
  let tasks := toNpyTasks axis chunks
  let ts := order.filterMap fun j => tasks[j]?
  let d0 : Dir (List Nat) := fun i => if stale.contains i then some [] else none
  let d := runSaves id d0 ts
  let info := toNpyInfo axis chunks
  (fromNpyGraph info).map fun g => (keyGrid info.chunks).map fun key => (key, loadBlock d g key)

end Dask.NpyStack
