import DaskModel.Model.Elemwise
import DaskModel.Model.Store
/-
C21 extension: the `where`-based branch of `dask/array/core.py::Array.__setitem__` (a boolean mask of the array's
full shape) — which keys take it, what it raises, and the graph it builds.

Python (Array.__setitem__)                                              Lean
--------------------------                                              ----
`isinstance(key, np.ndarray) and key.dtype == bool and key.ndim > 1
   and key.ndim == self.ndim`  →  `key = asarray(key)`                  `dispatch` (first line)
`isinstance(key, Array) and (key.dtype.kind in "iu" or (key.dtype == bool
   and key.ndim == 1 and self.ndim > 1))`  →  `key = (key,)`            `dispatch` (→ `setitemArray`)
`if isinstance(key, Array):` … the `where` method                       `dispatch` (→ `wherePath`)
`match = left_shape == right_shape … IndexError`                        `Res.indexError`
`if value.ndim: value = broadcast_to(value, self[key].shape)`
   (`self[key].shape == (nan,)`: ValueError for every value of
   ndim > 0 — from broadcast_to or, for shape (1,), from `where`)       `Res.valueError`
`y = where(key, value, self)` = `elemwise(np.where, key, value, self)`:
   `unify_chunks` of (mask, 0-d value, array), one task per block of
   the unified chunks reading block `b` of the (rechunked) mask, the
   single block `()` of the value and block `b` of the (rechunked) array `wherePlan` (`unified`, `tasks`, `maskRechunked`, `xRechunked`)
`if y.chunks != self.chunks: y = y.rechunk(self.chunks)`                `rechunkBack`, `chunks`
`np.where(m, v, x)` on one block, `v` 0-d                               `whereBlock`
NumPy: `x[mask] = v`                                                    `npMaskAssign` (general, C order), `npMaskScalar`
Import-free of Mathlib (linked into the native driver).
-/
namespace Dask.SetItemMask
open Dask.Elemwise Dask.Store

/-! ### which branch of `__setitem__` a single array key takes -/

structure KeyInfo where
  isDask : Bool      -- `isinstance(key, Array)`; otherwise an `np.ndarray`
  isBool : Bool      -- `key.dtype == bool`; otherwise an integer dtype
  ndim : Nat
  deriving Repr, DecidableEq

inductive Path where
  | wherePath
  | setitemArray
  deriving Repr, DecidableEq

def dispatch (selfNdim : Nat) (k : KeyInfo) : Path :=
  -- a multi-dimensional NumPy mask of the array's rank is converted to a dask array
  let isArray := k.isDask || (k.isBool && decide (1 < k.ndim) && decide (k.ndim = selfNdim))
  -- integer dask arrays and 1-d dask masks on an N-d array are wrapped into a tuple (→ setitem_array)
  let wrapped := k.isDask && (!k.isBool || (decide (k.ndim = 1) && decide (1 < selfNdim)))
  if isArray && !wrapped then Path.wherePath else Path.setitemArray

/-! ### the graph of the `where` path -/

structure WherePlan where
  unified : List (List Nat)                       -- chunks of the `where` layer
  tasks : List (List Nat × List (List Nat))       -- output block ↦ [mask block, value block, array block], product order
  maskRechunked : Bool
  xRechunked : Bool
  rechunkBack : Bool                              -- `y.rechunk(self.chunks)`
  chunks : List (List Nat)                        -- chunks of the array after the assignment
  deriving Repr, DecidableEq

inductive Res where
  | indexError
  | valueError
  | unifyError
  | ok (p : WherePlan)
  deriving Repr, DecidableEq

def shapeOf (chunks : List (List Nat)) : List Nat := chunks.map List.sum

/-- `where(key, value, self)` for a mask chunked `mchunks`, a value of shape `vshape` and an array chunked `xchunks` -/
def wherePlan (xchunks mchunks : List (List Nat)) (vshape : List Nat) : Res :=
  if shapeOf mchunks ≠ shapeOf xchunks then Res.indexError
  else if vshape ≠ [] then Res.valueError
  else
    let ind := revRange xchunks.length
    match unifyChunks [⟨ind, mchunks⟩, ⟨[], []⟩, ⟨ind, xchunks⟩] with
    | some (_, [mNew, _, xNew]) =>
      let coords := product (xNew.map fun c => List.range c.length)
      Res.ok ⟨xNew, coords.map (fun b => (b, [(List.zipWith argBlock (mNew.map List.length) b), [], b])),
              mNew != mchunks, xNew != xchunks, xNew != xchunks, xchunks⟩
    | _ => Res.unifyError

/-! ### values: one block of the `where` layer, and NumPy's masked assignment -/

/-- global positions (one axis) of block `k` of a dimension chunked as `c` -/
def axisPositions (c : List Nat) (k : Nat) : List Nat := (List.range (c.getD k 0)).map (globalOf c k)

/-- the global multi-indices of block `b`, in C order -/
def blockIdx (chunks : List (List Nat)) (b : List Nat) : List (List Nat) :=
  product (List.zipWith axisPositions chunks b)

/-- C-order flat position of a multi-index -/
def ravel : List Nat → List Nat → Nat
  | _ :: ds, i :: is => i * (ds.foldr (· * ·) 1) + ravel ds is
  | _, _ => 0

/-- `np.where(m_block, v, x_block)` for block `b` of arrays given by their C-order flat data; `none` = a position
    outside the data (never for well-formed inputs) -/
def whereBlock (shape : List Nat) (chunks : List (List Nat)) (mask : List Bool) (v : Int) (x : List Int)
    (b : List Nat) : Option (List Int) :=
  (blockIdx chunks b).mapM fun g =>
    match mask[ravel shape g]?, x[ravel shape g]? with
    | some m, some a => some (if m then v else a)
    | _, _ => none

/-- NumPy `x[mask] = vals` on C-order flat data with a 1-d value of exactly `count_nonzero(mask)` elements: the `k`-th
    `True` position receives `vals[k]`; `none` = ValueError (wrong number of values) -/
def npMaskAssign {α : Type} : List Bool → List α → List α → Option (List α)
  | [], [], [] => some []
  | true :: ms, _ :: xs, v :: vs => (npMaskAssign ms xs vs).map (v :: ·)
  | false :: ms, a :: xs, vs => (npMaskAssign ms xs vs).map (a :: ·)
  | _, _, _ => none

/-- NumPy `x[mask] = v` for a 0-d `v` (broadcast to the `count_nonzero(mask)` selected elements) -/
def npMaskScalar {α : Type} (mask : List Bool) (x : List α) (v : α) : Option (List α) :=
  npMaskAssign mask x (List.replicate (mask.filter id).length v)

end Dask.SetItemMask
