import DaskModel.Model.Bytes
/-
PEP-515 digit separators in the numeric prefix of `dask.utils.parse_bytes`: the prefix goes to `float()`, which (CPython
`_Py_string_to_number_with_underscores`) first removes the underscores — each one must stand directly after a digit and
directly before a digit — and then reads the remaining text with the ordinary literal grammar (`parseLit`).

CPython                                                   Lean
-------                                                   ----
`prev = '\0'; for p in s:`                                `stripUnderGo prev cs` (`prev` starts as `'\x00'`)
`if *p == '_': if not isdigit(prev): error`               first branch
`else: copy *p; if prev == '_' and not isdigit(*p): error` second / third branch
`if prev == '_': error` (after the loop)                  the `[]` case
`parse_bytes`: as `parseBytes`, the prefix read by `parseLitU`. No Mathlib.
-/
namespace Dask.Bytes
open Dask.PyStr
open Dask.Generated.ByteTables

def stripUnderGo : Char → List Char → Option (List Char)
  | prev, [] => if prev = '_' then none else some []
  | prev, c :: r =>
    if c = '_' then (if isDigit prev then stripUnderGo c r else none)
    else if prev = '_' && !isDigit c then none
    else (stripUnderGo c r).map (c :: ·)

/-- the text `float()` parses after removing valid digit separators; `none`: ValueError -/
def stripUnder (cs : List Char) : Option (List Char) := stripUnderGo '\x00' cs

/-- `float(prefix)` with digit separators -/
def parseLitU (cs : List Char) : Option Lit := (stripUnder cs).bind parseLit

/-- `parse_bytes(s)` for a `str` argument, digit separators in the number included -/
def parseBytesU (s : String) : ParseBytes :=
  let cs := s.toList.filter (· ≠ ' ')
  let cs := if cs.any isDigit then cs else '1' :: cs
  let (pre, suf) := splitUnit cs
  match parseLitU pre with
  | none => .badNumber
  | some l =>
    match lookup byteSizes (String.ofList (lowerL suf)) with
    | none => .badUnit
    | some mult =>
      let r := (mulR l.toDy (natToDy mult)).floor
      .ok (if l.neg then -(r : Int) else r)

end Dask.Bytes
