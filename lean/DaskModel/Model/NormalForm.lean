/-
K8 `NormalForm`: the structural part of `dask.tokenize` (dask/tokenize.py), transliterated.

`tokenize(*args)` = md5(str(tuple(map(normalize_token, args)))).  The model splits this into

  norm   : Val → Val        `normalize_token` dispatch on the plain-data classes
  pyRepr : Val → String     Python `repr`/`str` of the nested tuples `norm` produces
  tokPre : List Val → String = the exact string that is fed to md5

md5 / `hash_buffer_hex` are NOT modelled: they are treated as injective functions (trusted, see
`Props/C12.lean`); digests appear in the pre-image as the constructor `Val.hash`.

Python                                          Lean
------                                          ----
int / bool / float / str / bytes / None         `Val.int/bool/float/str/bytes/none` (float carried by its CPython repr)
list / tuple / dict / set                       `Val.list/tuple/dict/set` (dict = items in insertion order)
0-d ndarray                                     `Val.arr0 item dtype`
n-d ndarray of a non-object dtype               `Val.ndarray dtype shape strides offset buf` (strides/offset in elements,
                                                buf = base buffer with elements interned to Nat by the harness)
n-d object array whose elements are all str     `Val.objarr shape elems` (elems in logical order, `x.flat`, each a list of code points)
dtype / type objects inside a token             `Val.atom repr` (identified by their repr)
hash_buffer_hex(bytes)                          `Val.hash tag payload` (tag 0: interned elements, 1: code points of a str
                                                that is utf-8 encoded, 2: int64 array)
tokenize(x) used as a value (a str)             `Val.digest v` where v = normalize_token(x): the str md5(repr((v,)))
sorted(tokenize(a) for a in …)                  `Val.sortedTokens xs` (xs digests; the order is the order of the hex strings,
                                                which the model cannot know: kept in input order, compared up to permutation)
_normalize_pickle(obj) = (pik, [])              `Val.pickled kind payload` (object of class `kind` determined by `payload`)
sorted(d.items(), key=…) / sorted(s, key=…)     `ssort` (stable insertion sort on the key computed BEFORE normalising)

Import-free (linked into the native driver).
-/
namespace Dask.NF

inductive Val where
  | int (i : Int)
  | bool (b : Bool)
  | float (repr : String)
  | str (s : String)
  | bytes (b : List Nat)
  | none
  | atom (repr : String)
  | hash (tag : Nat) (payload : List Nat)
  | list (xs : List Val)
  | tuple (xs : List Val)
  | dict (kvs : List (Val × Val))
  | set (xs : List Val)
  | arr0 (item : Val) (dtype : String)
  | ndarray (dtype : String) (shape : List Nat) (strides : List Int) (offset : Int) (buf : List Nat)
  | objarr (shape : List Nat) (elems : List (List Nat))
  | digest (v : Val)
  | sortedTokens (xs : List Val)
  | pickled (kind : String) (payload : Val)
  deriving Repr, Inhabited

/-! ## Python `repr` of the scalar classes -/

def hexDigit (n : Nat) : Char := "0123456789abcdef".toList.getD n '?'

/-- `\xNN` -/
def hexEsc (n : Nat) : List Char := ['\\', 'x', hexDigit (n / 16 % 16), hexDigit (n % 16)]

/-- CPython `unicode_repr`: quote selection. -/
def pickQuote (cs : List Char) : Char :=
  if cs.contains '\'' && !cs.contains '"' then '"' else '\''

/-- CPython `unicode_repr`: one character (code points ≥ 0x80 are assumed printable). -/
def escChar (q : Char) (c : Char) : List Char :=
  if c == q || c == '\\' then ['\\', c]
  else if c == '\t' then ['\\', 't']
  else if c == '\n' then ['\\', 'n']
  else if c == '\r' then ['\\', 'r']
  else if c.toNat < 32 || c.toNat == 127 then hexEsc c.toNat
  else [c]

def reprStrChars (cs : List Char) : List Char :=
  let q := pickQuote cs
  q :: (cs.flatMap (escChar q)) ++ [q]

def pyReprStr (s : String) : String := String.ofList (reprStrChars s.toList)

/-- CPython `bytes_repr`: one byte. -/
def escByte (q : Char) (b : Nat) : List Char :=
  let c := Char.ofNat b
  if c == q || c == '\\' then ['\\', c]
  else if c == '\t' then ['\\', 't']
  else if c == '\n' then ['\\', 'n']
  else if c == '\r' then ['\\', 'r']
  else if b < 32 || b ≥ 127 then hexEsc b
  else [c]

def reprBytesChars (bs : List Nat) : List Char :=
  let cs := bs.map Char.ofNat
  let q := pickQuote cs
  'b' :: q :: (bs.flatMap (escByte q)) ++ [q]

def pyReprBytes (bs : List Nat) : String := String.ofList (reprBytesChars bs)

def commaSep (xs : List String) : String := ", ".intercalate xs

def natList (xs : List Nat) : String := ",".intercalate (xs.map toString)

/-- How a digest is rendered in the pre-image string: the harness replaces the bracketed payload
    by the real `hash_buffer_hex` of the bytes it denotes. -/
def hashPlaceholder (tag : Nat) (payload : List Nat) : String :=
  "'\x01H" ++ toString tag ++ ":" ++ natList payload ++ "\x02'"

/-! ## Python `repr` / `str` of values -/

mutual
/-- Python `repr(v)` for the classes that can occur in a token or as a dict key / set element. -/
def pyRepr : Val → String
  | .int i => toString i
  | .bool b => if b then "True" else "False"
  | .float r => r
  | .str s => pyReprStr s
  | .bytes b => pyReprBytes b
  | .none => "None"
  | .atom r => r
  | .hash t p => hashPlaceholder t p
  | .list xs => "[" ++ commaSep (pyReprL xs) ++ "]"
  | .tuple xs =>
    match pyReprL xs with
    | [one] => "(" ++ one ++ ",)"
    | rs => "(" ++ commaSep rs ++ ")"
  | .dict kvs => "{" ++ commaSep (pyReprP kvs) ++ "}"
  | .set xs =>
    match pyReprL xs with
    | [] => "set()"
    | rs => "{" ++ commaSep rs ++ "}"
  | .arr0 _ _ => "<ndarray>"
  | .ndarray _ _ _ _ _ => "<ndarray>"
  | .objarr _ _ => "<ndarray>"
  | .digest v => "'\x01D(" ++ pyRepr v ++ ",)\x02'"
  | .sortedTokens xs => "\x01S" ++ "\x03".intercalate (pyReprL xs) ++ "\x02"
  | .pickled kind payload => "('\x01P" ++ kind ++ ":" ++ pyRepr payload ++ "\x02', [])"
def pyReprL : List Val → List String
  | [] => []
  | x :: xs => pyRepr x :: pyReprL xs
def pyReprP : List (Val × Val) → List String
  | [] => []
  | (k, v) :: r => (pyRepr k ++ ": " ++ pyRepr v) :: pyReprP r
end

/-- Python `str(v)`: differs from `repr` only for `str` itself (at top level). -/
def pyStr : Val → String
  | .str s => s
  | v => pyRepr v

/-- `type(v).__name__` -/
def typeName : Val → String
  | .int _ => "int" | .bool _ => "bool" | .float _ => "float" | .str _ => "str"
  | .bytes _ => "bytes" | .none => "NoneType" | .atom _ => "object" | .hash _ _ => "str"
  | .list _ => "list" | .tuple _ => "tuple" | .dict _ => "dict" | .set _ => "set"
  | .arr0 _ _ => "ndarray" | .ndarray _ _ _ _ _ => "ndarray" | .objarr _ _ => "ndarray"
  | .digest _ => "str" | .sortedTokens _ => "list" | .pickled _ _ => "tuple"

/-! ## `sorted(..., key=...)`: stable insertion sort on string keys -/

/-- The sort key of `normalize_dict` / `normalize_set`: `(str(k), type(k).__name__)`,
    compared like a Python tuple of strings. -/
abbrev SortKey := String × String

def keyLe (a b : SortKey) : Bool := a.1 < b.1 || (a.1 == b.1 && a.2 ≤ b.2)

def sortKey (v : Val) : SortKey := (pyStr v, typeName v)

/-- A stable sort is determined by (key, original position): folding from the right, the head goes
    in front of the first element whose key is not smaller ("in front of equal keys"). -/
def insertFront {α : Type} (x : SortKey × α) : List (SortKey × α) → List (SortKey × α)
  | [] => [x]
  | y :: ys => if keyLe x.1 y.1 then x :: y :: ys else y :: insertFront x ys

/-- stable sort by key = Python `sorted(xs, key=…)` -/
def ssort {α : Type} : List (SortKey × α) → List (SortKey × α)
  | [] => []
  | x :: xs => insertFront x (ssort xs)

/-! ## ndarray: logical (C order) element sequence -/

/-- all index tuples of `shape` in C (row-major) order -/
def cIndices : List Nat → List (List Nat)
  | [] => [[]]
  | n :: rest => (List.range n).flatMap (fun i => (cIndices rest).map (i :: ·))

def dot : List Int → List Nat → Int
  | s :: ss, i :: is => s * (i : Int) + dot ss is
  | _, _ => 0

/-- elements of a strided view in logical C order; `none` if an index leaves the buffer -/
def logical (shape : List Nat) (strides : List Int) (offset : Int) (buf : List Nat) : Option (List Nat) :=
  (cIndices shape).mapM (fun idx =>
    let p := offset + dot strides idx
    if p < 0 then none else buf[p.toNat]?)

/-- `"-".join(elems)` on code-point lists (45 = '-') -/
def joinDash : List (List Nat) → List Nat
  | [] => []
  | [x] => x
  | x :: y :: r => x ++ 45 :: joinDash (y :: r)

/-! ## `normalize_token` -/

mutual
/-- `normalize_token(v)` for plain data (the result is again a Python value: nested tuples). -/
def norm : Val → Val
  | .int i => .int i
  | .bool b => .bool b
  | .float r => .float r
  | .str s => .str s
  | .bytes b => .bytes b
  | .none => .none
  | .atom r => .atom r
  | .hash t p => .hash t p
  | .list xs => .tuple [.str "list", .tuple (normL xs)]
  | .tuple xs => .tuple [.str "tuple", .tuple (normL xs)]
  | .dict kvs => .tuple [.str "dict", .tuple ((ssort (normP kvs)).map Prod.snd)]
  | .set xs => .tuple [.str "set", .tuple ((ssort (normS xs)).map Prod.snd)]
  | .arr0 item dt => .tuple [item, .atom dt]
  | .ndarray dt shape strides off buf =>
    match logical shape strides off buf with
    | some els => .tuple [.hash 0 els, .atom dt, .tuple (shape.map (fun n => .int (Int.ofNat n)))]
    | none => .ndarray dt shape strides off buf   -- view leaves its buffer: not an array (never generated)
  | .objarr shape elems =>
    .tuple [.tuple [.hash 1 (joinDash elems), .hash 2 (elems.map List.length)],
            .atom "dtype('O')", .tuple (shape.map (fun n => .int (Int.ofNat n)))]
  | .digest v => .digest v
  | .sortedTokens xs => .sortedTokens xs
  | .pickled k p => .pickled k p
def normL : List Val → List Val
  | [] => []
  | x :: xs => norm x :: normL xs
/-- items of a dict, each paired with its sort key; an item `(k, v)` is a tuple and normalises to
    `("tuple", (norm k, norm v))` -/
def normP : List (Val × Val) → List (SortKey × Val)
  | [] => []
  | (k, v) :: r => (sortKey k, .tuple [.str "tuple", .tuple [norm k, norm v]]) :: normP r
def normS : List Val → List (SortKey × Val)
  | [] => []
  | x :: xs => (sortKey x, norm x) :: normS xs
end

/-- the value whose `str` is handed to md5 by `_tokenize(*args, **kwargs)`:
    `token = _normalize_seq_func(args)`, and with kwargs `token = token, _normalize_seq_func(sorted(kwargs.items()))`.
    kwargs keys are strings; `sorted` on `(key, value)` tuples with distinct keys = sort by key. -/
def tokNFKw (args : List Val) (kwargs : List (String × Val)) : Val :=
  if kwargs.isEmpty then .tuple (normL args)
  else
    let items := ssort (kwargs.map (fun (k, v) => ((k, ""), Val.tuple [.str "tuple", .tuple [.str k, norm v]])))
    .tuple [.tuple (normL args), .tuple (items.map Prod.snd)]

/-- the string handed to md5 by `_tokenize(*args)` (no kwargs) -/
def tokPre (args : List Val) : String := pyRepr (.tuple (normL args))

/-- the string handed to md5 by `_tokenize(*args, **kwargs)` -/
def tokPreKw (args : List Val) (kwargs : List (String × Val)) : String := pyRepr (tokNFKw args kwargs)

end Dask.NF
