/-
`dask.base.unpack_collections` / `repack` (dask/base.py) and the key bookkeeping of
`_HLGExprSequence._tune_down` / `__dask_keys__` (dask/_expr.py), transliterated.

Python                                                   Lean
------                                                   ----
a dask collection (identified by `tokenize(expr)`)       `Tree.coll tok`
any other leaf (returned unchanged by `_unpack`)          `Tree.leaf v`
list / tuple / set                                        `Tree.list / tuple / set`
dict / OrderedDict (keys are unpacked too)                `Tree.dict / odict`
dataclass instance / namedtuple instance                  `Tree.dataclass cls fields` / `Tree.namedtuple cls fields`
iterator ("Treat iterators like lists")                   `Tree.iter`
repack_dsk[tok] = Task(tok, getitem, ref, len(collections))   the index stored at the first sight of a token: `Tree.coll i`
`collections` (deduplicated by token, in traversal order) the state threaded through `unpack`
repack(results) = simple_get(repack_dsk ∪ {results}, out)     `repack results term` (`none`: index out of range)

Import-free.
-/
namespace Dask.Repack

inductive Tree (α : Type) where
  | coll (c : α)
  | leaf (v : Nat)
  | list (xs : List (Tree α))
  | tuple (xs : List (Tree α))
  | set (xs : List (Tree α))
  | dict (kvs : List (Tree α × Tree α))
  | odict (kvs : List (Tree α × Tree α))
  | dataclass (cls : Nat) (fields : List (Tree α))
  | namedtuple (cls : Nat) (fields : List (Tree α))
  | iter (xs : List (Tree α))
  deriving Repr, Inhabited

/-- position of a token among the collections seen so far -/
def indexOf (t : Nat) : List Nat → Option Nat
  | [] => none
  | x :: xs => if x = t then some 0 else (indexOf t xs).map (· + 1)

/-- `_unpack` on a collection: reuse the index stored for its token or append it -/
def see (t : Nat) (seen : List Nat) : List Nat × Nat :=
  match indexOf t seen with
  | some i => (seen, i)
  | none => (seen ++ [t], seen.length)

mutual
/-- `_unpack(expr)` with `traverse=True`; the state is the list `collections` (as tokens) -/
def unpack : Tree Nat → List Nat → List Nat × Tree Nat
  | .coll c, seen => let (s, i) := see c seen; (s, .coll i)
  | .leaf v, seen => (seen, .leaf v)
  | .list xs, seen => let (s, ys) := unpackL xs seen; (s, .list ys)
  | .tuple xs, seen => let (s, ys) := unpackL xs seen; (s, .tuple ys)
  | .set xs, seen => let (s, ys) := unpackL xs seen; (s, .set ys)
  | .dict kvs, seen => let (s, ys) := unpackP kvs seen; (s, .dict ys)
  | .odict kvs, seen => let (s, ys) := unpackP kvs seen; (s, .odict ys)
  | .dataclass c xs, seen => let (s, ys) := unpackL xs seen; (s, .dataclass c ys)
  | .namedtuple c xs, seen => let (s, ys) := unpackL xs seen; (s, .namedtuple c ys)
  | .iter xs, seen => let (s, ys) := unpackL xs seen; (s, .list ys)
def unpackL : List (Tree Nat) → List Nat → List Nat × List (Tree Nat)
  | [], seen => (seen, [])
  | x :: xs, seen =>
    let (s1, y) := unpack x seen
    let (s2, ys) := unpackL xs s1
    (s2, y :: ys)
/-- `{_unpack(k): _unpack(v) for k, v in expr.items()}`: key first, then value -/
def unpackP : List (Tree Nat × Tree Nat) → List Nat → List Nat × List (Tree Nat × Tree Nat)
  | [], seen => (seen, [])
  | (k, v) :: r, seen =>
    let (s1, k') := unpack k seen
    let (s2, v') := unpack v s1
    let (s3, r') := unpackP r s2
    (s3, (k', v') :: r')
end

/-- `unpack_collections(*args, traverse=True)`: `(collections, repack term)`; the term is the tuple of the args -/
def unpackArgs (args : List (Tree Nat)) : List Nat × Tree Nat :=
  let (s, ys) := unpackL args []
  (s, .tuple ys)

mutual
/-- `repack(results)`: every stored index is replaced by `results[index]` -/
def repack {β : Type} (results : List β) : Tree Nat → Option (Tree β)
  | .coll i => (results[i]?).map .coll
  | .leaf v => some (.leaf v)
  | .list xs => (repackL results xs).map .list
  | .tuple xs => (repackL results xs).map .tuple
  | .set xs => (repackL results xs).map .set
  | .dict kvs => (repackP results kvs).map .dict
  | .odict kvs => (repackP results kvs).map .odict
  | .dataclass c xs => (repackL results xs).map (.dataclass c)
  | .namedtuple c xs => (repackL results xs).map (.namedtuple c)
  | .iter xs => (repackL results xs).map .iter
def repackL {β : Type} (results : List β) : List (Tree Nat) → Option (List (Tree β))
  | [] => some []
  | x :: xs =>
    match repack results x, repackL results xs with
    | some y, some ys => some (y :: ys)
    | _, _ => none
def repackP {β : Type} (results : List β) : List (Tree Nat × Tree Nat) → Option (List (Tree β × Tree β))
  | [] => some []
  | (k, v) :: r =>
    match repack results k, repack results v, repackP results r with
    | some k', some v', some r' => some ((k', v') :: r')
    | _, _, _ => none
end

mutual
/-- the specification: every collection replaced by its value, iterators become lists, everything else unchanged -/
def mapColl {α β : Type} (f : α → β) : Tree α → Tree β
  | .coll c => .coll (f c)
  | .leaf v => .leaf v
  | .list xs => .list (mapCollL f xs)
  | .tuple xs => .tuple (mapCollL f xs)
  | .set xs => .set (mapCollL f xs)
  | .dict kvs => .dict (mapCollP f kvs)
  | .odict kvs => .odict (mapCollP f kvs)
  | .dataclass c xs => .dataclass c (mapCollL f xs)
  | .namedtuple c xs => .namedtuple c (mapCollL f xs)
  | .iter xs => .list (mapCollL f xs)
def mapCollL {α β : Type} (f : α → β) : List (Tree α) → List (Tree β)
  | [] => []
  | x :: xs => mapColl f x :: mapCollL f xs
def mapCollP {α β : Type} (f : α → β) : List (Tree α × Tree α) → List (Tree β × Tree β)
  | [] => []
  | (k, v) :: r => (mapColl f k, mapColl f v) :: mapCollP f r
end

/-! ## `traverse=False`: only top-level collections are replaced -/

/-- one argument with `traverse=False`: a collection is extracted, anything else is kept as data (`none`) -/
def unpackTop : List (Tree Nat) → List Nat → List Nat × List (Option Nat)
  | [], seen => (seen, [])
  | .coll c :: xs, seen =>
    let (s1, i) := see c seen
    let (s2, ys) := unpackTop xs s1
    (s2, some i :: ys)
  | _ :: xs, seen =>
    let (s2, ys) := unpackTop xs seen
    (s2, none :: ys)

/-- result of `repack` with `traverse=False`: `inl v` = replaced by a result, `inr t` = the argument itself, untouched -/
def repackTop {β : Type} (results : List β) : List (Tree Nat) → List (Option Nat) → Option (List (Sum β (Tree Nat)))
  | [], [] => some []
  | a :: as, some i :: ms =>
    match results[i]?, repackTop results as ms with
    | some r, some rest => some (.inl r :: rest)
    | _, _ => none
  | a :: as, none :: ms => (repackTop results as ms).map (fun rest => .inr a :: rest)
  | _, _ => none

/-! ## `_HLGExprSequence._tune_down` and `__dask_keys__` (operand order) -/

/-- an operand of the sequence after tuning -/
inductive Op (κ : Type) where
  /-- an operand that was not grouped -/
  | single (opt : Nat) (keys : κ)
  /-- `_HLGExprGroup`: members that share the optimizer `opt`, with the positions they were taken from -/
  | group (opt : Nat) (positions : List Nat) (keys : List κ)
  deriving Repr

/-- `toolz.groupby(key, enumerate(operands))` on entries `(position, optimizer, keys)`: one group per optimizer
    in first-seen order (dict insertion order), members in their original order.  Written as "take the head,
    collect everything with the same optimizer, go on with the rest" (diffed against `toolz.groupby`). -/
def groupbyN {κ : Type} : Nat → List (Nat × Nat × κ) → List (Nat × List (Nat × κ))
  | 0, _ => []
  | _, [] => []
  | n + 1, e :: rest =>
    (e.2.1, (e.1, e.2.2) :: (rest.filter (fun x => x.2.1 == e.2.1)).map (fun x => (x.1, x.2.2)))
      :: groupbyN n (rest.filter (fun x => x.2.1 != e.2.1))

/-- the recursion runs on ever shorter lists: the length is enough fuel -/
def groupby {κ : Type} (l : List (Nat × Nat × κ)) : List (Nat × List (Nat × κ)) := groupbyN l.length l

def enumFrom {α : Type} : Nat → List α → List (Nat × α)
  | _, [] => []
  | n, x :: xs => (n, x) :: enumFrom (n + 1) xs

/-- one group of `_tune_down`: several members become an `_HLGExprGroup` that remembers their positions -/
def toOp {κ : Type} (g : Nat × List (Nat × κ)) : Op κ :=
  match g.2 with
  | [(_, k)] => .single g.1 k
  | ms => .group g.1 (ms.map Prod.fst) (ms.map Prod.snd)

/-- `_tune_down`: `none` = unchanged (a single operand, or no optimizer shared by two operands) -/
def tuneDown {κ : Type} (operands : List (Nat × κ)) : Option (List (Op κ)) :=
  if operands.length = 1 then none
  else
    let groups := groupby (enumFrom 0 operands)
    if groups.any (fun g => g.2.length > 1) then some (groups.map toOp) else none

/-- the flat list `(position | None, keys)` built by the first loop of `__dask_keys__` -/
def flatKeys {κ : Type} : List (Op κ) → List (Option Nat × κ)
  | [] => []
  | .single _ k :: rest => (none, k) :: flatKeys rest
  | .group _ ps ks :: rest => (List.zip (ps.map some) ks) ++ flatKeys rest

/-- the second loop: grouped entries go back to their position, the others fill the free slots in order;
    the result lists `(slot, keys)` assignments -/
def assign {κ : Type} : List (Option Nat × κ) → List Nat → List (Nat × κ)
  | [], _ => []
  | (some p, k) :: rest, free => (p, k) :: assign rest free
  | (none, k) :: rest, f :: free => (f, k) :: assign rest free
  | (none, _) :: _, [] => []      -- StopIteration (cannot happen: as many free slots as ungrouped operands)

/-- `_HLGExprSequence.__dask_keys__` -/
def daskKeys {κ : Type} (ops : List (Op κ)) : List (Option κ) :=
  let flat := flatKeys ops
  let n := flat.length
  let taken := flat.filterMap Prod.fst
  let free := (List.range n).filter (fun i => !taken.contains i)
  let asg := assign flat free
  (List.range n).map (fun i => (asg.reverse.find? (fun a => a.1 == i)).map Prod.snd)   -- later assignments win

/-- keys of the sequence as `compute` / `persist` see them after the optimizer ran -/
def keysAfterTune {κ : Type} (operands : List (Nat × κ)) : List (Option κ) :=
  match tuneDown operands with
  | some ops => daskKeys ops
  | none => operands.map (fun o => some o.2)

end Dask.Repack
