import DaskModel.Generated.ChunkTolerance
/-
K3 (integer-list indexing): the planning part of `dask/array/slicing.py::take` and of
`dask/array/_shuffle.py::_shuffle` along the indexed axis.

Python                                                        Lean
------                                                        ----
len(index) == full_length and index[0] == 0
   and np.all(np.diff(index) == 1)      (no-op shortcut)      `takeIsIdentity n index`
average_chunk_size = max(1, int(full_length / nblocks))       `avgChunk n nblocks`
[index[i:i+avg] for i in range(0, len(index), avg)]           `groupsOf avg index`
chunk_size_limit = int(sum/len * tolerance)                  `chunkLimit n nblocks`  (exact rational floor; tolerance =
                                                              tolNum/tolDen extracted from dask.yaml, Generated/ChunkTolerance)
the "how many groups fit into one chunk" loop of _shuffle     `mergeGroups`
output chunks along the axis                                  `takeChunks`
Import-free (linked into the native driver).
-/
namespace Dask.Take

/-- `np.all(np.diff(index) == 1)` -/
def diffsAreOne : List Int → Bool
  | [] => true
  | [_] => true
  | a :: b :: rest => decide (b - a = 1) && diffsAreOne (b :: rest)

/-- the no-op shortcut of `take`: the indexer is the full `arange` of the axis. `none` = `index[0]` raised
    (empty indexer on an empty axis; `slice_wrap_lists` never passes an empty list). -/
def takeIsIdentity (n : Nat) (index : List Int) : Option Bool :=
  if index.length = n then
    match index with
    | [] => none
    | a :: _ => some (decide (a = 0) && diffsAreOne index)
  else some false

/-- `max(1, int(full_length / len(chunks[axis])))` -/
def avgChunk (n nblocks : Nat) : Nat := max 1 (n / nblocks)

/-- `[index[i : i + avg] for i in range(0, len(index), avg)]` (fuel = length) -/
def groupsOfAux (avg : Nat) : Nat → List Int → List (List Int)
  | 0, _ => []
  | fuel + 1, xs => if xs.isEmpty then [] else xs.take avg :: groupsOfAux avg fuel (xs.drop avg)

def groupsOf (avg : Nat) (index : List Int) : List (List Int) := groupsOfAux avg index.length index

/-- `int(sum(chunks) / len(chunks) * tolerance)` as an exact rational floor (`array.chunk-size-tolerance`) -/
def chunkLimit (n nblocks : Nat) : Nat :=
  (n * Dask.Generated.ChunkTolerance.tolNum) / (nblocks * Dask.Generated.ChunkTolerance.tolDen)

/-- the merging loop of `_shuffle`; `cur` is `current_chunk`, result in order.
    `len(current) > limit / tolerance`  ⇔  `tolNum * len(current) > tolDen * limit` -/
def mergeGroups (limit : Nat) : List (List Int) → List Int → List (List Int)
  | [], cur => if cur.length > 0 then [cur] else []
  | idx :: rest, cur =>
    if cur.length + idx.length > limit ∧ cur.length > 0 then
      cur :: mergeGroups limit rest idx
    else
      let cur' := cur ++ idx
      if Dask.Generated.ChunkTolerance.tolNum * cur'.length > Dask.Generated.ChunkTolerance.tolDen * limit then cur' :: mergeGroups limit rest []
      else mergeGroups limit rest cur'

/-- the takers of the output chunks along the axis (each lists the global positions it reads) -/
def takeNewChunks (lengths : List Nat) (index : List Int) : List (List Int) :=
  let n := lengths.sum
  mergeGroups (chunkLimit n lengths.length) (groupsOf (avgChunk n lengths.length) index) []

/-- output chunks of `take` along the axis -/
def takeChunks (lengths : List Nat) (index : List Int) : List Nat :=
  (takeNewChunks lengths index).map List.length

end Dask.Take
