import DaskModel.DriverLib
import DaskModel.Model.TsqrPlan
/-
Line-protocol handlers of the C31 extension round (tsqr wiring plan); appended to the table of `Drivers/reduce.lean`.
-/
namespace Dask.TsqrPlanIO
open Dask Dask.TsqrPlan

def ofLevel (l : Level) : SExp :=
  .list [SExp.ofNats l.chunks, SExp.ofOptNat l.maxV, SExp.ofBool l.recursive,
    .list (l.groups.map fun g => .list (g.map fun im => SExp.ofNats [im.1, im.2])),
    SExp.ofNats l.vchunks,
    .list (l.slices.map fun s => SExp.ofNats [s.blk, s.src, s.start, s.stop])]

/-- `(tsqrplan (chunks…) cc)` ↦ `(raised)` | `(fuel)` | `(ok (chunks maxV recursive groups vchunks slices)…)` -/
def hTsqrPlan : Handler := handler fun args =>
  match args with
  | [chunks, cc] => do
    match plan (← chunks.toNats?) (← cc.toNat?) with
    | .raises => pure (.list [.sym "raised"])
    | .fuel => pure (.list [.sym "fuel"])
    | .ok ls => pure (.list (.sym "ok" :: ls.map ofLevel))
  | _ => none

/-- `(tsqrlevel (chunks…) cc maxV)` ↦ `(raised)` | one level as above: a single call with a given `_max_vchunk_size` -/
def hTsqrLevel : Handler := handler fun args =>
  match args with
  | [chunks, cc, mv] => do
    let chunks ← chunks.toNats?
    let cc ← cc.toNat?
    let mv ← match mv with | .sym "none" => some none | e => e.toNat?.map some
    match recurses chunks cc mv with
    | none => pure (.list [.sym "raised"])
    | some true => pure (ofLevel (recLevel chunks cc mv))
    | some false => pure (ofLevel (singleLevel chunks cc mv))
  | _ => none

def handlers : List (String × Handler) := [("tsqrplan", hTsqrPlan), ("tsqrlevel", hTsqrLevel)]

end Dask.TsqrPlanIO
