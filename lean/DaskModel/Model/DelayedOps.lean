import DaskModel.Model.Delayed
import DaskModel.Model.DelayedUnpack
import DaskModel.Model.NormalForm
/-
Operators, item / attribute access and method calls on `Delayed` values (dask/delayed.py, dask/utils.py
`OperatorMethodMixin._bind_operator`): the extended program AST, its eager value, the translation the code itself
performs into ONE task per operation, the shape of that task in the real graph, and the key rules.

Python                                                                  Lean
------                                                                  ----
delayed(obj)                                                            `X.leaf nm v`
delayed(f, pure=p)(*args)         DelayedLeaf.__call__ -> call_function(f, leaf.key, args, kwargs, pure=p)
                                                                        `X.call nm p f args`
d <op> other                      Delayed.__op__ = _get_binary_operator(op): `delayed(op, pure=True)(d, other)`
                                  -> call_function(op, leaf.key, (d, other), {}, pure=True): Task(name, op, ref, other')
                                                                        `X.binop nm o d other`
other <op> d   (other no Delayed) Delayed.__rop__ = _get_binary_operator(op, inv=True): `delayed(right(op), pure=True)`
                                  with right(op) = functools.partial(_swap, op), `_swap(method, self, other) =
                                  method(other, self)`: Task(name, partial(_swap, op), ref d, other')
                                                                        `X.rbinop nm o other d`
-d, +d, abs(d), ~d                _get_unary_operator = _get_binary_operator: Task(name, op, ref)
                                                                        `X.unop nm o d`
d[i]                              operator.getitem is one of the bound binary operators (no reflected form)
                                                                        `X.getitem nm d i`
d.attr                            Delayed.__getattr__ -> DelayedAttr(d, attr): key `getattr-tokenize(d, attr, pure=True)`,
                                  graph `{key: (getattr, d.key, attr)}` (a legacy tuple task) + dependencies=[d]
                                                                        `X.getattr nm d attr`
d.meth(*args, pure=p)             DelayedAttr.__call__ -> call_function(methodcaller(meth), meth, (d,) + args, kwargs):
                                  Task(name, methodcaller(meth), ref d, args'…); the DelayedAttr itself is NOT a dependency
                                                                        `X.method nm p d meth args`
name of the result (call_function): dask_key_name if given, else `funcname(func)-tokenize(func_token, *args, pure=pure,
                                  **kwargs)` — `_tokenize` if pure (argument or config), else uuid4
                                                                        `callName`; `opKey / attrKey / methodKey` (pure names)

Every node carries its key `nm` (the harness interns the real keys); which keys coincide is the subject of the key
rules (`opKey …`, symbolic form `skey`).  Keyword arguments are covered by Model/DelayedUnpack (`callArgs`); calling a
Delayed value (`Delayed.__call__` -> `apply`) is not modelled.  Import-free apart from the models named above.
-/
namespace Dask.DelayedOps
open Dask.Delayed

/-- the callable of a task (`Task.func`, or the head of the legacy tuple) -/
inductive Callable where
  | fn (f : Nat)          -- the function wrapped by `delayed(f)`
  | binop (o : Nat)       -- `operator.<o>`
  | rbinop (o : Nat)      -- `functools.partial(_swap, operator.<o>)`
  | unop (o : Nat)        -- `operator.<o>` (one operand)
  | getitem               -- `operator.getitem`
  | getattr               -- the builtin `getattr`
  | method (m : Nat)      -- `dask.utils.methodcaller(<m>)`
  deriving DecidableEq, Repr, Inhabited

mutual
inductive X where
  | leaf (nm : Nat) (v : Nat)
  | call (nm : Nat) (pure : Bool) (f : Nat) (args : List XA)
  | binop (nm : Nat) (o : Nat) (l : X) (r : XA)
  | rbinop (nm : Nat) (o : Nat) (l : XA) (r : X)
  | unop (nm : Nat) (o : Nat) (x : X)
  | getitem (nm : Nat) (x : X) (i : XA)
  | getattr (nm : Nat) (x : X) (attr : Nat)
  | method (nm : Nat) (pure : Bool) (x : X) (m : Nat) (args : List XA)
inductive XA where
  | lit (v : Nat)
  | sub (e : X)
  | list (xs : List XA)
  | tuple (xs : List XA)
  | dict (kvs : List (XA × XA))
end

def X.nm : X → Nat
  | .leaf nm _ => nm
  | .call nm _ _ _ => nm
  | .binop nm _ _ _ => nm
  | .rbinop nm _ _ _ => nm
  | .unop nm _ _ => nm
  | .getitem nm _ _ => nm
  | .getattr nm _ _ => nm
  | .method nm _ _ _ _ => nm

/-- the value algebra: functions, operators, item / attribute access and methods are opaque -/
structure XSem (V : Type) where
  lit : Nat → V
  app : Nat → List V → V
  binop : Nat → V → V → V
  unop : Nat → V → V
  getitem : V → V → V
  /-- `getattr(obj, name)`: the name is a value (a str) -/
  getattr : V → V → V
  /-- `getattr(obj, m)(*args)` -/
  method : Nat → V → List V → V
  mkList : List V → V
  mkTuple : List V → V
  mkDict : List (V × V) → V

section
variable {V : Type} (S : XSem V)

mutual
/-- the same program run eagerly -/
def evalX : X → V
  | .leaf _ v => S.lit v
  | .call _ _ f args => S.app f (evalXL args)
  | .binop _ o l r => S.binop o (evalX l) (evalXA r)
  | .rbinop _ o l r => S.binop o (evalXA l) (evalX r)
  | .unop _ o x => S.unop o (evalX x)
  | .getitem _ x i => S.getitem (evalX x) (evalXA i)
  | .getattr _ x a => S.getattr (evalX x) (S.lit a)
  | .method _ _ x m args => S.method m (evalX x) (evalXL args)
def evalXA : XA → V
  | .lit v => S.lit v
  | .sub e => evalX e
  | .list xs => S.mkList (evalXL xs)
  | .tuple xs => S.mkTuple (evalXL xs)
  | .dict kvs => S.mkDict (evalXP kvs)
def evalXL : List XA → List V
  | [] => []
  | a :: as => evalXA a :: evalXL as
def evalXP : List (XA × XA) → List (V × V)
  | [] => []
  | (k, v) :: r => (evalXA k, evalXA v) :: evalXP r
end

/-- what a callable does with the values of the task's arguments (`Task.__call__`: `func(*args)`).
    The last line is never reached from `lower` (it fixes the arities); Python would raise TypeError there. -/
def applyC : Callable → List V → V
  | .fn f, vs => S.app f vs
  | .binop o, [a, b] => S.binop o a b
  | .rbinop o, [a, b] => S.binop o b a          -- `_swap(op, self, other) = op(other, self)`
  | .unop o, [a] => S.unop o a
  | .getitem, [a, i] => S.getitem a i
  | .getattr, [a, n] => S.getattr a n
  | .method m, a :: vs => S.method m a vs      -- `methodcaller.__call__(obj, *args) = getattr(obj, m)(*args)`
  | _, _ => S.lit 0
end

/-- callables as function numbers of the core model -/
def code : Callable → Nat
  | .fn f => 7 * f
  | .binop o => 7 * o + 1
  | .rbinop o => 7 * o + 2
  | .unop o => 7 * o + 3
  | .getitem => 4
  | .getattr => 5
  | .method m => 7 * m + 6

def decode (n : Nat) : Callable :=
  if n % 7 = 0 then .fn (n / 7)
  else if n % 7 = 1 then .binop (n / 7)
  else if n % 7 = 2 then .rbinop (n / 7)
  else if n % 7 = 3 then .unop (n / 7)
  else if n % 7 = 4 then .getitem
  else if n % 7 = 5 then .getattr
  else .method (n / 7)

/-- the value algebra of the core model in which function number `n` is the callable `decode n` -/
def toSem {V : Type} (S : XSem V) : Sem V where
  lit := S.lit
  app := fun n vs => applyC S (decode n) vs
  mkList := S.mkList
  mkTuple := S.mkTuple
  mkDict := S.mkDict

mutual
/-- the translation the code performs: every operation is one `call_function` task (for `d.attr`: the one-entry
    layer of `DelayedAttr.dask`) whose arguments are the operands -/
def lower : X → E
  | .leaf nm v => .leaf nm v
  | .call nm _ f args => .call nm (code (.fn f)) (lowerL args)
  | .binop nm o l r => .call nm (code (.binop o)) [.sub (lower l), lowerA r]
  | .rbinop nm o l r => .call nm (code (.rbinop o)) [.sub (lower r), lowerA l]
  | .unop nm o x => .call nm (code (.unop o)) [.sub (lower x)]
  | .getitem nm x i => .call nm (code .getitem) [.sub (lower x), lowerA i]
  | .getattr nm x a => .call nm (code .getattr) [.sub (lower x), .lit a]
  | .method nm _ x m args => .call nm (code (.method m)) (.sub (lower x) :: lowerL args)
def lowerA : XA → Arg
  | .lit v => .lit v
  | .sub e => .sub (lower e)
  | .list xs => .list (lowerL xs)
  | .tuple xs => .tuple (lowerL xs)
  | .dict kvs => .dict (lowerP kvs)
def lowerL : List XA → List Arg
  | [] => []
  | a :: as => lowerA a :: lowerL as
def lowerP : List (XA × XA) → List (Arg × Arg)
  | [] => []
  | (k, v) :: r => (lowerA k, lowerA v) :: lowerP r
end

/-- the graph of a Delayed value built with operators / item / attribute access / methods -/
def graphOfX {V : Type} [Inhabited V] (S : XSem V) (e : X) : Dask.GraphMerge.Graph Nat V := graphOf (toSem S) (lower e)

mutual
/-- all Delayed values of the program, the value itself first -/
def subX : X → List X
  | .leaf nm v => [.leaf nm v]
  | .call nm p f args => .call nm p f args :: subXL args
  | .binop nm o l r => .binop nm o l r :: (subX l ++ subXA r)
  | .rbinop nm o l r => .rbinop nm o l r :: (subX r ++ subXA l)
  | .unop nm o x => .unop nm o x :: subX x
  | .getitem nm x i => .getitem nm x i :: (subX x ++ subXA i)
  | .getattr nm x a => .getattr nm x a :: subX x
  | .method nm p x m args => .method nm p x m args :: (subX x ++ subXL args)
def subXA : XA → List X
  | .lit _ => []
  | .sub e => subX e
  | .list xs => subXL xs
  | .tuple xs => subXL xs
  | .dict kvs => subXP kvs
def subXL : List XA → List X
  | [] => []
  | a :: as => subXA a ++ subXL as
def subXP : List (XA × XA) → List X
  | [] => []
  | (k, v) :: r => subXA k ++ subXA v ++ subXP r
end

/-! ## the task in the real graph -/

open Dask.DelayedUnpack in
mutual
/-- an argument as `unpack_collections` sees it: a Delayed is its key -/
def toPV : XA → PV
  | .lit v => .lit v
  | .sub e => .del e.nm
  | .list xs => .cont .list (toPVL xs)
  | .tuple xs => .cont .tuple (toPVL xs)
  | .dict kvs => .dict (toPVP kvs)
def toPVL : List XA → List PV
  | [] => []
  | a :: as => toPV a :: toPVL as
def toPVP : List (XA × XA) → List (PV × PV)
  | [] => []
  | (k, v) :: r => (toPV k, toPV v) :: toPVP r
end

/-- what the graph holds under the key of an operation -/
structure Shape where
  /-- a legacy tuple task `(func, arg…)` (DelayedAttr) instead of a `Task` -/
  legacy : Bool
  callable : Callable
  args : List Dask.DelayedUnpack.TT
  /-- the collections handed to `HighLevelGraph.from_collections(…, dependencies=…)`, by key -/
  deps : List Nat
  deriving Inhabited

open Dask.DelayedUnpack in
/-- `call_function(func, …, args, {})`: `Task(name, func, *args2)` with every argument unpacked on its own -/
def callShape (c : Callable) (args : List PV) : Shape :=
  let r := callArgs args []
  ⟨false, c, r.1, r.2.2⟩

/-- the callable of the node's task -/
def callableOf : X → Callable
  | .leaf _ _ => .fn 0
  | .call _ _ f _ => .fn f
  | .binop _ o _ _ => .binop o
  | .rbinop _ o _ _ => .rbinop o
  | .unop _ o _ => .unop o
  | .getitem _ _ _ => .getitem
  | .getattr _ _ _ => .getattr
  | .method _ _ _ m _ => .method m

/-- the operands of the node's task, in the order of the task's arguments -/
def argsOf : X → List XA
  | .leaf _ _ => []
  | .call _ _ _ args => args
  | .binop _ _ l r => [.sub l, r]
  | .rbinop _ _ l r => [.sub r, l]          -- `method(self, other)`: the Delayed comes first, `_swap` turns them round
  | .unop _ _ x => [.sub x]
  | .getitem _ x i => [.sub x, i]
  | .getattr _ x a => [.sub x, .lit a]
  | .method _ _ x _ args => .sub x :: args

def isLeaf : X → Bool
  | .leaf _ _ => true
  | _ => false

/-- `DelayedAttr.dask` holds a legacy tuple `(getattr, key, attr)`; everything else is a `Task` -/
def isLegacy : X → Bool
  | .getattr _ _ _ => true
  | _ => false

/-- the task of a node (`none`: a leaf holds a DataNode).  For `d.attr` the tuple `(getattr, d.key, attr)` with
    `dependencies=[d]` is what `callShape` gives for the operands `(d, attr)`: `[ref d.key, attr]`, `[d.key]`. -/
def shapeOf (e : X) : Option Shape :=
  if isLeaf e then none
  else some { callShape (callableOf e) (toPVL (argsOf e)) with legacy := isLegacy e }

/-! ## key rules -/

open Dask.NF

/-- `call_function`: the key of the new Delayed.  `tok` = `_tokenize(func_token, *args, **kwargs)`, `uuid` = `str(uuid4())` -/
def callName (daskKeyName : Option String) (pure : Bool) (funcname tok uuid : String) : String :=
  match daskKeyName with
  | some n => n
  | none => funcname ++ "-" ++ (if pure then tok else uuid)

/-- the purity `call_function` works with: `pure = kwargs.pop("pure", pure)` (the argument of the call, else what the
    DelayedLeaf was built with; a method call passes nothing), and `tokenize(…, pure=None)` falls back on the
    configuration `delayed_pure` -/
def effPure (callPure leafPure : Option Bool) (cfg : Bool) : Bool :=
  match callPure with
  | some p => p
  | none =>
    match leafPure with
    | some p => p
    | none => cfg

/-- what a Delayed operand contributes to a token: `Delayed.__dask_tokenize__` is its key (a str) -/
def delTok (key : String) : Val := .str key

/-- key of `d <op> other` (prefix, token): `delayed(op, pure=True)` is a DelayedLeaf with key `leafKey`
    (`<name>-tokenize(op, None)`), calling it gives `funcname(op)-tokenize(leafKey, *operands)`.  The token is kept as
    the value whose `str` is hashed (as `C15.pureKey`). -/
def opKey (funcname leafKey : String) (operands : List Val) : String × Val :=
  (funcname, .digest (tokNFKw (.str leafKey :: operands) []))

/-- key of `d.attr` (DelayedAttr.__init__): `getattr-tokenize(d, attr, pure=True)` -/
def attrKey (objKey attr : String) : String × Val :=
  ("getattr", .digest (tokNFKw [delTok objKey, .str attr] []))

/-- `funcname(methodcaller(m))` = `m[:50]` -/
def methodPrefix (m : String) : String := String.ofList (m.toList.take 50)

/-- key of `d.m(*args, pure=True, **kwargs)`: `call_function(methodcaller(m), m, (d,) + args, kwargs)` gives
    `m[:50]-tokenize(m, d, *args, **kwargs)` -/
def methodKey (m objKey : String) (args : List Val) (kwargs : List (String × Val)) : String × Val :=
  (methodPrefix m, .digest (tokNFKw (.str m :: delTok objKey :: args) kwargs))

/-! ### symbolic keys of whole programs

A key is either given from outside (the uuid4 of an impure call, `dask_key_name`, `name=`, the key of a leaf: the
node's own `nm`) or the pure name `prefix-tokenize(head, *operand tokens)`, a Delayed operand contributing its key. -/

mutual
inductive SK where
  | given (nm : Nat)
  | pure (c : Callable) (args : List SA)
inductive SA where
  | lit (v : Nat)
  | key (k : SK)
  | list (xs : List SA)
  | tuple (xs : List SA)
  | dict (kvs : List (SA × SA))
end

mutual
def skey : X → SK
  | .leaf nm _ => .given nm
  | .call nm p f args => if p then .pure (.fn f) (skeyL args) else .given nm
  | .binop _ o l r => .pure (.binop o) [.key (skey l), skeyA r]
  | .rbinop _ o l r => .pure (.rbinop o) [.key (skey r), skeyA l]
  | .unop _ o x => .pure (.unop o) [.key (skey x)]
  | .getitem _ x i => .pure .getitem [.key (skey x), skeyA i]
  | .getattr _ x a => .pure .getattr [.key (skey x), .lit a]
  | .method nm p x m args => if p then .pure (.method m) (.key (skey x) :: skeyL args) else .given nm
def skeyA : XA → SA
  | .lit v => .lit v
  | .sub e => .key (skey e)
  | .list xs => .list (skeyL xs)
  | .tuple xs => .tuple (skeyL xs)
  | .dict kvs => .dict (skeyP kvs)
def skeyL : List XA → List SA
  | [] => []
  | a :: as => skeyA a :: skeyL as
def skeyP : List (XA × XA) → List (SA × SA)
  | [] => []
  | (k, v) :: r => (skeyA k, skeyA v) :: skeyP r
end

end Dask.DelayedOps
