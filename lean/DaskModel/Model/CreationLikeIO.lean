import DaskModel.DriverLib
import DaskModel.Model.CreationLike
/-
Line-protocol handler of the C34 extension round (`*_like` argument resolution); appended to the table of
`Drivers/chunks.lean`.  Spec/Top syntax as in that driver: spec = `5` | `none` | `auto` | `(f 5)` | `(bytes 1024)` |
`(t 3 2 1)`; top = `(scalar spec)` | `(dict (k spec)…)` | `(seq spec…)`.
-/
namespace Dask.CreationLike
open Dask Dask.Chunks

def decSpec' : SExp → Option Spec
  | .int i => some (.int i)
  | .sym "none" => some .none
  | .sym "auto" => some .auto
  | .list [.sym "f", i] => do pure (.flt (← i.toInt?))
  | .list [.sym "bytes", n] => do pure (.bytes (← n.toNat?))
  | .list (.sym "t" :: xs) => do pure (.tup (← xs.mapM SExp.toInt?))
  | _ => none

def decTop' : SExp → Option Top
  | .list [.sym "scalar", s] => do pure (.scalar (← decSpec' s))
  | .list (.sym "dict" :: kvs) => do
    let kv ← kvs.mapM (fun e => match e with
      | .list [k, v] => do pure ((← k.toNat?), (← decSpec' v))
      | _ => none)
    pure (.dict kv)
  | .list (.sym "seq" :: cs) => do pure (.seq (← cs.mapM decSpec'))
  | _ => none

def encSpec' : Spec → SExp
  | .int i => .int i
  | .flt i => .list [.sym "f", .int i]
  | .none => .sym "none"
  | .auto => .sym "auto"
  | .bytes n => .list [.sym "bytes", .int n]
  | .tup t => .list (.sym "t" :: t.map SExp.int)

def encTop' : Top → SExp
  | .scalar s => .list [.sym "scalar", encSpec' s]
  | .dict kv => .list (.sym "dict" :: kv.map (fun (k, v) => .list [.int k, encSpec' v]))
  | .seq cs => .list (.sym "seq" :: cs.map encSpec')

def encErr' : Err → SExp
  | .value => .list [.sym "raised", .sym "ValueError"]
  | .zeroDiv => .list [.sym "raised", .sym "ZeroDivisionError"]
  | .auto => .list [.sym "raised", .sym "auto"]
  | .unsupported => .list [.sym "unsupported"]

/-- `(like_args (ashape…) ((achunks…)…) chunks shape limit autores)` with `chunks` = `none` | top, `shape` = `none` |
    `(s…)`, `autores` = `none` | `(some spec…)` ↦ `((shape…) top result)`: the pair returned by
    `_get_like_function_shapes_chunks` and `normalize_chunks` of it (`(ok ((c…)…))` | `(raised …)` | `(unsupported)`) -/
def hLikeArgs : Handler := handler fun args =>
  match args with
  | [ash, ach, ch, sh, limit, ar] => do
    let ash ← ash.toNats?
    let ach ← ach.toNatss?
    let ch ← match ch with
      | .sym "none" => some none
      | e => do pure (some (← decTop' e))
    let sh ← match sh with
      | .sym "none" => some none
      | e => do pure (some (← e.toNats?))
    let limit ← limit.toOptInt?
    let ar ← match ar with
      | .sym "none" => some none
      | .list (.sym "some" :: cs) => do pure (some (← cs.mapM decSpec'))
      | _ => none
    let a := likeArgs ash ach ch sh
    let r := match likeChunks ash ach ch sh (limit.map Int.toNat) ar with
      | .ok r => SExp.list [.sym "ok", .list (r.map SExp.ofInts)]
      | .error e => encErr' e
    pure (.list [SExp.ofNats a.1, encTop' a.2, r])
  | _ => none

def handlers : List (String × Handler) := [("like_args", hLikeArgs)]

end Dask.CreationLike
