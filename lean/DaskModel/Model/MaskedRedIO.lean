import DaskModel.DriverLib
import DaskModel.Model.MaskedRed
/-
Line-protocol handlers of the C33 extension round (masked reductions at the level of the partial results); appended to the
table of `Drivers/reduce.lean`.  An element / a partial is `(data mask)`; `data` is an int, or `true|false` for any / all
partials; a block is `(nomask (elem…))`.
-/
namespace Dask.MaskedRedIO
open Dask Dask.MaskedRed Dask.ArrayReduce

def toMI? : SExp → Option (Masked Int)
  | .list [.int d, m] => do pure ⟨d, ← m.toBool?⟩
  | _ => none
def toMB? : SExp → Option (Masked Bool)
  | .list [.sym "true", m] => do pure ⟨true, ← m.toBool?⟩
  | .list [.sym "false", m] => do pure ⟨false, ← m.toBool?⟩
  | _ => none
def toMIs? (e : SExp) : Option (List (Masked Int)) := do (← e.toList?).mapM toMI?
def toMBs? (e : SExp) : Option (List (Masked Bool)) := do (← e.toList?).mapM toMB?
def toBlock? : SExp → Option (MBlock Int)
  | .list [nm, xs] => do pure ⟨← nm.toBool?, ← toMIs? xs⟩
  | _ => none
def toBlocks? (e : SExp) : Option (List (MBlock Int)) := do (← e.toList?).mapM toBlock?

def ofMI (x : Masked Int) : SExp := .list [.int x.data, SExp.ofBool x.mask]
def ofMB (x : Masked Bool) : SExp := .list [SExp.ofBool x.data, SExp.ofBool x.mask]
def ofOptI : Option Int → SExp
  | none => .sym "m"
  | some i => .int i
def toOptI? : SExp → Option (Option Int)
  | .sym "m" => some none
  | .int i => some (some i)
  | _ => none
def ofRat (r : Rat) : SExp := .list [.int r.num, .int r.den]

/-- `(machunk sum|prod|any|all nomask (elem…))` ↦ the partial `(data mask)` of one block -/
def hChunk : Handler := handler fun args =>
  match args with
  | [.sym op, nm, xs] => do
    let nm ← nm.toBool?
    let xs ← toMIs? xs
    match op with
    | "sum" => pure (ofMI (maChunk nm (· + ·) 0 xs))
    | "prod" => pure (ofMI (maChunk nm (· * ·) 1 xs))
    | "any" => pure (ofMB (maChunk nm (· || ·) false (xs.map truth)))
    | "all" => pure (ofMB (maChunk nm (· && ·) true (xs.map truth)))
    | _ => none
  | _ => none

/-- `(macomb sum|prod|any|all (partial…))` ↦ combine / aggregate of concatenated partials -/
def hComb : Handler := handler fun args =>
  match args with
  | [.sym op, ps] =>
    match op with
    | "sum" => do pure (ofMI (maRed (· + ·) 0 (← toMIs? ps)))
    | "prod" => do pure (ofMI (maRed (· * ·) 1 (← toMIs? ps)))
    | "any" => do pure (ofMB (maRed (· || ·) false (← toMBs? ps)))
    | "all" => do pure (ofMB (maRed (· && ·) true (← toMBs? ps)))
    | _ => none
  | _ => none

/-- `(matree op k depth ((nomask (elem…))…))` ↦ the list of blocks the whole tree returns -/
def hTree : Handler := handler fun args =>
  match args with
  | [.sym op, k, d, bs] => do
    let k ← k.toNat?
    let d ← d.toNat?
    let bs ← toBlocks? bs
    let tb : List (MBlock Bool) := bs.map fun b => ⟨b.nomask, b.elems.map truth⟩
    match op with
    | "sum" => pure (.list ((maTree (· + ·) 0 k d bs).map ofMI))
    | "prod" => pure (.list ((maTree (· * ·) 1 k d bs).map ofMI))
    | "any" => pure (.list ((maTree (· || ·) false k d tb).map ofMB))
    | "all" => pure (.list ((maTree (· && ·) true k d tb).map ofMB))
    | _ => none
  | _ => none

def ofMeanP (p : Masked Int × Masked Int) : SExp := .list [ofMI p.1, ofMI p.2]
def toMeanP? : SExp → Option (Masked Int × Masked Int)
  | .list [t, n] => do pure (← toMI? t, ← toMI? n)
  | _ => none

/-- `(mameanchunk nomask (elem…))`, `(mameancomb (((t tm) (n nm))…))`, `(mameantree k depth (block…))` -/
def hMeanChunk : Handler := handler fun args =>
  match args with
  | [nm, xs] => do pure (ofMeanP (maMeanChunk (← nm.toBool?) (← toMIs? xs)))
  | _ => none
def hMeanComb : Handler := handler fun args =>
  match args with
  | [ps] => do pure (ofMeanP (maMeanComb (← (← ps.toList?).mapM toMeanP?)))
  | _ => none
def hMeanTree : Handler := handler fun args =>
  match args with
  | [k, d, bs] => do pure (.list ((maMeanTree (← k.toNat?) (← d.toNat?) (← toBlocks? bs)).map ofMeanP))
  | _ => none

/-- `(maminmax min|max (elem…))` ↦ `m` | value: `chunk_min` / `chunk_max` of one block with the payload forgotten;
    `(maminmaxcomb min|max (m|int…))` ↦ the same on concatenated partials -/
def hMinMax : Handler := handler fun args =>
  match args with
  | [.sym "min", xs] => do pure (ofOptI (Dask.Masked.mfold min (toM (← toMIs? xs))))
  | [.sym "max", xs] => do pure (ofOptI (Dask.Masked.mfold max (toM (← toMIs? xs))))
  | _ => none
def hMinMaxComb : Handler := handler fun args =>
  match args with
  | [.sym "min", ps] => do pure (ofOptI (Dask.Masked.mfold min (← (← ps.toList?).mapM toOptI?)))
  | [.sym "max", ps] => do pure (ofOptI (Dask.Masked.mfold max (← (← ps.toList?).mapM toOptI?)))
  | _ => none

/-- `(macount (elem…))` ↦ `np.ma.count` of one block -/
def hCount : Handler := handler fun args =>
  match args with
  | [xs] => do pure (.int (Dask.Masked.countUnmasked (toM (← toMIs? xs))))
  | _ => none

/-- `(mamomchunk (elem…))` ↦ `(n total M2)`: `moment_chunk` of a masked block = `momChunk` of its unmasked values -/
def hMomChunk : Handler := handler fun args =>
  match args with
  | [xs] => do
    let p := Dask.Moment.momChunk (unmaskedRat (← toMIs? xs))
    pure (.list [.int p.n, ofRat p.total, ofRat p.m2])
  | _ => none

def toMArr? (d m : SExp) : Option MArr := do
  let d ← d.toInts?
  match m with
  | .sym "nomask" => pure ⟨d, none⟩
  | m => pure ⟨d, some (← (← m.toList?).mapM SExp.toBool?)⟩

def ofBools (xs : List Bool) : SExp := .list (xs.map SExp.ofBool)

/-- `(maarr getmaskarray|getdata|filled v (chunks…) (data…) nomask|(mask…))` ↦ `((per block…) whole)` -/
def hArr : Handler := handler fun args =>
  match args with
  | [.sym fn, v, chunks, d, m] => do
    let v ← v.toInt?
    let chunks ← chunks.toNats?
    let a ← toMArr? d m
    let bs := a.blocks chunks
    match fn with
    | "getmaskarray" => pure (.list [.list (bs.map fun b => ofBools b.getmaskarray), ofBools a.getmaskarray])
    | "getdata" => pure (.list [.list (bs.map fun b => SExp.ofInts b.getdata), SExp.ofInts a.getdata])
    | "filled" => pure (.list [.list (bs.map fun b => SExp.ofInts (b.filled v)), SExp.ofInts (a.filled v)])
    | "blocks" => pure (.list [.list (bs.map fun b => .list [SExp.ofBool b.toBlock.nomask, .list (b.toBlock.elems.map ofMI)]),
        .list [SExp.ofBool a.toBlock.nomask, .list (a.toBlock.elems.map ofMI)]])
    | _ => none
  | _ => none

/-- `(maavg k depth ((w…)…) ((elem…)…))` ↦ `((num mask) den)`: the numerator tree (masked sum of `a * wgt`) and the
    denominator tree (plain sum of `w * ~mask`) of `da.ma.average(a, weights=w)` over aligned blocks -/
def hAvg : Handler := handler fun args =>
  match args with
  | [k, d, wss, bs] => do
    let k ← k.toNat?
    let d ← d.toNat?
    let wss ← wss.toIntss?
    let bs ← (← bs.toList?).mapM toMIs?
    let prods := List.zipWith wprod wss bs
    let num := maTree (· + ·) 0 k d (prods.map shrunk)
    let den := treeReduce isum isum k d ((List.zipWith wgtMasked wss bs).map isum)
    pure (.list [.list (num.map ofMI), SExp.ofInts den, .list (prods.map fun b => SExp.ofBool (shrunk b).nomask)])
  | _ => none

def handlers : List (String × Handler) := [
  ("maavg", hAvg),
  ("machunk", hChunk), ("macomb", hComb), ("matree", hTree),
  ("mameanchunk", hMeanChunk), ("mameancomb", hMeanComb), ("mameantree", hMeanTree),
  ("maminmax", hMinMax), ("maminmaxcomb", hMinMaxComb), ("macount", hCount), ("mamomchunk", hMomChunk),
  ("maarr", hArr)]

end Dask.MaskedRedIO
