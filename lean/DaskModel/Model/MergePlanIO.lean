import DaskModel.DriverLib
import DaskModel.Model.MergePlan
/-! Driver handler of the C39 plan model (kept out of `Drivers/dfpart.lean`). Import-free of Mathlib. -/
namespace Dask.MergePlan
open Dask

def how? : String → Option How
  | "inner" => some .inner | "left" => some .left | "right" => some .right | "outer" => some .outer
  | "leftsemi" => some .leftsemi | _ => none

def optBool? : SExp → Option (Option Bool)
  | .sym "none" => some none
  | e => e.toBool?.map some

def optNat? : SExp → Option (Option Nat)
  | .sym "none" => some none
  | e => e.toNat?.map some

/-- `(merge-plan nl nr how broadcast idxL idxR leftIndex rightIndex npartitions lPart rPart)` ↦ `(single)` | `(aligned)` |
    `(broadcast leftSide split repart|none)` | `(hash shuffleLeft shuffleRight n)` -/
def hMergePlan : Handler := handler fun
  | [nl, nr, .sym how, b, il, ir, li, ri, np, lp, rp] => do
    let x : In := { nl := ← nl.toNat?, nr := ← nr.toNat?, how := ← how? how, broadcast := ← optBool? b,
                    idxL := ← il.toBool?, idxR := ← ir.toBool?, leftIndex := ← li.toBool?, rightIndex := ← ri.toBool?,
                    npartitions := ← optNat? np, lPart := ← lp.toBool?, rPart := ← rp.toBool? }
    pure (match lower x with
      | .single => .list [.sym "single"]
      | .aligned => .list [.sym "aligned"]
      | .broadcast l s r => .list [.sym "broadcast", SExp.ofBool l, SExp.ofBool s, SExp.ofOptNat r]
      | .hash a b n => .list [.sym "hash", SExp.ofBool a, SExp.ofBool b, SExp.ofNat n])
  | _ => none

def handlers : List (String × Handler) := [("merge-plan", hMergePlan)]

end Dask.MergePlan
