/-
`dask.bag.core.lazify_task` / `lazify` (bag `optimize` = cull + fuse_linear_task_spec + lazify) on task-spec graphs,
after the repairs bdc6129 (a key read several times keeps its list), 1cdddb0 (alias outputs), … .

Python                                                   Lean
------                                                   ----
`TaskRef(k)`, `DataNode`, `Alias(key, target)`           `Node.ref k`, `Node.data`, `Node.alias target`
`List(*args)` (a `Task` subclass)                        `Node.lst args`
`Task(key, func, *args)`                                 `Node.call head args`, `head` ∈ reify (`list`/`reify`) | ident
                                                         (`ProhibitReuse._identity`) | lazy (`map_chunk`, `filter`, … : returns
                                                         a one-shot iterator) | other
`Task(key, _execute_subgraph, inner, outkey, inkeys, *TaskRef(dep))`   `Node.sub inner out deps` (`inner` in dict order)
`_count_references`                                      `refsNode` / `refsInner` (with multiplicity)
the `keep` set (output, keys read more than once, closed under alias targets)   `keepSet`
`lazify_task(task, start)`                               `lazify cfg start node`; `cfg` switches the three repairs on/off so
                                                         that the ORIGINAL code is `lazify Cfg.orig`
Import-free (linked into the native driver).
-/
namespace Dask.BagLazify

inductive Head
  | reify | ident | lazy | other
  deriving DecidableEq, Repr

inductive Node
  | ref (k : Nat)
  | data
  | alias (k : Nat)
  | lst (args : List Node)
  | call (h : Head) (args : List Node)
  | sub (inner : List (Nat × Node)) (out : Nat) (deps : List Nat)
  deriving Repr

/-- which repairs are present -/
structure Cfg where
  multi : Bool      -- bdc6129: an inner key read more than once keeps its list
  aliasOut : Bool   -- 1cdddb0: the inner key the output aliases keeps its list
  aliasAll : Bool   -- alias targets of every kept key (closure)
  ident : Bool      -- identity wrappers of copied graphs are transparent
  deriving Repr

def Cfg.orig : Cfg := ⟨false, false, false, false⟩
def Cfg.fixed : Cfg := ⟨true, true, true, true⟩

mutual
/-- `_count_references`: how often key `k` is referred to inside a node -/
def refsNode (k : Nat) : Node → Nat
  | .ref k' => if k' = k then 1 else 0
  | .data => 0
  | .alias k' => if k' = k then 1 else 0
  | .lst args => refsList k args
  | .call _ args => refsList k args
  | .sub inner _ deps => refsInner k inner + deps.count k
def refsList (k : Nat) : List Node → Nat
  | [] => 0
  | a :: as => refsNode k a + refsList k as
def refsInner (k : Nat) : List (Nat × Node) → Nat
  | [] => 0
  | (_, a) :: as => refsNode k a + refsInner k as
end

def lookup (inner : List (Nat × Node)) (k : Nat) : Option Node := (inner.find? (·.1 == k)).map (·.2)

/-- the key an `Alias` refers to, seen through identity wrappers when `through` -/
def aliasTarget (through : Bool) : Node → Option Nat
  | .alias t => some t
  | .call .ident [a] => if through then aliasTarget through a else none
  | _ => none

/-- close a set of keys under "alias target" (`fuel` = number of inner keys: every round adds one or stops) -/
def closeAliases (through : Bool) (inner : List (Nat × Node)) : Nat → List Nat → List Nat
  | 0, keep => keep
  | fuel + 1, keep =>
    let new := (keep.filterMap fun k => (lookup inner k).bind (aliasTarget through)).filter fun t => !keep.contains t
    if new.isEmpty then keep else closeAliases through inner fuel (keep ++ new.eraseDups)

/-- follow the alias chain of the output only (repair 1cdddb0 alone) -/
def outChain (through : Bool) (inner : List (Nat × Node)) : Nat → List Nat → Nat → List Nat
  | 0, acc, _ => acc
  | fuel + 1, acc, target =>
    match (lookup inner target).bind (aliasTarget through) with
    | some t => if acc.contains t then acc else outChain through inner fuel (t :: acc) t
    | none => acc

/-- the inner keys that keep their `list` / `reify` -/
def keepSet (cfg : Cfg) (inner : List (Nat × Node)) (out : Nat) : List Nat :=
  let multi := if cfg.multi then (inner.map (·.1)).filter fun k => 1 < refsInner k inner else []
  if cfg.aliasAll then closeAliases cfg.ident inner inner.length (out :: multi)
  else if cfg.aliasOut then outChain cfg.ident inner inner.length [out] out ++ multi
  else out :: multi

mutual
/-- `lazify_task(task, start)` -/
def lazify (cfg : Cfg) (start : Bool) : Node → Node
  | .ref k => .ref k
  | .data => .data
  | .alias k => .alias k
  | .lst args => .lst (lazifyList cfg args)
  | .call .ident [a] => if cfg.ident then .call .ident [lazify cfg start a] else .call .ident [lazify cfg false a]
  -- `list`/`reify` of a task in a nested position is stripped; the task under it is rebuilt with its arguments
  -- lazified (its own head is not looked at again) or, if it is a fused task, goes through the subgraph branch
  | .call .reify [.call h args] =>
    if start then .call .reify [lazify cfg false (.call h args)] else .call h (lazifyList cfg args)
  | .call .reify [.lst args] => if start then .call .reify [.lst (lazifyList cfg args)] else .lst (lazifyList cfg args)
  | .call .reify [.sub inner out deps] =>
    let s := Node.sub (lazifyRest cfg (keepSet cfg inner out) out inner ++ lazifyOut cfg out inner) out deps
    if start then .call .reify [s] else s
  | .call h args => .call h (lazifyList cfg args)
  -- the `_execute_subgraph` branch
  | .sub inner out deps => .sub (lazifyRest cfg (keepSet cfg inner out) out inner ++ lazifyOut cfg out inner) out deps
def lazifyList (cfg : Cfg) : List Node → List Node
  | [] => []
  | a :: as => lazify cfg false a :: lazifyList cfg as
/-- every inner key but the output, in dict order; `keep` = the keys that keep their list -/
def lazifyRest (cfg : Cfg) (keep : List Nat) (out : Nat) : List (Nat × Node) → List (Nat × Node)
  | [] => []
  | (k, v) :: rest =>
    if k = out then lazifyRest cfg keep out rest
    else (k, lazify cfg (keep.contains k) v) :: lazifyRest cfg keep out rest
/-- the output key, lazified as a top-level task, re-inserted last -/
def lazifyOut (cfg : Cfg) (out : Nat) : List (Nat × Node) → List (Nat × Node)
  | [] => []
  | (k, v) :: rest => if k = out then [(k, lazify cfg true v)] else lazifyOut cfg out rest
end

/-- `lazify(dsk) = valmap(lazify_task, dsk)` -/
def lazifyGraph (cfg : Cfg) (dsk : List (Nat × Node)) : List (Nat × Node) := dsk.map fun kv => (kv.1, lazify cfg true kv.2)

end Dask.BagLazify
