import DaskModel.Generated.RewriteTables
/-
K12 `Match`: `dask/rewrite.py`, transliterated (the code after the two `fix:` commits 2ab889a, 88a2bf8; the
pre-fix behaviour is kept in `matchLoopOld` / `iterMatchesOld` / `applySeq` for the refutation witnesses).

Python                                   Lean
------                                   ----
task `(f, a1, …, an)` (callable head)    `Term.app f [a1, …, an]`
list `[a1, …, an]`                       `Term.lst [a1, …, an]`    (its `head` is the builtin `list` = `Sym.fn 0`)
anything else                            `Term.atom s`             (`Sym.const n` data, or `Sym.fn n`: a bare callable)
`head`, `args`                           `Term.head`, `Term.args`
`Traverser` (`term`, `_stack` with the   `Trav = List Term`: the current term followed by the stack (top first);
 `END` sentinel at the bottom)           `[]` = the traverser is at `END` (stack empty). `next`/`skip` return `none`
                                         where Python raises `IndexError: pop from an empty deque`.
`list(Traverser(t))`                     `Term.flatten` (`preorder` is the loop itself)
discrimination net `Node(edges,patterns)` `Net = List (List Edge × Nat)`: a trie node is represented by the set of
                                         *residual* paths below it (path, rule index), in insertion order:
                                         `N.edges.get(e)` = `N.child e` (`[]` = no such edge), `N.patterns` = indices
                                         whose residual path is empty. The tie compares the real trie, flattened, with it.
`RuleSet.add`                            `Net.ofRules` (`Rule.path`: heads in preorder, variables ↦ `VAR`)
`_match(S, N)`                           `matchLoop` (explicit stack of `(S.copy(), N, matches)`, `restore_state_flag`)
`_process_match`                         `processMatch`
`_instantiates` (added by the fix)       `instantiates`
`RuleSet.iter_matches`                   `iterMatches`
`RewriteRule._apply` / `_substitute`     `substitute`
`RuleSet._rewrite`, `_bottom_up`         `rewriteTop`, `bottomUp`
`RuleSet.rewrite(task, strategy=…)`      `rewrite` over the extracted `strategies` table (`KeyError` for an unknown name)
Unhashable atoms (the `except TypeError` around the exact-edge lookup) are not modelled.
No Mathlib.
-/
namespace Dask.Match

inductive Sym where
  | fn (n : Nat)
  | const (n : Nat)
  deriving DecidableEq, Repr

inductive Term where
  | atom (s : Sym)
  | app (f : Nat) (args : List Term)
  | lst (items : List Term)
  deriving Repr, Inhabited

mutual
def Term.beq : Term → Term → Bool
  | .atom a, .atom b => a == b
  | .app f as, .app g bs => f == g && beqList as bs
  | .lst as, .lst bs => beqList as bs
  | _, _ => false
def beqList : List Term → List Term → Bool
  | [], [] => true
  | a :: as, b :: bs => a.beq b && beqList as bs
  | _, _ => false
end

mutual
theorem Term.beq_iff : ∀ (a b : Term), a.beq b = true ↔ a = b
  | .atom a, .atom b => by simp [Term.beq]
  | .app f as, .app g bs => by simp [Term.beq, beqList_iff as bs]
  | .lst as, .lst bs => by simp [Term.beq, beqList_iff as bs]
  | .atom _, .app _ _ => by simp [Term.beq]
  | .atom _, .lst _ => by simp [Term.beq]
  | .app _ _, .atom _ => by simp [Term.beq]
  | .app _ _, .lst _ => by simp [Term.beq]
  | .lst _, .atom _ => by simp [Term.beq]
  | .lst _, .app _ _ => by simp [Term.beq]
theorem beqList_iff : ∀ (as bs : List Term), beqList as bs = true ↔ as = bs
  | [], [] => by simp [beqList]
  | a :: as, b :: bs => by simp [beqList, Term.beq_iff a b, beqList_iff as bs]
  | [], _ :: _ => by simp [beqList]
  | _ :: _, [] => by simp [beqList]
end

instance : DecidableEq Term := fun a b => decidable_of_iff _ (Term.beq_iff a b)

/-- the builtin `list`, head of every Python list -/
def listSym : Sym := .fn 0

def Term.head : Term → Sym
  | .atom s => s
  | .app f _ => .fn f
  | .lst _ => listSym

def Term.args : Term → List Term
  | .atom _ => []
  | .app _ as => as
  | .lst as => as

mutual
/-- `list(Traverser(t))` -/
def Term.flatten : Term → List Sym
  | .atom s => [s]
  | .app f as => .fn f :: flattenList as
  | .lst as => listSym :: flattenList as
def flattenList : List Term → List Sym
  | [] => []
  | t :: ts => t.flatten ++ flattenList ts
end

mutual
def Term.size : Term → Nat
  | .atom _ => 1
  | .app _ as => 1 + sizeList as
  | .lst as => 1 + sizeList as
def sizeList : List Term → Nat
  | [] => 0
  | t :: ts => t.size + sizeList ts
end

/-! ### Traverser -/

abbrev Trav := List Term

def Trav.current : Trav → Option Sym
  | [] => none
  | t :: _ => some t.head

/-- `Traverser.next` -/
def Trav.next : Trav → Option Trav
  | [] => none
  | t :: rest => some (t.args ++ rest)

/-- `Traverser.skip` -/
def Trav.skip : Trav → Option Trav
  | [] => none
  | _ :: rest => some rest

/-- `Traverser.__iter__`: `while self.current is not END: yield self.current; self.next()` -/
def preorder : Nat → Trav → Option (List Sym)
  | 0, _ => none
  | fuel + 1, S =>
    match S with
    | [] => some []
    | t :: rest => (preorder fuel (t.args ++ rest)).map (t.head :: ·)

/-! ### rules and the net -/

inductive Edge where
  | sym (s : Sym)
  | var
  deriving DecidableEq, Repr

structure Rule where
  lhs : Term
  rhs : Term
  vars : List Sym
  deriving Repr

/-- `rule._varlist` -/
def Rule.varlist (r : Rule) : List Sym := r.lhs.flatten.filter (· ∈ r.vars)

/-- the edge labels `RuleSet.add` walks for this rule -/
def Rule.path (r : Rule) : List Edge := r.lhs.flatten.map fun s => if s ∈ r.vars then Edge.var else Edge.sym s

abbrev Net := List (List Edge × Nat)

def Net.ofRulesFrom : Nat → List Rule → Net
  | _, [] => []
  | i, r :: rs => (r.path, i) :: Net.ofRulesFrom (i + 1) rs

/-- `RuleSet(*rules)._net` -/
def Net.ofRules (rules : List Rule) : Net := Net.ofRulesFrom 0 rules

/-- `N.edges.get(e)`; `[]` = `None` -/
def Net.child (N : Net) (e : Edge) : Net :=
  N.filterMap fun p =>
    match p.1 with
    | e' :: r => if e' = e then some (r, p.2) else none
    | [] => none

/-- `N.patterns` -/
def Net.patterns (N : Net) : List Nat :=
  N.filterMap fun p => if p.1 = [] then some p.2 else none

structure Frame where
  S : Trav
  N : Net
  m : List Term

abbrev Yield := List Nat × List Term

/-- `_match(S, N)`: the list of `(N.patterns, matches)` pairs the generator yields; `none` = out of fuel. -/
def matchLoop : Nat → Trav → Net → List Term → List Frame → Bool → Option (List Yield)
  | 0, _, _, _, _, _ => none
  | fuel + 1, S, N, m, stk, flag =>
    match S with
    | [] =>
      -- `S.current is END`: yield; no edge is labelled END; the VAR edge is guarded by `S.current is not END`
      match stk with
      | [] => some [(N.patterns, m)]
      | f :: fs => (matchLoop fuel f.S f.N f.m fs true).map ((N.patterns, m) :: ·)
    | t :: rest =>
      if !flag && !(N.child (.sym t.head)).isEmpty then
        matchLoop fuel (t.args ++ rest) (N.child (.sym t.head)) m (⟨S, N, m⟩ :: stk) false
      else if !(N.child .var).isEmpty then
        matchLoop fuel rest (N.child .var) (m ++ [t]) stk false
      else
        match stk with
        | [] => some []
        | f :: fs => matchLoop fuel f.S f.N f.m fs true

inductive OldResult where
  | done (ys : List Yield)
  | indexError (ys : List Yield)     -- `IndexError: pop from an empty deque` after having yielded `ys`
  | outOfFuel
  deriving Repr, DecidableEq

def OldResult.cons (y : Yield) : OldResult → OldResult
  | .done ys => .done (y :: ys)
  | .indexError ys => .indexError (y :: ys)
  | .outOfFuel => .outOfFuel

/-- `_match` before the fix: at END the VAR edge was still taken and `S.skip()` popped an empty deque. -/
def matchLoopOld : Nat → Trav → Net → List Term → List Frame → Bool → OldResult
  | 0, _, _, _, _, _ => .outOfFuel
  | fuel + 1, S, N, m, stk, flag =>
    match S with
    | [] =>
      if !(N.child .var).isEmpty then .indexError [(N.patterns, m)]
      else match stk with
        | [] => .done [(N.patterns, m)]
        | f :: fs => (matchLoopOld fuel f.S f.N f.m fs true).cons (N.patterns, m)
    | t :: rest =>
      if !flag && !(N.child (.sym t.head)).isEmpty then
        matchLoopOld fuel (t.args ++ rest) (N.child (.sym t.head)) m (⟨S, N, m⟩ :: stk) false
      else if !(N.child .var).isEmpty then
        matchLoopOld fuel rest (N.child .var) (m ++ [t]) stk false
      else
        match stk with
        | [] => .done []
        | f :: fs => matchLoopOld fuel f.S f.N f.m fs true

/-! ### _process_match, _instantiates, _substitute -/

abbrev Subst := List (Sym × Term)

def Subst.get (σ : Subst) (v : Sym) : Option Term :=
  match σ with
  | [] => none
  | (k, t) :: r => if k = v then some t else Subst.get r v

def processGo : List Sym → List Term → Subst → Option Subst
  | v :: vs, s :: ss, σ =>
    match σ.get v with
    | some s' => if s' = s then processGo vs ss σ else none
    | none => processGo vs ss (σ ++ [(v, s)])
  | _, _, σ => some σ

/-- `_process_match(rule, syms)`: outer `none` = `RuntimeError` (length mismatch), inner `none` = inconsistent
    bindings of a repeated variable. The substitution keeps first-occurrence order (a Python dict). -/
def processMatch (varlist : List Sym) (syms : List Term) : Option (Option Subst) :=
  if varlist.length ≠ syms.length then none else some (processGo varlist syms [])

mutual
/-- `_instantiates(pattern, vars, subs, term)` -/
def instantiates (vars : List Sym) (σ : Subst) : Term → Term → Bool
  | .app f ps, .app g ts => f == g && instantiatesList vars σ ps ts
  | .app _ _, _ => false
  | .lst ps, .lst ts => instantiatesList vars σ ps ts
  | .lst _, _ => false
  | .atom s, t =>
    if s ∈ vars then
      match σ.get s with
      | some v => v == t
      | none => false          -- `subs[pattern]` KeyError: cannot happen after `_process_match`
    else t == .atom s
def instantiatesList (vars : List Sym) (σ : Subst) : List Term → List Term → Bool
  | [], [] => true
  | p :: ps, t :: ts => instantiates vars σ p t && instantiatesList vars σ ps ts
  | _, _ => false
end

mutual
/-- `_substitute(term, sub_dict)`: all variables at once -/
def substitute (σ : Subst) : Term → Term
  | .app f as => .app f (substituteList σ as)
  | .lst as => .lst (substituteList σ as)
  | .atom s =>
    match σ.get s with
    | some v => v
    | none => .atom s
def substituteList (σ : Subst) : List Term → List Term
  | [] => []
  | t :: ts => substitute σ t :: substituteList σ ts
end

/-- `_apply` before the fix: one `dask.core.subs` pass per variable, in dict order -/
def applySeq (σ : Subst) (t : Term) : Term := σ.foldl (fun acc kv => substitute [kv] acc) t

/-! ### iter_matches, rewrite -/

def netSize (N : Net) : Nat := (N.map fun p => p.1.length + 1).sum

/-- enough iterations for `_match` on this net (each trie node is entered at most once and left at most once) -/
def fuelFor (N : Net) : Nat := 2 * netSize N + 3

def candidates (rules : List Rule) (term : Term) (ys : List Yield) : List (Nat × Subst) :=
  ys.flatMap fun y =>
    y.1.filterMap fun i =>
      match rules[i]? with
      | some r =>
        match processMatch r.varlist y.2 with
        | some (some σ) => if instantiates r.vars σ r.lhs term then some (i, σ) else none
        | _ => none
      | none => none

/-- `list(RuleSet(*rules).iter_matches(term))` as `(rule index, substitution)` pairs; `none` = out of fuel -/
def iterMatches (rules : List Rule) (term : Term) : Option (List (Nat × Subst)) :=
  let N := Net.ofRules rules
  (matchLoop (fuelFor N) [term] N [] [] false).map (candidates rules term)

/-- `iter_matches` before the fix: no verification of the candidates -/
def candidatesOld (rules : List Rule) (ys : List Yield) : List (Nat × Subst) :=
  ys.flatMap fun y =>
    y.1.filterMap fun i =>
      match rules[i]? with
      | some r =>
        match processMatch r.varlist y.2 with
        | some (some σ) => some (i, σ)
        | _ => none
      | none => none

/-- `RuleSet._rewrite(term)`: the first match is applied -/
def rewriteTop (rules : List Rule) (term : Term) : Option Term :=
  (iterMatches rules term).map fun ms =>
    match ms with
    | (i, σ) :: _ =>
      match rules[i]? with
      | some r => substitute σ r.rhs
      | none => term
    | [] => term

mutual
/-- `_bottom_up(net, term)` -/
def bottomUp (rules : List Rule) : Term → Option Term
  | .app f as => (bottomUpList rules as).bind fun as' => rewriteTop rules (.app f as')
  | .lst as => (bottomUpList rules as).bind fun as' => rewriteTop rules (.lst as')
  | .atom s => rewriteTop rules (.atom s)
def bottomUpList (rules : List Rule) : List Term → Option (List Term)
  | [] => some []
  | t :: ts => (bottomUp rules t).bind fun t' => (bottomUpList rules ts).map (t' :: ·)
end

inductive RewriteResult where
  | ok (t : Term)
  | keyError          -- `strategies[strategy]` for a name that is not in the table
  | outOfFuel
  deriving Repr

def strategyFn (name : String) : Option String :=
  (Dask.Generated.RewriteTables.strategies.find? (·.1 == name)).map (·.2)

/-- `RuleSet(*rules).rewrite(task, strategy)`; `strategy = none` = the argument is omitted (extracted default) -/
def rewrite (rules : List Rule) (t : Term) (strategy : Option String) : RewriteResult :=
  match strategyFn (strategy.getD Dask.Generated.RewriteTables.defaultStrategy) with
  | none => .keyError
  | some fn =>
    let r := if fn == "_top_level" then rewriteTop rules t else if fn == "_bottom_up" then bottomUp rules t else none
    match r with
    | some t' => .ok t'
    | none => .outOfFuel

end Dask.Match
