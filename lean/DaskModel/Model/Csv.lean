import DaskModel.Model.TextBlocks
/-
K11 (CSV part): `dask/dataframe/io/csv.py` on top of `read_bytes` (model `TextBlocks`, owned by group bag:
exact double arithmetic of the offsets, `read_block`/seek, `decode`).

Python                                                   Lean
------                                                   ----
`read_bytes(path, delimiter=b"\n", blocksize=bs)`          `TextBlocks.fileBlocks ieee data [10] bs`
`header = parts[firstrow] + b_lineterminator`              `headerOf` (first line of the file + terminator)
`pandas_read_text`: `bio.write(header)` for every block    `blockText` (after the fix of the header-prefix defect)
   that does not start a file, then the block
rows a line-oriented parser gets from a block              `blockRows` = lines of the text after the header line
`dd.read_csv(path, blocksize=bs)` as a list of rows        `readCsvParts`, `readCsvRows`
`headerOf` is the first PHYSICAL line: what the code took before fix e673923; the options model (`Model/CsvOpts.lean`,
`headerBytes` = `_header_row`) follows the repaired code, and `C47.headerOf_agrees` / `C47.csv_models_agree` show that the
two models coincide on files whose first line is not blank / that hold no blank line.
Quotes are not modelled: a line terminator inside a quoted field is an ordinary terminator here (the
statement's "quoted fields near block boundaries" part is checked on the real code only).
-/
namespace Dask.Csv
open Dask.TextBlocks

def NL : List Nat := [10]

/-- the header bytes `read_pandas` extracts: first line + line terminator (`none` for an empty file) -/
def headerOf (data : List Nat) : Option (List Nat) :=
  if data.isEmpty then none else (pySplit NL data).bind fun parts => parts.head?.map (· ++ NL)

/-- the bytes handed to the pandas parser for one block -/
def blockText (header : List Nat) (isFirst : Bool) (block : List Nat) : List Nat :=
  if isFirst then block else header ++ block

/-- data rows (as lines, terminator included) parsed from one block -/
def blockRows (header : List Nat) (isFirst : Bool) (block : List Nat) : Option (List (List Nat)) :=
  (decode NL (blockText header isFirst block)).map (·.drop 1)

def rowsOfBlocks (header : List Nat) : Bool → List (List Nat) → Option (List (List (List Nat)))
  | _, [] => some []
  | first, b :: bs => do
    let r ← blockRows header first b
    let rs ← rowsOfBlocks header false bs
    pure (r :: rs)

/-- `dd.read_csv(file, blocksize=bs)`: the data rows of every partition -/
def readCsvParts (data : List Nat) (bs : Option Nat) : Option (List (List (List Nat))) := do
  let blocks ← fileBlocks ieee data NL bs
  let header ← headerOf data
  rowsOfBlocks header true blocks

def readCsvRows (data : List Nat) (bs : Option Nat) : Option (List (List Nat)) :=
  (readCsvParts data bs).map List.flatten

end Dask.Csv
