/-
K9: task-based shuffles of `dask/dataframe/shuffle.py` and `dask_expr/_shuffle.py`, transliterated.

Python                                                   Lean
------                                                   ----
`dask.utils.digit(n, j, base)` / `insert(tup, loc, val)` `digit`, `insert`
`inputs = [tuple(digit(i, j, k) for j in range(stages))` `digits` (little endian), `fromDigits` = `inp_part_map`
`shuffle_group`'s stage index                            `stageIndex` (`(ind % npartitions) // k**stage % k`,
                                                          with the `% nfinal` step of the hashing branch)
`group_split_dispatch(df, ind, k)[j]`                    `shuffleGroup` (rows whose stage index is `j`, order kept)
`SimpleShuffle._layer`                                   `simpleShuffle`
`TaskShuffle._layer` (stages, padding, final            `stageStep`, `taskShuffle`, `layerWiring`
   `shuffle_group_2` when npartitions changes)
`DiskShuffle._layer` + `collect` (partd)                 `diskShuffle arrival` (pieces in arrival order), `orderedShuffle`
`set_partitions_pre`                                     `setPartitionsPre` (searchsorted right − 1, clamping, NA)
`partitioning_index`                                     `h % n` for an abstract hash `h`
A row is `(target, id)`: `target` is the value of the `_partitions` column (what `AssignPartitioningIndex`
computed: `hash(key) % npartitions_out`), `id` identifies the row. Import-free.
-/
namespace Dask.Shuffle

/-- `digit(n, j, base) = n // base**j % base` -/
def digit (n j base : Nat) : Nat := n / base ^ j % base

/-- `tuple(digit(i, j, k) for j in range(stages))` -/
def digits (n stages k : Nat) : List Nat := (List.range stages).map fun j => digit n j k

/-- `insert(tup, loc, val)` (IndexError cannot occur: `loc < stages = len(tup)`) -/
def insert (tup : List Nat) (loc val : Nat) : List Nat := tup.set loc val

/-- position of a digit tuple in `inputs` (`inp_part_map`) -/
def fromDigits (k : Nat) : List Nat → Nat
  | [] => 0
  | d :: ds => d + k * fromDigits k ds

/-- the index `shuffle_group` computes for a row whose partitioning value is `ind`.
    `hashing = true` is the branch where `ind` is a raw hash (taken `% nfinal` when `nfinal` is truthy
    and differs from `npartitions`); `false` is the `_partitions` column branch. -/
def stageIndex (ind stage k npartitions nfinal : Nat) (hashing : Bool) : Nat :=
  let ind := if hashing && nfinal != 0 && nfinal != npartitions then ind % nfinal else ind
  digit (ind % npartitions) stage k

abbrev Row := Nat × Nat   -- (`_partitions` value, row id)

/-! The frame-level functions are polymorphic in the payload `α` of a row `(target, payload)`: the shuffle only
    ever reads the `_partitions` value. The driver instantiates `α := Nat` (row ids), the sort / de-duplication
    models `α :=` (key, id). -/
variable {α : Type}

/-- piece `j` of `shuffle_group(df, "_partitions", stage, k, npartitions, …)` -/
def shuffleGroup (k stage npartitions : Nat) (rows : List (Nat × α)) (j : Nat) : List (Nat × α) :=
  rows.filter fun r => stageIndex r.1 stage k npartitions 0 false == j

/-- `SimpleShuffle._layer`: output `p` concatenates piece `p` of every input partition -/
def simpleShuffle (parts : List (List (Nat × α))) (nOut : Nat) : List (List (Nat × α)) :=
  (List.range nOut).map fun p => parts.flatMap fun rows => shuffleGroup nOut 0 nOut rows p

/-- one stage of `TaskShuffle._layer` over all `k^stages` positions; positions beyond the input count
    read an empty frame -/
def stageStep (k stages s nIn : Nat) (parts : List (List (Nat × α))) : List (List (Nat × α)) :=
  (List.range (k ^ stages)).map fun part =>
    let out := digits part stages k
    (List.range k).flatMap fun i =>
      shuffleGroup k s nIn (parts.getD (fromDigits k (insert out s i)) []) (out.getD s 0)

/-- `TaskShuffle._layer` in the staged case (`k = nsplits`, `stages` as computed from the float
    expressions — parameters here) -/
def taskShuffle (parts : List (List (Nat × α))) (nOut k stages : Nat) : List (List (Nat × α)) :=
  let nIn := parts.length
  let staged := (List.range stages).foldl (fun ps s => stageStep k stages s nIn ps) parts
  if nOut = nIn then staged.take nOut
  else
    -- `shuffle_group_2` on the first `nIn` staged partitions, then `shuffle_group_get(group[p % nIn], p)`
    (List.range nOut).map fun p => (staged.getD (p % nIn) []).filter fun r => r.1 == p

/-- an order-preserving shuffle written as a specification: output `p` = the rows with target `p` in input order
    (what `task_shuffle_exact_valid` proves the task shuffles compute) -/
def orderedShuffle (ps : List (List (Nat × α))) (n : Nat) : List (List (Nat × α)) :=
  (List.range n).map fun p => ps.flatten.filter fun r => r.1 == p

/-- `DiskShuffle._layer`: every input partition is split by `_partitions` (`groupby(col).get_group`, row order kept)
    and appended to partd; `collect` returns, for output `p`, the pieces in the order the partitions were appended.
    `arrival` is that order (a permutation of the input partition numbers, decided by the scheduler). -/
def diskShuffle (arrival : List Nat) (parts : List (List (Nat × α))) (nOut : Nat) : List (List (Nat × α)) :=
  orderedShuffle (arrival.map fun i => parts.getD i []) nOut

/-- wiring of one stage as it appears in the graph: for every position the piece index and the
    `k` source tuples -/
def layerWiring (k stages s : Nat) : List (Nat × List (List Nat)) :=
  (List.range (k ^ stages)).map fun part =>
    let out := digits part stages k
    (out.getD s 0, (List.range k).map fun i => insert out s i)

/-! ### set_partitions_pre -/

/-- `bisect_right` / `searchsorted(side="right")` on a sorted list -/
def bisectRight (xs : List Nat) (x : Nat) : Nat := (xs.takeWhile (· ≤ x)).length

/-- `set_partitions_pre(s, divisions, ascending, na_position)` for one value (`none` = NA) -/
def setPartitionsPre (divs : List Nat) (x : Option Nat) (ascending naLast : Bool) : Nat :=
  let n := divs.length
  match x with
  | none => if naLast then n - 2 else 0
  | some v =>
    let ss := bisectRight divs v
    let p : Int := if ascending then (ss : Int) - 1 else (n : Int) - ss - 1
    if p ≥ (n : Int) - 1 then n - 2 else if p < 0 then 0 else p.toNat

end Dask.Shuffle
