import DaskModel.Generated.FusedKeyRenamer
/-
K7 (part 5): the name `dask.optimization.default_fused_keys_renamer` gives to a fused chain — the part that matters for
keeping the fused tasks of one graph apart.

Python                                                          Lean (strings as `List Char`)
------                                                          ----
names = {key_split(k) for k in it}; names.discard(first_name)   `otherNames names firstName` (`key_split` itself is modelled
names = sorted(names)                                           in Model/KeySplit.lean by group stores; here its results are inputs)
names.append(first_key) ; "-".join(names)                       `concatName names firstName last`
_enforce_max_key_limit(key_name)                                `enforceLimit keep cut digest name`: names of at most `keep`
                                                                characters stay; longer ones become
                                                                `name[:cut] + "-" + digest(name)`
the hash suffix                                                 an abstract `digest : List Char → List Char` (of the FULL name)
Import-free (linked into the native driver).
-/
namespace Dask.FusedName

/-- lexicographic `<` on code points (Python's `str.__lt__`) -/
def ltChars : List Char → List Char → Bool
  | [], [] => false
  | [], _ :: _ => true
  | _ :: _, [] => false
  | a :: as, b :: bs => if a.toNat < b.toNat then true else if b.toNat < a.toNat then false else ltChars as bs

/-- insertion into a sorted duplicate-free list -/
def insertSorted (x : List Char) : List (List Char) → List (List Char)
  | [] => [x]
  | y :: ys => if x == y then y :: ys else if ltChars x y then x :: y :: ys else y :: insertSorted x ys

/-- `sorted(set(names) - {first_name})` -/
def otherNames (names : List (List Char)) (firstName : List Char) : List (List Char) :=
  (names.foldl (fun acc x => insertSorted x acc) []).filter fun x => !(x == firstName)

/-- `"-".join(parts)` -/
def joinDash : List (List Char) → List Char
  | [] => []
  | [x] => x
  | x :: y :: r => x ++ '-' :: joinDash (y :: r)

/-- the concatenated name: the other keys' split names, sorted, then the full name of the top key -/
def concatName (names : List (List Char)) (firstName last : List Char) : List Char :=
  joinDash (otherNames names firstName ++ [last])

/-- `_enforce_max_key_limit`: `keep = none` = no limit (`max_fused_key_length` is `None` or `0`) -/
def enforceLimit (keep : Option Nat) (cut : Nat) (digest : List Char → List Char) (name : List Char) : List Char :=
  match keep with
  | none => name
  | some t => if name.length > t then name.take cut ++ '-' :: digest name else name

open Dask.Generated.FusedKeyRenamer in
/-- `default_fused_keys_renamer(..., max_fused_key_length=m)`'s use of `_enforce_max_key_limit`, with the constants the
    extractor reads from the source (`slack`, `room`): `m` is `None`/`0` → no limit; `m -= slack`; a limit of exactly `0`
    is falsy again → no limit; a negative limit is exceeded by every name and nothing of the name is kept. -/
def renamerLimit (m : Option Nat) (digest : List Char → List Char) (name : List Char) : List Char :=
  match m with
  | none => name
  | some 0 => name
  | some m =>
    if m = slack then name
    else if m < slack then '-' :: digest name
    else enforceLimit (some (m - slack)) (m - slack - room) digest name

end Dask.FusedName
