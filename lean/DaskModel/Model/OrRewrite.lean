/-
K7'' (dfrows, review round): `rewrite_filters` / `_get_predicate_components` / `_convert_mapping` /
`_replace_common_or_components` (`dask/dataframe/dask_expr/_expr.py`), the predicate rewrite that
`Filter._simplify_up` applies before pushing a filter down: a conjunct that occurs in EVERY clause of an
OR is pulled to the front, `(A & C) | (A & D) ⟶ A & (C | D)`, and a clause that consists of shared
conjuncts only absorbs the others, `(A & C) | A ⟶ A`.

Python                                                   Lean
------                                                   ----
a predicate expression; everything that is neither        `P` (`atom n`: identified by its `_name`)
   `And` nor `Or` is opaque
`_get_predicate_components(p, [], type_=Or / And)`        `orComps p` / `andComps p`
`_convert_mapping(components)` (a dict keyed by `_name`:   `List.eraseDups` (first occurrence kept, insertion order)
   later duplicates collapse)
`_replace_common_or_components(expr, or_components)`      `replaceCommon expr ors` (`none` = returns None)
`rewrite_filters(predicate)`                              `rewriteFilters p`
Import-free (linked into the native driver).
-/
namespace Dask.OrRewrite

inductive P where
  | atom (n : Nat)
  | and (a b : P)
  | or (a b : P)
  deriving DecidableEq, Repr

/-- `_get_predicate_components(p, [], type_=Or)`: the clauses of a (nested) OR, left to right -/
def orComps : P → List P
  | .or a b => orComps a ++ orComps b
  | p => [p]

/-- `_get_predicate_components(p, [], type_=And)`: the conjuncts of a (nested) AND, left to right -/
def andComps : P → List P
  | .and a b => andComps a ++ andComps b
  | p => [p]

/-- `c0 & c1 & …` built left-associated, as the Python loops do -/
def andFold (c : P) (cs : List P) : P := cs.foldl P.and c
def orFold (c : P) (cs : List P) : P := cs.foldl P.or c

/-- conjunction / disjunction of a NON-EMPTY list (`none` for the empty list, which the code never builds) -/
def andOf : List P → Option P
  | [] => none
  | c :: cs => some (andFold c cs)
def orOf : List P → Option P
  | [] => none
  | c :: cs => some (orFold c cs)

/-- the `replacements` list: conjuncts of the first clause that occur in every other clause -/
def shared (c0 : List P) (others : List (List P)) : List P :=
  c0.filter (fun c => others.all (fun comp => comp.contains c))

/-- the second half of `_replace_common_or_components`: build `outer & (rest₀ | rest₁ | …)`, or just `outer`
    when some clause has nothing left; `none` = no replacement (the function returns `None`) -/
def finish (repl : List P) (clauses : List (List P)) : Option P :=
  match andOf repl with
  | none => none
  | some outer =>
    let kept := clauses.map (fun comp => comp.filter (fun c => !repl.contains c))
    if kept.any List.isEmpty then some outer
    else
      match orOf (kept.filterMap andOf) with
      | some o => some (P.and outer o)
      | none => some outer      -- unreachable: `clauses` is never empty

/-- `_replace_common_or_components(expr, or_components)`; `none` = the function returns `None` -/
def replaceCommon (expr : P) (ors : List P) : Option P :=
  let mapping := (andComps expr).eraseDups
  let others := ors.map (fun c => (andComps c).eraseDups)
  finish (shared mapping others) (mapping :: others)

/-- `rewrite_filters(predicate)` -/
def rewriteFilters (p : P) : P :=
  match orComps p with
  | first :: second :: rest => (replaceCommon first (second :: rest)).getD p
  | _ => p

/-- truth of a predicate under an assignment of its atoms -/
def P.truth (σ : Nat → Bool) : P → Bool
  | .atom n => σ n
  | .and a b => a.truth σ && b.truth σ
  | .or a b => a.truth σ || b.truth σ

end Dask.OrRewrite
