import DaskModel.Model.GraphAlg
/-
K6 (part 2): what `dask.order.order` must return, as an executable checker, and the deterministic frame around
its heuristic core (priorities of stripped non-task leaves).

Python                                                    Lean
------                                                    ----
returned priority dict                                    `List (Key × Nat)` (association list, insertion order)
`dependencies` (DependenciesMapping, incl. external keys) `GraphAlg.Graph`
`prio = expected_len - 1 - n_removed_leaves`              `stripPrio`
Import-free (linked into the native driver).
-/
namespace Dask.Order
open Dask.GraphAlg

def nodupB : List Nat → Bool
  | [] => true
  | x :: xs => !xs.contains x && nodupB xs

/-- every dependency that is itself a key of the graph has a strictly smaller priority -/
def depsBefore (gk : List Key) (p : List (Key × Nat)) (k : Key) (ds : List Key) : Bool :=
  ds.all fun d => !gk.contains d ||
    (match p.lookup d, p.lookup k with
     | some a, some b => decide (a < b)
     | _, _ => false)

/-- the checker run on every real `order` output -/
def validOrder (g : Graph) (p : List (Key × Nat)) : Bool :=
  let gk := g.map Prod.fst
  let pk := p.map Prod.fst
  nodupB pk && gk.all (fun k => pk.contains k) && pk.all (fun k => gk.contains k) && nodupB (p.map Prod.snd) &&
    g.all (fun e => depsBefore gk p e.1 e.2)

/-- priority given to the `j`-th stripped non-task leaf (`j = n_removed_leaves` at that moment) -/
def stripPrio (expectedLen j : Nat) : Nat := expectedLen - 1 - j

/-- stripped leaves, in strip order, get `stripPrio expectedLen j` with `j = n_removed_leaves` counting up -/
def stripAssign (expectedLen : Nat) : Nat → List Key → List (Key × Nat)
  | _, [] => []
  | j, k :: ks => (k, stripPrio expectedLen j) :: stripAssign expectedLen (j + 1) ks

/-- the core numbers the keys it emits `i, i+1, …` (the counter of `add_to_result`) -/
def coreAssign : Nat → List Key → List (Key × Nat)
  | _, [] => []
  | i, k :: ks => (k, i) :: coreAssign (i + 1) ks

/-- the frame: what `order` returns when the normalisation loop stripped `stripped` (in that order) and the core
    emitted the remaining internal keys in the order `core` -/
def framePrios (expectedLen : Nat) (stripped core : List Key) : List (Key × Nat) :=
  stripAssign expectedLen 0 stripped ++ coreAssign 0 core

/-! ### the normalisation loop of `order` (`while not all_tasks:`): stripping non-task leaves and shared data roots

`g` holds the dependencies of every key of `dsk` *after* the external keys were added as data nodes (an external key has
an entry with no dependencies). Python sets are swept in list order; the sets computed are order-independent. -/

structure StripSt where
  alive : List Key
  removed : List Key
  stripped : List Key
  dataRoots : List (Key × Key)
  deriving Repr

/-- `dependencies[k]` of the `DependenciesMapping` with its `_removed` set -/
def curDeps (g : Graph) (st : StripSt) (k : Key) : List Key :=
  ((g.lookup k).getD []).filter (fun d => !st.removed.contains d)

/-- `dependents[k]`: the keys still in `dsk` that mention `k` -/
def curDependents (g : Graph) (st : StripSt) (k : Key) : List Key :=
  st.alive.filter (fun j => ((g.lookup j).getD []).contains k)

def leafSweep (g : Graph) (isTask : Key → Bool) : List Key → StripSt → Bool → StripSt × Bool
  | [], st, any => (st, any)
  | leaf :: rest, st, any =>
    if (curDeps g st leaf).isEmpty then leafSweep g isTask rest st any           -- `if leaf in root_nodes: continue`
    else if !isTask leaf && (curDeps g st leaf).length > 1 then
      leafSweep g isTask rest
        { st with alive := st.alive.erase leaf, removed := leaf :: st.removed, stripped := st.stripped ++ [leaf] } true
    else leafSweep g isTask rest st any

def rootSweep (g : Graph) (isTask : Key → Bool) : List Key → StripSt → StripSt
  | [], st => st
  | root :: rest, st =>
    let ds := curDependents g st root
    if ds.isEmpty then rootSweep g isTask rest st                                 -- `if root in leaf_nodes: continue`
    else if !isTask root && ds.length > 1 then
      rootSweep g isTask rest
        { st with alive := st.alive.erase root, removed := root :: st.removed,
                  dataRoots := st.dataRoots ++ ds.map (fun d => (d, root)) }
    else rootSweep g isTask rest st

def stripLoop (g : Graph) (isTask : Key → Bool) : Nat → StripSt → StripSt
  | 0, st => st
  | fuel + 1, st =>
    let leaves := st.alive.filter (fun k => (curDependents g st k).isEmpty)
    let (st1, any) := leafSweep g isTask leaves st false
    let roots := st1.alive.filter (fun k => (curDeps g st1 k).isEmpty)
    let st2 := rootSweep g isTask roots st1
    if any then stripLoop g isTask fuel st2 else st2

/-- the stripped non-task leaves (in strip order) and the removed data roots -/
def strip (g : Graph) (isTask : Key → Bool) : StripSt :=
  stripLoop g isTask (g.length + 1) { alive := g.map Prod.fst, removed := [], stripped := [], dataRoots := [] }

end Dask.Order
