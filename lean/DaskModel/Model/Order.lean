import DaskModel.Model.GraphAlg
/-
K6 (part 2): what `dask.order.order` must return, as an executable checker, and the deterministic frame around
its heuristic core (priorities of stripped non-task leaves).

Python                                                    Lean
------                                                    ----
returned priority dict                                    `List (Key × Nat)` (association list, insertion order)
`dependencies` (DependenciesMapping, incl. external keys) `GraphAlg.Graph`
`prio = expected_len - 1 - n_removed_leaves`              `stripPrio`
Import-free (linked into the native driver).
-/
namespace Dask.Order
open Dask.GraphAlg

def nodupB : List Nat → Bool
  | [] => true
  | x :: xs => !xs.contains x && nodupB xs

/-- every dependency that is itself a key of the graph has a strictly smaller priority -/
def depsBefore (gk : List Key) (p : List (Key × Nat)) (k : Key) (ds : List Key) : Bool :=
  ds.all fun d => !gk.contains d ||
    (match p.lookup d, p.lookup k with
     | some a, some b => decide (a < b)
     | _, _ => false)

/-- the checker run on every real `order` output -/
def validOrder (g : Graph) (p : List (Key × Nat)) : Bool :=
  let gk := g.map Prod.fst
  let pk := p.map Prod.fst
  nodupB pk && gk.all (fun k => pk.contains k) && pk.all (fun k => gk.contains k) && nodupB (p.map Prod.snd) &&
    g.all (fun e => depsBefore gk p e.1 e.2)

/-- priority given to the `j`-th stripped non-task leaf (`j = n_removed_leaves` at that moment) -/
def stripPrio (expectedLen j : Nat) : Nat := expectedLen - 1 - j

/-- stripped leaves, in strip order, get `stripPrio expectedLen j` with `j = n_removed_leaves` counting up -/
def stripAssign (expectedLen : Nat) : Nat → List Key → List (Key × Nat)
  | _, [] => []
  | j, k :: ks => (k, stripPrio expectedLen j) :: stripAssign expectedLen (j + 1) ks

/-- the core numbers the keys it emits `i, i+1, …` (the counter of `add_to_result`) -/
def coreAssign : Nat → List Key → List (Key × Nat)
  | _, [] => []
  | i, k :: ks => (k, i) :: coreAssign (i + 1) ks

/-- the frame: what `order` returns when the normalisation loop stripped `stripped` (in that order) and the core
    emitted the remaining internal keys in the order `core` -/
def framePrios (expectedLen : Nat) (stripped core : List Key) : List (Key × Nat) :=
  stripAssign expectedLen 0 stripped ++ coreAssign 0 core

/-! ### the normalisation loop of `order` (`while not all_tasks:`): stripping non-task leaves and shared data roots

`g` holds the dependencies of every key of `dsk` *after* the external keys were added as data nodes (an external key has
an entry with no dependencies). Python sets are swept in list order; the sets computed are order-independent. -/

structure StripSt where
  alive : List Key
  removed : List Key
  stripped : List Key
  dataRoots : List (Key × Key)
  deriving Repr

/-- `dependencies[k]` of the `DependenciesMapping` with its `_removed` set -/
def curDeps (g : Graph) (st : StripSt) (k : Key) : List Key :=
  ((g.lookup k).getD []).filter (fun d => !st.removed.contains d)

/-- `dependents[k]`: the keys still in `dsk` that mention `k` -/
def curDependents (g : Graph) (st : StripSt) (k : Key) : List Key :=
  st.alive.filter (fun j => ((g.lookup j).getD []).contains k)

def leafSweep (g : Graph) (isTask : Key → Bool) : List Key → StripSt → Bool → StripSt × Bool
  | [], st, any => (st, any)
  | leaf :: rest, st, any =>
    if (curDeps g st leaf).isEmpty then leafSweep g isTask rest st any           -- `if leaf in root_nodes: continue`
    else if !isTask leaf && (curDeps g st leaf).length > 1 then
      leafSweep g isTask rest
        { st with alive := st.alive.erase leaf, removed := leaf :: st.removed, stripped := st.stripped ++ [leaf] } true
    else leafSweep g isTask rest st any

def rootSweep (g : Graph) (isTask : Key → Bool) : List Key → StripSt → StripSt
  | [], st => st
  | root :: rest, st =>
    let ds := curDependents g st root
    if ds.isEmpty then rootSweep g isTask rest st                                 -- `if root in leaf_nodes: continue`
    else if !isTask root && ds.length > 1 then
      rootSweep g isTask rest
        { st with alive := st.alive.erase root, removed := root :: st.removed,
                  dataRoots := st.dataRoots ++ ds.map (fun d => (d, root)) }
    else rootSweep g isTask rest st

def stripLoop (g : Graph) (isTask : Key → Bool) : Nat → StripSt → StripSt
  | 0, st => st
  | fuel + 1, st =>
    let leaves := st.alive.filter (fun k => (curDependents g st k).isEmpty)
    let (st1, any) := leafSweep g isTask leaves st false
    let roots := st1.alive.filter (fun k => (curDeps g st1 k).isEmpty)
    let st2 := rootSweep g isTask roots st1
    if any then stripLoop g isTask fuel st2 else st2

/-- the stripped non-task leaves (in strip order) and the removed data roots -/
def strip (g : Graph) (isTask : Key → Bool) : StripSt :=
  stripLoop g isTask (g.length + 1) { alive := g.map Prod.fst, removed := [], stripped := [], dataRoots := [] }


/-! ### decidable form of what the heuristic core must deliver (`CoreOK` in Lemmas/OrderFrame.lean) -/

/-- `dependencies[k]` of the full graph (an unknown key has none) -/
def depsOf (g : Graph) (k : Key) : List Key := (g.lookup k).getD []

/-- walking the core order (`pre` = the keys already emitted): every dependency that is a core key was emitted before -/
def coreTopoB (g : Graph) (core : List Key) : List Key → List Key → Bool
  | _, [] => true
  | pre, k :: post =>
    (depsOf g k).all (fun d => !core.contains d || pre.contains d) && coreTopoB g core (k :: pre) post

/-- the core emitted exactly the keys of `g` that are neither stripped (`S`) nor external, each once, dependencies first -/
def coreOKb (g : Graph) (ext S core : List Key) : Bool :=
  let gk := g.map Prod.fst
  nodupB core &&
  core.all (fun k => gk.contains k && !S.contains k && !ext.contains k) &&
  gk.all (fun k => S.contains k || ext.contains k || core.contains k) &&
  coreTopoB g core [] core


/-! ### `ndependencies(dependencies, dependents)` and the cycle test of `order` -/

/-- `result[k] = v` on the `result` dict, kept *newest key first*; an existing key keeps its position -/
def rset (r : List (Key × Nat)) (k : Key) (v : Nat) : List (Key × Nat) :=
  if (r.lookup k).isSome then r.map (fun e => if e.1 = k then (k, v) else e) else (k, v) :: r

/-- `sum(result[child] for child in dependencies[key])`; `none` = KeyError -/
def sumTotals (r : List (Key × Nat)) : List Key → Option Nat
  | [] => some 0
  | c :: cs =>
    match r.lookup c, sumTotals r cs with
    | some a, some b => some (a + b)
    | _, _ => none

/-- `for parent in dependents[key]: num_needed[parent] -= 1; if not num_needed[parent]: current_append(parent)`
    (`cur`: the stack `current`, top = head); `none` = KeyError -/
def relax : List Key → List (Key × Int) → List Key → Option (List (Key × Int) × List Key)
  | [], need, cur => some (need, cur)
  | p :: ps, need, cur =>
    match need.lookup p with
    | none => none
    | some v => relax ps (dset need p (v - 1)) (if v - 1 = 0 then p :: cur else cur)

/-- `for key in result: for parent in dependents[key]: …` (the roots, in insertion order) -/
def ndRoots (dnts : Graph) : List Key → List (Key × Int) → List Key → Option (List (Key × Int) × List Key)
  | [], need, cur => some (need, cur)
  | k :: ks, need, cur =>
    match dnts.lookup k with
    | none => none
    | some ps =>
      match relax ps need cur with
      | none => none
      | some (need', cur') => ndRoots dnts ks need' cur'

structure NdSt where
  need : List (Key × Int)
  result : List (Key × Nat)
  current : List Key
  deriving Repr

inductive NdRes where
  /-- `(num_dependencies, total_dependencies)`; the second dict newest key first -/
  | ok (numDeps total : List (Key × Nat))
  | keyError
  deriving Repr, DecidableEq

/-- `while current:`; outer `none` = fuel exhausted, inner `none` = KeyError -/
def ndLoop (deps dnts : Graph) : Nat → NdSt → Option (Option (List (Key × Nat)))
  | 0, _ => none
  | fuel + 1, st =>
    match st.current with
    | [] => some (some st.result)
    | key :: rest =>
      match deps.lookup key with
      | none => some none
      | some ds =>
        match sumTotals st.result ds with
        | none => some none
        | some s =>
          match dnts.lookup key with
          | none => some none
          | some ps =>
            match relax ps st.need rest with
            | none => some none
            | some (need', cur') =>
              ndLoop deps dnts fuel { need := need', result := rset st.result key (1 + s), current := cur' }

/-- the roots: `result[k] = 1` for every key without dependencies (oldest first) -/
def ndRootKeys (deps : Graph) : List Key := (deps.filter (fun e => e.2.isEmpty)).map Prod.fst

/-- `ndependencies(dependencies, dependents)`; `none` = fuel exhausted -/
def ndependencies (deps dnts : Graph) (fuel : Nat) : Option NdRes :=
  let need0 : List (Key × Int) := deps.map (fun e => (e.1, (e.2.length : Int)))
  let roots := ndRootKeys deps
  match ndRoots dnts roots need0 [] with
  | none => some .keyError
  | some (need1, cur1) =>
    match ndLoop deps dnts fuel { need := need1, result := (roots.map (fun k => (k, 1))).reverse, current := cur1 } with
    | none => none
    | some none => some .keyError
    | some (some total) => some (.ok (deps.map (fun e => (e.1, e.2.length))) total)

/-- the fuel the driver uses: one iteration per key plus the final test -/
def ndFuel (deps : Graph) : Nat := deps.length + 1

/-- the `dependencies` / `dependents` mappings `order` hands to `ndependencies` after the normalisation loop -/
def aliveDeps (g : Graph) (st : StripSt) : Graph := st.alive.map (fun k => (k, curDeps g st k))
def aliveDependents (g : Graph) (st : StripSt) : Graph := st.alive.map (fun k => (k, curDependents g st k))

inductive Prelude where
  /-- `len(total_dependencies) != len(dsk)`: the branch that ends in `raise RuntimeError("Cycle detected …")` -/
  | raisesCycle
  | keyError
  | proceeds (numNeeded total : List (Key × Nat))
  deriving Repr, DecidableEq

/-- `order` up to and including the cycle test; `none` = fuel exhausted -/
def orderPrelude (g : Graph) (isTask : Key → Bool) (fuel : Nat) : Option Prelude :=
  let st := strip g isTask
  match ndependencies (aliveDeps g st) (aliveDependents g st) fuel with
  | none => none
  | some .keyError => some .keyError
  | some (.ok nn total) =>
    if total.length != st.alive.length then some .raisesCycle else some (.proceeds nn total)

end Dask.Order
