/-
K7'' (dfrows, extension round): the relational expression language of `Model/RelExpr.lean` over SEVERAL sources, with
`Merge` (inner / left on key columns), `Concat` (axis 0, outer join of the columns), `Index` and `Len`; a value algebra
(`projV`, `mergeV`, `concatV`, `lenV`, …) so that the denotation `den2` is a homomorphism; the static schema `schema2`;
the REWRITE SCHEMAS of dask_expr for these nodes (one Lean function per schema, `E2 → Option E2` / candidate lists) and
the step checker `check2` that accepts `a ⟶ b` when `b` is reached from `a` by schemas + congruence (+ the old
single-source checker `checkStep` on sub-expressions of the old fragment).

Python                                                        Lean
------                                                        ----
`FromPandas(df_j)` (several roots)                            `E2.src j`
`Merge(l, r, how, on=keys, suffixes=('_x','_y'))`              `E2.merge how on l r`   (rows in pandas' order: left rows, their matches in right order)
`Concat(axis=0, join='outer', frames=[f0, f1, f2])`            `E2.concat (E2.concat f0 f1) f2`   (left-nested: `sum(Len(f) for f)` is `((0 + l0) + l1) + l2`)
`Index(frame)`                                                 `E2.index f`   (the row identities; labels are not modelled: cells `none`)
`Len(frame)`                                                   `E2.len f`
`Merge._simplify_up(Projection|Index parent)`                  `rMergeL` / `rMergeR` (side conditions `mergeLOK`/`mergeROK`), the column
                                                               computation itself: `projectSides`
`Concat._simplify_up(Projection parent)`                       `rConcatL` / `rConcatR` / `rConcatDrop`, the column computation: `concatCols`
`Len._simplify_down`, `FromPandas._simplify_up(Len parent)`    `lenCands`, the deterministic choice of the code: `lenDown`
Import-free (linked into the native driver).
-/
import DaskModel.Model.RelExpr
namespace Dask.RelExpr2
open Dask.RelExpr (Cell BinOp getCell colIdx b2c notC Src)

/-- a row identity: `[j, i]` = row `i` of source `j`; a merged row has the identities of its two parents appended -/
abbrev RId := List Nat

inductive How where
  | inner | left
  deriving DecidableEq, Repr

inductive E2 where
  | src (j : Nat)
  | proj (cols : List String) (f : E2)
  | col (f : E2) (n : String)
  | filter (f p : E2)
  | assign (f : E2) (n : String) (v : E2)
  | lit (k : Int)
  | bin (op : BinOp) (a b : E2)
  | not (a : E2)
  | merge (how : How) (on : List String) (l r : E2)
  | concat (a b : E2)
  | index (f : E2)
  | len (f : E2)
  deriving DecidableEq, Repr

inductive Val2 where
  | frame (cols : List String) (rows : List (RId × List Cell))
  | series (rows : List (RId × Cell))
  | scalar (c : Cell)
  deriving DecidableEq, Repr

def ids {α} (rows : List (RId × α)) : List RId := rows.map (·.1)

/-! ## the value algebra -/

def srcV (j : Nat) (s : Src) : Val2 := .frame s.cols (s.rows.zipIdx.map (fun (r, i) => ([j, i], r)))

def hasCols (cols cs : List String) : Bool := cs.all (fun c => (colIdx cols c).isSome)

def projV (cs : List String) : Val2 → Option Val2
  | .frame cols rows =>
    if hasCols cols cs then some (.frame cs (rows.map (fun ir => (ir.1, cs.map (getCell cols ir.2)))))
    else none
  | _ => none

def colV (n : String) : Val2 → Option Val2
  | .frame cols rows =>
    if (colIdx cols n).isSome then some (.series (rows.map (fun ir => (ir.1, getCell cols ir.2 n)))) else none
  | _ => none

/-- the rows whose predicate cell is True -/
def keepRows {α} (rows : List (RId × α)) (ps : List (RId × Cell)) : List (RId × α) :=
  (rows.zip ps).filterMap (fun rq => if rq.2.2 == some 1 then some rq.1 else none)

def filterV : Val2 → Val2 → Option Val2
  | .frame cols rows, .series ps => if ids rows == ids ps then some (.frame cols (keepRows rows ps)) else none
  | .series xs, .series ps => if ids xs == ids ps then some (.series (keepRows xs ps)) else none
  | _, _ => none

def assignV (n : String) : Val2 → Val2 → Option Val2
  | .frame cols rows, .series vs =>
    if ids rows == ids vs then
      match colIdx cols n with
      | some j => some (.frame cols ((rows.zip vs).map (fun rq => (rq.1.1, rq.1.2.set j rq.2.2))))
      | none => some (.frame (cols ++ [n]) ((rows.zip vs).map (fun rq => (rq.1.1, rq.1.2 ++ [rq.2.2]))))
    else none
  | .frame cols rows, .scalar c =>
    match colIdx cols n with
    | some j => some (.frame cols (rows.map (fun r => (r.1, r.2.set j c))))
    | none => some (.frame (cols ++ [n]) (rows.map (fun r => (r.1, r.2 ++ [c]))))
  | _, _ => none

def binV (op : BinOp) : Val2 → Val2 → Option Val2
  | .series xs, .series ys =>
    if ids xs == ids ys then some (.series ((xs.zip ys).map (fun xy => (xy.1.1, op.app xy.1.2 xy.2.2)))) else none
  | .series xs, .scalar c => some (.series (xs.map (fun x => (x.1, op.app x.2 c))))
  | .scalar c, .series ys => some (.series (ys.map (fun y => (y.1, op.app c y.2))))
  | .scalar c, .scalar d => some (.scalar (op.app c d))
  | _, _ => none

def notV : Val2 → Option Val2
  | .series xs => some (.series (xs.map (fun x => (x.1, notC x.2))))
  | .scalar c => some (.scalar (notC c))
  | _ => none

def indexV : Val2 → Option Val2
  | .frame _ rows => some (.series (rows.map (fun ir => (ir.1, none))))
  | .series rows => some (.series (rows.map (fun ir => (ir.1, none))))
  | _ => none

def lenV : Val2 → Option Val2
  | .frame _ rows => some (.scalar (some (rows.length : Int)))
  | .series rows => some (.scalar (some (rows.length : Int)))
  | _ => none

/-- column order of `pd.concat(join='outer', sort=False)`: first appearance -/
def unionCols (a b : List String) : List String := a ++ b.filter (fun c => !a.contains c)

def concatV : Val2 → Val2 → Option Val2
  | .frame ca ra, .frame cb rb =>
    some (.frame (unionCols ca cb)
      (ra.map (fun ir => (ir.1, (unionCols ca cb).map (getCell ca ir.2))) ++
       rb.map (fun ir => (ir.1, (unionCols ca cb).map (getCell cb ir.2)))))
  | _, _ => none

/-- output columns of `merge(on=keys, suffixes=('_x','_y'))` with their origin (`true` = left, source column):
    the left columns in order (overlapping non-key names get `_x`), then the right non-key columns (`_y`) -/
def origins (on cl cr : List String) : List (String × Bool × String) :=
  cl.map (fun c => (if !on.contains c && cr.contains c then c ++ "_x" else c, true, c)) ++
  (cr.filter (fun c => !on.contains c)).map (fun c => (if cl.contains c then c ++ "_y" else c, false, c))

def mergedRow (og : List (String × Bool × String)) (cl cr : List String) (lr : List Cell) (rr : Option (List Cell)) : List Cell :=
  og.map (fun o => if o.2.1 then getCell cl lr o.2.2 else
    match rr with
    | some r => getCell cr r o.2.2
    | none => none)

def keyEq (on cl cr : List String) (lr rr : List Cell) : Bool := on.all (fun k => getCell cl lr k == getCell cr rr k)

/-- the rows one left row contributes -/
def mergeOne (how : How) (on : List String) (og : List (String × Bool × String)) (cl cr : List String)
    (rr : List (RId × List Cell)) (l : RId × List Cell) : List (RId × List Cell) :=
  let ms := rr.filter (fun r => keyEq on cl cr l.2 r.2)
  if ms.isEmpty then
    (match how with
     | .left => [(l.1, mergedRow og cl cr l.2 none)]
     | .inner => [])
  else ms.map (fun r => (l.1 ++ r.1, mergedRow og cl cr l.2 (some r.2)))

def mergeV (how : How) (on : List String) : Val2 → Val2 → Option Val2
  | .frame cl rl, .frame cr rr =>
    if hasCols cl on && hasCols cr on then
      some (.frame ((origins on cl cr).map (·.1)) (rl.flatMap (mergeOne how on (origins on cl cr) cl cr rr)))
    else none
  | _, _ => none

/-- pandas / dask semantics; `none` = ill-formed -/
def den2 (ss : List Src) : E2 → Option Val2
  | .src j => ss[j]?.map (srcV j)
  | .proj cs f => (den2 ss f).bind (projV cs)
  | .col f n => (den2 ss f).bind (colV n)
  | .filter f p => (den2 ss f).bind (fun x => (den2 ss p).bind (filterV x))
  | .assign f n v => (den2 ss f).bind (fun x => (den2 ss v).bind (assignV n x))
  | .lit k => some (.scalar (some k))
  | .bin op a b => (den2 ss a).bind (fun x => (den2 ss b).bind (binV op x))
  | .not a => (den2 ss a).bind notV
  | .merge how on l r => (den2 ss l).bind (fun x => (den2 ss r).bind (mergeV how on x))
  | .concat a b => (den2 ss a).bind (fun x => (den2 ss b).bind (concatV x))
  | .index f => (den2 ss f).bind indexV
  | .len f => (den2 ss f).bind lenV

/-! ## static schema: the columns of a frame-valued expression -/

def schema2 (sc : List (List String)) : E2 → Option (List String)
  | .src j => sc[j]?
  | .proj cs f => (schema2 sc f).bind (fun c => if hasCols c cs then some cs else none)
  | .filter f _ => schema2 sc f
  | .assign f n _ => (schema2 sc f).map (fun c => if (colIdx c n).isSome then c else c ++ [n])
  | .merge _ on l r => (schema2 sc l).bind (fun cl => (schema2 sc r).bind (fun cr =>
      if hasCols cl on && hasCols cr on then some ((origins on cl cr).map (·.1)) else none))
  | .concat a b => (schema2 sc a).bind (fun ca => (schema2 sc b).map (fun cb => unionCols ca cb))
  | _ => none

/-! ## rewrite schemas -/

/-- the parent that a pushdown rule looks at: `x[[cols]]`, `x['c']`, `x.index` -/
inductive Par where
  | proj (cs : List String)
  | col (n : String)
  | index
  deriving DecidableEq, Repr

def Par.cols : Par → List String
  | .proj cs => cs
  | .col n => [n]
  | .index => []

def Par.app : Par → E2 → E2
  | .proj cs, e => .proj cs e
  | .col n, e => .col e n
  | .index, e => .index e

def Par.appV : Par → Val2 → Option Val2
  | .proj cs => projV cs
  | .col n => colV n
  | .index => indexV

def asPar : E2 → Option (Par × E2)
  | .proj cs f => some (.proj cs, f)
  | .col f n => some (.col n, f)
  | .index f => some (.index, f)
  | _ => none

def subsetS (a b : List String) : Bool := a.all (fun x => b.contains x)

/-- a side projection `pl` of a frame with columns `cl` keeps every column the parent needs -/
def pushOK (cs cl pl : List String) : Bool := subsetS pl cl && cs.all (fun n => !cl.contains n || pl.contains n)

/-- `Concat._simplify_up`: `parent(Concat(l, r)) ⟶ parent(Concat(l[pl], r))` -/
def rConcatL (sc : List (List String)) (pl : List String) (a : E2) : Option E2 :=
  match asPar a with
  | some (p, .concat l r) =>
    match schema2 sc l with
    | some cl => if pushOK p.cols cl pl && cl != pl then some (p.app (.concat (.proj pl l) r)) else none
    | none => none
  | _ => none

def rConcatR (sc : List (List String)) (pr : List String) (a : E2) : Option E2 :=
  match asPar a with
  | some (p, .concat l r) =>
    match schema2 sc r with
    | some cr => if pushOK p.cols cr pr && cr != pr then some (p.app (.concat l (.proj pr r))) else none
    | none => none
  | _ => none

/-- `Concat._simplify_up`: the parent projection disappears when `result.columns == parent.columns` -/
def rConcatDrop (sc : List (List String)) (a : E2) : Option E2 :=
  match a with
  | .proj cs (.concat l r) => if schema2 sc (.concat l r) = some cs then some (.concat l r) else none
  | _ => none

/-- `Projection._simplify_down` on a merge: `merge(l, r)[cs] ⟶ merge(l, r)` when `cs` is exactly its column list -/
def rMergeDrop (sc : List (List String)) (a : E2) : Option E2 :=
  match a with
  | .proj cs (.merge how on l r) =>
    if schema2 sc (.merge how on l r) = some cs && cs.Nodup then some (.merge how on l r) else none
  | _ => none

def lookO (og : List (String × Bool × String)) (n : String) : Option (Bool × String) := (og.find? (·.1 == n)).map (·.2)

/-- projecting the LEFT side of a merge onto `pl` keeps the join keys and does not change where any of the
    parent's columns comes from (this is what the suffix bookkeeping of `Merge._simplify_up` is about) -/
def mergeLOK (on cs cl cr pl : List String) : Bool :=
  subsetS pl cl && subsetS on pl && cs.all (fun n => lookO (origins on pl cr) n == lookO (origins on cl cr) n)

def mergeROK (on cs cl cr pr : List String) : Bool :=
  subsetS pr cr && subsetS on pr && cs.all (fun n => lookO (origins on cl pr) n == lookO (origins on cl cr) n)

/-- `Merge._simplify_up(Projection | Index parent)`: `parent(Merge(l, r)) ⟶ parent(Merge(l[pl], r))` -/
def rMergeL (sc : List (List String)) (pl : List String) (a : E2) : Option E2 :=
  match asPar a with
  | some (p, .merge how on l r) =>
    match schema2 sc l, schema2 sc r with
    | some cl, some cr => if mergeLOK on p.cols cl cr pl && cl != pl then some (p.app (.merge how on (.proj pl l) r)) else none
    | _, _ => none
  | _ => none

def rMergeR (sc : List (List String)) (pr : List String) (a : E2) : Option E2 :=
  match asPar a with
  | some (p, .merge how on l r) =>
    match schema2 sc l, schema2 sc r with
    | some cl, some cr => if mergeROK on p.cols cl cr pr && cr != pr then some (p.app (.merge how on l (.proj pr r))) else none
    | _, _ => none
  | _ => none

/-- `Len._simplify_down` (+ `FromPandas._simplify_up(Len)`, `Index` pushed through `Filter`): every rewrite the
    rules may perform at a `Len` / `Index` root -/
def lenCands (sl : List Nat) : E2 → List E2
  | .len (.index g) => [.len g, .bin .add (.lit 0) (.len (.index g))]
  | .len (.proj cs g) => [.len g, .len (.index (.proj cs g)), .bin .add (.lit 0) (.len (.proj cs g))]
  | .len (.col g n) => [.len g, .bin .add (.lit 0) (.len (.col g n))]
  | .len (.assign g n v) => [.len g, .len (.index (.assign g n v)), .bin .add (.lit 0) (.len (.assign g n v))]
  | .len (.bin op x (.lit k)) => [.len x, .bin .add (.lit 0) (.len (.bin op x (.lit k)))]
  | .len (.not x) => [.len x, .bin .add (.lit 0) (.len (.not x))]
  | .len (.concat l r) => [.bin .add (.len l) (.len r)]
  | .len (.src j) =>
    (match sl[j]? with
     | some n => [.lit (n : Int), .bin .add (.lit 0) (.len (.src j))]
     | none => [])
  | .len f => [.len (.index f), .bin .add (.lit 0) (.len f)]
  | .index (.filter f p) => [.filter (.index f) p]
  | _ => []

/-! ### the column computations of the real rules (function-level tie; the checker re-validates their output) -/

/-- `project_left, project_right` of `Merge._simplify_up` for a projection `cs` -/
def projectSides (on cl cr cs : List String) : List String × List String :=
  let pl0 := cl.filter (fun c => on.contains c || cs.contains c || cs.contains (c ++ "_x"))
  let rightSuff := cl.filter (fun c => !(on.contains c || cs.contains c) && cs.contains (c ++ "_x") && cr.contains c)
  let pr0 := cr.filter (fun c => on.contains c || cs.contains c || cs.contains (c ++ "_y"))
  let leftSuff := cr.filter (fun c => !(on.contains c || cs.contains c) && cs.contains (c ++ "_y") && cl.contains c && !pl0.contains c)
  (pl0 ++ leftSuff.filter (fun c => !pl0.contains c), pr0 ++ rightSuff.filter (fun c => !pr0.contains c))

/-- `columns_frame` of `Concat._simplify_up` for one frame -/
def concatCols (cf cs : List String) : List String := cf.filter (fun c => cs.contains c)

/-- a frame-valued expression with at least one column (`self.frame.ndim == 2 and len(self.frame.columns)`) -/
def isFrameE : E2 → Bool
  | .src _ => true
  | .proj cs _ => !cs.isEmpty
  | .assign _ _ _ => true
  | .merge _ _ _ _ => true
  | .concat _ _ => true
  | .filter f _ => isFrameE f
  | _ => false

/-- `Elemwise` nodes (`_is_length_preserving`) -/
def isElemwise : E2 → Bool
  | .proj _ _ => true | .col _ _ => true | .assign _ _ _ => true | .bin _ _ _ => true | .not _ => true | .index _ => true
  | _ => false

/-- `sum(Len(obj) for obj in frames)` over the left-nested encoding of an n-ary `Concat` -/
def lenSum : E2 → E2
  | .concat l r => .bin .add (lenSum l) (.len r)
  | x => .bin .add (.lit 0) (.len x)

/-- `Len._simplify_down` as the code chooses (first applicable branch); `none` = the method returns None / self -/
def lenDown : E2 → Option E2
  | .len (.index g) => if isElemwise g then some (.len g) else none
  | .len (.proj _ g) => some (.len g)
  | .len (.col g _) => some (.len g)
  | .len (.assign g _ _) => some (.len g)
  | .len (.bin _ (.lit _) y) => some (.len y)
  | .len (.bin _ x _) => some (.len x)
  | .len (.not x) => some (.len x)
  | .len (.src _) => none
  | .len (.concat l r) => some (lenSum (.concat l r))
  | .len f => if isFrameE f then some (.len (.index f)) else none
  | _ => none

/-! ## the old fragment inside the new language -/

def isLit : E2 → Option Int
  | .lit k => some k
  | _ => none

def toOld : E2 → Option (Nat × Dask.RelExpr.E)
  | .src j => some (j, .src)
  | .proj cs f => (toOld f).map (fun je => (je.1, .proj cs je.2))
  | .col f n => (toOld f).map (fun je => (je.1, .col je.2 n))
  | .filter f p => (toOld f).bind (fun jf => (toOld p).bind (fun jp =>
      if jf.1 = jp.1 then some (jf.1, .filter jf.2 jp.2) else none))
  | .assign f n v => (toOld f).bind (fun jf =>
      match isLit v with
      | some k => some (jf.1, .assign jf.2 n (.lit k))
      | none => (toOld v).bind (fun jv => if jf.1 = jv.1 then some (jf.1, .assign jf.2 n jv.2) else none))
  | .bin op a b =>
    match isLit b with
    | some k => (toOld a).map (fun ja => (ja.1, .bin op ja.2 (.lit k)))
    | none =>
      match isLit a with
      | some k => (toOld b).map (fun jb => (jb.1, .bin op (.lit k) jb.2))
      | none => (toOld a).bind (fun ja => (toOld b).bind (fun jb =>
          if ja.1 = jb.1 then some (ja.1, .bin op ja.2 jb.2) else none))
  | .not a => (toOld a).map (fun ja => (ja.1, .not ja.2))
  | _ => none

/-- both sides are expressions of the old single-source fragment over the SAME source and the old proved checker accepts -/
def oldOK (sc : List (List String)) (a b : E2) : Bool :=
  match toOld a, toOld b with
  | some (j, a0), some (j', b0) =>
    j == j' && (match sc[j]? with
                | some cols => Dask.RelExpr.checkStep cols a0 b0
                | none => false)
  | _, _ => false

/-! ## the step checker -/

/-- the two term-growing `Len` candidates are only tried when `b` has that shape (keeps the search finite) -/
def keepCand (b a' : E2) : Bool :=
  match a' with
  | .bin .add (.lit 0) _ =>
    (match b with
     | .bin .add (.lit 0) _ => true
     | _ => false)
  | .len (.index _) =>
    (match b with
     | .len (.index _) => true
     | .len (.filter _ _) => true
     | _ => false)
  | _ => true

/-- every schema instance at the root of `a`, directed by `b` (the side projections are read off `b`'s schema) -/
def cands (sc : List (List String)) (sl : List Nat) (a b : E2) : List E2 :=
  let sideCols : List (List String) :=
    match (match asPar b with
           | some (_, x) => x
           | none => b) with
    | .concat l r => (schema2 sc l).toList ++ (schema2 sc r).toList
    | .merge _ _ l r => (schema2 sc l).toList ++ (schema2 sc r).toList
    | _ => []
  (sideCols.filterMap (fun p => rConcatL sc p a)) ++ (sideCols.filterMap (fun p => rConcatR sc p a)) ++
  (sideCols.filterMap (fun p => rMergeL sc p a)) ++ (sideCols.filterMap (fun p => rMergeR sc p a)) ++
  (rConcatDrop sc a).toList ++ (rMergeDrop sc a).toList ++ (lenCands sl a).filter (keepCand b)

/-- same constructor, same parameters, children related by `chk` -/
def congr (chk : E2 → E2 → Bool) : E2 → E2 → Bool
  | .proj cs f, .proj cs' f' => cs == cs' && chk f f'
  | .col f n, .col f' n' => n == n' && chk f f'
  | .filter f p, .filter f' p' => chk f f' && chk p p'
  | .assign f n v, .assign f' n' v' => n == n' && chk f f' && chk v v'
  | .bin op x y, .bin op' x' y' => op == op' && chk x x' && chk y y'
  | .not x, .not x' => chk x x'
  | .merge h on l r, .merge h' on' l' r' => h == h' && on == on' && chk l l' && chk r r'
  | .concat x y, .concat x' y' => chk x x' && chk y y'
  | .index f, .index f' => chk f f'
  | .len f, .len f' => chk f f'
  | _, _ => false

/-- `leaf` = an additional sound oracle for sub-steps (instantiated with `oldOK sc`, the old single-source checker) -/
def check2 (leaf : E2 → E2 → Bool) (sc : List (List String)) (sl : List Nat) : Nat → E2 → E2 → Bool
  | 0, a, b => a == b
  | fuel + 1, a, b =>
    a == b || leaf a b || congr (check2 leaf sc sl fuel) a b || (cands sc sl a b).any (fun a' => check2 leaf sc sl fuel a' b)

def checkTrace2 (leaf : E2 → E2 → Bool) (sc : List (List String)) (sl : List Nat) (fuel : Nat) : List E2 → Bool
  | a :: b :: rest => check2 leaf sc sl fuel a b && checkTrace2 leaf sc sl fuel (b :: rest)
  | _ => true

end Dask.RelExpr2
