import DaskModel.Model.Align
import DaskModel.Model.Repart
/-
K9x (extension round): the ALIGNMENT step used by index joins, `concat(axis=1)` and aligned operators — which common
divisions are computed for several frames with known divisions, and what is done to every frame.

Python (dask/dataframe/dask_expr)                                   Lean
---------------------------------                                   ----
`list(unique(merge_sorted(*[df.divisions for df in dfs])))`          `Align.unionDivsAll` (`mergeSorted` folded over the frames, `uniq`;
 + `if len(divisions) == 1: divisions = (d, d)`                        a single value `d` becomes `(d, d)`) — `commonDivs`
`_expr.py::calc_divisions_for_align` (all divisions known)           `calcDivisionsForAlign` (the "all equal → the first frame's
                                                                       divisions" shortcut, otherwise the union; no frame = `none`:
                                                                       `dfs[0]` raises)
`_expr.py::MaybeAlignPartitions._divisions`                          `maybeAlignDivisions` (all frames single-partition → `(min, max)`
                                                                       over all divisions, otherwise `calc_divisions_for_align`)
`_expr.py::MaybeAlignPartitions._lower` (known divisions)            `maybeAlignLower` : `Plan` (`asIs` — one frame / all divisions equal;
 with `_single_partition_common_divisions`,                            `setDivisions d` — only single-partition frames, nothing is
 `maybe_align_partitions`                                              moved; `repartition d` — `Repartition(df, new_divisions=d,
                                                                       force=True)` for every frame)
`_concat.py::Concat._divisions` (axis=1, not co-aligned, known)      `concatAxis1Divisions` (single partitions → `(min, max)`, else union)
`_merge.py::Merge._lower` fully indexed merge                        `mergeIndexedDivisions` (always the union, both sides repartitioned)
`Repartition(df, new_divisions=d, force=True)` for every frame       `alignAll` (`Repart.repartitionDivisions … true`, C44's model)

Divisions are `Nat` (ints directly; strings through an order-preserving interning done by the harness: the code uses the
values only through `<`, `==`, `min`, `max`). Import-free of Mathlib.
-/
namespace Dask.AlignDivs
open Dask.Align

/-- `list(unique(merge_sorted(*divs)))`, a single value `d` becoming `(d, d)` -/
def commonDivs (ds : List (List Nat)) : List Nat := unionDivsAll ds

/-- `dfs[0].divisions == df.divisions for df in dfs` -/
def allEqual : List (List Nat) → Bool
  | [] => true
  | d0 :: rest => rest.all fun d => d == d0

/-- `calc_divisions_for_align` when every frame has known divisions; `none` = no frame (`dfs[0]`: IndexError) -/
def calcDivisionsForAlign (ds : List (List Nat)) : Option (List Nat) :=
  match ds with
  | [] => none
  | d0 :: _ => some (if allEqual ds then d0 else commonDivs ds)

/-- `{df.npartitions for df in dfs} == {1}` -/
def allSingle (ds : List (List Nat)) : Bool := !ds.isEmpty && ds.all fun d => d.length == 2

/-- `min(divs)` / `max(divs)` over the concatenated divisions (`none` = empty: ValueError) -/
def minOf : List Nat → Option Nat
  | [] => none
  | x :: xs => some (xs.foldl min x)

def maxOf : List Nat → Option Nat
  | [] => none
  | x :: xs => some (xs.foldl max x)

/-- `(min(divs), max(divs))` with `divs` = all divisions of all frames -/
def spanDivs (ds : List (List Nat)) : Option (List Nat) := do
  let lo ← minOf ds.flatten
  let hi ← maxOf ds.flatten
  pure [lo, hi]

/-- `MaybeAlignPartitions._divisions` (known divisions) -/
def maybeAlignDivisions (ds : List (List Nat)) : Option (List Nat) :=
  if allSingle ds then spanDivs ds else calcDivisionsForAlign ds

/-- what `MaybeAlignPartitions._lower` does to its frames -/
inductive Plan where
  | asIs                          -- `_expr_cls(*operands)`: one frame, or all divisions equal
  | setDivisions (d : List Nat)   -- `SetDivisions(op, d)`: single-partition frames, nothing is moved
  | repartition (d : List Nat)    -- `Repartition(df, new_divisions=d, force=True)` for every frame
  deriving Repr, DecidableEq

def maxLen (ds : List (List Nat)) : Nat := ds.foldl (fun m d => max m d.length) 0

/-- `MaybeAlignPartitions._lower` (every frame has known divisions) -/
def maybeAlignLower (ds : List (List Nat)) : Option Plan := do
  let d ← maybeAlignDivisions ds
  if ds.length == 1 || allEqual ds then pure .asIs
  else if d.length == 2 && maxLen ds == 2 then pure (.setDivisions d)
  else pure (.repartition d)

/-- `Concat._divisions` for `axis=1`, frames not co-aligned, all divisions known -/
def concatAxis1Divisions (ds : List (List Nat)) : Option (List Nat) :=
  if allSingle ds then spanDivs ds else if ds.isEmpty then none else some (commonDivs ds)

/-- `Merge._lower`, fully indexed merge: both sides are always repartitioned onto the union -/
def mergeIndexedDivisions (a b : List Nat) : List Nat := commonDivs [a, b]

/-- `maybe_align_partitions(*frames, divisions=d)`: every frame `(divisions, partitions)` goes through
    `Repartition(new_divisions=d, force=True)`; `none` = some repartition raised -/
def alignAll {α : Type} (key : α → Nat) (d : List Nat) (frames : List (List Nat × List (List α))) :
    Option (List (List (List α))) :=
  frames.mapM fun f => Repart.repartitionDivisions key f.2 f.1 d true

/-- the frames as the blockwise operation sees them, per plan -/
def applyPlan {α : Type} (key : α → Nat) (plan : Plan) (frames : List (List Nat × List (List α))) :
    Option (List (List (List α))) :=
  match plan with
  | .asIs => some (frames.map (·.2))
  | .setDivisions _ => some (frames.map (·.2))
  | .repartition d => alignAll key d frames

end Dask.AlignDivs
