import DaskModel.DriverLib
import DaskModel.Model.Order
/-! Driver handlers of the C06 model that were added in the review round (kept out of `Drivers/graph.lean` so that
    several people can extend the group's driver without editing the same file). Import-free of Mathlib. -/
namespace Dask.Order
open Dask Dask.GraphAlg

/-- `((k (d d ...)) ...)` -/
def ioGraph? (e : SExp) : Option Graph := do
  (← e.toList?).mapM fun
    | .list [k, ds] => do pure (← k.toNat?, ← ds.toNats?)
    | _ => none

def ofPairs (p : List (Key × Nat)) : SExp := .list (p.map fun (k, v) => .list [SExp.ofNat k, SExp.ofNat v])

/-- `(ndeps dependencies dependents)` ↦ `(ok num_dependencies total_dependencies)` (dicts in insertion order) |
    `(keyerror)` | `(fuel)` -/
def hNdeps : Handler := handler fun
  | [d, r] => do
    let deps ← ioGraph? d
    match ndependencies deps (← ioGraph? r) (ndFuel deps) with
    | none => pure (.list [.sym "fuel"])
    | some .keyError => pure (.list [.sym "keyerror"])
    | some (.ok nn total) => pure (.list [.sym "ok", ofPairs nn, ofPairs total.reverse])
  | _ => none

/-- `(order_prelude graph (task-keys...))` ↦ `(raises)` | `(keyerror)` | `(fuel)` |
    `(proceeds num_needed total_dependencies)`: `order` up to and including the cycle test -/
def hOrderPrelude : Handler := handler fun
  | [g, tasks] => do
    let g ← ioGraph? g
    let tasks ← tasks.toNats?
    let isTask := fun k => tasks.contains k
    match orderPrelude g isTask (ndFuel (aliveDeps g (strip g isTask))) with
    | none => pure (.list [.sym "fuel"])
    | some .keyError => pure (.list [.sym "keyerror"])
    | some .raisesCycle => pure (.list [.sym "raises"])
    | some (.proceeds nn total) => pure (.list [.sym "proceeds", ofPairs nn, ofPairs total.reverse])
  | _ => none

/-- `(frame_check graph (task-keys...) (external-keys...) (core order...))` ↦
    `(coreOKb (stripped...) ((k prio)...))`: the decidable `CoreOK` on the model's stripped list and the dict
    `framePrios expected_len stripped core` -/
def hFrameCheck : Handler := handler fun
  | [g, tasks, ext, core] => do
    let g ← ioGraph? g
    let tasks ← tasks.toNats?
    let ext ← ext.toNats?
    let core ← core.toNats?
    let st := strip g (fun k => tasks.contains k)
    pure (.list [SExp.ofBool (coreOKb g ext st.stripped core), SExp.ofNats st.stripped,
      ofPairs (framePrios g.length st.stripped core)])
  | _ => none

/-- `(strip_full graph (task-keys...))` ↦ `((stripped...) ((dependent root)...) (alive...))`: the whole state after the
    normalisation loop (`requires_data_task` as pairs) -/
def hStripFull : Handler := handler fun
  | [g, tasks] => do
    let g ← ioGraph? g
    let tasks ← tasks.toNats?
    let st := strip g (fun k => tasks.contains k)
    pure (.list [SExp.ofNats st.stripped, ofPairs st.dataRoots, SExp.ofNats st.alive])
  | _ => none

/-- extra handlers of the C06 model: `(op, handler)` pairs appended to the table of `dm_graph` -/
def ioHandlers : List (String × Handler) :=
  [("ndeps", hNdeps), ("order_prelude", hOrderPrelude), ("frame_check", hFrameCheck), ("strip_full", hStripFull)]

end Dask.Order
