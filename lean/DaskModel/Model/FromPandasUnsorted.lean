import DaskModel.Model.Repart
/-! `FromPandas._divisions_and_locations` (dask_expr/io/io.py), the branches WITHOUT `sorted_division_locations`:
    an empty frame, and `sort=False` on an index that is not monotonic increasing.  Mathlib-free.
    `math.ceil(nrows / npartitions)` is modelled by the exact integer ceiling (equal for `nrows < 2^53`). -/
namespace Dask.FPU
open Dask.Repart

/-- `int(math.ceil(n / p))` -/
def ceilDiv (n p : Nat) : Nat := (n + p - 1) / p

/-- the chunk length of the unsorted branch: `chunksize` operand, or `ceil(nrows / npartitions)` -/
def chunkOf (n : Nat) (npartitions chunksize : Option Nat) : Nat :=
  match npartitions with
  | some p => ceilDiv n p
  | none => chunksize.getD 0

/-- `list(range(0, n, c))` -/
def rangeStep (n c : Nat) : List Nat := (List.range (ceilDiv n c)).map (· * c)

/-- `npartitions or 1` -/
def npOr1 (npartitions : Option Nat) : Nat :=
  match npartitions with
  | some p => if p = 0 then 1 else p
  | none => 1

/-- `locations` of the two branches; `none` = raises (`ZeroDivisionError` / `range()` step 0) -/
def locations (n : Nat) (npartitions chunksize : Option Nat) : Option (List Nat) :=
  if n = 0 then some (List.replicate (npOr1 npartitions + 1) 0)
  else if chunkOf n npartitions chunksize = 0 then none
  else some (rangeStep n (chunkOf n npartitions chunksize) ++ [n])

/-- the partitions `data.iloc[locations[i]:locations[i+1]]` -/
def fromPandasUnsorted {α : Type} (rows : List α) (npartitions chunksize : Option Nat) : Option (List (List α)) :=
  (locations rows.length npartitions chunksize).map (cut rows)

end Dask.FPU
