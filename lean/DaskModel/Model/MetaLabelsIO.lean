/- Line-protocol handlers for the last extension round of C42 (`Model/MetaLabels.lean`). Import-free of Mathlib. -/
import DaskModel.DriverLib
import DaskModel.Model.MetaLabels
open Dask

namespace Dask.MetaLabelsIO
open Dask.RelExpr

def toCell? : SExp → Option Cell
  | .sym "none" => some none
  | .int i => some (some i)
  | _ => none

def toStrs? (e : SExp) : Option (List String) := do
  (← e.toList?).mapM (fun x => match x with | .str s => some s | _ => none)

def toBinOp? : String → Option BinOp
  | "add" => some .add | "sub" => some .sub | "mul" => some .mul | "lt" => some .lt | "le" => some .le
  | "gt" => some .gt | "ge" => some .ge | "eq" => some .eq | "ne" => some .ne | "and" => some .and | "or" => some .or
  | _ => none

partial def toE? : SExp → Option E
  | .sym "src" => some .src
  | .list [.sym "proj", cols, f] => do pure (.proj (← toStrs? cols) (← toE? f))
  | .list [.sym "filter", f, p] => do pure (.filter (← toE? f) (← toE? p))
  | .list [.sym "assign", f, .str n, v] => do pure (.assign (← toE? f) n (← toE? v))
  | .list [.sym "col", f, .str n] => do pure (.col (← toE? f) n)
  | .list [.sym "lit", .int k] => some (.lit k)
  | .list [.sym "bin", .sym op, a, b] => do pure (.bin (← toBinOp? op) (← toE? a) (← toE? b))
  | .list [.sym "not", a] => do pure (.not (← toE? a))
  | _ => none

/-- a name: a quoted string, or the symbol `none` -/
def toName? : SExp → Option (Option String)
  | .sym "none" => some none
  | .str s => some (some s)
  | _ => none
def ofName : Option String → SExp
  | none => .sym "none"
  | some s => .str s

def ofLabels : Option LSchema → SExp
  | none => .sym "none"
  | some (.frame cols ix) => .list [.sym "frame", .list (cols.map .str), ofName ix.name, .str ix.dt]
  | some (.series nm ix) => .list [.sym "series", ofName nm, ofName ix.name, .str ix.dt]
  | some .scalar => .list [.sym "scalar"]

/-- `(labelsof (cols…) ixname "ixdtype" e)` ↦ `(frame (cols…) ixname ixdtype)` | `(series name ixname ixdtype)` |
    `(scalar)` | `none` — the lazy side `metaL` -/
def hLabelsOf : Handler := handler fun args =>
  match args with
  | [cols, nm, .str dt, e] => do
    pure (ofLabels (metaL (← toStrs? cols) ⟨← toName? nm, dt⟩ (← toE? e)))
  | _ => none

/-- `(labelsval (cols…) (rows…) ixname "ixdtype" e)` ↦ `(<labels> nrows)` | `none` — labels and row count of the object
    computed by `denL` on the given rows (a partition or the whole frame) -/
def hLabelsVal : Handler := handler fun args =>
  match args with
  | [cols, rows, nm, .str dt, e] => do
    let rows ← (← rows.toList?).mapM (fun r => do (← r.toList?).mapM toCell?)
    match denL ⟨← toStrs? cols, rows⟩ ⟨← toName? nm, dt⟩ (← toE? e) with
    | none => pure (.sym "none")
    | some v =>
      let n : Nat := match v with
        | .frame _ rs _ => rs.length
        | .series rs _ _ => rs.length
        | .scalar _ => 1
      pure (.list [ofLabels (some v.labels), .int n])
  | _ => none

/-- `(matchname a b)` ↦ `_maybe_match_name` -/
def hMatchName : Handler := handler fun args =>
  match args with
  | [a, b] => do pure (ofName (matchName (← toName? a) (← toName? b)))
  | _ => none

def handlers : List (String × Handler) :=
  [("labelsof", hLabelsOf), ("labelsval", hLabelsVal), ("matchname", hMatchName)]

end Dask.MetaLabelsIO
