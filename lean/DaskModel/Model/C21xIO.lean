import DaskModel.DriverLib
import DaskModel.Model.SetItemMask
import DaskModel.Lemmas.SetItemNDValue   -- Mathlib-free (checked): holds the executable `vixEval`, `axisBlockPairsV`, `axisSelectedV` next to their lemmas
/-
Line-protocol handlers of the C21 extension round (the `where` path of `Array.__setitem__`); appended to the table of
`Drivers/slicing.lean`.
-/
namespace Dask.C21xIO
open Dask Dask.SetItemMask Dask.Slice1D Dask.SetItem Dask.SetItemND

def toBoolSym? (e : SExp) : Option Bool := e.toBool?

/-- `(maskdispatch selfNdim isDask isBool keyNdim)` ↦ `where` | `setitem_array` -/
def hDispatch : Handler := handler fun args =>
  match args with
  | [n, d, b, k] => do
    match SetItemMask.dispatch (← n.toNat?) ⟨← toBoolSym? d, ← toBoolSym? b, ← k.toNat?⟩ with
    | .wherePath => pure (.sym "where")
    | .setitemArray => pure (.sym "setitem_array")
  | _ => none

/-- `(whereplan ((xchunks…)…) ((mchunks…)…) (vshape…))` ↦ `(IndexError)` | `(ValueError)` | `(unify-error)` |
    `(ok unified ((out (mask value x)) …) maskRechunked xRechunked rechunkBack chunks)` -/
def hWherePlan : Handler := handler fun args =>
  match args with
  | [xc, mc, vs] => do
    match wherePlan (← xc.toNatss?) (← mc.toNatss?) (← vs.toNats?) with
    | .indexError => pure (.list [.sym "IndexError"])
    | .valueError => pure (.list [.sym "ValueError"])
    | .unifyError => pure (.list [.sym "unify-error"])
    | .ok p =>
      pure (.list [.sym "ok", SExp.ofNatss p.unified,
        .list (p.tasks.map fun t => .list [SExp.ofNats t.1, SExp.ofNatss t.2]),
        SExp.ofBool p.maskRechunked, SExp.ofBool p.xRechunked, SExp.ofBool p.rechunkBack, SExp.ofNatss p.chunks])
  | _ => none

/-- `(whereblock (shape…) ((chunks…)…) (mask…) v (x…) (b…))` ↦ `(values…)` | `none`: `np.where` on block `b` -/
def hWhereBlock : Handler := handler fun args =>
  match args with
  | [shape, cs, mask, v, x, b] => do
    let mask ← (← mask.toList?).mapM toBoolSym?
    match whereBlock (← shape.toNats?) (← cs.toNatss?) mask (← v.toInt?) (← x.toInts?) (← b.toNats?) with
    | some r => pure (SExp.ofInts r)
    | none => pure (.sym "none")
  | _ => none

/-- `(npmask (mask…) (x…) (vals…))` ↦ `(values…)` | `none`: NumPy's `x[mask] = vals` on C-order flat data -/
def hNpMask : Handler := handler fun args =>
  match args with
  | [mask, x, vals] => do
    let mask ← (← mask.toList?).mapM toBoolSym?
    match npMaskAssign mask (← x.toInts?) (← vals.toInts?) with
    | some r => pure (SExp.ofInts r)
    | none => pure (.sym "none")
  | _ => none

def toSlice? (e : SExp) : Option PSlice :=
  match e with
  | .list [a, b, c] => do pure ⟨← a.toOptInt?, ← b.toOptInt?, ← c.toOptInt?⟩
  | _ => none

def toVIx? (e : SExp) : Option VIx :=
  match e with
  | .list [.sym "sl", s] => do pure (VIx.sl (← toSlice? s))
  | .list [.sym "arr", l] => do pure (VIx.arr (← l.toNats?))
  | .list [.sym "ellipsis"] => some VIx.ellipsis
  | _ => none

def toAIdx? (e : SExp) : Option AIdx :=
  match e with
  | .list [.sym "sl", a, b, c] => do pure (AIdx.sl (← a.toInt?) (← b.toInt?) (← c.toInt?))
  | .list [.sym "int", i] => do pure (AIdx.int (← i.toInt?))
  | .list [.sym "arr", l] => do pure (AIdx.arr (← l.toInts?))
  | _ => none

def toVAx? (e : SExp) : Option VAx :=
  match e with
  | .sym "none" => some none
  | .list [n, r] => do pure (some (← n.toNat?, ← r.toBool?))
  | _ => none

def ofPairs (l : List (Int × Option Int)) : SExp :=
  .list (l.map fun p => .list [.int p.1, match p.2 with | some v => .int v | none => .sym "none"])

/-- `(vixeval size vix)` ↦ `(positions…)` | `none`: the positions of a value axis a value index reads -/
def hVixEval : Handler := handler fun args =>
  match args with
  | [n, v] => do
    match vixEval (← n.toNat?) (← toVIx? v) with
    | some r => pure (SExp.ofInts r)
    | none => pure (.sym "none")
  | _ => none

/-- `(axispairs (lengths…) idx vax)` ↦ `((pairs of block 0) (pairs of block 1) … ) (NumPy's pairs)`: what every block of
    one axis assigns (`axisBlockPairsV`, from the value indices the code builds) and NumPy's pairs (`axisSelectedV`) -/
def hAxisPairs : Handler := handler fun args =>
  match args with
  | [c, idx, va] => do
    let c ← c.toNats?
    let idx ← toAIdx? idx
    let va ← toVAx? va
    pure (.list [.list ((locations c).map fun loc => ofPairs (axisBlockPairsV idx va loc)), ofPairs (axisSelectedV idx va)])
  | _ => none

def handlers : List (String × Handler) :=
  [("vixeval", hVixEval), ("axispairs", hAxisPairs), ("maskdispatch", hDispatch), ("whereplan", hWherePlan), ("whereblock", hWhereBlock), ("npmask", hNpMask)]

end Dask.C21xIO
