import DaskModel.DriverLib
import DaskModel.Model.SetItemMask
/-
Line-protocol handlers of the C21 extension round (the `where` path of `Array.__setitem__`); appended to the table of
`Drivers/slicing.lean`.
-/
namespace Dask.C21xIO
open Dask Dask.SetItemMask

def toBoolSym? (e : SExp) : Option Bool := e.toBool?

/-- `(maskdispatch selfNdim isDask isBool keyNdim)` ↦ `where` | `setitem_array` -/
def hDispatch : Handler := handler fun args =>
  match args with
  | [n, d, b, k] => do
    match SetItemMask.dispatch (← n.toNat?) ⟨← toBoolSym? d, ← toBoolSym? b, ← k.toNat?⟩ with
    | .wherePath => pure (.sym "where")
    | .setitemArray => pure (.sym "setitem_array")
  | _ => none

/-- `(whereplan ((xchunks…)…) ((mchunks…)…) (vshape…))` ↦ `(IndexError)` | `(ValueError)` | `(unify-error)` |
    `(ok unified ((out (mask value x)) …) maskRechunked xRechunked rechunkBack chunks)` -/
def hWherePlan : Handler := handler fun args =>
  match args with
  | [xc, mc, vs] => do
    match wherePlan (← xc.toNatss?) (← mc.toNatss?) (← vs.toNats?) with
    | .indexError => pure (.list [.sym "IndexError"])
    | .valueError => pure (.list [.sym "ValueError"])
    | .unifyError => pure (.list [.sym "unify-error"])
    | .ok p =>
      pure (.list [.sym "ok", SExp.ofNatss p.unified,
        .list (p.tasks.map fun t => .list [SExp.ofNats t.1, SExp.ofNatss t.2]),
        SExp.ofBool p.maskRechunked, SExp.ofBool p.xRechunked, SExp.ofBool p.rechunkBack, SExp.ofNatss p.chunks])
  | _ => none

/-- `(whereblock (shape…) ((chunks…)…) (mask…) v (x…) (b…))` ↦ `(values…)` | `none`: `np.where` on block `b` -/
def hWhereBlock : Handler := handler fun args =>
  match args with
  | [shape, cs, mask, v, x, b] => do
    let mask ← (← mask.toList?).mapM toBoolSym?
    match whereBlock (← shape.toNats?) (← cs.toNatss?) mask (← v.toInt?) (← x.toInts?) (← b.toNats?) with
    | some r => pure (SExp.ofInts r)
    | none => pure (.sym "none")
  | _ => none

/-- `(npmask (mask…) (x…) (vals…))` ↦ `(values…)` | `none`: NumPy's `x[mask] = vals` on C-order flat data -/
def hNpMask : Handler := handler fun args =>
  match args with
  | [mask, x, vals] => do
    let mask ← (← mask.toList?).mapM toBoolSym?
    match npMaskAssign mask (← x.toInts?) (← vals.toInts?) with
    | some r => pure (SExp.ofInts r)
    | none => pure (.sym "none")
  | _ => none

def handlers : List (String × Handler) :=
  [("maskdispatch", hDispatch), ("whereplan", hWherePlan), ("whereblock", hWhereBlock), ("npmask", hNpMask)]

end Dask.C21xIO
