import DaskModel.Model.Counting
/-
`histogramdd` / `histogram2d` with fixed bin edges (C27, dask/array/routines.py).

Python                                                              Lean
------                                                              ----
np.histogramdd(block, bins=edges) per row-block of the sample        `histddBlock` (every cell of the D-dim grid in
                                                                     C order; bin `[e_i, e_{i+1})`, last bin closed)
stacked (n_chunks, *nbins) array, `mapped.sum(axis=0)`               `sumVecs` / `histddMerge`
sequence-of-arrays sample: "All coordinate arrays must be chunked
identically" (ValueError), block i of every coordinate fused         `histogram2d` (`zipRows` per block)
weights of the 1-d histogram, exact (`Int`)                           `histBlockW`, `histMergeW`
Values are `Nat` (order-preservingly interned by the harness). Float weights / density are validated against NumPy.
Import-free (linked into the native driver).
-/
namespace Dask.Counting
open Dask.Chunks

/-- all cells `(i_1, …, i_D)` of a grid with `n_k` bins along dimension `k`, in C order -/
def cells : List Nat → List (List Nat)
  | [] => [[]]
  | n :: ns => (List.range n).flatMap (fun i => (cells ns).map (i :: ·))

/-- the row lies in the cell: every coordinate in its bin (`inBin`: half-open, the last bin closed on the right).
    A row / cell whose length is not the number of dimensions lies nowhere. -/
def inCell : List (List Nat) → List Nat → List Nat → Bool
  | [], [], [] => true
  | e :: es, i :: is, x :: xs => inBin e i x && inCell es is xs
  | _, _, _ => false

def nbinsOf (edges : List (List Nat)) : List Nat := edges.map (fun e => e.length - 1)

/-- `np.histogramdd(rows, bins=edges)[0]`, flattened in C order -/
def histddBlock (edges : List (List Nat)) (rows : List (List Nat)) : List Nat :=
  (cells (nbinsOf edges)).map (fun c => rows.countP (inCell edges c))

def addVec (a b : List Nat) : List Nat := List.zipWith (· + ·) a b

/-- `stacked.sum(axis=0)` over the per-chunk count arrays -/
def sumVecs (zero : List Nat) (vs : List (List Nat)) : List Nat := vs.foldr addVec zero

/-- `da.histogramdd(sample, bins=edges)` for a sample chunked along the rows -/
def histddMerge (edges : List (List Nat)) (blocks : List (List (List Nat))) : List Nat :=
  sumVecs ((cells (nbinsOf edges)).map (fun _ => 0)) (blocks.map (histddBlock edges))

/-! ### weighted 1-d histogram (exact weights) -/

/-- the total weight of the elements satisfying `p` -/
def wsumP (p : Nat → Bool) (xs : List Nat) (ws : List Int) : Int :=
  isum ((xs.zip ws).filterMap (fun q => if p q.1 then some q.2 else none))

/-- `np.histogram(xs, bins=edges, weights=ws)[0]` -/
def histBlockW (edges : List Nat) (xs : List Nat) (ws : List Int) : List Int :=
  (List.range (edges.length - 1)).map (fun i => wsumP (inBin edges i) xs ws)

def addVecI (a b : List Int) : List Int := List.zipWith (· + ·) a b

/-- `da.histogram(x, bins=edges, weights=w)`: `_block_hist` per chunk (weights chunked like `x`), summed over the chunks -/
def histMergeW (edges : List Nat) (blocks : List (List Nat × List Int)) : List Int :=
  (blocks.map (fun b => histBlockW edges b.1 b.2)).foldr addVecI ((List.range (edges.length - 1)).map (fun _ => 0))

/-- the rows `(x_k, y_k)` of one block of the two coordinate arrays -/
def zipRows (x y : List Nat) : List (List Nat) := List.zipWith (fun a b => [a, b]) x y

/-- `da.histogram2d(x, y, bins=[ex, ey])`: `none` = ValueError (coordinate arrays chunked differently) -/
def histogram2d (ex ey : List Nat) (xb yb : List (List Nat)) : Option (List Nat) :=
  if xb.map List.length = yb.map List.length then some (histddMerge [ex, ey] (List.zipWith zipRows xb yb)) else none

end Dask.Counting
