import DaskModel.Model.SpecOpt
/-
K7 (part 6): `execute_graph` as it runs — a cache that is filled in the order given by `dask.order.order`, reference
counts, and the deletion of values nobody needs any more.

Python                                                       Lean
------                                                       ----
refcount = defaultdict(int); for vals in deps.values(): …    `initRefcount g` (`dependencies` are sets: each dependency once)
for key, node in sorted(dsk.items(), key=priorities):        `execOrdered g order …` (the order is a parameter: C06 shows that
                                                             `order()` returns a total order with dependencies first)
cache[key] = node(cache)                                     `evalNode (cache lookup) node`; a missing dependency = `none`
refcount[dep] -= 1; if refcount[dep] == 0 and keys and       `releaseDeps`
  dep not in keys: del cache[dep]
Import-free (linked into the native driver).
-/
namespace Dask.TaskTerm

abbrev Cache := List (Obj × Obj)
abbrev Refcount := List (Obj × Int)

/-- the initial cache as an environment -/
def cacheEnv (c : Cache) : Obj → Option Obj := fun k => c.lookup k

def rcGet (rc : Refcount) (k : Obj) : Int := (rc.lookup k).getD 0

/-- `refcount[val] += 1` for every dependency of every node -/
def initRefcount (g : NGraph) : Refcount :=
  (g.flatMap fun kn => dedupKeys kn.2.deps).foldl (fun rc d => setKey rc d (rcGet rc d + 1)) []

structure ExecSt where
  cache : Cache
  refcount : Refcount
  deriving Repr

/-- `keys` is truthy and `dep not in keys` -/
def deletable (keys : Option (List Obj)) (d : Obj) : Bool :=
  match keys with
  | none => false
  | some ks => !ks.isEmpty && !ks.contains d

/-- the loop `for dep in node.dependencies:`; `none` = KeyError of `del cache[dep]` -/
def releaseDeps (keys : Option (List Obj)) : List Obj → ExecSt → Option ExecSt
  | [], st => some st
  | d :: ds, st =>
    let c := rcGet st.refcount d - 1
    let rc := setKey st.refcount d c
    if c == 0 && deletable keys d then
      if (st.cache.lookup d).isSome then releaseDeps keys ds { cache := dropKey st.cache d, refcount := rc }
      else none
    else releaseDeps keys ds { st with refcount := rc }

/-- one iteration of the main loop; `none` = the node raised (missing dependency, failing call) -/
def execStep (g : NGraph) (keys : Option (List Obj)) (st : ExecSt) (k : Obj) : Option ExecSt :=
  match g.lookup k with
  | none => none
  | some n =>
    match evalNode (fun d => st.cache.lookup d) n with
    | none => none
    | some v => releaseDeps keys (dedupKeys n.deps) { st with cache := setKey st.cache k v }

def execLoop (g : NGraph) (keys : Option (List Obj)) : List Obj → ExecSt → Option ExecSt
  | [], st => some st
  | k :: ks, st =>
    match execStep g keys st k with
    | none => none
    | some st' => execLoop g keys ks st'

/-- `execute_graph(dsk, cache, keys)` with the nodes taken in the order `order` (a list of the graph's keys) -/
def execOrdered (g : NGraph) (order : List Obj) (cache0 : Cache) (keys : Option (List Obj)) : Option Cache :=
  (execLoop g keys order { cache := cache0, refcount := initRefcount g }).map (·.cache)

end Dask.TaskTerm
